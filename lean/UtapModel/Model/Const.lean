/-
Model of the constness machinery of libutap (property C12), core Lean only.

  * `Ty` / `Children` mirror `type_t::type_data { kind; children[{label, child}] }` (src/type.cpp).
  * `Ty.is`, `Ty.isConstant`, `Ty.isMutable`, `Ty.getSub`, `Ty.getSubField`, `Ty.strip`, `Ty.createPrefix` mirror the member
    functions of the same name; every kind list and every branch shape they use comes from `Gen/ConstGen.lean`, which
    `translate/constness.py` regenerates from the current source on every run.
  * `Ex` is the part of `expression_t` that the lvalue predicates look at; `isModLv`, `isLv`, `isUniq` mirror
    `TypeChecker::isModifiableLValue`, `isLValue`, `isUniqueReference` (src/typechecker.cpp) through the generated
    per-kind clause tables.
  * `writeRefused`, `argRefused`, `instArgRefused`, `binderType` mirror the places that consult those predicates:
    the ASSIGN / ASS_* / ++ / -- clauses of `checkExpression`, `isParameterCompatible`, `visitInstance`, and the three
    builder callbacks that declare binders.
-/
import UtapModel.Gen.Kinds
import UtapModel.Gen.ConstGen

namespace UtapModel.Const
open UtapModel UtapModel.ConstGen

mutual
  /-- `type_t`: a kind and labelled children -/
  inductive Ty where
    | mk (k : Kind) (cs : Children)
  inductive Children where
    | nil
    | cons (label : String) (t : Ty) (rest : Children)
end

/-- what `type_t()` / an out-of-range child stands for (kind UNKNOWN, no children) -/
def Ty.unknown : Ty := .mk .kUNKNOWN .nil

def Ty.kind : Ty → Kind
  | .mk k _ => k

def Ty.children : Ty → Children
  | .mk _ cs => cs

def Children.size : Children → Nat
  | .nil => 0
  | .cons _ _ r => r.size + 1

/-- `get(i)` -/
def Children.get : Children → Nat → Ty
  | .nil, _ => Ty.unknown
  | .cons _ t _, 0 => t
  | .cons _ _ r, i + 1 => r.get i

def Children.get0 (cs : Children) : Ty := cs.get 0

def Ty.prim (k : Kind) : Ty := .mk k .nil

/-- `create_prefix(kind)` -/
def Ty.createPrefix (t : Ty) (k : Kind) : Ty := .mk k (.cons "" t .nil)

/-- `create_label(name)` -/
def Ty.createLabel (t : Ty) (name : String) : Ty := .mk .kLABEL (.cons name t .nil)

mutual
  /-- `type_t::is(kind)` -/
  def Ty.is : Ty → Kind → Bool
    | .mk k cs, kind =>
      if isExactKind k then k == kind
      else k == kind || (isLookThrough k && cs.is0 kind)
  def Children.is0 : Children → Kind → Bool
    | .nil, _ => false
    | .cons _ t _, kind => t.is kind
end

mutual
  /-- `type_t::is_mutable()` -/
  def Ty.isMutable : Ty → Bool
    | .mk k cs =>
      match mutClause k with
      | .retFalse => false
      | .retTrue => true
      | .allChildren => cs.allMutable
      | .child0 d => cs.mutable0 d
  def Children.allMutable : Children → Bool
    | .nil => true
    | .cons _ t r => t.isMutable && r.allMutable
  def Children.mutable0 : Children → Bool → Bool
    | .nil, d => d
    | .cons _ t _, _ => t.isMutable
end

mutual
  /-- `type_t::is_constant()` -/
  def Ty.isConstant : Ty → Bool
    | .mk k cs =>
      match constClause k with
      | .retFalse => false
      | .retTrue => true
      | .allChildren => cs.allConstant
      | .child0 d => cs.constant0 d
  def Children.allConstant : Children → Bool
    | .nil => true
    | .cons _ t r => t.isConstant && r.allConstant
  def Children.constant0 : Children → Bool → Bool
    | .nil, d => d
    | .cons _ t _, _ => t.isConstant
end

mutual
  /-- `type_t::get_sub()`: the element type of an array type, prefixes re-applied -/
  def Ty.getSub : Ty → Ty
    | .mk k cs =>
      match getSubClause k with
      | .skip => cs.sub0
      | .rewrap => (cs.sub0).createPrefix k
      | .direct => cs.get0
  def Children.sub0 : Children → Ty
    | .nil => Ty.unknown
    | .cons _ t _ => t.getSub
end

mutual
  /-- `type_t::get_sub(i)`: the type of field `i` of a record type, prefixes re-applied -/
  def Ty.getSubField : Ty → Nat → Ty
    | .mk k cs, i =>
      match getSubFieldClause k with
      | .skip => cs.subField0 i
      | .rewrap => (cs.subField0 i).createPrefix k
      | .direct => cs.get i
  def Children.subField0 : Children → Nat → Ty
    | .nil, _ => Ty.unknown
    | .cons _ t _, i => t.getSubField i
end

mutual
  /-- `type_t::strip()` -/
  def Ty.strip : Ty → Ty
    | .mk k cs => if stripKind k then cs.strip0 else .mk k cs
  def Children.strip0 : Children → Ty
    | .nil => Ty.unknown
    | .cons _ t _ => t.strip
end

def Ty.isProcess (t : Ty) : Bool := t.is .kPROCESS
def Ty.isRecord (t : Ty) : Bool := t.is .kRECORD
def Ty.isArray (t : Ty) : Bool := t.is .kARRAY

/-! ### expressions, as far as the lvalue predicates look at them -/

inductive Ex where
  | ident (name : String) (ty : Ty)            -- IDENTIFIER: the type of the expression is the declared type of the symbol
  | dot (e : Ex) (i : Nat)                     -- DOT, field index i
  | index (e : Ex) (ctc : Bool)                -- ARRAY; the index expression is abstracted to `isCompileTimeComputable(expr[1])`
  | unary (k : Kind) (e : Ex)                  -- ++ / -- (pre and post)
  | binary (k : Kind) (a b : Ex)               -- the assignment family and COMMA
  | iif (eq : Bool) (ty : Ty) (c a b : Ex)     -- INLINE_IF; `eq` = areEquivalent(type of a, type of b); `ty` = its result type
  | opaque (k : Kind) (ty : Ty)                -- anything else (constants, calls, arithmetic ...): no lvalue structure below

def Ex.kind : Ex → Kind
  | .ident _ _ => .kIDENTIFIER
  | .dot _ _ => .kDOT
  | .index _ _ => .kARRAY
  | .unary k _ => k
  | .binary k _ _ => k
  | .iif _ _ _ _ _ => .kINLINE_IF
  | .opaque k _ => k

/-- static type of an expression (what `expression_t::get_type()` holds after `checkExpression`) -/
def typeOf : Ex → Ty
  | .ident _ ty => ty
  | .dot e i => (typeOf e).getSubField i
  | .index e _ => (typeOf e).getSub
  | .unary _ _ => Ty.prim .kINT
  | .binary k a b => if k == .kCOMMA then typeOf b else typeOf a
  | .iif _ ty _ _ _ => ty
  | .opaque _ ty => ty

/-- one `case` group of the three lvalue predicates, applied to the already computed facts about the node -/
def applyClause (c : LvClause) (tyMutable sub0Process r0 r1 r2 ctc1 eq : Bool) : Bool :=
  match c with
  | .typeMutable => tyMutable
  | .sub0NotProcess => if sub0Process then false else r0
  | .sub0 => r0
  | .sub1 => r1
  | .sub0AndCtc1 => r0 && ctc1
  | .iif => r1 && r2 && eq
  | .always => true
  | .never => false

/-- generic form of `switch (expr.get_kind())` over a clause table -/
def lvPred (table : Kind → LvClause) : Ex → Bool
  | .ident _ ty => applyClause (table .kIDENTIFIER) ty.isMutable false false false false false false
  | .dot e i =>
    applyClause (table .kDOT) ((typeOf (.dot e i)).isMutable) (typeOf e).isProcess (lvPred table e) false false false false
  | .index e ctc =>
    applyClause (table .kARRAY) ((typeOf (.index e ctc)).isMutable) (typeOf e).isProcess (lvPred table e) false false ctc false
  | .unary k e => applyClause (table k) (Ty.prim .kINT).isMutable (typeOf e).isProcess (lvPred table e) false false false false
  | .binary k a b =>
    applyClause (table k) ((typeOf (.binary k a b)).isMutable) (typeOf a).isProcess (lvPred table a) (lvPred table b) false
      false false
  | .iif eq ty c a b =>
    applyClause (table .kINLINE_IF) ty.isMutable (typeOf c).isProcess (lvPred table c) (lvPred table a) (lvPred table b)
      false eq
  | .opaque k ty => applyClause (table k) ty.isMutable false false false false false false

/-- `TypeChecker::isModifiableLValue` -/
def isModLv : Ex → Bool := lvPred modLvClause
/-- `TypeChecker::isLValue` -/
def isLv : Ex → Bool := lvPred lvClause
/-- `TypeChecker::isUniqueReference` -/
def isUniq : Ex → Bool := lvPred uniqClause

/-! ### the places that consult the predicates -/

/-- ASSIGN / ASS_* / ++ / -- clause of `checkExpression`: the write `k` with target `lhs` is refused by the lvalue rule -/
def writeRefused (k : Kind) (lhs : Ex) : Bool := writeGuard k && !isModLv lhs

/-- `isParameterCompatible(param, arg)` refuses before comparing types -/
def argRefused (param : Ty) (arg : Ex) : Bool := paramRefuses (param.is .kREF) param.isConstant (isModLv arg)

/-- `visitInstance`: a template argument is refused (either by the instance rule itself or by the parameter rule it calls) -/
def instArgRefused (param : Ty) (arg : Ex) (computable : Bool) : Bool :=
  instRefuses (param.is .kREF) param.isConstant computable (isUniq arg) || (instThenChecksParam && argRefused param arg)

/-- the type a binder is declared with (expr_forall_begin / iteration_begin / addSelectSymbolToFrame) -/
def binderType (site : BinderSite) (declared : Ty) : Ty :=
  if binderForcedConst site then (if declared.is .kCONSTANT then declared else declared.createPrefix .kCONSTANT)
  else declared

/-- the kinds that write to their first operand (the specification side: independent of the checker's tables) -/
def writeKinds : List Kind :=
  [.kASSIGN, .kASS_PLUS, .kASS_MINUS, .kASS_DIV, .kASS_MOD, .kASS_MULT, .kASS_AND, .kASS_OR, .kASS_XOR, .kASS_LSHIFT,
   .kASS_RSHIFT, .kPRE_INCREMENT, .kPOST_INCREMENT, .kPRE_DECREMENT, .kPOST_DECREMENT]

def isWriteKind (k : Kind) : Bool := writeKinds.contains k

/-- every write site inside an expression passes the lvalue rule (what an accepted expression satisfies) -/
def sitesOk : Ex → Bool
  | .ident _ _ => true
  | .dot e _ => sitesOk e
  | .index e _ => sitesOk e
  | .unary k e => sitesOk e && !(isWriteKind k && writeRefused k e)
  | .binary k a b => sitesOk a && sitesOk b && !(isWriteKind k && writeRefused k a)
  | .iif _ _ c a b => sitesOk c && sitesOk a && sitesOk b
  | .opaque _ _ => true

/-! ### specification side: what "const" and "mutable" mean, stated without the checker's predicates

These definitions use only hand-written kind lists (never the generated tables), so that a change of the tables cannot
change the specification together with the implementation. -/

/-- kinds that wrap a type without changing which object it describes (qualifiers, reference, typedef label, range),
    and ARRAY whose child 0 is the type of every element -/
def wrapperKinds : List Kind :=
  [.kCONSTANT, .kSYSTEM_META, .kURGENT, .kBROADCAST, .kCOMMITTED, .kHYBRID, .kREF, .kLABEL, .kRANGE, .kARRAY]

/-- kinds whose objects can never be assigned to -/
def nonMutableKinds : List Kind :=
  [.kCONSTANT, .kFUNCTION, .kFUNCTION_EXTERNAL, .kPROCESS, .kINSTANCE, .kLSC_INSTANCE]

mutual
  /-- the type is declared const: a CONSTANT node is met when descending from the root through wrappers only
      (`const T`, `const T[n]`, a typedef of those, a reference to those, arrays of those at any depth) -/
  def Ty.constDeclared : Ty → Bool
    | .mk k cs => k == .kCONSTANT || (wrapperKinds.contains k && cs.constDeclared0)
  def Children.constDeclared0 : Children → Bool
    | .nil => false
    | .cons _ t _ => t.constDeclared
end

mutual
  /-- no node of the type (at any depth, through every child) has one of the kinds `bad` -/
  def Ty.noneOf (bad : List Kind) : Ty → Bool
    | .mk k cs => !bad.contains k && cs.noneOf bad
  def Children.noneOf (bad : List Kind) : Children → Bool
    | .nil => true
    | .cons _ t r => t.noneOf bad && r.noneOf bad
end

/-- a type without any const part and without function / process parts: objects of it are mutable through and through -/
def Ty.clean (t : Ty) : Bool := t.noneOf nonMutableKinds

mutual
  /-- below qualifiers, references and typedef labels the type is a RECORD (what `get_sub(i)` asserts) -/
  def Ty.recordShape : Ty → Bool
    | .mk k cs => if k == .kRECORD then true
                  else if k == .kREF || k == .kLABEL || wrapperKinds.contains k && k != .kARRAY && k != .kRANGE then cs.recordShape0
                  else false
  def Children.recordShape0 : Children → Bool
    | .nil => false
    | .cons _ t _ => t.recordShape
end

/-- identifier followed by field selections and indexings, every selection applied to a record -/
def purePath : Ex → Bool
  | .ident _ _ => true
  | .dot e _ => purePath e && (typeOf e).recordShape
  | .index e _ => purePath e
  | _ => false

/-- the lvalue denotes (part of) a const object: its root is declared const, or one of the components selected on the
    way has a type that is declared const (element of an array of const inside a struct); an inline-if denotes either
    branch, a comma expression its right operand -/
def constRooted : Ex → Bool
  | .ident _ ty => ty.constDeclared
  | .dot e i => constRooted e || (purePath (.dot e i) && (typeOf (.dot e i)).constDeclared)
  | .index e c => constRooted e || (purePath (.index e c) && (typeOf (.index e c)).constDeclared)
  | .iif _ _ _ a b => constRooted a || constRooted b
  | .binary k _ b => k == .kCOMMA && constRooted b
  | _ => false

/-- the kinds of the assignment family (their value is the assigned lvalue) -/
def assignKinds : List Kind :=
  [.kASSIGN, .kASS_PLUS, .kASS_MINUS, .kASS_DIV, .kASS_MOD, .kASS_MULT, .kASS_AND, .kASS_OR, .kASS_XOR, .kASS_LSHIFT,
   .kASS_RSHIFT]

/-- the lvalue denotes (part of) a variable whose whole type is free of const: identifier of clean type, fields and
    elements of such, inline-if over two such of equivalent type, right operand of a comma, result of an assignment or
    of a prefix increment -/
def mutTarget : Ex → Bool
  | .ident _ ty => ty.clean
  | .dot e _ => mutTarget e && !(typeOf e).isProcess
  | .index e _ => mutTarget e
  | .iif eq _ _ a b => eq && mutTarget a && mutTarget b
  | .binary k _ b => if k == .kCOMMA then mutTarget b else assignKinds.contains k
  | .unary k _ => k == .kPRE_INCREMENT || k == .kPRE_DECREMENT
  | .opaque _ _ => false

/-- all write sites `(kind, target)` inside an expression -/
def writeSites : Ex → List (Kind × Ex)
  | .ident _ _ => []
  | .dot e _ => writeSites e
  | .index e _ => writeSites e
  | .unary k e => (if isWriteKind k then [(k, e)] else []) ++ writeSites e
  | .binary k a b => (if isWriteKind k then [(k, a)] else []) ++ writeSites a ++ writeSites b
  | .iif _ _ c a b => writeSites c ++ writeSites a ++ writeSites b
  | .opaque _ _ => []

/-- the root identifier of a path is declared const -/
def rootConst : Ex → Bool
  | .ident _ ty => ty.constDeclared
  | .dot e _ => rootConst e
  | .index e _ => rootConst e
  | _ => false

/-- every index on the path is compile-time computable -/
def allCtc : Ex → Bool
  | .ident _ _ => true
  | .dot e _ => allCtc e
  | .index e c => c && allCtc e
  | _ => false

end UtapModel.Const
