/- Scope invariant of the builder model (second part of C08: edge endpoints and the initial location belong to the
   edge's / template's own template).  Helper lemmas for Props/C08.lean. -/
import UtapModel.Lemmas.C08
namespace UtapModel.Builder

/-- parent link of a frame id: `none` = no such frame, `some none` = root -/
def parentOf (store : List Frame) (f : FrameId) : Option (Option FrameId) := (store[f]?).map (·.parent)

/-- g is reachable from f along parent links -/
inductive OnChain (store : List Frame) : FrameId → FrameId → Prop
  | refl (f : FrameId) : OnChain store f f
  | step (f p g : FrameId) : parentOf store f = some (some p) → OnChain store p g → OnChain store f g

theorem OnChain.congr {store store' : List Frame} (h : ∀ f, parentOf store' f = parentOf store f) {f g : FrameId}
    (hc : OnChain store f g) : OnChain store' f g := by
  induction hc with
  | refl f => exact .refl f
  | step f p g hp _ ih => exact .step f p g (by rw [h]; exact hp) ih

/-- chains starting below `n` stay below `n` when all parents of frames below `n` are below `n` -/
theorem OnChain.stays_below {store : List Frame} {n : Nat} (hpar : ∀ f p, f < n → parentOf store f = some (some p) → p < n)
    {f g : FrameId} (hc : OnChain store f g) (hf : f < n) : g < n := by
  induction hc with
  | refl f => exact hf
  | step f p g hp _ ih => exact ih (hpar f p hf hp)

/-- a store extended at the end has the same chains from old frames -/
theorem OnChain.of_append {store : List Frame} {new : List Frame}
    (hpar : ∀ f p, f < store.length → parentOf store f = some (some p) → p < store.length)
    {f g : FrameId} (hc : OnChain (store ++ new) f g) (hf : f < store.length) : OnChain store f g := by
  induction hc with
  | refl f => exact .refl f
  | step f p g hp _ ih =>
    have hp' : parentOf store f = some (some p) := by
      unfold parentOf at hp ⊢; rw [List.getElem?_append_left hf] at hp; exact hp
    exact .step f p g hp' (ih (hpar f p hf hp'))

theorem OnChain.to_append {store : List Frame} {new : List Frame} {f g : FrameId} (hc : OnChain store f g) :
    OnChain (store ++ new) f g := by
  induction hc with
  | refl f => exact .refl f
  | step f p g hp _ ih =>
    refine .step f p g ?_ ih
    unfold parentOf at hp ⊢
    cases hs : store[f]? with
    | none => simp [hs] at hp
    | some fr => rw [List.getElem?_append_left (getElem?_lt_of_some hs), hs]; simpa [hs] using hp

/-- where `resolveIn` finds a symbol: in a frame on the parent chain of the start frame -/
theorem resolveIn_mem (syms : List Symbol) (store : List Frame) (x : String) :
    ∀ (fuel : Nat) (f : FrameId) (sid : SymId), resolveIn syms store fuel f x = some sid →
      ∃ g fr, OnChain store f g ∧ store[g]? = some fr ∧ sid ∈ fr.syms := by
  intro fuel
  induction fuel with
  | zero => intro f sid h; simp [resolveIn] at h
  | succ n ih =>
    intro f sid h
    simp only [resolveIn] at h
    cases hs : store[f]? with
    | none => simp [hs] at h
    | some fr =>
      simp only [hs] at h
      cases hl : fr.lookup syms x with
      | some sid' =>
        simp only [hl] at h; cases h
        refine ⟨f, fr, .refl f, hs, ?_⟩
        unfold Frame.lookup at hl
        split at hl
        · cases hl
        · have := List.mem_of_find?_eq_some hl
          exact List.mem_reverse.mp this
      | none =>
        simp only [hl] at h
        cases hp : fr.parent with
        | none => simp [hp] at h
        | some p =>
          simp only [hp] at h
          obtain ⟨g, fr', hc, hg, hm⟩ := ih p sid h
          exact ⟨g, fr', .step f p g (by simp [parentOf, hs, hp]) hc, hg, hm⟩


theorem OnChain.transfer {st st' : List Frame} {n : Nat} (hsame : ∀ f, f < n → parentOf st' f = parentOf st f)
    (hpar : ∀ f p, f < n → parentOf st f = some (some p) → p < n) {f g : FrameId} (hc : OnChain st' f g) (hf : f < n) :
    OnChain st f g ∧ g < n := by
  induction hc with
  | refl f => exact ⟨.refl f, hf⟩
  | step f p g hp _ ih =>
    have hp' : parentOf st f = some (some p) := by rw [← hsame f hf]; exact hp
    obtain ⟨h1, h2⟩ := ih (hpar f p hf hp')
    exact ⟨.step f p g hp' h1, h2⟩

/-- what the scope invariant looks at -/
structure View where
  syms : List Symbol
  store : List Frame
  frames : List FrameId
  params : FrameId
  cur : Option Nat
  gf : FrameId
  tframes : List FrameId     -- frame of each template
  locT : List Nat            -- owner template of each location
  bpT : List Nat             -- owner template of each branchpoint

def BState.view (s : BState) : View :=
  ⟨s.syms, s.store, s.frames, s.params, s.currentTemplate, s.doc.globalsFrame, s.doc.templates.map (·.frame),
   s.doc.locs.map (·.templ), s.doc.bps.map (·.templ)⟩

/-- the template that owns the location / branchpoint an object reference denotes -/
def View.objTempl (v : View) : Option Obj → Option Nat
  | some (.loc i) => v.locT[i]?
  | some (.bp i) => v.bpT[i]?
  | _ => none

/-- scope invariant: the frame store is a forest with decreasing parent links rooted in the global frame 0; template
    frames are distinct children of the global frame; location / branchpoint symbols live only in the frame of their own
    template; while a template is being parsed its frame is on the stack and no frame above it reaches another
    template's frame -/
structure Inv2 (v : View) : Prop where
  parentLt : ∀ (f p : FrameId), parentOf v.store f = some (some p) → p < f
  globalRoot : v.gf = 0 ∧ parentOf v.store 0 = some none
  sidsBound : ∀ (f : FrameId) (fr : Frame) (sid : SymId), v.store[f]? = some fr → sid ∈ fr.syms → sid < v.syms.length
  templFrame : ∀ (t : Nat) (f : FrameId), v.tframes[t]? = some f → f < v.store.length ∧ parentOf v.store f = some (some 0)
  templDistinct : ∀ (t t' : Nat) (f : FrameId), v.tframes[t]? = some f → v.tframes[t']? = some f → t = t'
  paramsOk : v.params < v.store.length ∧ v.params ∉ v.tframes
  locHome : ∀ (f : FrameId) (fr : Frame) (sid : SymId) (sym : Symbol), v.store[f]? = some fr → sid ∈ fr.syms →
    v.syms[sid]? = some sym → (sym.ty.isLocation ∨ sym.ty.isBranchpoint) → ∃ t, v.objTempl sym.user = some t ∧ v.tframes[t]? = some f
  curValid : ∀ (t : Nat), v.cur = some t → t < v.tframes.length
  stackBound : ∀ f ∈ v.frames, f < v.store.length
  shape : ∀ (t : Nat) (f0 : FrameId), v.cur = some t → v.tframes[t]? = some f0 →
    ∃ above below, v.frames = above ++ f0 :: below ∧
      ∀ f ∈ above, f < v.store.length ∧ ∀ g, OnChain v.store f g → g ∈ v.tframes → g = f0

theorem Inv2.templ_pos {v : View} (h : Inv2 v) {t : Nat} {f : FrameId} (hT : v.tframes[t]? = some f) : 0 < f :=
  h.parentLt _ _ (h.templFrame t f hT).2

theorem Inv2.zero_not_templ {v : View} (h : Inv2 v) : (0 : FrameId) ∉ v.tframes := by
  intro hm
  obtain ⟨t, ht⟩ := List.getElem?_of_mem hm
  exact Nat.lt_irrefl 0 (h.templ_pos ht)

/-- from a template frame the chain reaches only that frame and the global frame -/
theorem Inv2.chain_of_templ {v : View} (h : Inv2 v) {t : Nat} {f g : FrameId} (hT : v.tframes[t]? = some f)
    (hc : OnChain v.store f g) : g = f ∨ g = 0 := by
  cases hc with
  | refl => exact Or.inl rfl
  | step _ p _ hp hc' =>
    have h0 := (h.templFrame t f hT).2
    rw [h0] at hp; cases hp
    cases hc' with
    | refl => exact Or.inr rfl
    | step _ p' _ hp' _ => rw [h.globalRoot.2] at hp'; cases hp'

/-- while template t is being parsed, everything reachable from the top of the frame stack that is a template frame is
    t's frame -/
theorem Inv2.top_chain {v : View} (h : Inv2 v) {t : Nat} {f0 g : FrameId} (hc : v.cur = some t) (hT : v.tframes[t]? = some f0)
    (hch : OnChain v.store (v.frames.headD 0) g) (hg : g ∈ v.tframes) : g = f0 := by
  obtain ⟨above, below, hfr, hab⟩ := h.shape t f0 hc hT
  cases above with
  | nil =>
    have htop : v.frames.headD 0 = f0 := by simp [hfr]
    rw [htop] at hch
    rcases h.chain_of_templ hT hch with h1 | h1
    · exact h1
    · rw [h1] at hg; exact absurd hg h.zero_not_templ
  | cons a as =>
    have htop : v.frames.headD 0 = a := by simp [hfr]
    rw [htop] at hch
    exact (hab a List.mem_cons_self).2 g hch hg

/-- KEY: while template t is being parsed, every location / branchpoint symbol that name resolution can return
    belongs to template t -/
theorem Inv2.resolve_own {s : BState} (h : Inv2 s.view) {t : Nat} (hc : s.currentTemplate = some t)
    {name : String} {sid : SymId} {sym : Symbol} (hr : s.resolveSym name = some (sid, sym))
    (hk : sym.ty.isLocation ∨ sym.ty.isBranchpoint) : s.view.objTempl sym.user = some t := by
  have hsym := resolveSym_sym hr
  have hres : s.resolve name = some sid := by
    unfold BState.resolveSym at hr
    split at hr
    · cases hr
    · rename_i sid' hrs
      split at hr
      · cases hr
      · cases hr; exact hrs
  obtain ⟨g, fr, hchain, hg, hm⟩ := resolveIn_mem s.syms s.store name _ _ _ hres
  obtain ⟨t', ho, hT'⟩ := h.locHome g fr sid sym hg hm hsym hk
  have hlt := h.curValid t hc
  obtain ⟨f0, hf0⟩ : ∃ f0, s.view.tframes[t]? = some f0 := ⟨_, List.getElem?_eq_getElem hlt⟩
  have hgT : g = f0 := h.top_chain (t := t) hc hf0 hchain (List.mem_of_getElem? hT')
  have : t' = t := h.templDistinct t' t g hT' (by rw [hgT]; exact hf0)
  rw [← this]; exact ho


/-! ### the invariant under the elementary transformations of the view -/

theorem parentOf_modify_syms (store : List Frame) (f : FrameId) (k : List SymId → List SymId) (g : FrameId) :
    parentOf (store.modify f (fun fr => { fr with syms := k fr.syms })) g = parentOf store g := by
  unfold parentOf
  rw [List.getElem?_modify]
  cases store[g]? with
  | none => rfl
  | some fr => by_cases h : f = g <;> simp [h]

theorem getElem?_modify_syms (store : List Frame) (f : FrameId) (k : List SymId → List SymId) (g : FrameId) (fr' : Frame)
    (h : (store.modify f (fun fr => { fr with syms := k fr.syms }))[g]? = some fr') :
    ∃ fr, store[g]? = some fr ∧ fr'.parent = fr.parent ∧ fr'.syms = if f = g then k fr.syms else fr.syms := by
  rw [List.getElem?_modify] at h
  cases hs : store[g]? with
  | none => simp [hs] at h
  | some fr =>
    simp [hs] at h
    refine ⟨fr, rfl, ?_, ?_⟩ <;> (by_cases hfg : f = g <;> simp [hfg] at h ⊢ <;> rw [← h])

/-- V1: new symbols on the heap (not yet in any frame) -/
theorem Inv2.symAppend {v : View} (h : Inv2 v) (new : List Symbol) : Inv2 { v with syms := v.syms ++ new } := by
  refine ⟨h.parentLt, h.globalRoot, ?_, h.templFrame, h.templDistinct, h.paramsOk, ?_, h.curValid, h.stackBound, h.shape⟩
  · intro f fr sid hf hm
    have := h.sidsBound f fr sid hf hm
    show sid < (v.syms ++ new).length
    rw [List.length_append]; exact Nat.lt_of_lt_of_le this (Nat.le_add_right _ _)
  · intro f fr sid sym hf hm hs hk
    have hb := h.sidsBound f fr sid hf hm
    have hs' : v.syms[sid]? = some sym := by
      rw [List.getElem?_append_left hb] at hs; exact hs
    exact h.locHome f fr sid sym hf hm hs' hk

/-- V2: frame f receives the symbols `k` maps its list to; every symbol that ends up in a frame must be on the heap, and
    a location / branchpoint symbol may only end up in its own template's frame -/
theorem Inv2.frameSyms {v : View} (h : Inv2 v) (f : FrameId) (k : List SymId → List SymId)
    (hk : ∀ fr sid, v.store[f]? = some fr → sid ∈ k fr.syms → sid ∈ fr.syms ∨
      (sid < v.syms.length ∧ ∀ sym, v.syms[sid]? = some sym → (sym.ty.isLocation ∨ sym.ty.isBranchpoint) →
        ∃ t, v.objTempl sym.user = some t ∧ v.tframes[t]? = some f)) :
    Inv2 { v with store := v.store.modify f (fun fr => { fr with syms := k fr.syms }) } := by
  have hpar := parentOf_modify_syms v.store f k
  have hch : ∀ a b, OnChain (v.store.modify f (fun fr => { fr with syms := k fr.syms })) a b → OnChain v.store a b :=
    fun a b hc => OnChain.congr (fun g => (hpar g).symm) hc
  refine ⟨?_, ⟨h.globalRoot.1, by rw [hpar]; exact h.globalRoot.2⟩, ?_, ?_, h.templDistinct, ?_, ?_, h.curValid, (fun a ha => by simpa using h.stackBound a ha), ?_⟩
  · intro a p hp; rw [hpar] at hp; exact h.parentLt a p hp
  · intro g fr' sid hg hm
    obtain ⟨fr, hfr, _, hsy⟩ := getElem?_modify_syms v.store f k g fr' hg
    rw [hsy] at hm
    split at hm
    · rename_i hfg; subst hfg
      rcases hk fr sid hfr hm with h1 | h1
      · exact h.sidsBound f fr sid hfr h1
      · exact h1.1
    · exact h.sidsBound g fr sid hfr hm
  · intro t g hT
    obtain ⟨h1, h2⟩ := h.templFrame t g hT
    exact ⟨by simpa using h1, by rw [hpar]; exact h2⟩
  · exact ⟨by simpa using h.paramsOk.1, h.paramsOk.2⟩
  · intro g fr' sid sym hg hm hs hkk
    obtain ⟨fr, hfr, _, hsy⟩ := getElem?_modify_syms v.store f k g fr' hg
    rw [hsy] at hm
    split at hm
    · rename_i hfg; subst hfg
      rcases hk fr sid hfr hm with h1 | h1
      · exact h.locHome f fr sid sym hfr h1 hs hkk
      · exact h1.2 sym hs hkk
    · exact h.locHome g fr sid sym hfr hm hs hkk
  · intro t f0 hc hT
    obtain ⟨above, below, hfr, hab⟩ := h.shape t f0 hc hT
    refine ⟨above, below, hfr, ?_⟩
    intro a ha
    obtain ⟨h1, h2⟩ := hab a ha
    exact ⟨by simpa using h1, fun g hg => h2 g (hch a g hg)⟩


theorem parentOf_append_old (store : List Frame) (x : Frame) (g : FrameId) (hg : g < store.length) :
    parentOf (store ++ [x]) g = parentOf store g := by
  unfold parentOf; rw [List.getElem?_append_left hg]

theorem parentOf_append_new (store : List Frame) (x : Frame) : parentOf (store ++ [x]) store.length = some x.parent := by
  unfold parentOf; simp

theorem lt_append_one {α} {l : List α} {x : α} {a : Nat} (h : a < l.length) : a < (l ++ [x]).length := by
  rw [List.length_append]; exact Nat.lt_of_lt_of_le h (Nat.le_add_right _ _)

theorem parentOf_lt {store : List Frame} {g : FrameId} {o : Option FrameId} (h : parentOf store g = some o) : g < store.length := by
  unfold parentOf at h
  cases hs : store[g]? with
  | none => simp [hs] at h
  | some fr => exact getElem?_lt_of_some hs

/-- V3: a new frame at the end of the store (`frame_t::create(parent)` / `frame_t::create()`), pre-filled with symbols that are
    on the heap and are not location / branchpoint symbols -/
theorem Inv2.storeAppend {v : View} (h : Inv2 v) (x : Frame)
    (hp : ∀ p, x.parent = some p → p < v.store.length)
    (hx : ∀ sid ∈ x.syms, sid < v.syms.length ∧ ∀ sym, v.syms[sid]? = some sym → ¬ (sym.ty.isLocation ∨ sym.ty.isBranchpoint)) :
    Inv2 { v with store := v.store ++ [x] } := by
  have hold : ∀ g, g < v.store.length → parentOf (v.store ++ [x]) g = parentOf v.store g := parentOf_append_old v.store x
  have hparb : ∀ f p, f < v.store.length → parentOf v.store f = some (some p) → p < v.store.length :=
    fun f p hf hpp => Nat.lt_trans (h.parentLt f p hpp) hf
  have hget : ∀ g fr, (v.store ++ [x])[g]? = some fr → (g < v.store.length ∧ v.store[g]? = some fr) ∨ (g = v.store.length ∧ fr = x) :=
    fun g fr hg => append_one_split hg
  refine ⟨?_, ⟨h.globalRoot.1, ?_⟩, ?_, ?_, h.templDistinct, ?_, ?_, h.curValid, (fun a ha => lt_append_one (h.stackBound a ha)), ?_⟩
  · intro a p hpa
    have ha := parentOf_lt hpa
    rw [List.length_append, List.length_singleton] at ha
    by_cases hlt : a < v.store.length
    · rw [hold a hlt] at hpa; exact h.parentLt a p hpa
    · have : a = v.store.length := Nat.eq_of_lt_succ_of_not_lt ha hlt
      subst this
      rw [parentOf_append_new] at hpa
      simp at hpa
      exact hp p hpa
  · have h0 := parentOf_lt h.globalRoot.2
    rw [hold 0 h0]; exact h.globalRoot.2
  · intro g fr sid hg hm
    rcases hget g fr hg with ⟨_, ho⟩ | ⟨_, hn⟩
    · exact h.sidsBound g fr sid ho hm
    · subst hn; exact (hx sid hm).1
  · intro t g hT
    obtain ⟨h1, h2⟩ := h.templFrame t g hT
    exact ⟨lt_append_one h1, by rw [hold g h1]; exact h2⟩
  · exact ⟨lt_append_one h.paramsOk.1, h.paramsOk.2⟩
  · intro g fr sid sym hg hm hs hkk
    rcases hget g fr hg with ⟨_, ho⟩ | ⟨_, hn⟩
    · exact h.locHome g fr sid sym ho hm hs hkk
    · subst hn; exact absurd hkk ((hx sid hm).2 sym hs)
  · intro t f0 hc hT
    obtain ⟨above, below, hfr, hab⟩ := h.shape t f0 hc hT
    refine ⟨above, below, hfr, ?_⟩
    intro a ha
    obtain ⟨h1, h2⟩ := hab a ha
    refine ⟨lt_append_one h1, ?_⟩
    intro g hg hgt
    exact h2 g (OnChain.transfer hold hparb hg h1).1 hgt

/-- V4: push a frame whose parent chain (while a template is being parsed) reaches no other template's frame -/
theorem Inv2.push {v : View} (h : Inv2 v) (f : FrameId) (hb : f < v.store.length)
    (hf : ∀ t f0, v.cur = some t → v.tframes[t]? = some f0 →
      f < v.store.length ∧ ∀ g, OnChain v.store f g → g ∈ v.tframes → g = f0) :
    Inv2 { v with frames := f :: v.frames } := by
  refine ⟨h.parentLt, h.globalRoot, h.sidsBound, h.templFrame, h.templDistinct, h.paramsOk, h.locHome, h.curValid, ?_, ?_⟩
  · intro a ha
    rcases List.mem_cons.mp ha with h1 | h1
    · rw [h1]; exact hb
    · exact h.stackBound a h1
  intro t f0 hc hT
  obtain ⟨above, below, hfr, hab⟩ := h.shape t f0 hc hT
  refine ⟨f :: above, below, by simp [hfr], ?_⟩
  intro a ha
  rcases List.mem_cons.mp ha with h1 | h1
  · subst h1; exact hf t f0 hc hT
  · exact hab a h1

/-- V5: pop, when the frame on top is not the frame of the template being parsed (the callers' discipline) -/
theorem Inv2.pop {v : View} (h : Inv2 v)
    (hsafe : ∀ t f0, v.cur = some t → v.tframes[t]? = some f0 → v.frames.head? ≠ some f0) :
    Inv2 { v with frames := v.frames.tail } := by
  refine ⟨h.parentLt, h.globalRoot, h.sidsBound, h.templFrame, h.templDistinct, h.paramsOk, h.locHome, h.curValid,
    (fun a ha => h.stackBound a (List.mem_of_mem_tail ha)), ?_⟩
  intro t f0 hc hT
  obtain ⟨above, below, hfr, hab⟩ := h.shape t f0 hc hT
  cases above with
  | nil => exact absurd (by simp [hfr]) (hsafe t f0 hc hT)
  | cons a as => exact ⟨as, below, by simp [hfr], fun b hb => hab b (List.mem_cons_of_mem _ hb)⟩

/-- V6a: leaving the template (`proc_end`, `decl_dynamic_template`) -/
theorem Inv2.clearCur {v : View} (h : Inv2 v) (frames : List FrameId) (hb : ∀ f ∈ frames, f < v.store.length) :
    Inv2 { v with cur := none, frames := frames } :=
  ⟨h.parentLt, h.globalRoot, h.sidsBound, h.templFrame, h.templDistinct, h.paramsOk, h.locHome, (by intro t ht; cases ht), hb,
   (by intro t f0 hc; cases hc)⟩

/-- V6b: entering template t: its frame is pushed (`proc_begin`) -/
theorem Inv2.enterTempl {v : View} (h : Inv2 v) (t : Nat) (f0 : FrameId) (hT : v.tframes[t]? = some f0) :
    Inv2 { v with cur := some t, frames := f0 :: v.frames } := by
  refine ⟨h.parentLt, h.globalRoot, h.sidsBound, h.templFrame, h.templDistinct, h.paramsOk, h.locHome, ?_, ?_, ?_⟩
  · intro t' ht'; cases ht'; exact getElem?_lt_of_some hT
  · intro a ha
    rcases List.mem_cons.mp ha with h1 | h1
    · rw [h1]; exact (h.templFrame t f0 hT).1
    · exact h.stackBound a h1
  · intro t' f0' hc hT'
    cases hc
    rw [hT] at hT'; cases hT'
    exact ⟨[], v.frames, rfl, by simp⟩

/-- V7: `params = frame_t::create()` -- the builder's parameter frame becomes a frame that is not a template's -/
theorem Inv2.setParams {v : View} (h : Inv2 v) (p : FrameId) (hp : p < v.store.length) (hn : p ∉ v.tframes) :
    Inv2 { v with params := p } :=
  ⟨h.parentLt, h.globalRoot, h.sidsBound, h.templFrame, h.templDistinct, ⟨hp, hn⟩, h.locHome, h.curValid, h.stackBound, h.shape⟩


/-- V8: a new template whose frame `n` is a fresh child of the global frame that nothing on the stack reaches -/
theorem Inv2.addTempl {v : View} (h : Inv2 v) (n : FrameId) (hn : n < v.store.length) (hpar : parentOf v.store n = some (some 0))
    (hfresh : n ∉ v.tframes) (hparams : n ≠ v.params)
    (hreach : ∀ a ∈ v.frames, ∀ g, OnChain v.store a g → g ≠ n) :
    Inv2 { v with tframes := v.tframes ++ [n] } := by
  have hget : ∀ t f, (v.tframes ++ [n])[t]? = some f → v.tframes[t]? = some f ∨ (t = v.tframes.length ∧ f = n) := by
    intro t f ht
    rcases append_one_split ht with ⟨_, ho⟩ | ⟨h1, h2⟩
    · exact Or.inl ho
    · exact Or.inr ⟨h1, h2⟩
  refine ⟨h.parentLt, h.globalRoot, h.sidsBound, ?_, ?_, ?_, ?_, ?_, h.stackBound, ?_⟩
  · intro t f ht
    rcases hget t f ht with ho | ⟨_, hf⟩
    · exact h.templFrame t f ho
    · rw [hf]; exact ⟨hn, hpar⟩
  · intro t t' f ht ht'
    rcases hget t f ht with ho | ⟨h1, hf⟩ <;> rcases hget t' f ht' with ho' | ⟨h1', hf'⟩
    · exact h.templDistinct t t' f ho ho'
    · rw [hf'] at ho; exact absurd (List.mem_of_getElem? ho) hfresh
    · rw [hf] at ho'; exact absurd (List.mem_of_getElem? ho') hfresh
    · rw [h1, h1']
  · refine ⟨h.paramsOk.1, ?_⟩
    intro hm
    rcases List.mem_append.mp hm with h1 | h1
    · exact h.paramsOk.2 h1
    · simp at h1; exact hparams h1.symm
  · intro f fr sid sym hf hm hs hk
    obtain ⟨t, ho, hT⟩ := h.locHome f fr sid sym hf hm hs hk
    exact ⟨t, ho, by rw [List.getElem?_append_left (getElem?_lt_of_some hT)]; exact hT⟩
  · intro t hc
    have := h.curValid t hc
    rw [List.length_append]; exact Nat.lt_of_lt_of_le this (Nat.le_add_right _ _)
  · intro t f0 hc ht
    have hlt := h.curValid t hc
    have ht' : v.tframes[t]? = some f0 := by rw [List.getElem?_append_left hlt] at ht; exact ht
    obtain ⟨above, below, hfr, hab⟩ := h.shape t f0 hc ht'
    refine ⟨above, below, hfr, ?_⟩
    intro a ha
    obtain ⟨h1, h2⟩ := hab a ha
    refine ⟨h1, ?_⟩
    intro g hg hgt
    rcases List.mem_append.mp hgt with h3 | h3
    · exact h2 g hg h3
    · simp at h3
      exact absurd h3 (hreach a (by rw [hfr]; exact List.mem_append_left _ ha) g hg)

/-- V9: a new location / branchpoint record -/
theorem Inv2.addLocT {v : View} (h : Inv2 v) (t : Nat) : Inv2 { v with locT := v.locT ++ [t] } := by
  refine ⟨h.parentLt, h.globalRoot, h.sidsBound, h.templFrame, h.templDistinct, h.paramsOk, ?_, h.curValid, h.stackBound, h.shape⟩
  intro f fr sid sym hf hm hs hk
  obtain ⟨t', ho, hT⟩ := h.locHome f fr sid sym hf hm hs hk
  refine ⟨t', ?_, hT⟩
  cases hu : sym.user with
  | none => rw [hu] at ho; simp [View.objTempl] at ho
  | some o =>
    rw [hu] at ho
    cases o <;> simp only [View.objTempl] at ho ⊢ <;> try exact ho
    rw [List.getElem?_append_left (getElem?_lt_of_some ho)]; exact ho

theorem Inv2.addBpT {v : View} (h : Inv2 v) (t : Nat) : Inv2 { v with bpT := v.bpT ++ [t] } := by
  refine ⟨h.parentLt, h.globalRoot, h.sidsBound, h.templFrame, h.templDistinct, h.paramsOk, ?_, h.curValid, h.stackBound, h.shape⟩
  intro f fr sid sym hf hm hs hk
  obtain ⟨t', ho, hT⟩ := h.locHome f fr sid sym hf hm hs hk
  refine ⟨t', ?_, hT⟩
  cases hu : sym.user with
  | none => rw [hu] at ho; simp [View.objTempl] at ho
  | some o =>
    rw [hu] at ho
    cases o <;> simp only [View.objTempl] at ho ⊢ <;> try exact ho
    rw [List.getElem?_append_left (getElem?_lt_of_some ho)]; exact ho

/-- V10: `set_type` of a location symbol to another location type -/
theorem Inv2.setTy {v : View} (h : Inv2 v) (sid : SymId) (ty' : STy) (sym0 : Symbol) (h0 : v.syms[sid]? = some sym0)
    (hl0 : sym0.ty.isLocation) :
    Inv2 { v with syms := v.syms.modify sid (fun sym => { sym with ty := ty' }) } := by
  refine ⟨h.parentLt, h.globalRoot, ?_, h.templFrame, h.templDistinct, h.paramsOk, ?_, h.curValid, h.stackBound, h.shape⟩
  · intro f fr sid' hf hm
    have := h.sidsBound f fr sid' hf hm
    show sid' < (v.syms.modify sid _).length
    rw [List.length_modify]; exact this
  · intro f fr sid' sym hf hm hs hk
    simp only [List.getElem?_modify] at hs
    cases ho : v.syms[sid']? with
    | none => simp [ho] at hs
    | some so =>
      simp [ho] at hs
      by_cases he : sid = sid'
      · subst he
        simp at hs
        rw [h0] at ho; cases ho
        obtain ⟨t, hot, hT⟩ := h.locHome f fr sid sym0 hf hm h0 (Or.inl hl0)
        exact ⟨t, by rw [← hs]; exact hot, hT⟩
      · simp [he] at hs
        subst hs
        exact h.locHome f fr sid' so hf hm ho hk


/-! ### builder-state primitives -/

theorem inv2_addSymbol {s : BState} (h : Inv2 s.view) (f : FrameId) (n : String) (ty : STy) (u : Option Obj)
    (hk : (ty.isLocation ∨ ty.isBranchpoint) → ∃ t, s.view.objTempl u = some t ∧ s.view.tframes[t]? = some f) :
    Inv2 (s.addSymbol f n ty u).1.view := by
  have h1 := h.symAppend [⟨n, ty, u⟩]
  have h2 := h1.frameSyms f (· ++ [s.syms.length]) (by
    intro fr sid _ hm
    rcases List.mem_append.mp hm with h3 | h3
    · exact Or.inl h3
    · right
      simp at h3; subst h3
      refine ⟨by simp [BState.view], ?_⟩
      intro sym hs hkk
      have : sym = ⟨n, ty, u⟩ := by simpa [BState.view] using hs.symm
      subst this
      exact hk hkk)
  exact h2

theorem plain_not_loc {ty : STy} (hp : ty.plain) : ¬ (ty.isLocation ∨ ty.isBranchpoint) := by
  rintro (h | h)
  · rw [hp.1] at h; cases h
  · rw [hp.2.1] at h; cases h

theorem inv2_addSymbol_plain {s : BState} {f : FrameId} {n : String} {ty : STy} {u : Option Obj} (h : Inv2 s.view) (hp : ty.plain) :
    Inv2 (s.addSymbol f n ty u).1.view :=
  inv2_addSymbol h f n ty u (fun hk => absurd hk (plain_not_loc hp))

theorem plain_func : STy.func.plain := ⟨rfl, rfl, fun _ => ⟨by simp, by simp⟩⟩
theorem plain_inst (a : Nat) : (STy.inst a).isLocation = false ∧ (STy.inst a).isBranchpoint = false := ⟨rfl, rfl⟩

/-- a symbol that is not a location / branchpoint symbol can be added to any frame -/
theorem inv2_addSymbol_nonloc {s : BState} {f : FrameId} {n : String} {ty : STy} {u : Option Obj} (h : Inv2 s.view)
    (hl : ty.isLocation = false) (hb : ty.isBranchpoint = false) : Inv2 (s.addSymbol f n ty u).1.view :=
  inv2_addSymbol h f n ty u (by rintro (h1 | h1) <;> simp [hl, hb] at h1)

theorem view_docOnly {s : BState} {d : Doc} (hg : d.globalsFrame = s.doc.globalsFrame)
    (ht : d.templates.map (·.frame) = s.doc.templates.map (·.frame)) (hl : d.locs = s.doc.locs) (hb : d.bps = s.doc.bps) :
    ({ s with doc := d } : BState).view = s.view := by
  simp [BState.view, hg, ht, hl, hb]

theorem inv2_addVariable {s : BState} {ty : Ty} {n : String} (h : Inv2 s.view) : Inv2 (s.addVariable ty n).1.view := by
  unfold BState.addVariable
  cases s.currentFun <;> exact inv2_addSymbol_nonloc h rfl rfl

theorem inv2_addFunction {s : BState} {n : String} (h : Inv2 s.view) : Inv2 (s.addFunction n).1.view :=
  inv2_addSymbol_nonloc (s := s) h rfl rfl

theorem inv2_addInstance {s : BState} (h : Inv2 s.view) (l : Bool) (n : String) (o : Inst) (ps : List SymId) (es : List Expr) :
    Inv2 (s.addInstance l n o ps es).view := by
  unfold BState.addInstance
  cases l <;> exact inv2_addSymbol_nonloc (s := s) h rfl rfl

theorem inv2_addProcess {s : BState} (h : Inv2 s.view) (i : Inst) : Inv2 (s.addProcess i).view := by
  unfold BState.addProcess
  refine inv2_addSymbol_nonloc (s := s) h ?_ ?_ <;> (split <;> rfl)

theorem templ_frame_view {s : BState} {t : Nat} {T : Templ} (hT : s.doc.templates[t]? = some T) : s.view.tframes[t]? = some T.frame := by
  simp [BState.view, List.getElem?_map, hT]

theorem inv2_addLocation {s : BState} {t : Nat} {n : String} {a b : Bool} (h : Inv2 s.view) : Inv2 (s.addLocation t n a b).1.view := by
  unfold BState.addLocation
  split
  · exact h
  · rename_i T hT
    have h1 := h.addLocT t
    have h2 := inv2_addSymbol (s := { s with doc := { s.doc with locs := s.doc.locs ++ [⟨s.syms.length, t, (s.doc.locs.filter (·.templ = t)).length, a, b⟩] } })
      (by simpa [BState.view] using h1) T.frame n (.location false false) (some (.loc s.doc.locs.length))
      (fun _ => ⟨t, by simp [BState.view, View.objTempl], by simpa [BState.view, List.getElem?_map] using congrArg (Option.map (·.frame)) hT⟩)
    simpa [BState.view, BState.addSymbol] using h2

theorem inv2_addBranchpoint {s : BState} {t : Nat} {n : String} (h : Inv2 s.view) : Inv2 (s.addBranchpoint t n).1.view := by
  unfold BState.addBranchpoint
  split
  · exact h
  · rename_i T hT
    have h1 := h.addBpT t
    have h2 := inv2_addSymbol (s := { s with doc := { s.doc with bps := s.doc.bps ++ [⟨s.syms.length, t, (s.doc.bps.filter (·.templ = t)).length⟩] } })
      (by simpa [BState.view] using h1) T.frame n .branchpoint (some (.bp s.doc.bps.length))
      (fun _ => ⟨t, by simp [BState.view, View.objTempl], by simpa [BState.view, List.getElem?_map] using congrArg (Option.map (·.frame)) hT⟩)
    simpa [BState.view, BState.addSymbol] using h2


theorem Inv2.store_pos {v : View} (h : Inv2 v) : 0 < v.store.length := parentOf_lt h.globalRoot.2

theorem Inv2.top_lt {v : View} (h : Inv2 v) : v.frames.headD 0 < v.store.length := by
  cases hf : v.frames with
  | nil => simpa using h.store_pos
  | cons a as => simpa using h.stackBound a (by rw [hf]; exact List.mem_cons_self)

theorem Inv2.tframes_lt {v : View} (h : Inv2 v) {g : FrameId} (hg : g ∈ v.tframes) : g < v.store.length := by
  obtain ⟨t, ht⟩ := List.getElem?_of_mem hg
  exact (h.templFrame t g ht).1

/-- the symbols collected in the builder's `params` frame are on the heap and are not location / branchpoint symbols -/
theorem Inv2.params_plain {v : View} (h : Inv2 v) : ∀ sid ∈ (v.store.getD v.params ⟨none, []⟩).syms,
    sid < v.syms.length ∧ ∀ sym, v.syms[sid]? = some sym → ¬ (sym.ty.isLocation ∨ sym.ty.isBranchpoint) := by
  intro sid hm
  have hp := h.paramsOk.1
  have hfr : v.store[v.params]? = some (v.store.getD v.params ⟨none, []⟩) := by
    rw [List.getD_eq_getElem?_getD, List.getElem?_eq_getElem hp]; simp
  refine ⟨h.sidsBound _ _ sid hfr hm, ?_⟩
  intro sym hs hk
  obtain ⟨t, _, hT⟩ := h.locHome _ _ sid sym hfr hm hs hk
  exact h.paramsOk.2 (List.mem_of_getElem? hT)

/-- `push_frame(frame_t::create(frames.top()))`, optionally pre-filled with plain symbols -/
theorem inv2_pushChild {s : BState} (h : Inv2 s.view) (l : List SymId)
    (hl : ∀ sid ∈ l, sid < s.syms.length ∧ ∀ sym, s.syms[sid]? = some sym → ¬ (sym.ty.isLocation ∨ sym.ty.isBranchpoint)) :
    Inv2 ((s.newFrame (some s.top) l).1.pushFrame s.store.length).view := by
  have htop : s.top < s.store.length := h.top_lt
  have h1 := h.storeAppend ⟨some s.top, l⟩ (by intro p hp; cases hp; exact htop) hl
  have hold : ∀ g, g < s.store.length → parentOf (s.store ++ [⟨some s.top, l⟩]) g = parentOf s.store g :=
    parentOf_append_old s.store _
  have hparb : ∀ f p, f < s.store.length → parentOf s.store f = some (some p) → p < s.store.length :=
    fun f p hf hpp => Nat.lt_trans (h.parentLt f p hpp) hf
  refine h1.push s.store.length (by simp [BState.view]) ?_
  intro t f0 hc hT
  refine ⟨by simp [BState.view], ?_⟩
  intro g hg hgt
  have hgl : g < s.store.length := h.tframes_lt hgt
  cases hg with
  | refl => exact absurd hgl (Nat.lt_irrefl _)
  | step _ p _ hp hc' =>
    have : p = s.top := by
      have := parentOf_append_new s.store ⟨some s.top, l⟩
      simp only [BState.view] at hp
      rw [this] at hp; simp at hp; exact hp.symm
    subst this
    have hc'' := (OnChain.transfer hold hparb hc' htop).1
    exact h.top_chain hc hT hc'' hgt

theorem inv2_pushNewFrame {s : BState} (h : Inv2 s.view) : Inv2 s.pushNewFrame.view :=
  inv2_pushChild h [] (by simp)

/-- `params = frame_t::create()` -/
theorem inv2_resetParams {s : BState} (h : Inv2 s.view) :
    Inv2 ({ (s.newFrame none).1 with params := s.store.length } : BState).view := by
  have h1 := h.storeAppend ⟨none, []⟩ (by intro p hp; cases hp) (by simp)
  refine h1.setParams s.store.length (by simp [BState.view]) ?_
  intro hm
  exact Nat.lt_irrefl _ (h.tframes_lt hm)

/-- `Document::add_template` / `add_dynamic_template` -/
theorem inv2_addTemplate {s : BState} {n : String} {a b : Bool} (h : Inv2 s.view) : Inv2 (s.addTemplate n a b).1.view := by
  have hgf : s.doc.globalsFrame = 0 := h.globalRoot.1
  have hps := h.params_plain
  have h1 := h.storeAppend ⟨some s.doc.globalsFrame, (s.frameD s.params).syms⟩
    (by intro p hp; cases hp; rw [hgf]; exact h.store_pos) hps
  have hold : ∀ g, g < s.store.length → parentOf (s.store ++ [⟨some s.doc.globalsFrame, (s.frameD s.params).syms⟩]) g = parentOf s.store g :=
    parentOf_append_old s.store _
  have hparb : ∀ f p, f < s.store.length → parentOf s.store f = some (some p) → p < s.store.length :=
    fun f p hf hpp => Nat.lt_trans (h.parentLt f p hpp) hf
  have h2 := h1.addTempl s.store.length (by simp [BState.view])
    (by simp only [BState.view]; rw [parentOf_append_new]; simp [hgf])
    (fun hm => Nat.lt_irrefl _ (h.tframes_lt hm))
    (fun he => Nat.lt_irrefl _ (by have := h.paramsOk.1; simp only [BState.view] at he this; rw [← he] at this; exact this))
    (by
      intro f hf g hg he
      have hfl : f < s.store.length := h.stackBound f hf
      have := (OnChain.transfer hold hparb hg hfl).2
      rw [he] at this; exact Nat.lt_irrefl _ this)
  let s1 : BState := { (s.newFrame (some s.doc.globalsFrame) (s.frameD s.params).syms).1 with
    doc := { s.doc with templates := s.doc.templates ++ [mkTempl s.syms.length (s.frameD s.params).syms s.doc.templates.length s.store.length a b] } }
  have h3 : Inv2 s1.view := by simpa [BState.view, BState.newFrame, s1, mkTempl] using h2
  have h4 := inv2_addSymbol_nonloc (s := s1) (f := s.doc.globalsFrame) (n := n)
    (ty := if a then .inst (s.frameD s.params).syms.length else .lscInst (s.frameD s.params).syms.length)
    (u := some (.templ s.doc.templates.length)) h3 (by cases a <;> rfl) (by cases a <;> rfl)
  simpa [BState.view, BState.addTemplate, BState.addSymbol, BState.newFrame, s1] using h4

/-- `params.move_to(frames.top())` -/
theorem inv2_moveParams {s : BState} (h : Inv2 s.view) :
    Inv2 ({ s with store := (addToFrame s.store s.top (s.frameD s.params).syms).modify s.params (fun f => { f with syms := [] }) } : BState).view := by
  have hps := h.params_plain
  have h1 := h.frameSyms s.top (· ++ (s.frameD s.params).syms) (by
    intro fr sid _ hm
    rcases List.mem_append.mp hm with h3 | h3
    · exact Or.inl h3
    · right
      obtain ⟨hb, hp⟩ := hps sid h3
      exact ⟨hb, fun sym hs hk => absurd hk (hp sym hs)⟩)
  have h2 := h1.frameSyms s.params (fun _ => []) (by intro fr sid _ hm; simp at hm)
  exact h2


/-- what `safeCall` gives for a popping callback -/
theorem safe_pop_spec {s : BState}
    (hs : (decide (s.frames.length ≥ 2) && (match s.currentTemplate.bind (fun t => s.doc.templates[t]?) with
        | some T => s.top != T.frame
        | none => true)) = true) :
    ∀ t f0, s.view.cur = some t → s.view.tframes[t]? = some f0 → s.view.frames.head? ≠ some f0 := by
  intro t f0 hc hT hhead
  simp only [BState.view, List.getElem?_map] at hc hT hhead
  cases hd : s.doc.templates[t]? with
  | none => simp [hd] at hT
  | some T =>
    simp [hd] at hT
    simp only [Bool.and_eq_true] at hs
    have h2 := hs.2
    simp only [hc, Option.bind_some, hd] at h2
    have : s.top = f0 := by
      unfold BState.top
      cases hf : s.frames with
      | nil => rw [hf] at hhead; simp at hhead
      | cons a as => rw [hf] at hhead; simp at hhead; simp [hhead]
    rw [this, hT] at h2
    simp at h2

theorem safe_pop_of {s : BState} {c : Call} (hsafe : safeCall s c = true) (hp : c.pops = true) (hne : ∀ x, c ≠ .declExternalFunc x) :
    ∀ t f0, s.view.cur = some t → s.view.tframes[t]? = some f0 → s.view.frames.head? ≠ some f0 := by
  apply safe_pop_spec
  cases c <;> first
    | (simp [Call.pops] at hp; done)
    | (exfalso; exact hne _ rfl)
    | (simp only [safeCall, Call.pops, if_true] at hsafe; exact hsafe)

theorem inv2_pop {s : BState} (h : Inv2 s.view)
    (hs : (decide (s.frames.length ≥ 2) && (match s.currentTemplate.bind (fun t => s.doc.templates[t]?) with
        | some T => s.top != T.frame
        | none => true)) = true) : Inv2 s.popFrame.view :=
  h.pop (safe_pop_spec hs)

theorem inv2_ite {c : Prop} [Decidable c] {a b : BState} (ha : Inv2 a.view) (hb : Inv2 b.view) : Inv2 (if c then a else b).view := by
  split <;> assumption

theorem inv2_addSelectSymbol {s : BState} (h : Inv2 s.view) (n : String) (f : Option FrameId) : Inv2 (s.addSelectSymbol n f).view := by
  unfold BState.addSelectSymbol
  simp only [BState.popType]
  refine inv2_ite (by exact h) ?_
  cases f with
  | some f =>
    refine inv2_addSymbol_plain (s := if (s.popType.1.resolve n).isSome then s.popType.1.warning else s.popType.1) ?_ (plain_var _)
    exact inv2_ite (by exact h) (by exact h)
  | none => exact inv2_ite (by exact h) (by exact h)

theorem view_modifyTempl_frame (s : BState) (t : Nat) (f : Templ → Templ) (hf : ∀ T, (f T).frame = T.frame) :
    ({ s with doc := s.doc.modifyTempl t f } : BState).view = s.view := by
  simp only [BState.view, Doc.modifyTempl]
  congr 1
  apply List.ext_getElem?
  intro i
  simp only [List.getElem?_map, List.getElem?_modify]
  cases s.doc.templates[i]? with
  | none => rfl
  | some T => by_cases h : t = i <;> simp [h, hf]

theorem map_frame_modify (l : List Templ) (t : Nat) (f : Templ → Templ) (hf : ∀ T, (f T).frame = T.frame) :
    (l.modify t f).map (·.frame) = l.map (·.frame) := by
  apply List.ext_getElem?
  intro i
  simp only [List.getElem?_map, List.getElem?_modify]
  cases l[i]? with
  | none => rfl
  | some T => by_cases h : t = i <;> simp [h, hf]

theorem view_congr {a b : BState} (h1 : a.syms = b.syms) (h2 : a.store = b.store) (h3 : a.frames = b.frames) (h4 : a.params = b.params)
    (h5 : a.currentTemplate = b.currentTemplate) (h6 : a.doc.globalsFrame = b.doc.globalsFrame)
    (h7 : a.doc.templates.map (·.frame) = b.doc.templates.map (·.frame)) (h8 : a.doc.locs = b.doc.locs) (h9 : a.doc.bps = b.doc.bps) :
    a.view = b.view := by
  simp [BState.view, h1, h2, h3, h4, h5, h6, h7, h8, h9]

theorem inv2_of_view_eq {a b : BState} (hb : Inv2 b.view) (h : a.view = b.view) : Inv2 a.view := h ▸ hb

theorem inv2_setInit {s : BState} (h : Inv2 s.view) (t : Nat) (sid : SymId) :
    Inv2 ({ s with doc := s.doc.modifyTempl t (fun T => { T with init := some sid }) } : BState).view := by
  rw [view_modifyTempl_frame s t (fun T => { T with init := some sid }) (fun _ => rfl)]; exact h

theorem inv2_setEdge {s : BState} (h : Inv2 s.view) (f : Edge → Expr → Edge) : Inv2 (s.setEdge f).view := by
  unfold BState.setEdge
  split
  · exact h
  · rename_i t i _
    have := view_modifyTempl_frame s.popFrag t (fun T => { T with edges := T.edges.modify i (fun ed => f ed s.frag0) }) (fun _ => rfl)
    show Inv2 ({ s.popFrag with doc := s.popFrag.doc.modifyTempl t (fun T => { T with edges := T.edges.modify i (fun ed => f ed s.frag0) }) } : BState).view
    rw [this]; exact h


theorem Inv2_init : Inv2 BState.init.view := by
  refine ⟨?_, ⟨rfl, rfl⟩, ?_, ?_, ?_, ⟨by simp [BState.view, BState.init], by simp [BState.view, BState.init]⟩, ?_, ?_, ?_, ?_⟩
  · intro f p hp
    rcases f with _ | _ | f <;> simp [BState.view, BState.init, parentOf] at hp
  · intro f fr sid hf hm
    rcases f with _ | _ | f <;> simp [BState.view, BState.init] at hf <;> (subst hf; simp at hm)
  · intro t f ht; simp [BState.view, BState.init] at ht
  · intro t t' f ht; simp [BState.view, BState.init] at ht
  · intro f fr sid sym _ _ hs; simp [BState.view, BState.init] at hs
  · intro t ht; simp [BState.view, BState.init] at ht
  · intro f hf; simp [BState.view, BState.init] at hf; subst hf; exact Nat.zero_lt_succ _
  · intro t f0 hc; simp [BState.view, BState.init] at hc

/-- every callback issued under the callers' discipline (`safeCall`) preserves the scope invariant -/
theorem Inv2_step (s : BState) (c : Call) (h : Inv2 s.view) (hsafe : safeCall s c = true) : Inv2 (step s c).view := by
  cases c
  case quantBegin n =>
    exact inv2_addSymbol_plain (s := s.popType.1.pushNewFrame) (f := s.popType.1.pushNewFrame.top) (n := n) (ty := .var s.popType.2)
      (inv2_pushNewFrame (s := s.popType.1) h) (plain_var _)
  case quantEnd => exact h.pop (safe_pop_of hsafe rfl (by intro x hx; cases hx))
  case dynQuantBegin n =>
    exact inv2_addSymbol_plain (s := s.pushNewFrame) (f := s.pushNewFrame.top) (n := n) (inv2_pushNewFrame h) plain_processVar
  case dynQuantEnd => exact h.pop (safe_pop_of hsafe rfl (by intro x hx; cases hx))
  case typeName n =>
    simp only [step]
    cases s.resolveSym n with
    | none => exact h
    | some p => obtain ⟨sid, ⟨nm, ty, u⟩⟩ := p; cases ty <;> exact h
  case declTypedef n =>
    simp only [step, BState.popType]
    refine inv2_ite (by exact h) ?_
    exact inv2_addSymbol_plain (s := s.popType.1) h (plain_typedef _)
  case declVar n i => cases i <;> exact inv2_addVariable (s := _) h
  case declParameter n => exact inv2_addSymbol_plain (s := s.popType.1) h (plain_var _)
  case declFuncBegin n =>
    simp only [step]
    have h1 : Inv2 ((({ s with currentFun := none } : BState).popType.1.addFunction n).1).view := inv2_addFunction (s := _) h
    have h2 : Inv2 (if (({ s with currentFun := none } : BState).popType.1.addFunction n).2 = true then
        (({ s with currentFun := none } : BState).popType.1.addFunction n).1.error else (({ s with currentFun := none } : BState).popType.1.addFunction n).1).view :=
      inv2_ite (by exact h1) h1
    exact inv2_moveParams (inv2_pushNewFrame h2)
  case declFuncEnd => exact h.pop (safe_pop_of hsafe rfl (by intro x hx; cases hx))
  case declExternalFunc n =>
    simp only [step]
    have h1 : Inv2 ((s.popType.1.addFunction n).1).view := inv2_addFunction (s := _) h
    have h2 : Inv2 (if (s.popType.1.addFunction n).2 = true then (s.popType.1.addFunction n).1.error else (s.popType.1.addFunction n).1).view :=
      inv2_ite (by exact h1) h1
    have h3 := inv2_moveParams (inv2_pushNewFrame h2)
    -- the frame just pushed is popped again: it is a fresh frame, not the template's
    refine Inv2.pop h3 ?_
    intro t f0 hc hT hhead
    simp only [BState.view, BState.pushNewFrame, BState.newFrame, BState.pushFrame, List.head?_cons, Option.some.injEq] at hhead
    have := (h3.templFrame t f0 hT).1
    have hl := h2.tframes_lt (List.mem_of_getElem? (by simpa [BState.view] using hT))
    rw [← hhead] at hl
    simp only [BState.view] at hl
    exact Nat.lt_irrefl _ hl
  case declDynamicTemplate n =>
    simp only [step]
    have h0 : Inv2 ({ s with currentTemplate := none } : BState).view := h.clearCur s.frames h.stackBound
    have h1 : Inv2 (if ({ s with currentTemplate := none } : BState).topContains n then ({ s with currentTemplate := none } : BState).error
        else ({ s with currentTemplate := none } : BState)).view := inv2_ite (by exact h0) h0
    exact inv2_resetParams (inv2_addTemplate h1)
  case blockBegin => exact inv2_pushNewFrame h
  case blockEnd => exact h.pop (safe_pop_of hsafe rfl (by intro x hx; cases hx))
  case iterationBegin n => exact inv2_addVariable (s := s.popType.1.pushNewFrame) (inv2_pushNewFrame (s := s.popType.1) h)
  case iterationEnd => exact h.pop (safe_pop_of hsafe rfl (by intro x hx; cases hx))
  case returnStatement a =>
    simp only [step]
    cases s.currentFun with
    | none => exact h
    | some f => cases a <;> exact h
  case procBegin n isTA =>
    simp only [step]
    cases hd : s.findDynamicTemplate n with
    | some t =>
      have hv := view_modifyTempl_frame s t (fun T => { T with isDefined := true }) (fun _ => rfl)
      have h1 : Inv2 ({ s with doc := s.doc.modifyTempl t (fun T => { T with isDefined := true }) } : BState).view := by rw [hv]; exact h
      have hlt : t < s.doc.templates.length := by
        have := List.findIdx?_eq_some_iff_getElem.mp hd
        exact this.1
      obtain ⟨T, hT⟩ : ∃ T, s.doc.templates[t]? = some T := ⟨_, List.getElem?_eq_getElem hlt⟩
      have hT' : ({ s with doc := s.doc.modifyTempl t (fun T => { T with isDefined := true }) } : BState).view.tframes[t]? = some T.frame := by
        rw [hv]; exact templ_frame_view hT
      have hfr : ({ s with doc := s.doc.modifyTempl t (fun T => { T with isDefined := true }) } : BState).declFrame (.templ t) = T.frame := by
        simp [BState.declFrame, Doc.modifyTempl, List.getElem?_modify, hT]
      have h2 := h1.enterTempl t T.frame hT'
      have h3 := inv2_resetParams (s := ({ ({ s with doc := s.doc.modifyTempl t (fun T => { T with isDefined := true }) } : BState) with currentTemplate := some t }).pushFrame T.frame) h2
      rw [hfr]; exact h3
    | none =>
      have h0 : Inv2 (if s.topContains n then s.error else s).view := inv2_ite (by exact h) h
      have h1 := inv2_addTemplate (n := n) (a := isTA) (b := false) h0
      have hsame : ∀ x : BState, x.doc = s.doc → x.store = s.store →
          (x.addTemplate n isTA false).2 = s.doc.templates.length ∧
          (x.addTemplate n isTA false).1.view.tframes[s.doc.templates.length]? = some s.store.length ∧
          (x.addTemplate n isTA false).1.declFrame (.templ s.doc.templates.length) = s.store.length := by
        intro x hd hst
        refine ⟨by simp [BState.addTemplate, hd], ?_, ?_⟩
        · simp [BState.view, BState.addTemplate, BState.addSymbol, BState.newFrame, mkTempl, hd, hst]
        · simp [BState.declFrame, BState.addTemplate, BState.addSymbol, BState.newFrame, mkTempl, hd, hst]
      obtain ⟨hidx, hT', hfr⟩ := hsame (if s.topContains n then s.error else s) (by split <;> rfl) (by split <;> rfl)
      rw [hidx, hfr]
      have h2 := h1.enterTempl s.doc.templates.length s.store.length hT'
      exact inv2_resetParams (s := ({ ((if s.topContains n then s.error else s).addTemplate n isTA false).1 with currentTemplate := some s.doc.templates.length }).pushFrame s.store.length) h2
  case procEnd => exact h.clearCur s.frames.tail (fun f hf => h.stackBound f (List.mem_of_mem_tail hf))
  case procLocation n a b =>
    simp only [step]
    cases hct : (if a = true then (if b = true then s.popFrag else s).popFrag else (if b = true then s.popFrag else s)).currentTemplate with
    | none => cases a <;> cases b <;> exact h
    | some t =>
      simp only
      refine inv2_addLocation (s := _) ?_
      cases a <;> cases b <;> exact h
  case procLocationCommit n =>
    simp only [step]
    cases hr : s.resolveSym n with
    | none => exact h
    | some p =>
      obtain ⟨sid, ⟨nm, ty, u⟩⟩ := p
      cases ty <;> try exact h
      rename_i ur cm
      cases ur
      · exact h.setTy sid _ _ (resolveSym_sym hr) rfl
      · exact h
  case procLocationUrgent n =>
    simp only [step]
    cases hr : s.resolveSym n with
    | none => exact h
    | some p =>
      obtain ⟨sid, ⟨nm, ty, u⟩⟩ := p
      cases ty <;> try exact h
      rename_i ur cm
      cases cm
      · exact h.setTy sid _ _ (resolveSym_sym hr) rfl
      · exact h
  case procLocationInit n =>
    simp only [step]
    split
    · split
      · exact inv2_setInit h _ _
      · exact h
    · exact h
  case procBranchpoint n =>
    simp only [step]
    cases s.currentTemplate with
    | none => exact h
    | some t => exact inv2_addBranchpoint h
  case procEdgeBegin a b c =>
    simp only [step]
    split
    · rename_i fs ts t _ _ _
      have h1 := inv2_pushChild (s := s.fresh.1.fresh.1.fresh.1) h [] (by simp)
      refine inv2_of_view_eq h1 (view_congr rfl rfl rfl rfl rfl rfl ?_ rfl rfl)
      exact map_frame_modify _ _ _ (fun _ => rfl)
    · exact inv2_pushNewFrame h
    · exact inv2_pushNewFrame (s := { s.error with currentEdge := none }) h
  case procEdgeEnd => exact h.pop (safe_pop_of hsafe rfl (by intro x hx; cases hx))
  case procSelect n =>
    simp only [step]
    cases s.currentEdge with
    | none => exact h
    | some p => exact inv2_addSelectSymbol h _ _
  case ganttSelect n => exact inv2_addSelectSymbol h _ _
  case procGuard => exact inv2_setEdge h _
  case procUpdate => exact inv2_setEdge h _
  case procProb => exact inv2_setEdge h _
  case procSync =>
    simp only [step]
    cases s.currentEdge with
    | none => exact h
    | some p => exact inv2_setEdge (s := s.fresh.1) h _
  case ganttDeclBegin => exact inv2_pushNewFrame h
  case ganttDeclEnd => exact h.pop (safe_pop_of hsafe rfl (by intro x hx; cases hx))
  case ganttEntryBegin => exact inv2_pushNewFrame h
  case ganttEntryEnd => exact h.pop (safe_pop_of hsafe rfl (by intro x hx; cases hx))
  case instanceNameBegin =>
    exact inv2_resetParams (s := (s.newFrame (some s.top) (s.frameD s.params).syms).1.pushFrame s.store.length) (inv2_pushChild h _ h.params_plain)
  case instanceNameEnd n => exact h.pop (safe_pop_of hsafe rfl (by intro x hx; cases hx))
  case instantiationBegin a b =>
    simp only [step]
    have h0 : Inv2 (if s.topContains a then s.error else s).view := inv2_ite (by exact h) h
    have h1 : Inv2 (match (if s.topContains a then s.error else s).resolveSym b with
        | some (_, ⟨_, .inst _, _⟩) => (if s.topContains a then s.error else s)
        | some (_, ⟨_, .lscInst _, _⟩) => (if s.topContains a then s.error else s)
        | _ => (if s.topContains a then s.error else s).error).view := by
      cases (if s.topContains a then s.error else s).resolveSym b with
      | none => exact h0
      | some p => obtain ⟨sid, ⟨nm, ty, u⟩⟩ := p; cases ty <;> exact h0
    exact inv2_resetParams (s := _) (inv2_pushChild h1 _ h1.params_plain)
  case instantiationEnd a b n =>
    simp only [step]
    have hp : Inv2 s.popFrame.view := h.pop (safe_pop_of hsafe rfl (by intro x hx; cases hx))
    have key : ∀ (lsc : Bool) (expected : Nat) (user : Option Obj), Inv2
        (if n < expected then s.popFrame.error.popFrag n
         else if n > expected then s.popFrame.error.popFrag n
         else match user.bind s.popFrame.doc.inst? with
           | some old => (s.popFrame.popFrag n).addInstance lsc a old (s.frameD s.top).syms
               ((List.range n).map (fun i => s.popFrame.fragments.getD (n - 1 - i) 0))
           | none => s.popFrame.popFrag n).view := by
      intro lsc expected user
      refine inv2_ite (by exact hp) (inv2_ite (by exact hp) ?_)
      cases user.bind s.popFrame.doc.inst? with
      | none => exact hp
      | some old => exact inv2_addInstance (s := s.popFrame.popFrag n) hp _ _ _ _ _
    cases s.popFrame.resolveSym b with
    | none => exact hp
    | some p =>
      obtain ⟨sid, ⟨nm, ty, u⟩⟩ := p
      cases ty <;> first | exact key _ _ _ | exact hp
  case process n =>
    simp only [step]
    split
    · split
      · exact inv2_addProcess h _
      · exact h
    · exact h
  all_goals exact h

end UtapModel.Builder
