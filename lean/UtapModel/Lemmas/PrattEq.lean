/- Unfolding equations of the Pratt parser model (Model/Pratt.lean) and fuel monotonicity. -/
import UtapModel.Model.Pratt

namespace UtapModel.Pratt

variable (T : Tbl)

/-- unfold one step of the fuel-indexed mutual definitions -/
macro "unf" : tactic => `(tactic| (simp only [parseE, loop, parseTail]; try rfl))

theorem parseE_zero (q ts) : parseE T 0 q ts = none := by simp [parseE]
theorem loop_zero (q l ts) : loop T 0 q l ts = none := by simp [loop]
theorem parseTail_zero (ts) : parseTail T 0 ts = none := by simp [parseTail]

theorem parseE_atom (f q a r) : parseE T (f+1) q (.atom a :: r) = loop T f q (.atom a) r := by
  unf

theorem parseE_intMin (f q t r) : parseE T (f+1) q (.sym t :: .posNegMax :: r) =
    if T.isPre t && T.isMinus t then loop T f q (.atom .intMin) r else none := by
  unf

/-- a token list that does not begin with the literal 2147483648 -/
def NoPNM : List Tok → Prop
  | .posNegMax :: _ => False
  | _ => True

theorem parseE_sym (f q t r) (h : NoPNM r) : parseE T (f+1) q (.sym t :: r) =
    if T.isPre t then
      match parseE T f (T.mn (T.pp t)) r with
      | some (e, r') => loop T f q (if T.prePlus t then e else .pre t e) r'
      | none => none
    else none := by
  cases r with
  | nil => simp only [parseE]; try rfl
  | cons x xs =>
    cases x
    case posNegMax => simp [NoPNM] at h
    all_goals (simp only [parseE]; try rfl)

theorem parseE_quant (f q k id ty r) : parseE T (f+1) q (.quant k id ty :: r) =
    match parseE T f (T.mn (T.quantL k)) r with
    | some (e, r') => loop T f q (.quant k id ty e) r'
    | none => none := by
  unf

theorem parseE_lp (f q r) : parseE T (f+1) q (.lp :: r) =
    match parseE T f 0 r with
    | some (e, .rp :: r') => loop T f q e r'
    | _ => none := by
  unf

theorem parseE_fn1 (f q k r) : parseE T (f+1) q (.fn k 1 :: .lp :: r) =
    match parseE T f 0 r with
    | some (a, .rp :: r') => loop T f q (.fn1 k a) r'
    | _ => none := by
  unf

theorem parseE_fn2 (f q k r) : parseE T (f+1) q (.fn k 2 :: .lp :: r) =
    match parseE T f 0 r with
    | some (a, .comma :: r1) =>
      match parseE T f 0 r1 with
      | some (b, .rp :: r') => loop T f q (.fn2 k a b) r'
      | _ => none
    | _ => none := by
  unf

theorem parseE_fn3 (f q k r) : parseE T (f+1) q (.fn k 3 :: .lp :: r) =
    match parseE T f 0 r with
    | some (a, .comma :: r1) =>
      match parseE T f 0 r1 with
      | some (b, .comma :: r2) =>
        match parseE T f 0 r2 with
        | some (c, .rp :: r') => loop T f q (.fn3 k a b c) r'
        | _ => none
      | _ => none
    | _ => none := by
  unf

theorem loop_sym (f q l t r) : loop T (f+1) q l (.sym t :: r) =
    if T.isBin t && decide (q ≤ T.bp t) then
      match parseE T f (T.mn (T.bp t)) r with
      | some (rhs, r') => loop T f q (T.mkBin t l rhs) r'
      | none => none
    else if T.isPost t && decide (q ≤ T.sp t) then loop T f q (.post t l) r
    else some (l, .sym t :: r) := by
  unf

theorem loop_quest (f q l r) : loop T (f+1) q l (.quest :: r) =
    if q ≤ T.questL then
      match parseE T f 0 r with
      | some (a, .colon :: r1) =>
        match parseE T f (T.mn T.ternL) r1 with
        | some (b, r') => loop T f q (.tern l a b) r'
        | none => none
      | _ => none
    else some (l, .quest :: r) := by
  unf

theorem loop_lb (f q l r) : loop T (f+1) q l (.lb :: r) =
    if q ≤ T.topL then
      match parseE T f 0 r with
      | some (i, .rb :: r') => loop T f q (.index l i) r'
      | _ => none
    else some (l, .lb :: r) := by
  unf

theorem loop_lp (f q l r) : loop T (f+1) q l (.lp :: r) =
    if q ≤ T.topL then
      match argsAfterLp T f r with
      | some (args, r') => loop T f q (.call l args) r'
      | none => none
    else some (l, .lp :: r) := by
  cases r with
  | nil => simp only [loop, argsAfterLp]; repeat' (first | rfl | split)
  | cons x xs =>
    cases x <;> simp only [loop, argsAfterLp] <;> repeat' (first | rfl | split)

theorem loop_dot (f q l n r) : loop T (f+1) q l (.dot n :: r) =
    if q ≤ T.topL then loop T f q (.dot n l) r else some (l, .dot n :: r) := by
  unf

theorem loop_dotLoc (f q l r) : loop T (f+1) q l (.dotLoc :: r) =
    if q ≤ T.topL then loop T f q (.dotLoc l) r else some (l, .dotLoc :: r) := by
  unf

/-- would the continuation loop at minimum level `m` consume the head of `ts`? -/
def contAt (m : Nat) : List Tok → Bool
  | .sym t :: _ => (T.isBin t && decide (m ≤ T.bp t)) || (T.isPost t && decide (m ≤ T.sp t))
  | .quest :: _ => decide (m ≤ T.questL)
  | .lb :: _ => decide (m ≤ T.topL)
  | .lp :: _ => decide (m ≤ T.topL)
  | .dot _ :: _ => decide (m ≤ T.topL)
  | .dotLoc :: _ => decide (m ≤ T.topL)
  | _ => false

theorem loop_stop (f q l ts) (h : contAt T q ts = false) : loop T (f+1) q l ts = some (l, ts) := by
  cases ts with
  | nil => simp only [loop]
  | cons x xs =>
    cases x with
    | sym t =>
      rw [loop_sym]
      simp only [contAt, Bool.or_eq_false_iff] at h
      simp [h.1, h.2]
    | quest => rw [loop_quest]; simp only [contAt, decide_eq_false_iff_not] at h; simp [h]
    | lb => rw [loop_lb]; simp only [contAt, decide_eq_false_iff_not] at h; simp [h]
    | lp => rw [loop_lp]; simp only [contAt, decide_eq_false_iff_not] at h; simp [h]
    | dot n => rw [loop_dot]; simp only [contAt, decide_eq_false_iff_not] at h; simp [h]
    | dotLoc => rw [loop_dotLoc]; simp only [contAt, decide_eq_false_iff_not] at h; simp [h]
    | _ => simp only [loop]

/-- token lists that begin with the first token of an operand -/
def OpStart : List Tok → Prop
  | .atom _ :: _ => True
  | .sym _ :: _ => True
  | .quant _ _ _ :: _ => True
  | .lp :: _ => True
  | .fn _ _ :: _ => True
  | _ => False

theorem argsAfterLp_rp (f r) : argsAfterLp T f (.rp :: r) = some (.anil, r) := by simp only [argsAfterLp]
theorem argsAfterLp_other (f ts) (h : OpStart ts) : argsAfterLp T f ts =
    match parseE T f 0 ts with
    | some (e, r1) =>
      match parseTail T f r1 with
      | some (rest, r') => some (.acons e rest, r')
      | none => none
    | none => none := by
  cases ts with
  | nil => simp [OpStart] at h
  | cons x xs =>
    cases x
    case atom => simp only [argsAfterLp]; try rfl
    case sym => simp only [argsAfterLp]; try rfl
    case quant => simp only [argsAfterLp]; try rfl
    case lp => simp only [argsAfterLp]; try rfl
    case fn => simp only [argsAfterLp]; try rfl
    all_goals simp [OpStart] at h

theorem parseTail_rp (f r) : parseTail T (f+1) (.rp :: r) = some (.anil, r) := by unf
theorem parseTail_comma (f r) : parseTail T (f+1) (.comma :: r) =
    match parseE T f 0 r with
    | some (e, r1) =>
      match parseTail T f r1 with
      | some (rest, r') => some (.acons e rest, r')
      | none => none
    | none => none := by
  unf

end UtapModel.Pratt
