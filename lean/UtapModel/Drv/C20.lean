/- Line-protocol driver of C20: reads documents (as the C++ harness dumped them before handing them to the real
   `write_XML_file`) and prints what the model of the writer predicts an independent reader finds in the written file
   ("W" lines, or CRASH), the graph the document denotes ("G" lines = the specification) and the computed exception
   shapes.  Format: see checks/c20.py `lean_doc_lines`. -/
import UtapModel.Model.XmlWriteCfg
open UtapModel.AM

structure PS where
  d : WDoc := { templs := [] }
  t : Option WTempl := none

def ltxt (s : String) : Option LTxt :=
  if s = "-" then none
  else if s = "1" then some .one
  else if s.startsWith "A:" then some (.andOne (s.drop 2).toString)
  else some (.plain (s.drop 2).toString)

def wend (s : String) : WEnd :=
  let n := (s.drop 1).toString.toNat!
  if s.startsWith "L" then .loc n else .bp n

def modLast' {α} (f : α → α) : List α → List α
  | [] => []
  | [a] => [f a]
  | a :: r => a :: modLast' f r

def feed (s : PS) (ws : List String) : PS :=
  let inT (f : WTempl → WTempl) : PS := { s with t := s.t.map f }
  match ws with
  | ["templ", n] => { s with t := some { name := n, locs := [], bps := [], init := none, edges := [] } }
  | ["loc", n, fl, inv, rate] =>
    inT fun t => { t with locs := t.locs ++ [{ name := n, inv := ltxt inv, rate := ltxt rate,
                                               urgent := fl = "U" || fl = "B", committed := fl = "C" || fl = "B" }] }
  | ["bp", n] => inT fun t => { t with bps := t.bps ++ [n] }
  | ["init", n] => inT fun t => { t with init := if n = "-" then none else some n.toNat! }
  | ["edge", a, b, c, g, sy, asg, p] =>
    inT fun t => { t with edges := t.edges ++ [{ src := wend a, dst := wend b, ctrl := c = "1", select := [], guard := ltxt g,
                                                 sync := ltxt sy, assign := ltxt asg, prob := ltxt p }] }
  | ["sel", id, ty, nm] =>
    inT fun t => { t with edges := modLast' (fun e => { e with select := e.select ++ [{ id := id, ty := ty, named := nm = "1" }] }) t.edges }
  | ["endtempl"] =>
    match s.t with
    | some t => { d := { s.d with templs := s.d.templs ++ [t] }, t := none }
    | none => s
  | ["proc", n, it, bs] =>
    { s with d := { s.d with procs := s.d.procs ++ [{ name := n, isTempl := it = "1", bound := (bs.toList.filter (· ≠ '-')).map (· = '1') }] } }
  | _ => s

def tilde (s : String) : String := s.map (fun c => if c = ' ' then '~' else c)
def optS (o : Option String) : String := match o with | some s => tilde s | none => "-"
def flagS : Flag → String
  | .none => "-"
  | .urgent => "U"
  | .committed => "C"
  | .both => "UC"

def graphLines (pfx : String) (g : Graph) : List String :=
  g.flatMap fun t =>
    [s!"{pfx} template {optS t.name}"] ++
    t.locs.map (fun l => s!"{pfx} location id={optS l.id} name={optS l.name} flag={flagS l.flag} inv={optS l.inv} rate={optS l.rate}") ++
    t.inits.map (fun i => s!"{pfx} init ref={optS i}") ++
    t.edges.map (fun e =>
      s!"{pfx} transition {optS e.src} -> {optS e.tgt} controllable={if e.ctrl then "1" else "0"}" ++
      String.join (e.labels.map (fun l => s!" {l.1}={tilde l.2}")))

def shapeS : Shape → String
  | .probabilityDropped => "edge:probability-not-written"
  | .selectBindingsDropped => "edge:select-bindings-after-first-not-written"
  | .selectTypeDropped => "edge:select-type-not-written"
  | .controllableDropped => "edge:controllable-false-not-written"
  | .branchpointEndpoint => "crash:branchpoint-endpoint-null-location"
  | .urgentAndCommitted => "location:urgent-and-committed"
  | .noInit => "crash:template-without-init"
  | .unboundProcess => "crash:process-with-unbound-parameters"

def report (id : String) (d : WDoc) : List String :=
  let c := cfgOfSource
  -- the same writer with the crash sites repaired (branchpoints written, free process parameters tolerated): used by the
  -- check only when the real writer survives a document on which the model of the current source predicts a crash
  let cf : WCfg := { c with bps := true }
  [s!"BEGIN {id}", s!"CFG prob={c.prob} ctrl={c.ctrl} bps={c.bps}",
   "SHAPES " ++ " ".intercalate ((docShapes c d).eraseDups.map shapeS)] ++
  (match writeXml c d with
   | none => ["CRASH"]
   | some x => graphLines "W" (readGraph x)) ++
  (match writeXml cf { d with procs := [] } with
   | none => []
   | some x => graphLines "V" (readGraph x)) ++
  graphLines "G" (graphOf c d) ++ graphLines "H" (graphOf cf d) ++ [s!"END {id}"]

partial def loop (h out : IO.FS.Stream) (id : String) (ps : PS) : IO Unit := do
  let line ← h.getLine
  if line.isEmpty then return ()
  let ws := (line.trimAscii.toString.splitOn " ").filter (· ≠ "")
  match ws with
  | ["model", i] => loop h out i {}
  | ["end"] =>
    for l in report id ps.d do out.putStrLn l
    loop h out id {}
  | _ => loop h out id (feed ps ws)

def main : IO Unit := do
  loop (← IO.getStdin) (← IO.getStdout) "?" {}
