/- stub: line-protocol driver for C08 (to be written) -/
def main : IO Unit := pure ()
