"""C13 -- sizes, bounds, initialisers and value arguments must be compile-time computable (DESIGN.md section 4, C13).

 1 translate   same translator as C11 (translate/effects.py): collect_possible_reads, the statement visitor,
               visitFunction, isCompileTimeComputable, CompileTimeComputableValues, StatementBuilder::collectDependencies,
               visitProcess; checkType (children of a type that are checked), every call of checkType, strip_array and the
               variable branch of Document::accept's frame walk -> lean/UtapModel/Gen/EffectGen.lean
 2 prove       UtapModel.Props.C13: an accepted compile-time context depends on constants only (through function bodies
               and initialisers, any depth); `restricted` closure complete for initialiser chains; exception set computed;
               every size / bound anywhere in a type reaches the checks (Model/TypeWalk.lean: C13_type_bounds_checked,
               C13_type_sites_complete, C13_strip_array_reaches_base)
 3 correspond  real function bodies / context expressions / template restricted sets (harness/c13.cpp) through the Lean
               model (drv_c13): depends sets, isCompileTimeComputable, restricted sets compared one by one
 4 search      direct oracle on the implementation: compile-time contexts (also behind typedef names between array levels,
               in initialisers of such variables, in the range of quantifier binders with any body) x dependence chains of
               length 0..4 to a mutable variable must be rejected, the same chain ending in a constant accepted; free
               process parameters reaching an array size must be rejected; witnesses of the exception set replayed
"""
import os
import re
import sys

from vlib import core

sys.path.insert(0, os.path.join(core.VERIF, "translate"))
import effects  # noqa: E402
from checks import c11gen as G  # noqa: E402
from checks import c11 as C11  # noqa: E402

GEN = os.path.join(core.LEAN_DIR, "UtapModel", "Gen", "EffectGen.lean")
MODULE = "UtapModel.Props.C13"
MAX_REPORTED = 20      # distinct failing shapes written as replays per run (all are counted in the evidence)
PID = "C13"
NC = G.NC
IA = "$Incompatible_argument"
FP = "$Free_process_parameters_must_not_be_used_directly_or_indirectly_in_an_array_declaration_or_select_expression"

BASE = """int w; int x; int arr[3]; struct { int a; int b; } st; bool bb; clock c; chan ch; chan cha[4];
const int C = 2; const int CA[3] = {0, 1, 2}; const struct { int a; int b; } CS = {1, 2};
"""


def ct_contexts():
    """name -> (function e -> kwargs for the model builders, allowed diagnostics, needs_template_scope)"""
    c = {}
    c["array-size/global"] = (lambda e: dict(gpost="int z[%s];" % e), [NC])
    c["array-size/template"] = (lambda e: dict(tdecl="int z[%s];" % e), [NC])
    c["array-size/function-local"] = (lambda e: dict(gpost="void lf() { int z[%s]; z[0] = 1; }" % e), [NC])
    c["array-size/struct-field"] = (lambda e: dict(gpost="struct { int f[%s]; } sv;" % e), [NC])
    c["array-size/typedef"] = (lambda e: dict(gpost="typedef int TA[%s]; TA z;" % e), [NC])
    c["array-size/2nd-dimension"] = (lambda e: dict(gpost="int z[2][%s];" % e), [NC])
    c["range-bound/upper"] = (lambda e: dict(gpost="int[0, %s] z;" % e), [NC])
    c["range-bound/lower"] = (lambda e: dict(gpost="int[%s, 100] z;" % e), [NC])
    c["range-bound/typedef"] = (lambda e: dict(gpost="typedef int[0, %s] T; typedef T T2; T2 z;" % e), [NC])
    c["range-bound/select"] = (lambda e: dict(select="i : int[0, %s]" % e), [NC])
    c["range-bound/function-parameter"] = (lambda e: dict(gpost="void pf(int[0, %s] q) { }" % e), [NC])
    c["range-bound/iteration"] = (lambda e: dict(gpost="void itf() { int acc = 0; for (i : int[0, %s]) { acc += i; } }" % e), [NC])
    c["range-bound/quantifier-binder"] = (lambda e: dict(guard="forall (i : int[0, %s]) i >= 0" % e), [NC])
    c["range-bound/array-element"] = (lambda e: dict(gpost="int[0, %s] z[2];" % e), [NC])
    c["scalar-set-size"] = (lambda e: dict(gpost="typedef scalar[%s] S; S sv;" % e), [NC])
    c["initialiser/global"] = (lambda e: dict(gpost="int y = %s;" % e), [NC])
    c["initialiser/global-const"] = (lambda e: dict(gpost="const int y = %s;" % e), [NC])
    c["initialiser/template"] = (lambda e: dict(tdecl="int y = %s;" % e), [NC])
    c["initialiser/array-element"] = (lambda e: dict(gpost="int y[2] = {1, %s};" % e), [NC])
    c["initialiser/struct-field"] = (lambda e: dict(gpost="struct { int a; int b; } y = {%s, 1};" % e), [NC])
    # a matrix of rows: the element type of the array is a typedef NAME of another array type (or of a record), so the inner
    # sizes / bounds sit behind a name between two array levels, and the initialiser belongs to a variable of such a type
    c["array-size/row-typedef"] = (lambda e: dict(gpost="typedef int row_t[%s]; row_t z[2];" % e), [NC])
    c["array-size/row-typedef-template"] = (lambda e: dict(tdecl="typedef int row_t[%s]; row_t z[2];" % e), [NC])
    c["array-size/row-typedef-twice"] = (lambda e: dict(gpost="typedef int row_t[%s]; typedef row_t mat_t[2]; mat_t z[2];" % e), [NC])
    c["array-size/row-typedef-function-local"] = (lambda e: dict(gpost="typedef int row_t[%s]; void lf() { row_t z[2]; z[0][0] = 1; }" % e), [NC])
    c["range-bound/row-typedef-cell"] = (lambda e: dict(gpost="typedef int[0, %s] cell_t; typedef cell_t row_t[2]; row_t z[2];" % e), [NC])
    c["initialiser/matrix-of-rows"] = (lambda e: dict(gpost="typedef int row_t[2]; row_t y[2] = {{1, %s}, {1, 2}};" % e), [NC])
    c["initialiser/matrix-of-rows-template"] = (lambda e: dict(tdecl="typedef int row_t[2]; row_t y[2] = {{1, %s}, {1, 2}};" % e), [NC])
    c["initialiser/matrix-of-rows-const"] = (lambda e: dict(gpost="typedef int row_t[2]; const row_t y[2] = {{1, %s}, {1, 2}};" % e), [NC])
    c["initialiser/matrix-of-rows-meta"] = (lambda e: dict(gpost="typedef int row_t[2]; meta row_t y[2] = {{1, %s}, {1, 2}};" % e), [NC])
    c["initialiser/array-of-record-typedef"] = (lambda e: dict(gpost="typedef struct { int a[2]; int b; } rec_t; "
                                                               "rec_t y[2] = {{{1, %s}, 1}, {{1, 2}, 2}};" % e), [NC])
    # the range of a quantifier binder is not an operand of the quantified expression: whatever the body is (the binder itself, an
    # expression of another type, a constant), the bounds of the binder have to be computable on their own
    c["range-bound/sum-binder-scaled-body"] = (lambda e: dict(guard="(sum (i : int[0, %s]) 2 * i) >= 0" % e), [NC])
    c["range-bound/sum-binder-constant-body"] = (lambda e: dict(guard="(sum (i : int[0, %s]) C) >= 0" % e), [NC])
    c["range-bound/sum-binder-in-initialiser"] = (lambda e: dict(gpost="int y = sum (i : int[0, %s]) (i + 1);" % e), [NC])
    c["range-bound/sum-binder-in-array-size"] = (lambda e: dict(gpost="int z[(sum (i : int[0, %s]) C) + 1];" % e), [NC])
    c["range-bound/sum-binder-in-function"] = (lambda e: dict(gpost="int qf() { return sum (i : int[0, %s]) (i > 0 ? 1 : 0); }" % e), [NC])
    c["range-bound/sum-binder-nested"] = (lambda e: dict(guard="(sum (i : int[0, 1]) sum (j : int[0, %s]) (i + j)) >= 0" % e), [NC])
    c["range-bound/sum-binder-in-argument"] = (lambda e: dict(params="const int n", system="Q = P(sum (i : int[0, %s]) 2 * i);\nsystem Q;" % e), [IA, NC])
    c["range-bound/forall-binder-other-body"] = (lambda e: dict(guard="forall (i : int[0, %s]) 2 * i >= 0" % e), [NC])
    c["range-bound/exists-binder-constant-body"] = (lambda e: dict(guard="exists (i : int[0, %s]) CA[1] >= 0" % e), [NC])
    c["argument/by-value"] = (lambda e: dict(params="int n", system="Q = P(%s);\nsystem Q;" % e), [IA])
    c["argument/by-value-const"] = (lambda e: dict(params="const int n", system="Q = P(%s);\nsystem Q;" % e), [IA])
    c["argument/const-reference"] = (lambda e: dict(params="const int &n", system="Q = P(%s);\nsystem Q;" % e), [IA])
    return c


PLACEMENT_VARIANTS = ("row-typedef", "matrix-of-rows", "array-of-record", "sum-binder", "forall-binder", "exists-binder")

READ_FORMS = {  # statement form in which the function reads %(R)s
    "return": "return %(R)s;",
    "local-init": "int li = %(R)s; return li;",
    "if-cond": "if (%(R)s > 0) { loc = 1; } return loc;",
    "if-else-branch": "if (C > 0) { loc = 1; } else { loc = %(R)s; } return loc;",
    "for-cond": "for (loc = 0; loc < %(R)s; loc++) { loc = loc + 0; } return loc;",
    "for-init": "for (loc = %(R)s; loc < 2; loc++) { loc = loc + 0; } return loc;",
    "for-step": "for (loc = 0; loc < 2; loc += %(R)s + 1) { loc = loc + 0; } return loc;",
    "while-cond": "while (loc < %(R)s) { loc++; } return loc;",
    "while-body": "while (loc < 2) { loc += %(R)s + 1; } return loc;",
    "do-cond": "do { loc++; } while (loc < %(R)s); return loc;",
    "do-body": "do { loc += %(R)s + 1; } while (loc < 2); return loc;",
    "iteration-body": "for (it : int[0,1]) { loc += %(R)s; } return loc;",
    "nested-block": "{ { int inner = %(R)s; loc = inner; } } return loc;",
    "assert": "assert(%(R)s >= 0); return loc;",
    "array-index": "return CA[%(R)s];",
    "argument": "return idf(%(R)s);",
    "ref-argument-read": None,
}


def reader(name, form, r, params=""):
    return "int %s(%s) { int loc = 0; %s }" % (name, params, READ_FORMS[form] % {"R": r})


def chains(r, end, depth, scope_template=False):
    """declarations (text) and an expression whose value depends on `end` through `depth` links; link kinds random:
    function body (random statement form) or constant initialiser.  Returns (decl_text, expr, kinds)."""
    decl, e, kinds = ["int idf(int q) { return q; }"], end, []
    for d in range(depth):
        k = r.choice(["fun", "fun", "init", "void-out", "local-array"])
        if k == "local-array":
            # the value is read only inside the initialiser of a function-local array (or array of structs)
            if r.random() < 0.5:
                decl.append("int cf%d() { int t[2] = {%s, 0}; return t[0]; }" % (d, e))
            else:
                decl.append("int cf%d() { { struct { int u; int v; } t[2] = {{%s, 1}, {2, 3}}; return t[0].u; } }" % (d, e))
            e = "cf%d()" % d
        elif k == "void-out":
            # the value travels through a *void* helper with an out-parameter: only the helper's read set carries the dependence
            decl.append("void vh%d(int &out) { out = %s; }" % (d, e))
            decl.append("int cf%d() { int t = 0; vh%d(t); return t; }" % (d, d))
            e = "cf%d()" % d
        elif k == "fun":
            form = r.choice([f for f in READ_FORMS if READ_FORMS[f]])
            decl.append(reader("cf%d" % d, form, e))
            e = "cf%d()" % d
        else:
            decl.append("const int CK%d = %s;" % (d, e))
            e = "CK%d" % d
        kinds.append(k)
    return "\n".join(decl) + "\n", e, kinds


MUT_ENDS = ["w", "arr[1]", "st.a", "arr[x]", "(bb ? 1 : w)", "w + C", "CA[w]"]
CONST_ENDS = ["C", "CA[1]", "CS.a", "3", "(C > 1 ? 1 : C)", "C + C", "CA[C]"]


def build(cid, kw, expect, allowed, shape, fmt, queries=()):
    kw = dict(kw)
    gpost = kw.pop("gpost", "")
    gpre = kw.pop("gpre", "")
    kw["gdecl"] = BASE + gpre + gpost + "\n"
    if fmt == "xml":
        text, kind = G.xml_model(**kw), "xml"
    else:
        text, kind = G.xta_model(**kw), "xta"
    return G.Case(cid, kind, text, list(queries), expect, allowed if expect == "reject" else [], shape)


def gen_chains(ctx):
    r = ctx.rng
    cases, n = [], 0
    for cn, (mk, allowed) in ct_contexts().items():
        for depth in (0, 1, 2, 3, 4):
            reps = 8 if not ctx.thorough else 24
            if cn.split("/")[-1].startswith(PLACEMENT_VARIANTS) and not ctx.thorough:
                reps = 4      # these differ from a context above in where the expression stands only
            for rep in range(reps):
                i = r.randrange(len(MUT_ENDS))
                st = r.getstate()
                for twin in (False, True):
                    end = CONST_ENDS[i] if twin else MUT_ENDS[i]
                    r.setstate(st)      # the twin makes the same random choices
                    decl, e, kinds = chains(r, end, depth)
                    kw = mk(e)
                    if "tdecl" in kw and rep % 2:
                        kw["tdecl"] = decl + kw["tdecl"]     # template-level context: the chain lives in the template as well
                    else:
                        kw["gpre"] = decl
                    n += 1
                    # a chain through a constant initialiser is rejected at that constant, with $Must_be_computable...
                    al = allowed + ([NC] if "init" in kinds else [])
                    cases.append(build("k%d" % n, kw, "accept" if twin else "reject", al,
                                       "ctx=%s/chain-depth-%d/%s/%s" % (cn, depth, "+".join(kinds) or "direct", "twin" if twin else "mutable"),
                                       "xta" if n % 4 == 0 else "xml"))
    return cases


def gen_template_level(ctx):
    """chains that live entirely inside the template and end in a template-level variable / constant"""
    r = ctx.rng
    cases, n = [], 0
    tctx = {
        "array-size/template": lambda e: dict(tpost="int z[%s];" % e),
        "initialiser/template": lambda e: dict(tpost="int y = %s;" % e),
        "range-bound/template": lambda e: dict(tpost="int[0, %s] y;" % e),
        "range-bound/select": lambda e: dict(select="i : int[0, %s]" % e),
        "array-size/template-function-local": lambda e: dict(tpost="void lf() { int z[%s]; z[0] = 1; }" % e),
        "scalar-set-size/template": lambda e: dict(tpost="typedef scalar[%s] S; S sv;" % e),
        # a type NAME is not unique: a template may reuse the name of a global typedef, and one template may declare several scalar sets
        "range-bound/typedef-shadows-global": lambda e: dict(gpost="typedef int[0,3] GT; GT gx;", tpost="typedef int[0, %s] GT; GT sy;" % e),
        "array-size/typedef-shadows-global": lambda e: dict(gpost="typedef int GA[2]; GA ga;", tpost="typedef int GA[%s]; GA sa;" % e),
        "scalar-set-size/second-in-template": lambda e: dict(tpost="typedef scalar[2] SA; SA ssa; typedef scalar[%s] SB; SB ssb;" % e),
    }
    for cn, mk in tctx.items():
        for depth in (0, 1, 2, 3):
            for rep in range(4 if not ctx.thorough else 12):
                st = r.getstate()
                for twin in (False, True):
                    r.setstate(st)
                    decl, e, kinds = chains(r, "TC" if twin else "tv", depth)
                    kw = mk(e)
                    kw["tdecl"] = "int tv; const int TC = 3;\n" + decl + kw.pop("tpost", "")
                    n += 1
                    cases.append(build("t%d" % n, kw, "accept" if twin else "reject", [NC],
                                       "ctx=%s/template-chain-depth-%d/%s/%s" % (cn, depth, "+".join(kinds) or "direct", "twin" if twin else "mutable"),
                                       "xta" if n % 3 == 0 else "xml"))
    return cases


def gen_template_params(ctx):
    """dependence on template parameters: which parameter kinds count as constants"""
    cases, n = [], 0
    uses = {
        "array-size": "int z[%s];", "initialiser": "int y = %s;", "range-bound": "int[0, %s] z;",
        "via-const-initialiser": "const int K = %s; int z[K];", "via-function": "int pf() { return %s; }\nint z[pf()];",
    }
    params = {  # declaration, argument, is a compile-time constant
        "by-value-const": ("const int p", "2", True), "by-value": ("int p", "2", False), "reference": ("int &p", "w", False),
        "const-reference": ("const int &p", "C", False), "by-value-const-bounded": ("const int[0,5] p", "2", True),
    }
    for un, ut in uses.items():
        for pn, (pd, arg, const) in params.items():
            n += 1
            kw = dict(params=pd, tdecl=ut % "p", system="Q = P(%s);\nsystem Q;" % arg)
            cases.append(build("p%d" % n, kw, "accept" if const else "reject", [NC],
                               "template-parameter/%s/%s" % (pn, un), "xta" if n % 3 == 0 else "xml"))
    # double constants are deliberately not in the computable set
    cases.append(build("p%d" % (n + 1), dict(params="const double p", tdecl="double y = p;", system="Q = P(1.5);\nsystem Q;"), "reject", [NC],
                       "template-parameter/by-value-const-double/initialiser", "xml"))
    # partial instantiation: the argument of a by-value parameter depends on the new instance's own parameter
    for pd, const in (("const int k", True), ("int k", False), ("int &k", False)):
        n += 2
        cases.append(build("p%d" % n, dict(params="const int p", tdecl="int y = p;", system="Q(%s) = P(k + 1);\nR = Q(%s);\nsystem R;" % (pd, "w" if "&" in pd else "1")),
                           "accept" if const else "reject", [IA], "partial-instantiation/argument-depends-on/%s" % pd.replace(" ", "-"), "xml"))
    return cases


def gen_free_params(ctx):
    """a free (unbound) process parameter must never reach an array size / scalar-set size"""
    r = ctx.rng
    cases, n = [], 0
    routes = {  # template declarations using N in an array size, by which route
        "direct": "int a[N];",
        "expression": "int a[N * 2 + 1];",
        "const-initialiser": "const int M = N; int a[M];",
        "const-initialiser-chain-3": "const int M1 = N + 1; const int M2 = M1; const int M3 = M2 * 2; int a[M3];",
        "typedef-range": "typedef int[0, N] T; int a[T];",
        "typedef-array": "typedef int TA[N]; TA a;",
        "scalar-set": "typedef scalar[N] S; S sv;",
        "function-local-array": "void lf() { int b[N]; b[0] = 1; }",
        "struct-field-array": "struct { int f[N]; } sv;",
        "second-dimension": "int a[2][N];",
        "array-initialiser-const": "const int MA[2] = {N, 1}; int a[MA[0]];",
    }
    twins = {  # N used, but not in an array size
        "initialiser": "int y = N;", "range-bound": "int[0, N] y;", "element-range": "int[0, N] a[2];",
        "function-body": "int rf() { return N; }", "guard-only": "",
    }
    fun_routes = {  # known finding: through a function body
        "function-body": "int nf() { return N; }\nint a[nf()];",
        "function-body-chain-2": "int nf() { return N; }\nint ng() { return nf() + 1; }\nint a[ng()];",
        "function-body-then-const": "int nf() { return N; }\nconst int M = nf(); int a[M];",
    }
    for rn, td in routes.items():
        for how, system, exp in (("free", "system P;", "reject"), ("bound", "Q = P(2);\nsystem Q;", "accept"),
                                 ("partial-instance-free", "Q(const int[1,3] k) = P(k);\nsystem Q;", "reject"),
                                 ("partial-instance-chain-free", "Q(const int[1,3] k) = P(k);\nR(const int[1,3] k2) = Q(k2 + 0);\nsystem R;", "reject"),
                                 ("partial-instance-bound", "Q(const int[1,3] k) = P(k);\nR = Q(1);\nsystem R;", "accept")):
            n += 1
            cases.append(build("f%d" % n, dict(params="const int[1,3] N", tdecl=td, system=system), exp, [FP],
                               "free-parameter/%s/%s" % (rn, how), "xta" if n % 3 == 0 else "xml"))
    for tn, td in twins.items():
        n += 1
        cases.append(build("f%d" % n, dict(params="const int[1,3] N", tdecl=td, guard="N > 0", system="system P;"), "accept", [],
                           "free-parameter/twin/%s" % tn, "xml"))
    for rn, td in fun_routes.items():
        n += 1
        cases.append(build("f%d" % n, dict(params="const int[1,3] N", tdecl=td, system="system P;"), "reject", [FP],
                           "free-parameter/%s/free" % rn, "xml"))
    return cases


def gen_random_builtin(ctx):
    cases = []
    forms = {
        "root": ("const double d = random(1.0);", "reject"),
        "nested-operand": ("const double d = 1.0 + random(1.0);", "reject"),
        "nested-argument": ("int z[fint(random(3.0)) + 1];", "reject"),
        "via-function-body": ("double rf() { return random(1.0); }\nconst double d = rf();", "reject"),
        "twin": ("const double d = 1.0 + 2.0;", "accept"),
    }
    for i, (fn, (decl, exp)) in enumerate(forms.items()):
        cases.append(build("b%d" % i, dict(gpost=decl), exp, [NC], "random-builtin/%s" % fn, "xml"))
    return cases


GLOBAL_RE = re.compile(r"\b(g[0-3]|ga|gs)\b")


def gen_random_programs(ctx):
    r = ctx.rng
    cases = []
    nprog = 800 if not ctx.thorough else 6000
    for pi in range(nprog):
        prog = C11.RandProg(r, r.randint(2, 6), shadow=0.3)
        # which globals each function touches, transitively (independent of the library: regex over the generated text -- the text
        # before a parameter / local was given the name of a global only the callees touch)
        touch = {}
        for name, _, params in prog.funs:
            text = prog.plain[name]
            body = text[text.index("{"):]
            t = set(GLOBAL_RE.findall(body))
            for other in touch:
                if re.search(r"\b%s\(" % other, body):
                    t |= touch[other]
            touch[name] = t
        fi = r.randrange(len(prog.funs))
        name, _, params = prog.funs[fi]
        args, t = [], set(touch[name])
        for pn, mode in params:
            if mode == "ref":
                txt, root = prog.lval_global()
                args.append(txt)
                t |= set(GLOBAL_RE.findall(txt))
            else:
                args.append(r.choice(["1", "CC"]))
        e = "%s(%s)" % (name, ", ".join(args))
        where = r.choice(["array-size", "initialiser", "range-bound", "argument"])
        kw = dict(gdecl=prog.decls())
        if where == "array-size":
            kw["gdecl"] += "int z[%s];\n" % e
        elif where == "initialiser":
            kw["gdecl"] += "int y = %s;\n" % e
        elif where == "range-bound":
            kw["select"] = "i : int[0, %s]" % e
        else:
            kw.update(params="const int n", system="Q = P(%s);\nsystem Q;" % e)
        text, kind = (G.xml_model(**kw), "xml") if pi % 4 else (G.xta_model(**kw), "xta")
        exp = "reject" if t else "accept"
        cases.append(G.Case("r%d" % pi, kind, text, [], exp, [NC, IA, G.SE % "Argument"] if t else [],
                            "random-program/%s/%s" % (where, "touches-global" if t else "constants-only"),
                            {"truth_touches": sorted(t), "function": name}))
    return cases


EXCEPTION_SHAPES = {   # computed exception (Lean: c13Exceptions genCfg) -> oracle shapes it explains
    "random:nested-operand": ["random-builtin/nested-operand", "random-builtin/nested-argument"],
    "random:via-function-body": ["random-builtin/via-function-body"],
    "free-param:array-size-via-function": ["free-parameter/function-body/free", "free-parameter/function-body-chain-2/free",
                                           "free-parameter/function-body-then-const/free"],
    "random:anywhere": ["random-builtin/root", "random-builtin/nested-operand", "random-builtin/nested-argument", "random-builtin/via-function-body"],
}
WHAT = {
    "random:nested-operand": "a call of a random-number builtin below the root of an expression passes isCompileTimeComputable "
                             "(collect_possible_reads does not hand collectRandom to its children): `const double d = 1.0 + random(1.0);` "
                             "and `int z[fint(random(3.0)) + 1];` are accepted while `const double d = random(1.0);` is rejected",
    "random:via-function-body": "a random-number builtin inside a function body is invisible to isCompileTimeComputable (function_t::depends "
                                "is collected without collectRandom): `double rf() { return random(1.0); } const double d = rf();` is accepted",
    "free-param:array-size-via-function": "a free process parameter used in an array size through a function body is accepted: "
                                          "`process P(const int[1,3] N) { int nf() { return N; } int a[nf()]; ... } system P;` "
                                          "(StatementBuilder::collectDependencies does not look into functions, restricted = {nf})",
    "random:anywhere": "isCompileTimeComputable no longer asks collect_possible_reads for the random-number builtins",
}


def run(ctx):
    cov = ctx.coverage
    C11.clean_replays(PID)
    # 1 translate ---------------------------------------------------------------------------------------------------
    tie_error = None
    try:
        _, kinds = core.regen_kinds()
        text, info = effects.translate(core.REPO, {k for k, _ in kinds})
        core.write_if_changed(GEN, text)
        cov["translated"] = {"read_call_kinds": info["read_call"], "random_kinds": len(info["random"]),
                             "statement_classes": len(info["classes"]), "readsPropagatesRandom": info["readsPropagatesRandom"],
                             "dependsCollectsRandom": info["dependsCollectsRandom"],
                             "checkType_case_rows": info["checkType_rows"], "checkType_call_sites": info["checkType_sites"]}
    except effects.TranslateError as ex:
        tie_error = str(ex)
        ctx.log("translator failed:", ex)
    # 2 prove -------------------------------------------------------------------------------------------------------
    ok, log = (False, "translation failed: %s" % tie_error) if tie_error else G.prove(ctx, core, MODULE, ["drv_c13"])
    broken = []
    if tie_error:
        cov.update({"obligations": len(core.theorems_of(MODULE)), "discharged": 0, "checker_cmd": "n/a (translation failed)",
                    "trusted_base": core.TRUSTED_BASE})
    elif not ok:
        broken = core.failing_theorems(log)
        ctx.log("proof broken:", broken or log[-1500:])
    # 4 search ------------------------------------------------------------------------------------------------------
    cases = gen_chains(ctx) + gen_template_level(ctx) + gen_template_params(ctx) + gen_free_params(ctx) + gen_random_builtin(ctx) + gen_random_programs(ctx)
    ctx.log("generated %d models" % len(cases))
    recs, crashes, differ, nsan = G.run_both(core, "c13", "c13.cpp", cases, ctx.thorough, ctx.log)
    cov["models_also_run_under_sanitizers"] = nsan
    for c in differ[:3]:
        ctx.finding("build-variant:" + c.shape, "diagnostics differ between the -O2 and the ASan+UBSan build of the library", c.replay_obj())
    for bad, rc, err in crashes:
        ctx.finding("crash:" + bad.shape, "harness died (rc=%s) on a generated model" % rc, dict(bad.replay_obj(), stderr=err))
    # 3 correspondence (first: it also yields the computed exception set) ----------------------------------------------
    ncorr, ndis, nfun, nctx, nrs = 0, 0, 0, 0, 0
    exceptions = None
    have_drv = os.path.exists(core.lean_exe("drv_c13")) and not tie_error
    if not ok and have_drv:
        have_drv = core.lake_build(["drv_c13"])[0]
    first_dis = None
    if have_drv:
        drv, rc, err = G.run_driver(core, core.lean_exe("drv_c13"), recs)
        for c in cases:
            rec = recs.get(c.cid)
            if rec is None or not rec["analysed"] or not rec["mline"]:
                continue
            ncorr += 1
            nfun += len(rec["FI"])
            nctx += G.own_contexts(rec)
            nrs += len(rec["RI"])
            dv = drv.get(c.cid)
            if dv and dv["exceptions"] is not None:
                exceptions = dv["exceptions"]
            d = G.diff_model(rec, dv)
            if d:
                ndis += 1
                if first_dis is None:
                    first_dis = (c, d)
        if rc != 0:
            first_dis = first_dis or (cases[0], ["drv_c13 exited with %s: %s" % (rc, err[-500:])])
            ndis += 1
    cov["computed_exception_set"] = exceptions
    explained = {}
    if exceptions is None:
        # no model answer (translation or build broken): the listed findings still explain their own witnesses
        exceptions_for_oracle = [k["key"] for k in ctx.known_db if k["key"] in EXCEPTION_SHAPES]
    else:
        exceptions_for_oracle = exceptions
    for ex in exceptions_for_oracle:
        for sh in EXCEPTION_SHAPES.get(ex, []):
            explained[sh] = ex
    # oracle verdicts -------------------------------------------------------------------------------------------------
    nviol, verdicts, dist, samples = 0, {"reject": 0, "accept": 0}, {}, []
    confirmed = {}
    for c in cases:
        rec = recs.get(c.cid)
        if rec is None:
            continue
        errs = rec["errors"] + rec["qerrors"]
        verdicts[c.expect] += 1
        top = "/".join(c.shape.split("/")[:2])
        dist[top] = dist.get(top, 0) + 1
        if c.expect == "reject" and not any(a in errs for a in c.allowed):
            ex = explained.get(c.shape)
            if ex:
                confirmed.setdefault(ex, c)     # the exception's witness is accepted by the real library
                continue
            nviol += 1
            if nviol <= MAX_REPORTED:
                ctx.finding("accepted-dependence:" + c.shape,
                        "a compile-time context whose value depends on a non-constant is accepted (diagnostics: %r)" % errs,
                        dict(c.replay_obj(), observed_diagnostics=errs))
        elif c.expect == "reject" and c.shape in explained and exceptions is not None:
            pass
        elif c.expect == "accept" and (errs or rec["exc"]):
            nviol += 1
            if nviol <= MAX_REPORTED:
                ctx.finding("rejected-twin:" + c.shape, "the constant-only twin is rejected: %r" % (errs or rec["exc"]),
                        dict(c.replay_obj(), observed_diagnostics=errs))
        if len(samples) < 4 and c.cid.endswith("3"):
            samples.append({"shape": c.shape, "expect": c.expect, "diagnostics": errs})
    # every computed exception must be confirmed on the real library, and is a finding (known or not)
    for ex in exceptions_for_oracle:
        c = confirmed.get(ex)
        if c is None:
            # the model says the implementation lets this through, the implementation does not: model/implementation disagree
            if nviol == 0:
                ctx.finding("unproved:exception-not-confirmed:" + ex,
                            "the Lean model computes exception %s but the real library rejects all its witnesses" % ex,
                            {"exception": ex, "witness_shapes": EXCEPTION_SHAPES.get(ex)}, no_input=True)
        else:
            ctx.finding(ex, WHAT.get(ex, ex), dict(c.replay_obj(), lean_witness="UtapModel.C13.C13_witness_*"))
    cov["oracle_cases_on_implementation"] = sum(verdicts.values())
    cov["oracle_expectations"] = verdicts
    cov["oracle_failures"] = nviol
    cov["exceptions_confirmed_on_implementation"] = sorted(confirmed)
    cov["correspondence_cases"] = ncorr
    cov["correspondence_function_sets_compared"] = nfun
    cov["correspondence_context_expressions_compared"] = nctx
    cov["correspondence_restricted_sets_compared"] = nrs
    cov["correspondence_disagreements"] = ndis
    cov["hypotheses_validated_on_real_programs"] = {"declaredBeforeUse (C11_sound / C13_sound)": ncorr - ndis if ncorr else 0,
                                                   "how": "drv evaluates the decidable hypothesis on every dumped program; a failure counts as a disagreement"}
    if first_dis and nviol == 0:
        c, d = first_dis
        ctx.finding("unproved:correspondence:effects", "Lean model and library disagree on %d of %d models; first: %s"
                    % (ndis, ncorr, d[:3]), dict(c.replay_obj(), disagreements=d[:10]))
    if tie_error and nviol == 0:
        ctx.proof_broken("translate/effects.py", tie_error, "oracle: %d models on the implementation, no failure" % sum(verdicts.values()))
    if not ok and not tie_error and nviol == 0:
        for path, thm, msg in (broken or [("?", "lake build " + MODULE, log[-300:])]):
            ctx.proof_broken(thm, msg + "\n" + log[-2000:], "oracle: %d models on the implementation, correspondence %d models, no failing input"
                             % (sum(verdicts.values()), ncorr))
    cov["evaluations"] = sum(verdicts.values()) + nfun + nctx + nrs
    cov["distinct_nontrivial"] = len({c.shape for c in cases})
    cov["distribution"] = dist
    cov["formats"] = {"xml": sum(1 for c in cases if c.kind == "xml"), "xta": sum(1 for c in cases if c.kind == "xta")}
    cov["samples"] = samples
    cov["rule"] = ("compile-time context whose value reaches a non-constant variable through 0..4 links (function bodies in every "
                   "statement form, constant initialisers) => $Must_be_computable_at_compile_time / $Incompatible_argument; same chain "
                   "ending in a constant => no diagnostic; free process parameter reaching an array size => $Free_process_parameters...; "
                   "model vs implementation: equal depends sets, isCompileTimeComputable, restricted sets")
    ctx.assumptions += [
        "the restricted-set model covers templates (array sizes, scalar sets, initialiser chains); propagation through partial "
        "instantiation is checked by the oracle only",
        "fuel of the work-list closure: the theorem speaks about runs that end (never observed otherwise)",
        "external functions (FUN_CALL_EXT) are outside the generated inputs",
    ]


def replay(ctx, path):
    return C11.replay(ctx, path)
