/- stub: line-protocol driver for C11 (to be written) -/
def main : IO Unit := pure ()
