// Shared by harness/c11.cpp and harness/c13.cpp: runs whole models (XML via parse_XML_buffer, XTA via parse_XTA) and
// queries (parseProperty with a TigaPropertyBuilder) through the real library and prints, per case,
//   - the diagnostics (message text only; positions are C06's business),
//   - the real function_t::changes / function_t::depends sets as sorted symbol names,
//   - the real instance_t::restricted sets of instances and processes.
// Framing on stdin:   CASE <id> <xml|xta|xta_old> <nbytes> <nqueries>\n<bytes>\n   then per query:  Q <nbytes>\n<bytes>\n
#pragma once
// standard headers first, then expose TypeChecker::isCompileTimeComputable / compileTimeComputableValues to the harness:
// the harness only *reads* them (object layout is unaffected by access specifiers)
#include <algorithm>
#include <cstdint>
#include <cstring>
#include <filesystem>
#include <fstream>
#include <functional>
#include <iostream>
#include <list>
#include <map>
#include <memory>
#include <set>
#include <sstream>
#include <string>
#include <variant>
#include <vector>
#include "utap/document.h"
#include "utap/statement.h"
#define private public
#include "utap/typechecker.h"
#undef private
#include "common.hpp"

#include <algorithm>
#include <set>

namespace c11 {
using namespace UTAP;
using namespace UTAP::Constants;

inline std::string symName(const symbol_t& s) { return s == symbol_t() ? std::string("<null>") : s.get_name(); }

inline std::string nameSet(const std::set<symbol_t>& s)
{
    std::vector<std::string> v;
    for (auto& x : s) v.push_back(symName(x));
    std::sort(v.begin(), v.end());
    std::string o;
    for (auto& x : v) o += (o.empty() ? "" : ",") + x;
    return o;
}

inline void dumpFunctions(std::ostream& os, const std::string& scope, declarations_t& d)
{
    for (auto& f : d.functions)
        os << "F " << scope << f.uid.get_name() << " changes=[" << nameSet(f.changes) << "] depends=[" << nameSet(f.depends) << "]\n";
}


// ---------------------------------------------------------------------------------------------------------------
// Dump of the *real* objects the analysis works on, as the S-expression input of the Lean model (drv_c11 / drv_c13):
// symbols get small numbers in order of first appearance (never pointers).
struct Dumper
{
    std::map<symbol_t, int> ids;
    std::vector<symbol_t> order;
    std::map<int, std::string> cls;  // structural class of a symbol, found independently of the type checker
    int id(const symbol_t& s)
    {
        if (s == symbol_t()) return 0;
        auto it = ids.find(s);
        if (it != ids.end()) return it->second;
        int n = (int)ids.size() + 1;
        ids[s] = n;
        order.push_back(s);
        return n;
    }
    void mark(const symbol_t& s, const std::string& c)
    {
        int i = id(s);
        if (i && !cls.count(i)) cls[i] = c;
    }
    std::string ex(const expression_t& e)
    {
        if (e.empty()) return "()";
        std::ostringstream os;
        auto k = e.get_kind();
        os << "(" << vh::kindName(k);
        if (k == IDENTIFIER) os << " #" << id(e.get_symbol());
        if (k == DOT && e.get_size() == 1 && !e[0].empty() && e[0].get_type().is_process()) {
            // member of a process (queries: `P.x`, `P.f()`): the symbol of the template it denotes
            symbol_t ps = e[0].get_symbol();
            if (!(ps == symbol_t()) && ps.get_data()) {
                auto* inst = static_cast<instance_t*>(ps.get_data());
                if (inst->templ && (uint32_t)e.get_index() < inst->templ->frame.get_size()) os << " #" << id(inst->templ->frame[e.get_index()]);
            }
        }
        if ((k == FORALL || k == EXISTS || k == SUM) && e.get_size() > 0 && e[0].get_kind() == IDENTIFIER) mark(e[0].get_symbol(), "binder");
        for (size_t i = 0; i < e.get_size(); ++i) os << " " << ex(e[i]);
        os << ")";
        return os.str();
    }
};

class StmtDumper : public StatementVisitor
{
public:
    Dumper& d;
    std::ostream& os;
    StmtDumper(Dumper& d, std::ostream& os): d{d}, os{os} {}
    void sub(Statement* s)
    {
        if (s) s->accept(this);
        else os << "(empty)";
    }
    void blockBody(BlockStatement* b)
    {
        os << " (inits";
        frame_t f = b->get_frame();
        for (uint32_t i = 0; i < f.get_size(); ++i) {
            symbol_t sym = f[i];
            d.id(sym);
            if (auto* data = sym.get_data(); data) os << " " << d.ex(static_cast<variable_t*>(data)->init);
        }
        os << ")";
        for (auto& s : *b) { os << " "; sub(s.get()); }
    }
    int32_t visitEmptyStatement(EmptyStatement*) override { os << "(empty)"; return 0; }
    int32_t visitExprStatement(ExprStatement* s) override { os << "(expr " << d.ex(s->expr) << ")"; return 0; }
    int32_t visitAssertStatement(AssertStatement* s) override { os << "(assert " << d.ex(s->expr) << ")"; return 0; }
    int32_t visitForStatement(ForStatement* s) override
    {
        os << "(for " << d.ex(s->init) << " " << d.ex(s->cond) << " " << d.ex(s->step) << " ";
        sub(s->stat.get());
        os << ")";
        return 0;
    }
    int32_t visitIterationStatement(IterationStatement* s) override
    {
        os << "(iter #" << d.id(s->symbol) << " ";
        sub(s->stat.get());
        os << ")";
        return 0;
    }
    int32_t visitWhileStatement(WhileStatement* s) override
    {
        os << "(while " << d.ex(s->cond) << " ";
        sub(s->stat.get());
        os << ")";
        return 0;
    }
    int32_t visitDoWhileStatement(DoWhileStatement* s) override
    {
        os << "(dowhile ";
        sub(s->stat.get());
        os << " " << d.ex(s->cond) << ")";
        return 0;
    }
    int32_t visitBlockStatement(BlockStatement* s) override { os << "(block"; blockBody(s); os << ")"; return 0; }
    int32_t visitSwitchStatement(SwitchStatement* s) override { os << "(switch " << d.ex(s->cond); blockBody(s); os << ")"; return 0; }
    int32_t visitCaseStatement(CaseStatement* s) override { os << "(case " << d.ex(s->cond); blockBody(s); os << ")"; return 0; }
    int32_t visitDefaultStatement(DefaultStatement* s) override { os << "(default"; blockBody(s); os << ")"; return 0; }
    int32_t visitIfStatement(IfStatement* s) override
    {
        os << "(if " << d.ex(s->cond) << " ";
        sub(s->trueCase.get());
        if (s->falseCase) { os << " "; sub(s->falseCase.get()); }
        os << ")";
        return 0;
    }
    int32_t visitBreakStatement(BreakStatement*) override { os << "(break)"; return 0; }
    int32_t visitContinueStatement(ContinueStatement*) override { os << "(continue)"; return 0; }
    int32_t visitReturnStatement(ReturnStatement* s) override { os << "(return " << d.ex(s->value) << ")"; return 0; }
};

struct Ctx
{
    std::string label;
    expression_t e;
};

inline void typeBounds(const std::string& label, type_t t, std::vector<Ctx>& out, int depth = 0)
{
    if (t.unknown() || depth > 12) return;
    switch (t.get_kind()) {
    case RANGE: {
        auto r = t.get_range();
        out.push_back({label + ":lo", r.first});
        out.push_back({label + ":hi", r.second});
        typeBounds(label, t.get(0), out, depth + 1);
        break;
    }
    case ARRAY:
        typeBounds(label + ":size", t.get_array_size(), out, depth + 1);
        typeBounds(label, t.get(0), out, depth + 1);
        break;
    case PROCESS:
    case PROCESS_SET:
    case INSTANCE:
    case LSC_INSTANCE:
    case FUNCTION:
    case FUNCTION_EXTERNAL: break;
    default:
        for (uint32_t i = 0; i < t.size(); ++i) typeBounds(label, t.get(i), out, depth + 1);
    }
}

inline std::string idList(std::vector<int> v)
{
    std::sort(v.begin(), v.end());
    v.erase(std::unique(v.begin(), v.end()), v.end());
    std::string o;
    for (int x : v) o += (o.empty() ? "" : ",") + std::to_string(x);
    return o;
}

/// all of it for one parsed document; `queries` are parsed with an ExprGrabber (no type check) to get their trees
inline void dumpModel(std::ostream& os, Document& doc, const std::vector<std::string>& queries)
{
    Dumper d;
    std::ostringstream funs;
    std::vector<Ctx> ctxs;
    std::vector<std::pair<int, function_t*>> flist;
    std::vector<std::pair<int, size_t>> vinits;              // (variable symbol, index of its initialiser context)
    std::vector<std::pair<std::string, std::pair<size_t, size_t>>> tranges;  // template name -> [first, last) context index
    auto decls = [&](declarations_t& dc, const std::string& scope, const char* vcls) {
        for (auto& v : dc.variables) {
            d.mark(v.uid, std::string(vcls) + (v.uid.get_type().is_constant() ? ":const" : ":mut"));
            if (!v.init.empty()) {
                vinits.push_back({d.id(v.uid), ctxs.size()});
                ctxs.push_back({"init:" + scope + v.uid.get_name(), v.init});
            }
            typeBounds("type:" + scope + v.uid.get_name(), v.uid.get_type(), ctxs);
        }
        for (auto& f : dc.functions) {
            d.mark(f.uid, "fun");
            int fid = d.id(f.uid);
            flist.push_back({fid, &f});
            type_t ft = f.uid.get_type();
            size_t np = ft.size() > 0 ? ft.size() - 1 : 0;
            funs << " (fun #" << fid << " (params";
            if (f.body) {
                frame_t bf = f.body->get_frame();
                for (size_t i = 0; i < np && i < bf.get_size(); ++i) {
                    d.mark(bf[i], "fparam");
                    funs << " #" << d.id(bf[i]);
                }
            }
            funs << ") (ref";
            for (size_t i = 1; i <= np; ++i) funs << " " << ((ft[i].is(REF) && !ft[i].is_constant()) ? 1 : 0);
            funs << ") (locals";
            for (auto& v : f.variables) {
                d.mark(v.uid, "local");
                funs << " #" << d.id(v.uid);
                typeBounds("ltype:" + scope + f.uid.get_name() + "." + v.uid.get_name(), v.uid.get_type(), ctxs);
            }
            for (size_t i = 1; i <= np; ++i) typeBounds("ftype:" + scope + f.uid.get_name() + "." + ft.get_label(i), ft[i], ctxs);
            funs << ") ";
            if (f.body) {
                StmtDumper sd(d, funs);
                f.body->accept(&sd);
            } else
                funs << "(empty)";
            funs << ")";
        }
    };
    auto params = [&](frame_t f, const char* c) {
        for (uint32_t i = 0; i < f.get_size(); ++i) {
            type_t t = f[i].get_type();
            std::string k = std::string(c) + (t.is(REF) ? ":ref" : ":val") + (t.is_constant() ? ":const" : ":mut") + (t.is_double() ? ":double" : "");
            d.mark(f[i], k);
            typeBounds(std::string("ptype:") + f[i].get_name(), t, ctxs);
        }
    };
    decls(doc.get_globals(), "", "gvar");
    for (auto& t : doc.get_templates()) {
        std::string sc = t.uid.get_name() + ".";
        params(t.parameters, "tparam");
        size_t first = ctxs.size();
        decls(t, sc, "tvar");
        tranges.push_back({t.uid.get_name(), {first, ctxs.size()}});
        for (auto& l : t.locations) {
            if (!l.invariant.empty()) ctxs.push_back({"invariant:" + sc + l.uid.get_name(), l.invariant});
            if (!l.exp_rate.empty()) ctxs.push_back({"exprate:" + sc + l.uid.get_name(), l.exp_rate});
        }
        for (auto& e : t.edges) {
            std::string el = sc + "e" + std::to_string(e.nr);
            for (uint32_t i = 0; i < e.select.get_size(); ++i) {
                d.mark(e.select[i], "select");
                typeBounds("select:" + el + ":" + e.select[i].get_name(), e.select[i].get_type(), ctxs);
            }
            if (!e.guard.empty()) ctxs.push_back({"guard:" + el, e.guard});
            if (!e.sync.empty()) ctxs.push_back({"sync:" + el, e.sync});
            if (!e.assign.empty()) ctxs.push_back({"assign:" + el, e.assign});
            if (!e.prob.empty()) ctxs.push_back({"prob:" + el, e.prob});
        }
    }
    auto& gf = doc.get_globals().frame;
    for (uint32_t i = 0; i < gf.get_size(); ++i) {
        type_t ty = gf[i].get_type();
        if (ty.get_kind() == INSTANCE && gf[i].get_data()) {
            auto* inst = static_cast<instance_t*>(gf[i].get_data());
            params(inst->parameters, "tparam");
            for (uint32_t k = 0; k < inst->parameters.get_size(); ++k) {
                auto it = inst->mapping.find(inst->parameters[k]);
                if (it != inst->mapping.end()) ctxs.push_back({"arg:" + gf[i].get_name() + ":" + inst->parameters[k].get_name(), it->second});
            }
        }
    }
    size_t qi = 0;
    for (auto& q : queries) {
        expression_t e;
        try {
            e = vh::parseQuery(doc, q);
        } catch (std::exception&) {
        }
        if (!e.empty()) ctxs.push_back({"query:" + std::to_string(qi), e});
        ++qi;
    }
    // the real answers: a fresh TypeChecker (same CompileTimeComputableValues pass), each context expression checked
    // first (that is what registers quantifier binders), then asked
    std::ostringstream cx, real;
    size_t nerr = doc.get_errors().size();
    try {
        TypeChecker tc(doc);
        // a second full visit: registers the quantifier binders of function bodies, labels ... in *this* checker's
        // CompileTimeComputableValues exactly as static_analysis() did in its own instance (diagnostics were printed before)
        doc.accept(tc);
        size_t n = 0;
        for (auto& c : ctxs) {
            cx << " (ctx " << n << " " << d.ex(c.e) << ")";
            bool ok = false, ch = false, ctc = false;
            try {
                ok = tc.checkExpression(c.e);
                ch = c.e.changes_any_variable();
                ctc = tc.isCompileTimeComputable(c.e);
            } catch (std::exception& ex) {
                real << "XEXC " << n << " " << vh::quote(ex.what()) << "\n";
            }
            real << "X " << n << " " << vh::quote(c.label) << " changes=" << ch << " ctc=" << ctc << "\n";
            ++n;
        }
        // function bodies last so that every symbol has its number
        std::string fs = funs.str();
        std::ostringstream ri;
        for (auto& t : doc.get_templates()) {
            std::vector<int> rs;
            for (auto& s2 : t.restricted) rs.push_back(d.id(s2));
            ri << "RI " << t.uid.get_name() << " restricted=[" << idList(rs) << "]\n";
        }
        os << "M (model (syms";
        for (size_t i = 0; i < d.order.size(); ++i) {
            const symbol_t& s = d.order[i];
            type_t t = s.get_type();
            int n2 = (int)i + 1;
            os << " (s #" << n2 << " " << (t.is_function() || t.is_function_external() ? 1 : 0) << " "
               << (tc.compileTimeComputableValues.contains(s) ? 1 : 0) << " " << (d.cls.count(n2) ? d.cls[n2] : std::string("other")) << ")";
        }
        os << ") (funs" << fs << ") (ctxs" << cx.str() << ") (vars";
        for (auto& [sym, ci] : vinits) os << " (v #" << sym << " " << ci << ")";
        os << ") (tmpls";
        for (auto& [name, rg] : tranges) {
            os << " (t " << name;
            for (size_t k = rg.first; k < rg.second; ++k)
                if (ctxs[k].label.find(":size") != std::string::npos) os << " " << k;
            os << ")";
        }
        os << "))\n";
        os << ri.str();
        os << real.str();
        for (auto& [fid, f] : flist) {
            std::vector<int> ch, dp;
            for (auto& s : f->changes) ch.push_back(d.id(s));
            for (auto& s : f->depends) dp.push_back(d.id(s));
            os << "FI " << fid << " changes=[" << idList(ch) << "] depends=[" << idList(dp) << "]\n";
        }
        for (size_t i = 0; i < d.order.size(); ++i) os << "N " << (i + 1) << " " << d.order[i].get_name() << "\n";
    } catch (std::exception& ex) {
        os << "MEXC " << vh::quote(ex.what()) << "\n";
    }
    (void)nerr;
}

inline bool readExact(std::istream& in, size_t n, std::string& out)
{
    out.resize(n);
    in.read(out.data(), (std::streamsize)n);
    if ((size_t)in.gcount() != n) return false;
    in.get();  // trailing newline
    return true;
}

inline int runCases(std::istream& in, std::ostream& os, bool withModel)
{
    std::string line;
    while (std::getline(in, line)) {
        if (line.empty()) continue;
        std::istringstream hs(line);
        std::string tag, id, kind;
        size_t nbytes = 0, nq = 0;
        hs >> tag >> id >> kind >> nbytes >> nq;
        if (tag != "CASE") { os << "BAD-HEADER " << vh::quote(line) << "\n"; return 2; }
        std::string model;
        if (!readExact(in, nbytes, model)) { os << "BAD-BODY " << id << "\n"; return 2; }
        std::vector<std::string> queries;
        for (size_t i = 0; i < nq; ++i) {
            std::getline(in, line);
            std::istringstream qs(line);
            std::string qt;
            size_t qn = 0;
            qs >> qt >> qn;
            std::string q;
            if (qt != "Q" || !readExact(in, qn, q)) { os << "BAD-QUERY " << id << "\n"; return 2; }
            queries.push_back(q);
        }
        os << "CASE " << id << "\n";
        try {
            auto doc = std::make_unique<Document>();
            long rc = 0;
            if (kind == "xml") rc = parse_XML_buffer(model.c_str(), doc.get(), true);
            else if (kind == "xta") rc = parse_XTA(model.c_str(), doc.get(), true) ? 0 : 1;
            else if (kind == "xta_old") rc = parse_XTA(model.c_str(), doc.get(), false) ? 0 : 1;
            else { os << "BAD-KIND\n"; return 2; }
            os << "RC " << rc << "\n";
            for (auto& e : doc->get_errors()) os << "E " << vh::quote(e.msg) << " " << vh::quote(e.context) << "\n";
            for (auto& e : doc->get_warnings()) os << "W " << vh::quote(e.msg) << "\n";
            dumpFunctions(os, "", doc->get_globals());
            for (auto& t : doc->get_templates()) dumpFunctions(os, t.uid.get_name() + ".", t);
            // restricted sets: templates and instances live in the global frame, processes in the process list
            auto& gf = doc->get_globals().frame;
            for (uint32_t i = 0; i < gf.get_size(); ++i) {
                type_t ty = gf[i].get_type();
                if (ty.get_kind() == INSTANCE && gf[i].get_data()) {
                    auto* inst = static_cast<instance_t*>(gf[i].get_data());
                    os << "R " << gf[i].get_name() << " unbound=" << inst->unbound << " restricted=[" << nameSet(inst->restricted) << "]\n";
                }
            }
            for (auto& p : doc->get_processes())
                os << "P " << p.uid.get_name() << " unbound=" << p.unbound << " restricted=[" << nameSet(p.restricted) << "]\n";
            size_t qi = 0;
            for (auto& q : queries) {
                size_t before = doc->get_errors().size();
                std::string exc;
                int prc = 0;
                try {
                    TigaPropertyBuilder qb(*doc);
                    prc = parseProperty(q.c_str(), &qb);
                } catch (std::exception& ex) {
                    exc = ex.what();
                }
                os << "Q " << qi << " rc=" << prc << (exc.empty() ? "" : " exc=" + vh::quote(exc)) << "\n";
                auto& errs = doc->get_errors();
                for (size_t k = before; k < errs.size(); ++k) os << "QE " << qi << " " << vh::quote(errs[k].msg) << "\n";
                ++qi;
            }
            // the type checker ran iff the builder reported nothing (every diagnostic then carries the context "(typechecking)")
            bool analysed = (kind != "xml" || rc == 0);
            for (auto& e : doc->get_errors())
                if (e.context != "(typechecking)") analysed = false;
            os << "ANALYSED " << analysed << "\n";
            if (withModel && analysed) dumpModel(os, *doc, queries);
        } catch (std::exception& ex) {
            os << "EXC " << vh::quote(ex.what()) << "\n";
        }
        os << "END" << std::endl;
    }
    return 0;
}
}  // namespace c11
