/- stub: line-protocol driver for C19 (to be written) -/
def main : IO Unit := pure ()
