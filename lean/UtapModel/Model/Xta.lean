/- The XTA front end at the level of the grammar's process productions (src/parser.y `ProcDecl / ProcBody / States /
   Branchpoints / LocFlags / Init / Transitions / Transition / TransitionOpt`, the static `rootTransId`):
   `renderXta : List Bool → AModel → XFile` (the XTA rendering of an abstract model, with a free choice of where to use
   the chained form `A -> B {..}, -> C {..}`), and `xtaRead : XFile → List Call` (the callbacks bison fires).
   Core Lean only.  Property C05 relates it to the XML front end (Model/Xml.lean). -/
import UtapModel.Model.Xml
namespace UtapModel.AM

structure XState where
  name : String
  inv : Option Key
  rate : Option Key
  deriving DecidableEq, Repr, Inhabited

/-- the sections of a transition body, in the only order the grammar has: `Select Guard Sync Assign Probability` -/
structure XLabels where
  select : List (String × Key) := []
  guard : Option Key := none
  sync : Option (Key × Dir) := none
  assign : Option Key := none
  prob : Option Key := none
  deriving DecidableEq, Repr, Inhabited

/-- `Transition` (full form) and `TransitionOpt` (source omitted: the source of the last full transition; the grammar
    has no `Probability` section there) -/
inductive XTrans
  | full (src tgt : String) (ctrl : Bool) (labels : XLabels)
  | chained (tgt : String) (ctrl : Bool) (labels : XLabels)
  deriving DecidableEq, Repr, Inhabited

structure XProc where
  name : String
  params : List Param
  decls : List Decl
  states : List XState
  bps : List String
  commits : List String
  urgents : List String
  init : Option String
  trans : List XTrans
  deriving DecidableEq, Repr, Inhabited

structure XFile where
  gdecls : List Decl
  procs : List XProc
  insts : List AInst
  system : List (String × Bool)
  deriving DecidableEq, Repr, Inhabited

/-! ### Rendering an abstract model as XTA -/

/-- the name a reference denotes (same as the XML reader's `names` map on well-formed models) -/
def refName' (t : ATempl) (ref : String) : Option String :=
  match t.locs.find? (·.id == ref) with
  | some l => some l.effName
  | none => if t.bps.contains ref then some (bpName ref) else none

def stateOf (l : ALoc) : XState :=
  { name := l.effName, inv := lookupLabel .invariant l.labels, rate := lookupLabel .exponentialrate l.labels }

def hasProb (ls : List ELabel) : Bool := ls.any fun l => match l with | .prob _ => true | _ => false

def addX (l : ELabel) (x : XLabels) : XLabels :=
  match l with
  | .select bs => { x with select := bs ++ x.select }
  | .guard k => { x with guard := some k }
  | .sync k d => { x with sync := some (k, d) }
  | .assign k => { x with assign := some k }
  | .prob k => { x with prob := some k }

/-- the sections an XTA rendering of a label list has -/
def toX (ls : List ELabel) : XLabels := ls.foldr addX {}

/-- resolved edges → transition list; `prefs` says for each edge whether the chained form is wanted; it is used only
    where the grammar allows it (same source as the last full transition, no probability label) -/
def renderTrans : List Bool → Option String → List (String × String × Bool × List ELabel) → List XTrans
  | _, _, [] => []
  | prefs, root, (s, t, c, ls) :: r =>
    let want := prefs.headD false
    if want && root == some s && !hasProb ls then .chained t c (toX ls) :: renderTrans prefs.tail root r
    else .full s t c (toX ls) :: renderTrans prefs.tail (some s) r

def resolveEdge (t : ATempl) (e : AEdge) : Option (String × String × Bool × List ELabel) :=
  match refName' t e.src, refName' t e.tgt with
  | some a, some b => some (a, b, ctrlOf e.ctrl, e.labels)
  | _, _ => none

def renderProc (prefs : List Bool) (t : ATempl) : XProc :=
  { name := t.name, params := t.params, decls := t.decls, states := t.locs.map stateOf, bps := t.bps.map bpName,
    commits := (t.locs.filter (·.committed)).map (·.effName), urgents := (t.locs.filter (·.urgent)).map (·.effName),
    init := match t.init with | some r => refName' t r | none => none,
    trans := renderTrans prefs none (t.edges.filterMap (resolveEdge t)) }

def renderXta (prefs : List Bool) (M : AModel) : XFile :=
  { gdecls := M.gdecls, procs := M.templates.map (renderProc prefs), insts := M.insts, system := M.procs }

/-! ### The callbacks bison fires -/

def stateCalls (s : XState) : List Call :=
  (match s.inv with | some k => [Call.pushExpr k] | none => []) ++
  (match s.rate with | some k => [Call.pushExpr k] | none => []) ++
  [.procLocation s.name s.inv.isSome s.rate.isSome]

def optCalls {α} (o : Option α) (f : α → List Call) : List Call :=
  match o with
  | some a => f a
  | none => []

/-- `Select Guard Sync Assign` -/
def xlabelCalls4 (x : XLabels) : List Call :=
  x.select.map (fun b => Call.procSelect b.1 b.2) ++ optCalls x.guard (fun k => [.pushExpr k, .procGuard]) ++
  optCalls x.sync (fun p => [.pushExpr p.1, .procSync p.2]) ++ optCalls x.assign (fun k => [.pushExpr k, .procUpdate])

/-- `Select Guard Sync Assign Probability` -/
def xlabelCalls (x : XLabels) : List Call :=
  xlabelCalls4 x ++ optCalls x.prob (fun k => [.pushExpr k, .procProb])

/-- `Transitions`: `root` is the static buffer `rootTransId`, written when a full `Transition` has been reduced -/
def readTrans : String → List XTrans → List Call
  | _, [] => []
  | _, .full s t c x :: r => [.procEdgeBegin s t c] ++ xlabelCalls x ++ [.procEdgeEnd s t] ++ readTrans s r
  | root, .chained t c x :: r => [.procEdgeBegin root t c] ++ xlabelCalls4 x ++ [.procEdgeEnd root t] ++ readTrans root r

def procRead (root : String) (p : XProc) : List Call :=
  p.params.map .declParam ++ [.procBegin p.name] ++ p.decls.map .declItem ++ p.states.flatMap stateCalls ++
  p.bps.map .procBranchpoint ++ p.commits.map .procLocationCommit ++ p.urgents.map .procLocationUrgent ++
  (match p.init with | some n => [Call.procLocationInit n] | none => [Call.error "syntax error"]) ++
  readTrans root p.trans ++ [.procEnd]

/-- `XTA : Declarations System` followed by `done()`.  (`rootTransId` survives from one process to the next; a process
    always starts with a full transition, so the initial value is irrelevant -- it is passed as "" here.) -/
def xtaRead (f : XFile) : List Call :=
  f.gdecls.map .declItem ++ f.procs.flatMap (procRead "") ++ f.insts.flatMap instCalls ++
  (if f.system.isEmpty then [Call.error "syntax error: unexpected end"] else f.system.flatMap procCalls ++ [.processListEnd]) ++
  [.done]

/-! ### The common subset -/

def labelRank : ELabel → Nat
  | .select _ => 0
  | .guard _ => 1
  | .sync _ _ => 2
  | .assign _ => 3
  | .prob _ => 4

def sortedFrom : Nat → List ELabel → Bool
  | _, [] => true
  | k, a :: r => decide (k ≤ labelRank a) && sortedFrom (labelRank a + 1) r

/-- the labels of an edge appear in the order of the XTA grammar (`Select Guard Sync Assign Probability`), one of each
    kind at most -/
def labelsXtaOrder (ls : List ELabel) : Bool := sortedFrom 0 ls

/-- expressible in both formats (at this level of abstraction): well-formed, and edge labels in grammar order.
    (At text level additionally: ids such that `_<id>` is an identifier -- checked by the generator.) -/
def AModel.inCommonSubset (M : AModel) : Bool :=
  M.wf && M.templates.all (fun t => t.edges.all (fun e => labelsXtaOrder e.labels))

end UtapModel.AM
