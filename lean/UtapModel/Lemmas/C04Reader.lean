/- Helper lemmas of C04: the tree-level reader on rendered XML emits a closed-form callback list. -/
import UtapModel.Model.Xml
namespace UtapModel.AM

/-! ### scanning -/

/-- every element of `xs` makes `begin(tag)` answer "no" without consuming anything -/
def AllStop (tag : String) (xs : List Xml) : Prop :=
  ∀ x ∈ xs, ∃ t a k, x = Xml.elem t a k ∧ t ≠ tag ∧ known t = true

theorem scan_stop {σ} (tag : String) (f : σ → List (String × String) → List Xml → σ) (s : σ) (xs : List Xml)
    (h : AllStop tag xs) : scan tag f s xs = (s, xs) := by
  cases xs with
  | nil => rfl
  | cons x r =>
    obtain ⟨t, a, k, rfl, hne, hk⟩ := h x (by simp)
    simp [scan, hne, hk]

theorem opt_stop (tag : String) (xs : List Xml) (h : AllStop tag xs) : opt tag xs = (none, xs) := by
  cases xs with
  | nil => rfl
  | cons x r =>
    obtain ⟨t, a, k, rfl, hne, hk⟩ := h x (by simp)
    simp [opt, hne, hk]

theorem scan_map {σ α} (tag : String) (f : σ → List (String × String) → List Xml → σ)
    (g : α → List (String × String)) (h : α → List Xml) (xs : List α) (rest : List Xml) (s : σ) :
    scan tag f s (xs.map (fun x => Xml.elem tag (g x) (h x)) ++ rest)
      = scan tag f (xs.foldl (fun s x => f s (g x) (h x)) s) rest := by
  induction xs generalizing s with
  | nil => rfl
  | cons x r ih => simp [scan, ih]

theorem AllStop.append {tag : String} {a b : List Xml} (ha : AllStop tag a) (hb : AllStop tag b) : AllStop tag (a ++ b) := by
  intro x hx
  rcases List.mem_append.mp hx with h | h
  · exact ha x h
  · exact hb x h

theorem AllStop.map {α} {tag t : String} (g : α → List (String × String)) (h : α → List Xml) (xs : List α)
    (hne : t ≠ tag) (hk : known t = true) : AllStop tag (xs.map (fun x => Xml.elem t (g x) (h x))) := by
  intro x hx
  obtain ⟨y, _, rfl⟩ := List.mem_map.mp hx
  exact ⟨t, g y, h y, rfl, hne, hk⟩

theorem AllStop.nil {tag : String} : AllStop tag [] := by intro x hx; cases hx

theorem AllStop.cons {tag t : String} {a k} {r : List Xml} (hne : t ≠ tag) (hk : known t = true) (hr : AllStop tag r) :
    AllStop tag (Xml.elem t a k :: r) := by
  intro x hx
  rcases List.mem_cons.mp hx with h | h
  · exact ⟨t, a, k, h, hne, hk⟩
  · exact hr x h

/-! ### closed forms -/

def hasKind (k : LocKind) (ls : List (LocKind × Key)) : Bool := ls.any (·.1 == k)

def locCallsX (l : ALoc) : List Call :=
  l.labels.map (fun p => Call.pushExpr p.2) ++
  [.procLocation l.effName (hasKind .invariant l.labels) (hasKind .exponentialrate l.labels)] ++
  (if l.committed then [.procLocationCommit l.effName] else []) ++
  (if l.urgent then [.procLocationUrgent l.effName] else [])

def labelCalls : ELabel → List Call
  | .select bs => bs.map (fun b => .procSelect b.1 b.2)
  | .guard k => [.pushExpr k, .procGuard]
  | .sync k d => [.pushExpr k, .procSync d]
  | .assign k => [.pushExpr k, .procUpdate]
  | .prob k => [.pushExpr k, .procProb]

/-- the name the reader's `names` map holds for a reference inside template `t` -/
def nameOf (t : ATempl) (ref : String) : Option String :=
  match t.locs.find? (·.id == ref) with
  | some l => some l.effName
  | none => if t.bps.contains ref then some (bpName ref) else none

def edgeCallsX (t : ATempl) (e : AEdge) : List Call :=
  match nameOf t e.src, nameOf t e.tgt with
  | some f, some g => [.procEdgeBegin f g (ctrlOf e.ctrl)] ++ e.labels.flatMap labelCalls ++ [.procEdgeEnd f g]
  | _, _ => [.error "Missing reference"]

def initCallsX (t : ATempl) : List Call :=
  match t.init with
  | some r => (match nameOf t r with | some n => [.procLocationInit n] | none => [.error "Missing reference"])
  | none => [.error "Missing initial location"]

def templCallsX (t : ATempl) : List Call :=
  t.params.map .declParam ++ [.procBegin t.name] ++ t.decls.map .declItem ++ t.locs.flatMap locCallsX ++
  t.bps.map (fun b => .procBranchpoint (bpName b)) ++ initCallsX t ++ t.edges.flatMap (edgeCallsX t) ++ [.procEnd]

def templNames (t : ATempl) : List (String × String) :=
  (t.locs.map (fun l => (l.id, l.effName)) ++ t.bps.map (fun b => (b, bpName b))).reverse

/-! ### one location -/

theorem readLocLabel_render (acc : List Call × Bool × Bool) (x : LocKind × Key) :
    readLocLabel acc (locLabelAttrs x) (locLabelKids x)
      = (acc.1 ++ [Call.pushExpr x.2], acc.2.1 || x.1 == .invariant, acc.2.2 || x.1 == .exponentialrate) := by
  obtain ⟨k, key⟩ := x
  cases k <;> simp [readLocLabel, locLabelAttrs, locLabelKids, attr, locLabelKind, firstText, parseCalls, List.lookup]

theorem locLabels_fold (ls : List (LocKind × Key)) (acc : List Call × Bool × Bool) :
    ls.foldl (fun s x => readLocLabel s (locLabelAttrs x) (locLabelKids x)) acc
      = (acc.1 ++ ls.map (fun p => Call.pushExpr p.2), acc.2.1 || hasKind .invariant ls, acc.2.2 || hasKind .exponentialrate ls) := by
  induction ls generalizing acc with
  | nil => simp [hasKind]
  | cons x r ih =>
    rw [List.foldl_cons, readLocLabel_render, ih]
    simp [hasKind, Bool.or_assoc]

def flagKids (u c : Bool) : List Xml :=
  (if u then [Xml.elem "urgent" [] []] else []) ++ (if c then [Xml.elem "committed" [] []] else [])

theorem flagKids_stop (tag : String) (u c : Bool) (h1 : "urgent" ≠ tag) (h2 : "committed" ≠ tag) : AllStop tag (flagKids u c) := by
  intro x hx
  cases u <;> cases c <;> simp [flagKids] at hx
  · exact ⟨"committed", [], [], hx, h2, by decide⟩
  · exact ⟨"urgent", [], [], hx, h1, by decide⟩
  · rcases hx with hx | hx
    · exact ⟨"urgent", [], [], hx, h1, by decide⟩
    · exact ⟨"committed", [], [], hx, h2, by decide⟩

theorem opt_flags (u c : Bool) :
    (opt "urgent" (flagKids u c)).1.isSome = u ∧ (opt "committed" (opt "urgent" (flagKids u c)).2).1.isSome = c := by
  cases u <;> cases c <;> simp [flagKids, opt, known, knownTags]

theorem readLocation_render (s : RS) (l : ALoc) :
    readLocation s (locAttrs l) (locKids l) = { names := (l.id, l.effName) :: s.names, out := s.out ++ locCallsX l } := by
  obtain ⟨id, name, labels, u, c⟩ := l
  have hlab : AllStop "label" (flagKids u c) := flagKids_stop _ u c (by decide) (by decide)
  have hscan : ∀ acc, scan "label" readLocLabel acc
        (labels.map (fun x => Xml.elem "label" (locLabelAttrs x) (locLabelKids x)) ++ flagKids u c)
      = ((acc.1 ++ labels.map (fun p => Call.pushExpr p.2), acc.2.1 || hasKind .invariant labels,
          acc.2.2 || hasKind .exponentialrate labels), flagKids u c) := by
    intro acc
    rw [scan_map, scan_stop _ _ _ _ hlab, locLabels_fold]
  obtain ⟨hu, hc⟩ := opt_flags u c
  cases name with
  | none =>
    have hname : AllStop "name" (labels.map (fun x => Xml.elem "label" (locLabelAttrs x) (locLabelKids x)) ++ flagKids u c) :=
      AllStop.append (AllStop.map _ _ _ (by decide) (by decide)) (flagKids_stop _ u c (by decide) (by decide))
    simp only [readLocation, locKids, locAttrs, List.nil_append, List.append_assoc]
    rw [show (if u = true then [Xml.elem "urgent" [] []] else []) ++ (if c = true then [Xml.elem "committed" [] []] else []) = flagKids u c from rfl]
    rw [opt_stop _ _ hname]
    simp only [hscan]
    simp [hu, hc, attr, List.lookup, ALoc.effName, locCallsX]
  | some n =>
    simp only [readLocation, locKids, locAttrs, List.append_assoc, List.cons_append, List.nil_append]
    rw [show (if u = true then [Xml.elem "urgent" [] []] else []) ++ (if c = true then [Xml.elem "committed" [] []] else []) = flagKids u c from rfl]
    simp only [opt, if_true, hscan]
    by_cases hn : n = "" <;> simp [hu, hc, attr, List.lookup, ALoc.effName, locCallsX, firstStr, firstText, hn]

/-! ### one transition -/

theorem readELabel_render (acc : List Call) (x : ELabel) :
    readELabel acc (elabelAttrs x) (elabelKids x) = acc ++ labelCalls x := by
  cases x <;> simp [readELabel, elabelAttrs, elabelKids, elabelKind, elabelTxt, attr, firstText, labelPart, parseCalls,
    labelCalls, List.lookup]

theorem elabels_fold (ls : List ELabel) (acc : List Call) :
    ls.foldl (fun s x => readELabel s (elabelAttrs x) (elabelKids x)) acc = acc ++ ls.flatMap labelCalls := by
  induction ls generalizing acc with
  | nil => simp
  | cons x r ih => rw [List.foldl_cons, readELabel_render, ih]; simp

theorem ctrl_attr (c : Option Bool) :
    (match attr (ctrlAttr c) "controllable" with | none => true | some v => decide (v = "true")) = ctrlOf c := by
  cases c with
  | none => rfl
  | some b => cases b <;> simp [ctrlAttr, attr, List.lookup, ctrlOf]

theorem readTransition_render (s : RS) (t : ATempl) (e : AEdge)
    (hs : s.names.lookup e.src = nameOf t e.src) (ht : s.names.lookup e.tgt = nameOf t e.tgt) :
    readTransition s (edgeAttrs e) (edgeKids e) = { names := s.names, out := s.out ++ edgeCallsX t e } := by
  obtain ⟨src, tgt, ctrl, labels⟩ := e
  simp only [readTransition, edgeKids, edgeAttrs, List.cons_append, List.nil_append, opt, if_true]
  have hsc : scan "label" readELabel [] (labels.map (fun x => Xml.elem "label" (elabelAttrs x) (elabelKids x)))
      = (labels.flatMap labelCalls, []) := by
    have := scan_map "label" readELabel elabelAttrs elabelKids labels [] []
    rw [List.append_nil] at this
    rw [this, elabels_fold]; simp [scan]
  simp only [refName, attr, List.lookup, beq_self_eq_true] at *
  simp only [hs, ht, edgeCallsX]
  cases h1 : nameOf t src <;> cases h2 : nameOf t tgt <;> simp [RS.emit, hsc, ctrl_attr, ctrlOf]
  exact ctrl_attr ctrl

/-! ### the loops and the `names` map -/

theorem locs_fold (ls : List ALoc) (s : RS) :
    ls.foldl (fun s x => readLocation s (locAttrs x) (locKids x)) s
      = { names := (ls.map (fun l => (l.id, l.effName))).reverse ++ s.names, out := s.out ++ ls.flatMap locCallsX } := by
  induction ls generalizing s with
  | nil => simp
  | cons x r ih => rw [List.foldl_cons, readLocation_render, ih]; simp

theorem bps_fold (bs : List String) (s : RS) :
    bs.foldl (fun s x => readBranchpoint s (bpAttrs x) []) s
      = { names := (bs.map (fun b => (b, bpName b))).reverse ++ s.names,
          out := s.out ++ bs.map (fun b => Call.procBranchpoint (bpName b)) } := by
  induction bs generalizing s with
  | nil => simp
  | cons x r ih =>
    rw [List.foldl_cons, ih]
    simp [readBranchpoint, bpAttrs, attr, List.lookup, bpName]

theorem edges_fold (t : ATempl) (es : List AEdge) (s : RS)
    (h : ∀ e ∈ es, s.names.lookup e.src = nameOf t e.src ∧ s.names.lookup e.tgt = nameOf t e.tgt) :
    es.foldl (fun s x => readTransition s (edgeAttrs x) (edgeKids x)) s
      = { names := s.names, out := s.out ++ es.flatMap (edgeCallsX t) } := by
  induction es generalizing s with
  | nil => simp
  | cons x r ih =>
    rw [List.foldl_cons, readTransition_render s t x (h x (by simp)).1 (h x (by simp)).2, ih]
    · simp
    · intro e he; exact h e (by simp [he])

theorem lookup_of_mem (l : List (String × String)) (hn : (l.map Prod.fst).Nodup) {k v : String} (h : (k, v) ∈ l)
    (r : List (String × String)) : (l ++ r).lookup k = some v := by
  induction l with
  | nil => cases h
  | cons x l ih =>
    obtain ⟨a, b⟩ := x
    simp only [List.map_cons, List.nodup_cons] at hn
    rcases List.mem_cons.mp h with h' | h'
    · cases h'; simp [List.lookup]
    · have hne : k ≠ a := by
        intro heq; subst heq
        exact hn.1 (List.mem_map.mpr ⟨(k, v), h', rfl⟩)
      simp only [List.cons_append, List.lookup]
      have : (k == a) = false := by simp [hne]
      rw [this]
      exact ih hn.2 h'

theorem nodup_rev {α} {l : List α} (h : l.Nodup) : l.reverse.Nodup := by
  unfold List.Nodup at *
  rw [List.pairwise_reverse]
  exact h.imp (fun hab => Ne.symm hab)

theorem templNames_keys (t : ATempl) : (templNames t).map Prod.fst = t.nodeIds.reverse := by
  simp [templNames, ATempl.nodeIds, List.map_reverse, List.map_append, Function.comp_def]

theorem names_lookup (t : ATempl) (nm : List (String × String)) (hnd : t.nodeIds.Nodup) (ref : String)
    (href : ref ∈ t.nodeIds) : (templNames t ++ nm).lookup ref = nameOf t ref := by
  have hk : ((templNames t).map Prod.fst).Nodup := by rw [templNames_keys]; exact nodup_rev hnd
  unfold nameOf
  cases hf : t.locs.find? (·.id == ref) with
  | some l =>
    have hl : l ∈ t.locs := List.mem_of_find?_eq_some hf
    have hid : l.id = ref := by simpa using List.find?_some hf
    apply lookup_of_mem _ hk
    simp only [templNames, List.mem_reverse, List.mem_append, List.mem_map]
    exact Or.inl ⟨l, hl, by simp [hid]⟩
  | none =>
    have hnot : ref ∉ t.locs.map (·.id) := by
      intro hmem
      obtain ⟨l, hl, hid⟩ := List.mem_map.mp hmem
      have := List.find?_eq_none.mp hf l hl
      simp [hid] at this
    have hb : ref ∈ t.bps := by
      rcases List.mem_append.mp href with h | h
      · exact absurd h hnot
      · exact h
    have hc : t.bps.contains ref = true := by simpa using hb
    simp only [hc, if_true]
    apply lookup_of_mem _ hk
    simp only [templNames, List.mem_reverse, List.mem_append, List.mem_map]
    exact Or.inr ⟨ref, hb, rfl⟩

/-! ### one template -/

theorem renderInit_stop (tag : String) (i : Option String) (h : "init" ≠ tag) : AllStop tag (renderInit i) := by
  cases i with
  | none => exact AllStop.nil
  | some r => exact AllStop.cons h (by decide) AllStop.nil

theorem readInit_render (s : RS) (t : ATempl) (rest : List Xml) (hstop : AllStop "init" rest)
    (hlook : ∀ r, t.init = some r → s.names.lookup r = nameOf t r) :
    readInit s (renderInit t.init ++ rest) = ({ names := s.names, out := s.out ++ initCallsX t }, rest) := by
  cases hi : t.init with
  | none => simp [renderInit, readInit, opt_stop _ _ hstop, initCallsX, RS.emit, hi]
  | some r =>
    have := hlook r hi
    simp only [renderInit, readInit, opt, List.cons_append, List.nil_append, ↓reduceIte, attr, List.lookup, beq_self_eq_true,
      this, initCallsX, hi]
    cases nameOf t r <;> simp [RS.emit]

theorem edges_scan (t : ATempl) (s : RS)
    (h : ∀ e ∈ t.edges, s.names.lookup e.src = nameOf t e.src ∧ s.names.lookup e.tgt = nameOf t e.tgt) :
    scan "transition" readTransition s (t.edges.map (fun x => Xml.elem "transition" (edgeAttrs x) (edgeKids x)))
      = ({ names := s.names, out := s.out ++ t.edges.flatMap (edgeCallsX t) }, []) := by
  have := scan_map "transition" readTransition edgeAttrs edgeKids t.edges [] s
  rw [List.append_nil] at this
  rw [this, edges_fold t t.edges s h]; rfl

theorem readTemplate_render (s : RS) (t : ATempl) (hnd : t.nodeIds.Nodup)
    (hinit : ∀ r, t.init = some r → r ∈ t.nodeIds)
    (hedges : ∀ e ∈ t.edges, e.src ∈ t.nodeIds ∧ e.tgt ∈ t.nodeIds) :
    readTemplate s [] (templKids t) = { names := templNames t ++ s.names, out := s.out ++ templCallsX t } := by
  have hstopL : AllStop "location" (t.bps.map (fun x => Xml.elem "branchpoint" (bpAttrs x) []) ++
      (renderInit t.init ++ t.edges.map (fun x => Xml.elem "transition" (edgeAttrs x) (edgeKids x)))) :=
    AllStop.append (AllStop.map _ _ _ (by decide) (by decide))
      (AllStop.append (renderInit_stop _ _ (by decide)) (AllStop.map _ _ _ (by decide) (by decide)))
  have hstopB : AllStop "branchpoint"
      (renderInit t.init ++ t.edges.map (fun x => Xml.elem "transition" (edgeAttrs x) (edgeKids x))) :=
    AllStop.append (renderInit_stop _ _ (by decide)) (AllStop.map _ _ _ (by decide) (by decide))
  have hnames : ∀ ref, ref ∈ t.nodeIds →
      ((t.bps.map (fun b => (b, bpName b))).reverse ++ ((t.locs.map (fun l => (l.id, l.effName))).reverse ++ s.names)).lookup ref
        = nameOf t ref := by
    intro ref href
    have := names_lookup t s.names hnd ref href
    simpa [templNames, List.reverse_append, List.append_assoc] using this
  simp only [readTemplate, templKids, List.cons_append, List.nil_append, opt, ↓reduceIte, firstText, firstStr, RS.emit,
    parseCalls, readDeclaration]
  rw [scan_map, scan_stop _ _ _ _ hstopL, locs_fold]
  simp only []
  rw [scan_map (f := readBranchpoint) (g := bpAttrs) (h := fun _ => []), scan_stop _ _ _ _ hstopB, bps_fold]
  simp only []
  rw [readInit_render _ t _ (AllStop.map _ _ _ (by decide) (by decide)) (fun r hr => hnames r (hinit r hr))]
  simp only []
  rw [edges_scan t _ (fun e he => ⟨hnames _ (hedges e he).1, hnames _ (hedges e he).2⟩)]
  simp [templNames, templCallsX, List.reverse_append, List.append_assoc]

/-! ### the whole document -/

/-- the part of well-formedness the reader needs: ids unique inside the template, references resolve inside it -/
def ReaderWf (t : ATempl) : Prop :=
  t.nodeIds.Nodup ∧ (∀ r, t.init = some r → r ∈ t.nodeIds) ∧ (∀ e ∈ t.edges, e.src ∈ t.nodeIds ∧ e.tgt ∈ t.nodeIds)

def xmlCalls (M : AModel) : List Call :=
  M.gdecls.map .declItem ++ M.templates.flatMap templCallsX ++ parseCalls .system (.system M.insts M.procs) ++ [.done]

theorem templs_fold (ts : List ATempl) (s : RS) (h : ∀ t ∈ ts, ReaderWf t) :
    ∃ nm, ts.foldl (fun s x => readTemplate s [] (templKids x)) s = { names := nm, out := s.out ++ ts.flatMap templCallsX } := by
  induction ts generalizing s with
  | nil => exact ⟨s.names, by simp⟩
  | cons x r ih =>
    obtain ⟨h1, h2, h3⟩ := h x (by simp)
    rw [List.foldl_cons, readTemplate_render s x h1 h2 h3]
    obtain ⟨nm, hnm⟩ := ih { names := templNames x ++ s.names, out := s.out ++ templCallsX x } (fun t ht => h t (by simp [ht]))
    exact ⟨nm, by rw [hnm]; simp⟩

theorem readXml_render (M : AModel) (h : ∀ t ∈ M.templates, ReaderWf t) : readXml (renderXml M) = xmlCalls M := by
  have hstopT : AllStop "template" [Xml.elem "system" [] [.text (.system M.insts M.procs)]] :=
    AllStop.cons (by decide) (by decide) AllStop.nil
  have hstopI : AllStop "instantiation" [Xml.elem "system" [] [.text (.system M.insts M.procs)]] :=
    AllStop.cons (by decide) (by decide) AllStop.nil
  obtain ⟨nm, hnm⟩ := templs_fold M.templates { names := [], out := M.gdecls.map Call.declItem } h
  simp only [readXml, renderXml, ntaKids, true_or, ↓reduceIte, List.cons_append, List.nil_append, readDeclaration, opt,
    firstText, RS.emit, parseCalls]
  rw [scan_map (f := readTemplate) (g := fun _ => []) (h := templKids), scan_stop _ _ _ _ hstopT]
  simp only [opt_stop _ _ hstopI]
  rw [hnm]
  simp [readSystem, opt, firstText, RS.emit, xmlCalls, parseCalls]

end UtapModel.AM
