/-
C03 (queries) — printing a verification query and re-parsing it reproduces the same tree.

The query layer (Model/Query.lean): `A<> e`, `A[] e`, `E<> e`, `E[] e`, `a --> b`, `A[a U b]`, `A[a W b]`, the same under `control:`,
`E<> control:`, `control_t*(a, b):`, `control_t*(a):`, `control_t*:`, `{ l } control:`, and `sup` / `inf` / `bounds` with and without a
predicate.  The printer of the model is driven by the layouts that translate/query_tables.py reads from `expression_t::print` on every
run; the parser implements the productions `modelProds`, which `C03_query_tables` proves to be productions of the current parser.y with
the same builder callbacks; operands are expressions of any size, printed by the expression printer of C03 and read by the expression
parser of C02, and must meet the computed criterion `good` of C03 (the exception shapes of the expression level carry over unchanged).

Outside the theorem (correspondence and testing in checks/c03.py): the Büchi form `A[] (p and A<> q)`, `Pr[..](..) <= p` (the builder
negates and computes 1 - p), strategies and `under`, MITL; white space inside the layouts (the model is at token level).
-/
import UtapModel.Lemmas.Query
import UtapModel.Lemmas.QuerySmc
import UtapModel.Lemmas.QuerySmc2
import UtapModel.Spec.OperatorTable

namespace UtapModel.C03Query
open UtapModel.Pratt UtapModel.ExprTable UtapModel.PrintModel UtapModel.QueryTables UtapModel.Query UtapModel.Spec

/-- **tie T**: every production the model's parser implements is a production of the current grammar, with the same callbacks -/
theorem C03_query_tables : ∀ p ∈ modelProds, p ∈ queryProds := by decide +kernel

/-- the comma-join reading of the LIST print case is what the translator matched -/
theorem C03_query_list_layout : listIsCommaJoin = true := by decide

/-- **printing a query and re-parsing it reproduces the query**: every form of the query layer, operands of any size -/
theorem C03_query_roundtrip (q : Query) (h : q.wf = true) : parseQ (qprint q) = some q := query_roundtrip q h

/-- **the second conversion gives the identical token stream** -/
theorem C03_query_idempotent (q q' : Query) (h : q.wf = true) (hp : parseQ (qprint q) = some q') : qprint q' = qprint q := by
  rw [C03_query_roundtrip q h] at hp
  injection hp with hp
  rw [← hp]

/-- a sub-property is read back in front of anything that cannot continue an expression (used for every `control` form) -/
theorem C03_subproperty_roundtrip (s : Sub) (h : s.wf = true) (rest : List Tok) (hs : QStop rest) :
    parseSub (printSub P s ++ rest) = some (s, rest) := parseSub_print s h rest hs

/-! ### non-vacuity: concrete queries meet the hypothesis; the hypothesis on lists cannot be dropped -/

private def x : Expr := .atom (.ident "x")
private def gt1 : Expr := .bin (tokOfText ">") x (.atom (.nat 1))

example : (Query.ct2 (.atom (.nat 3)) (.bin (tokOfText "+") x (.atom (.nat 1))) (.until true gt1 (.pre (tokOfText "!") x))).wf = true := by
  decide +kernel
example : (Query.opt 1 gt1 [x, .tern gt1 x (.atom (.nat 2))]).wf = true := by decide +kernel
example : (Query.po [] (.leadsTo gt1 x)).wf = true := by decide +kernel
example : toksTextQ (qprint (.sub (.until false gt1 x))) = "A [ x > 1 U x ]" := by decide +kernel
/-- `sup{p}:` with an empty list is not a query: the printed text is rejected -/
theorem C03_query_empty_list_witness : parseQ (qprint (.opt 0 (.atom .tru) [])) = none := by decide +kernel

/-! ### the statistical forms (Model/QuerySmc.lean): `Pr[B](<> e)`, `Pr[B]([] e)`, `Pr[B](a U b)`, `E[B](max: e)`, `simulate[B]{..}` -/

open UtapModel.QuerySmc in
/-- **tie T**: the productions of the statistical forms the model implements are productions of the current grammar, same callbacks -/
theorem C03_smc_tables : ∀ p ∈ modelProdsSmc, p ∈ queryProds := by decide +kernel

open UtapModel.QuerySmc in
/-- **printing a statistical query and re-parsing it reproduces the query**: any bound type, with or without a run count, operands of
    any size; the `[]` form has no second operand (the builder pushes `true`), `simulate` always carries its run count -/
theorem C03_smc_roundtrip (q : SQuery) (h : q.wf = true) : parseS (sprint q) = some q := smc_roundtrip q h

open UtapModel.QuerySmc in
theorem C03_smc_idempotent (q q' : SQuery) (h : q.wf = true) (hp : parseS (sprint q) = some q') : sprint q' = sprint q := by
  rw [C03_smc_roundtrip q h] at hp
  injection hp with hp
  rw [← hp]

open UtapModel.QuerySmc in
/-- a bound is read back in front of anything -/
theorem C03_smc_bound_roundtrip (b : Bnd) (h : b.wf = true) (rest : List Tok) :
    parseBnd (bndToks P b ++ .rb :: rest) = some (b, rest) := parseBnd_print b h rest

open UtapModel.QuerySmc in
example : (SQuery.pr false { kind := .expr (.atom (.ident "c")), bound := .bin (tokOfText "+") x (.atom (.nat 10)), runs := some 5 } gt1
    (.pre (tokOfText "!") x)).wf = true := by decide +kernel
open UtapModel.QuerySmc in
example : (SQuery.sim { kind := .steps, bound := .atom (.nat 10), runs := some 1 } [x, gt1]).wf = true := by decide +kernel
open UtapModel.QuerySmc in
/-- a bound whose operand needs parentheses next to `<=` is covered: `E[c <= (x && x)](max: x)` (written bare before the repair 9985bc8) -/
example : (SQuery.ex { kind := .expr (.atom (.ident "c")), bound := .bin (tokOfText "&&") x x, runs := none } true x).wf = true ∧
    toksTextQ (sprint (.ex { kind := .expr (.atom (.ident "c")), bound := .bin (tokOfText "&&") x x, runs := none } true x)) =
      "E [ c <= ( x && x ) ] ( max : x )" := by decide +kernel
open UtapModel.QuerySmc in
example : toksTextQ (sprint (.ex { kind := .time, bound := .atom (.nat 9), runs := none } true x)) = "E [ <= 9 ] ( max : x )" := by decide +kernel
open UtapModel.QuerySmc in
/-- the hypothesis on the `[]` form cannot be dropped: a second operand of `Pr[..]([] e)` is not printed -/
theorem C03_smc_box_until_witness :
    parseS (sprint (.pr true { kind := .time, bound := .atom (.nat 9), runs := none } x gt1)) ≠
      some (.pr true { kind := .time, bound := .atom (.nat 9), runs := none } x gt1) := by decide +kernel

/-! ### the remaining statistical forms (Model/QuerySmc2.lean): `Pr[B](<> e) >= p`, `Pr[B](<> a) >= Pr[B']([] b)`, `simulate[B]{..} : n : e` -/

open UtapModel.QuerySmc in
/-- **tie T**: the productions of these forms are productions of the current grammar, with the same callbacks -/
theorem C03_smc2_tables : ∀ p ∈ modelProdsSmc2, p ∈ queryProds := by decide +kernel

open UtapModel.QuerySmc in
/-- **printing a hypothesis test, a comparison of probabilities or a filtered simulation and re-parsing it reproduces the query**: any
    bound type, operands of any size; a comparison carries no run counts (the builder refuses them), a filtered simulation always
    prints its run count and its number of accepting runs -/
theorem C03_smc2_roundtrip (q : XQuery) (h : q.wf = true) : parseX (xprint q) = some q := smc2_roundtrip q h

open UtapModel.QuerySmc in
theorem C03_smc2_idempotent (q q' : XQuery) (h : q.wf = true) (hp : parseX (xprint q) = some q') : xprint q' = xprint q := by
  rw [C03_smc2_roundtrip q h] at hp
  injection hp with hp
  rw [← hp]

open UtapModel.QuerySmc in
/-- the head `B ]( <> e )` of a probability query is read back in front of anything -/
theorem C03_smc2_head_roundtrip (b : Bnd) (hb : b.wf = true) (box : Bool) (e : Expr) (he : goodE e = true) (rest : List Tok) :
    prHead (bndToks P b ++ .rb :: .lp :: .sym (qid (pathName box)) :: (P e ++ .rp :: rest)) = some (b, box, e, rest) :=
  prHead_print b hb box e he rest

open UtapModel.QuerySmc in
example : (XQuery.cmp { kind := .time, bound := .atom (.nat 10), runs := none } false gt1
    { kind := .expr (.atom (.ident "c")), bound := .atom (.nat 5), runs := none } true x).wf = true := by decide +kernel
open UtapModel.QuerySmc in
example : (XQuery.reach { kind := .steps, bound := .atom (.nat 10), runs := some 5 } [x, gt1] 3 (.pre (tokOfText "!") x)).wf = true := by
  decide +kernel
open UtapModel.QuerySmc in
example : toksTextQ (xprint (.qual true { kind := .time, bound := .atom (.nat 9), runs := some 7 } gt1 "0.5")) =
    "Pr [ <= 9 ; 7 ] ( [] x > 1 ) >= 0.5" := by decide +kernel
open UtapModel.QuerySmc in
example : toksTextQ (xprint (.reach { kind := .time, bound := .atom (.nat 9), runs := some 1 } [x] 0 gt1)) =
    "simulate [ <= 9 ; 1 ] { x } : 0 : x > 1" := by decide +kernel
open UtapModel.QuerySmc in
/-- the hypothesis on comparisons cannot be dropped: a run count is not printed, so it does not come back -/
theorem C03_smc2_cmp_runs_witness :
    parseX (xprint (.cmp { kind := .time, bound := .atom (.nat 9), runs := some 3 } false x { kind := .time, bound := .atom (.nat 9), runs := none } false x)) ≠
      some (.cmp { kind := .time, bound := .atom (.nat 9), runs := some 3 } false x { kind := .time, bound := .atom (.nat 9), runs := none } false x) := by
  decide +kernel

end UtapModel.C03Query
