/-
Token and production locations (`YYLTYPE = position_t`, parser.y:50-67).

  * YY_USER_ACTION (lexer.l:39): every lexeme sets `yylloc = [tracker.position before, tracker.position after)`.
  * YYLLOC_DEFAULT: a production's location runs from the start of its first right-hand-side symbol to the end of
    its last one; an empty right-hand side gets the (empty) location at the end of the symbol below it on the stack.
  * `CALL(first, last, …)` = `ch->set_position(first.start, last.end)`.

Core Lean only.
-/
import UtapModel.Model.LexLines

namespace UtapModel.Loc
open UtapModel.LexLines

/-- `position_t` -/
structure Range where
  start : Nat
  stop : Nat
  deriving Repr, DecidableEq, Inhabited

/-- YYLLOC_DEFAULT(Current, Rhs, N): `prev` is `YYRHSLOC(Rhs, 0)`, the location below the right-hand side -/
def yyllocDefault (prev : Range) : List Range → Range
  | [] => { start := prev.stop, stop := prev.stop }
  | r :: rest => { start := r.start, stop := ((r :: rest).getLast?.getD r).stop }

/-- `CALL(@i, @j, …)`: `set_position(first.start, last.end)` -/
def callRange (first last : Range) : Range := { start := first.start, stop := last.stop }

/-- the `yylloc` of every lexeme of a block whose first character has absolute position `pos` (no wrap-around) -/
def tokenRanges : Nat → List Lexeme → List Range
  | _, [] => []
  | pos, lx :: rest => { start := pos, stop := pos + lx.chars.length } :: tokenRanges (pos + lx.chars.length) rest

end UtapModel.Loc
