/- stub: line-protocol driver for C17 (to be written) -/
def main : IO Unit := pure ()
