#!/usr/bin/env python3
"""Translator for the side-effect / dependency analysis (properties C11 and C13).

Reads, from /repo's current working tree,
  src/expression.cpp    expression_t::get_symbols, collect_possible_writes, collect_possible_reads
  include/utap/statement.h   the statement classes with their expression / sub-statement fields, the visitor classes
  src/statement.cpp     AbstractStatementVisitor::visitX, ExpressionVisitor::visitX, Collect{Changes,Dependencies}Visitor
  src/typechecker.cpp   TypeChecker::visitFunction (erasure of locals and parameters), isCompileTimeComputable,
                        CompileTimeComputableValues, and every `..._must_be_side-effect_free` /
                        `$Must_be_computable_at_compile_time` site with the condition that guards it
and emits  lean/UtapModel/Gen/EffectGen.lean : the tables and flags the executable model (Model/Effect.lean) is
parameterised by.  The theorems of Props/C11.lean / Props/C13.lean are proved for every configuration satisfying a
decidable completeness predicate; the instance for the generated configuration is closed by `decide`, so dropping a
case label, a visitor method, an erase loop or a check site changes the generated file and breaks exactly that proof.

Fails closed: a source shape it does not recognise raises TranslateError.
"""
import os
import re
import sys


class TranslateError(Exception):
    pass


def strip_comments(src):
    src = re.sub(r"/\*.*?\*/", lambda m: re.sub(r"[^\n]", " ", m.group(0)), src, flags=re.S)
    src = re.sub(r"//[^\n]*", "", src)
    return src


def read(repo, rel):
    p = os.path.join(repo, rel)
    try:
        return strip_comments(open(p).read())
    except OSError as ex:
        raise TranslateError("cannot read %s: %s" % (rel, ex))


def match_brace(src, i):
    """src[i] == '{' -> index just after the matching '}' (string literals respected)."""
    assert src[i] == "{"
    depth, n = 0, len(src)
    while i < n:
        c = src[i]
        if c == '"':
            i += 1
            while i < n and src[i] != '"':
                i += 2 if src[i] == "\\" else 1
        elif c == "'":
            i += 1
            while i < n and src[i] != "'":
                i += 2 if src[i] == "\\" else 1
        elif c == "{":
            depth += 1
        elif c == "}":
            depth -= 1
            if depth == 0:
                return i + 1
        i += 1
    raise TranslateError("unbalanced braces")


def function_body(src, header_re, what):
    ms = list(re.finditer(header_re, src))
    if len(ms) != 1:
        raise TranslateError("%s: expected exactly one definition, found %d" % (what, len(ms)))
    i = src.index("{", ms[0].end() - 1)
    j = match_brace(src, i)
    return src[i + 1:j - 1]


def norm(s):
    return re.sub(r"\s+", " ", s).strip()


def find_switch(body, what):
    m = re.search(r"switch\s*\(\s*get_kind\(\)\s*\)\s*\{", body)
    if not m:
        raise TranslateError("%s: switch (get_kind()) not found" % what)
    i = m.end() - 1
    j = match_brace(body, i)
    return body[:m.start()], body[i + 1:j - 1], body[j:]


def split_cases(sw, what):
    """-> list of (labels, body_text).  `default` is label 'default'.  Fall-through groups only (no code between labels)."""
    groups, labels, pos = [], [], 0
    tok = re.compile(r"\s*(case\s+([A-Za-z_][A-Za-z_0-9:]*)\s*:|default\s*:)")
    n = len(sw)
    while pos < n:
        m = tok.match(sw, pos)
        if m:
            labels.append(m.group(2).split("::")[-1] if m.group(2) else "default")
            pos = m.end()
            continue
        if not sw[pos:].strip():
            break
        if not labels:
            raise TranslateError("%s: code before first case label: %r" % (what, sw[pos:pos + 60]))
        # body: up to the next top-level `case`/`default`
        depth, k = 0, pos
        while k < n:
            c = sw[k]
            if c == "{":
                k = match_brace(sw, k)
                continue
            if depth == 0 and re.match(r"(case\s+[A-Za-z_]|default\s*:)", sw[k:]) and (k == 0 or not (sw[k - 1].isalnum() or sw[k - 1] == "_")):
                break
            k += 1
        groups.append((labels, norm(sw[pos:k])))
        labels, pos = [], k
    if labels:
        raise TranslateError("%s: labels without body %r" % (what, labels))
    return groups


# ------------------------------------------------------------------------------------------------ expression.cpp

def tr_get_symbols(src):
    body = function_body(src, r"void\s+expression_t::get_symbols\s*\(\s*std::set<symbol_t>&\s*symbols\s*\)\s*const\s*\{", "get_symbols")
    pre, sw, post = find_switch(body, "get_symbols")
    if norm(pre) != "if (empty()) { return; }" or norm(post) != "":
        raise TranslateError("get_symbols: unexpected code around the switch: %r / %r" % (norm(pre), norm(post)))
    table, ident = [], False
    for labels, b in split_cases(sw, "get_symbols"):
        if b == "symbols.insert(data->symbol); break;":
            if labels != ["IDENTIFIER"]:
                raise TranslateError("get_symbols: symbol inserted for %r" % labels)
            ident = True
            continue
        if labels == ["default"]:
            if b != "break;":
                raise TranslateError("get_symbols: default does %r" % b)
            continue
        idx = []
        rest = b
        while True:
            m = re.match(r"get\((\d+)\)\.get_symbols\(symbols\);\s*", rest)
            if not m:
                break
            idx.append(int(m.group(1)))
            rest = rest[m.end():]
        if rest != "break;" or not idx:
            raise TranslateError("get_symbols: unrecognised body for %r: %r" % (labels, b))
        for l in labels:
            table.append((l, idx))
    if not ident:
        raise TranslateError("get_symbols: IDENTIFIER case missing")
    return table


CALL_W_EXPECT_HEAD = "symbol = %s; if ((symbol.get_type().is_function() || symbol.get_type().is_function_external()) && symbol.get_data()) { fun = (function_t*)symbol.get_data();"
CALLEE_PLAIN = "get(0).get_symbol()"
CALLEE_RESOLVED = "called_function_symbol(get(0))"
# a callee that is not a name (`(-f)()`) has the null symbol: the case does nothing for it -- the model has no such calls
NULL_CALLEE_GUARD = "if (symbol == symbol_t()) break; "
CALLEE_HELPER = ("if (callee.get_kind() == DOT && callee.get(0).get_type().is_process()) { const auto* process = "
                 "static_cast<const instance_t*>(callee.get(0).get_symbol().get_data()); if (process != nullptr && process->templ != nullptr && "
                 "static_cast<uint32_t>(callee.get_index()) < process->templ->frame.get_size()) return process->templ->frame[callee.get_index()]; } "
                 "return callee.get_symbol();")


def tr_callee_helper(src):
    """the helper that resolves `P.f` callees, if the source has one (proposed_fixes/C11-process-dot-call.diff)"""
    if "called_function_symbol" not in src:
        return False
    body = norm(function_body(src, r"static\s+symbol_t\s+called_function_symbol\s*\(\s*const\s+expression_t&\s*callee\s*\)\s*\{", "called_function_symbol"))
    if body != CALLEE_HELPER:
        raise TranslateError("called_function_symbol changed: %r" % body)
    return True


def tr_writes(src):
    body = function_body(src, r"void\s+expression_t::collect_possible_writes\s*\(\s*set<symbol_t>&\s*symbols\s*\)\s*const\s*\{", "collect_possible_writes")
    pre, sw, post = find_switch(body, "collect_possible_writes")
    pre_n = norm(pre)
    m = re.search(r"if \(empty\(\)\) return; (.*)$", pre_n)
    if not m:
        raise TranslateError("collect_possible_writes: prologue changed: %r" % pre_n)
    rec = m.group(1)
    recurses = rec == "for (uint32_t i = 0; i < get_size(); i++) { get(i).collect_possible_writes(symbols); }"
    if not recurses and rec != "":
        raise TranslateError("collect_possible_writes: unrecognised child recursion %r" % rec)
    if norm(post) != "":
        raise TranslateError("collect_possible_writes: code after the switch")
    lhs_kinds, call_kinds = [], []
    flags = {"callAddsChanges": False, "callAddsRefArgs": False, "resolvesDot": False}
    for labels, b in split_cases(sw, "collect_possible_writes"):
        b = b.replace(NULL_CALLEE_GUARD, "")
        if labels == ["default"]:
            if b != "break;":
                raise TranslateError("collect_possible_writes: default does %r" % b)
        elif b == "get(0).get_symbols(symbols); break;":
            lhs_kinds += labels
        elif b.startswith(CALL_W_EXPECT_HEAD % CALLEE_PLAIN) or b.startswith(CALL_W_EXPECT_HEAD % CALLEE_RESOLVED):
            if call_kinds:
                raise TranslateError("collect_possible_writes: two call groups")
            call_kinds += labels
            resolved = b.startswith(CALL_W_EXPECT_HEAD % CALLEE_RESOLVED)
            if resolved and not tr_callee_helper(src):
                raise TranslateError("collect_possible_writes uses called_function_symbol, which is not defined")
            flags["resolvesDot"] = resolved
            rest = b[len(CALL_W_EXPECT_HEAD % (CALLEE_RESOLVED if resolved else CALLEE_PLAIN)):].strip()
            a = "symbols.insert(fun->changes.begin(), fun->changes.end());"
            if rest.startswith(a):
                flags["callAddsChanges"] = True
                rest = rest[len(a):].strip()
            r = ("type = fun->uid.get_type(); for (uint32_t i = 1; i < min(get_size(), type.size()); i++) { "
                 "if (type[i].is(REF) && !type[i].is_constant()) { get(i).get_symbols(symbols); } }")
            if rest.startswith(r):
                flags["callAddsRefArgs"] = True
                rest = rest[len(r):].strip()
            if rest != "} break;":
                raise TranslateError("collect_possible_writes: unrecognised call-case body: %r" % rest)
        else:
            raise TranslateError("collect_possible_writes: unrecognised body for %r: %r" % (labels, b))
    return recurses, lhs_kinds, call_kinds, flags


def tr_reads(src):
    body = function_body(src, r"void\s+expression_t::collect_possible_reads\s*\(\s*set<symbol_t>&\s*symbols\s*,\s*bool\s+collectRandom\s*\)\s*const\s*\{",
                         "collect_possible_reads")
    pre, sw, post = find_switch(body, "collect_possible_reads")
    pre_n = norm(pre)
    m = re.match(r"if \(empty\(\)\) return; for \(uint32_t i = 0; i < get_size\(\); i\+\+\) get\(i\)\.collect_possible_reads\(symbols(, collectRandom)?\);$", pre_n)
    if not m:
        raise TranslateError("collect_possible_reads: prologue changed: %r" % pre_n)
    propagates = bool(m.group(1))
    if norm(post) != "":
        raise TranslateError("collect_possible_reads: code after the switch")
    ident, call_kinds, rnd, adds_dep, resolves_dot = False, [], [], False, False
    for labels, b in split_cases(sw, "collect_possible_reads"):
        b = b.replace(NULL_CALLEE_GUARD, "")
        if labels == ["default"]:
            if b != "break;":
                raise TranslateError("collect_possible_reads: default does %r" % b)
        elif b == "symbols.insert(get_symbol()); break;":
            if labels != ["IDENTIFIER"]:
                raise TranslateError("collect_possible_reads: get_symbol() inserted for %r" % labels)
            ident = True
        elif "fun->depends" in b or "get(0).get_symbol()" in b:
            exp = ("{ auto symbol = %s; if (auto type = symbol.get_type(); type.is_function() || "
                   "type.is_function_external()) { if (auto* data = symbol.get_data(); data) { auto fun = "
                   "static_cast<function_t*>(data); %s} } break; }")
            dep = "symbols.insert(fun->depends.begin(), fun->depends.end()); "
            if b in (exp % (CALLEE_PLAIN, dep), exp % (CALLEE_RESOLVED, dep)):
                adds_dep = True
            elif b not in (exp % (CALLEE_PLAIN, ""), exp % (CALLEE_RESOLVED, "")):
                raise TranslateError("collect_possible_reads: unrecognised call-case body %r" % b)
            if CALLEE_RESOLVED in b:
                if not tr_callee_helper(src):
                    raise TranslateError("collect_possible_reads uses called_function_symbol, which is not defined")
                resolves_dot = True
            call_kinds += labels
        else:
            m = re.match(r"if \(collectRandom\) \{ ((?:symbols\.insert\(symbol_t\(\)\); )+)\} break;$", b)
            if not m:
                raise TranslateError("collect_possible_reads: unrecognised body for %r: %r" % (labels, b))
            for l in labels:
                rnd.append(l)
    if not ident:
        raise TranslateError("collect_possible_reads: IDENTIFIER case missing")
    return propagates, call_kinds, adds_dep, rnd, resolves_dot


# ------------------------------------------------------------------------------------------------ statements

def tr_statement_classes(hdr):
    """-> [(class, base, [expr fields], [stmt fields], has_frame)] in header order, for subclasses of Statement."""
    out, known = [], {"Statement": None}
    for m in re.finditer(r"class\s+(\w+)\s*(?:final\s*)?:\s*public\s+(\w+)(?:\s*,\s*public\s+(\w+))?\s*\{", hdr):
        name, base = m.group(1), m.group(2)
        if base not in known:
            continue
        i = m.end() - 1
        j = match_brace(hdr, i)
        body = hdr[i:j]
        exprs = re.findall(r"\bexpression_t\s+(\w+)\s*;", body)
        stmts = re.findall(r"std::unique_ptr<Statement>\s+(\w+)\s*;", body)
        frame = bool(re.search(r"\bframe_t\s+frame\s*;", body))
        stats_vec = bool(re.search(r"std::vector<std::unique_ptr<Statement>>\s+stats\s*;", body))
        known[name] = base
        out.append((name, base, exprs, stmts, frame, stats_vec))
    if len(out) < 10:
        raise TranslateError("statement.h: suspiciously few statement classes: %r" % [o[0] for o in out])
    return out


def tr_visitor_decl(hdr, cls):
    m = re.search(r"class\s+%s\s*:\s*public\s+(\w+)\s*\{" % cls, hdr)
    if not m:
        raise TranslateError("statement.h: class %s not found" % cls)
    i = m.end() - 1
    j = match_brace(hdr, i)
    body = hdr[i:j]
    return m.group(1), re.findall(r"int32_t\s+(visit\w+)\s*\(", body), body


ACTION_PATTERNS = [
    (r"visitExpression\(stat->(\w+)\);", "expr:%s"),
    (r"(?:return\s+)?stat->(\w+)->accept\(this\);", "stat:%s"),
    (r"(?:return\s+)?visitBlockStatement\(stat\);", "block"),
    (r"(?:return\s+)?visitStatement\(stat\);", "nothing"),
    (r"return\s+0;", None),
    (r"return\s+result;", None),
    (r"int\s+result\s*=\s*0;", None),
]


def tr_visit_method(src, cls, meth):
    """-> list of actions of `cls::meth` or None if not defined."""
    ms = list(re.finditer(r"int32_t\s+%s::%s\s*\(\s*\w+\s*\*\s*stat\s*\)\s*\{" % (cls, meth), src))
    if not ms:
        return None
    if len(ms) > 1:
        raise TranslateError("%s::%s defined twice" % (cls, meth))
    i = ms[0].end() - 1
    body = norm(src[i + 1:match_brace(src, i) - 1])
    acts = []
    rest = body
    # recognised composite shapes first
    shapes = [
        # block: frame initialisers, then statements
        (r"for \(symbol_t& symbol : stat->get_frame\(\)\) \{ if \(auto\* data = symbol\.get_data\(\); data\) \{ "
         r"visitExpression\(static_cast<variable_t\*>\(data\)->init\); \} \} ", ["frame-inits"]),
        (r"for \(std::unique_ptr<Statement>& s : \*stat\) \{ s->accept\(this\); \} ", ["stats"]),
        (r"for \(auto& statement : \*stat\) \{ result = statement->accept\(this\); \} ", ["stats"]),
        (r"if \(stat->falseCase\) \{ stat->falseCase->accept\(this\); \} ", ["stat?:falseCase"]),
        (r"if \(stat->falseCase\) \{ stat->trueCase->accept\(this\); return stat->falseCase->accept\(this\); \} "
         r"else \{ return stat->trueCase->accept\(this\); \}", ["stat:trueCase", "stat?:falseCase"]),
    ]
    rest += " "
    while rest.strip():
        rest = rest.lstrip()
        hit = False
        for pat, a in shapes:
            m = re.match(pat, rest)
            if m:
                acts += a
                rest = rest[m.end():]
                hit = True
                break
        if hit:
            continue
        for pat, a in ACTION_PATTERNS:
            m = re.match(pat, rest)
            if m:
                if a:
                    acts.append(a % m.groups() if "%s" in a else a)
                rest = rest[m.end():]
                hit = True
                break
        if not hit:
            raise TranslateError("%s::%s: unrecognised statement %r" % (cls, meth, rest[:80]))
    return [a for a in acts if a != "nothing"]


def tr_visitors(hdr, src, classes):
    base_ev, ev_decl, _ = tr_visitor_decl(hdr, "ExpressionVisitor")
    if base_ev != "AbstractStatementVisitor":
        raise TranslateError("ExpressionVisitor derives from %s" % base_ev)
    base_av, av_decl, _ = tr_visitor_decl(hdr, "AbstractStatementVisitor")
    rows = {}
    for v in ("CollectChangesVisitor", "CollectDependenciesVisitor"):
        b, decl, body = tr_visitor_decl(hdr, v)
        if b != "ExpressionVisitor":
            raise TranslateError("%s derives from %s" % (v, b))
        if decl:
            raise TranslateError("%s overrides %r" % (v, decl))
    ve = {
        "CollectChangesVisitor": norm(function_body(src, r"void\s+CollectChangesVisitor::visitExpression\s*\(\s*expression_t\s+expr\s*\)\s*\{", "CollectChangesVisitor::visitExpression")),
        "CollectDependenciesVisitor": norm(function_body(src, r"void\s+CollectDependenciesVisitor::visitExpression\s*\(\s*expression_t\s+expr\s*\)\s*\{", "CollectDependenciesVisitor::visitExpression")),
    }
    if ve["CollectChangesVisitor"] != "expr.collect_possible_writes(changes);":
        raise TranslateError("CollectChangesVisitor::visitExpression is %r" % ve["CollectChangesVisitor"])
    m = re.match(r"expr\.collect_possible_reads\(dependencies(, true)?\);$", ve["CollectDependenciesVisitor"])
    if not m:
        raise TranslateError("CollectDependenciesVisitor::visitExpression is %r" % ve["CollectDependenciesVisitor"])
    deps_collect_random = bool(m.group(1))
    for name, base, exprs, stmts, frame, stats_vec in classes:
        meth = "visit" + name
        if meth not in av_decl:
            # a class without its own visit method (ExternalBlockStatement) is visited as its base
            continue
        acts = None
        if meth in ev_decl:
            acts = tr_visit_method(src, "ExpressionVisitor", meth)
            if acts is None:
                raise TranslateError("ExpressionVisitor::%s declared but not defined" % meth)
        if acts is None:
            acts = tr_visit_method(src, "AbstractStatementVisitor", meth)
            if acts is None:
                raise TranslateError("AbstractStatementVisitor::%s not defined" % meth)
        rows[name] = acts
    # expand "block" (= ExpressionVisitor::visitBlockStatement on the same object, virtual dispatch not involved)
    blk = rows.get("BlockStatement")
    if blk is None:
        raise TranslateError("no visitBlockStatement")
    for k, acts in list(rows.items()):
        out = []
        for a in acts:
            out += blk if a == "block" else [a]
        rows[k] = out
    return rows, deps_collect_random


# ------------------------------------------------------------------------------------------------ typechecker.cpp

def tr_visit_function(tc):
    body = norm(function_body(tc, r"void\s+TypeChecker::visitFunction\s*\(\s*function_t&\s*fun\s*\)\s*\{", "TypeChecker::visitFunction"))
    f = {}
    f["collectsChanges"] = "CollectChangesVisitor visitor(fun.changes); fun.body->accept(&visitor);" in body
    f["collectsDepends"] = "CollectDependenciesVisitor visitor2(fun.depends); fun.body->accept(&visitor2);" in body
    m = re.search(r"for \(const auto& var : fun\.variables\) \{(.*?)\}", body)
    loc = m.group(1) if m else ""
    f["erasesLocalChanges"] = "fun.changes.erase(var.uid);" in loc
    f["erasesLocalDepends"] = "fun.depends.erase(var.uid);" in loc
    m = re.search(r"size_t parameters = fun\.uid\.get_type\(\)\.size\(\) - 1; for \(uint32_t i = 0; i < parameters; i\+\+\) \{(.*?)\}", body)
    par = m.group(1) if m else ""
    f["erasesParamChanges"] = "fun.changes.erase(fun.body->get_frame()[i]);" in par
    f["erasesParamDepends"] = "fun.depends.erase(fun.body->get_frame()[i]);" in par
    # anything else touching changes/depends is unknown territory
    leftover = body
    for s in ("CollectChangesVisitor visitor(fun.changes);", "CollectDependenciesVisitor visitor2(fun.depends);",
              "fun.changes.erase(var.uid);", "fun.depends.erase(var.uid);", "fun.changes.erase(fun.body->get_frame()[i]);",
              "fun.depends.erase(fun.body->get_frame()[i]);"):
        leftover = leftover.replace(s, "")
    if "fun.changes" in leftover or "fun.depends" in leftover:
        raise TranslateError("TypeChecker::visitFunction touches changes/depends in an unrecognised way")
    # the analysis part (from the first collector to the end) must consist of the known statements only, unconditionally executed:
    # a collector or an erase loop wrapped in a condition is not something the flags above can express
    if "CollectChangesVisitor" in body or "CollectDependenciesVisitor" in body:
        tail = body[min(i for i in (body.find("CollectChangesVisitor"), body.find("CollectDependenciesVisitor")) if i >= 0):]
        for s in ("CollectChangesVisitor visitor(fun.changes);", "fun.body->accept(&visitor);", "CollectDependenciesVisitor visitor2(fun.depends);",
                  "fun.body->accept(&visitor2);", "for (const auto& var : fun.variables)", "fun.changes.erase(var.uid);", "fun.depends.erase(var.uid);",
                  "size_t parameters = fun.uid.get_type().size() - 1;", "for (uint32_t i = 0; i < parameters; i++)",
                  "fun.changes.erase(fun.body->get_frame()[i]);", "fun.depends.erase(fun.body->get_frame()[i]);"):
            tail = tail.replace(s, "", 1)
        if tail.replace("{", "").replace("}", "").strip():
            raise TranslateError("TypeChecker::visitFunction: unrecognised code around the changes/depends collectors: %r" % tail.strip()[:200])
    return f


def tr_ctc(tc):
    body = norm(function_body(tc, r"bool\s+TypeChecker::isCompileTimeComputable\s*\(\s*expression_t\s+expr\s*\)\s*const\s*\{", "isCompileTimeComputable"))
    exp = ("std::set<symbol_t> reads; expr.collect_possible_reads(reads, %s); return std::all_of(reads.begin(), reads.end(), "
           "[this](const symbol_t& s) { return s != symbol_t{} && (s.get_type().is_function() || "
           "s.get_type().is_function_external() || compileTimeComputableValues.contains(s)); });")
    if body == exp % "true":
        rnd = True
    elif body == exp % "false" or body == (exp % "X").replace(", X", ""):
        rnd = False
    else:
        raise TranslateError("isCompileTimeComputable changed: %r" % body)
    vv = norm(function_body(tc, r"void\s+CompileTimeComputableValues::visitVariable\s*\(\s*variable_t&\s*variable\s*\)\s*\{", "CTCV::visitVariable"))
    if vv != "if (variable.uid.get_type().is_constant()) { variables.insert(variable.uid); }":
        raise TranslateError("CompileTimeComputableValues::visitVariable changed: %r" % vv)
    vi = norm(function_body(tc, r"void\s+CompileTimeComputableValues::visitInstance\s*\(\s*instance_t&\s*temp\s*\)\s*\{", "CTCV::visitInstance"))
    if vi != ("for (const auto& param : temp.parameters) { type_t type = param.get_type(); if (!type.is(REF) && "
              "type.is_constant() && !type.is_double()) { variables.insert(param); } }"):
        raise TranslateError("CompileTimeComputableValues::visitInstance changed: %r" % vi)
    return rnd


def tr_restricted(repo):
    """StatementBuilder::collectDependencies(set, expression) and TypeChecker::visitProcess' use of `restricted`."""
    sb = read(repo, "src/StatementBuilder.cpp")
    body = norm(function_body(sb, r"void\s+StatementBuilder::collectDependencies\s*\(\s*std::set<symbol_t>&\s*dependencies\s*,\s*expression_t\s+expr\s*\)\s*\{",
                              "StatementBuilder::collectDependencies"))
    exp = ("std::set<symbol_t> symbols; expr.collect_possible_reads(symbols); while (!symbols.empty()) { symbol_t s = *symbols.begin(); "
           "symbols.erase(s); if (dependencies.find(s) == dependencies.end()) { dependencies.insert(s); if (auto d = s.get_data(); d) { "
           "if (auto t = s.get_type(); !(t.is_function() || t.is_function_external())) { variable_t* v = static_cast<variable_t*>(d); "
           "v->init.collect_possible_reads(symbols); } else { } } } }")
    if body != exp:
        raise TranslateError("StatementBuilder::collectDependencies changed: %r" % body)
    tc = read(repo, "src/typechecker.cpp")
    vp = norm(function_body(tc, r"void\s+TypeChecker::visitProcess\s*\(\s*instance_t&\s*process\s*\)\s*\{", "TypeChecker::visitProcess"))
    if ("if (process.restricted.find(parameter) != process.restricted.end()) { handleError(process.uid, "
            "\"$Free_process_parameters_must_not_be_used_directly_or_indirectly_in_\" \"an_array_declaration_or_select_expression\"); }") not in vp:
        raise TranslateError("TypeChecker::visitProcess no longer rejects restricted free parameters: %r" % vp)
    return False   # functions are not followed ("TODO; fixme")


def tr_argument_rule(tc):
    body = norm(function_body(tc, r"void\s+TypeChecker::visitInstance\s*\(\s*instance_t&\s*instance\s*\)\s*\{", "TypeChecker::visitInstance"))
    if ("bool ref = parameter.get_type().is(REF); bool constant = parameter.get_type().is_constant(); "
            "bool computable = isCompileTimeComputable(argument);") not in body:
        raise TranslateError("TypeChecker::visitInstance: the ref/constant/computable definitions changed")
    m = re.search(r"bool computable = isCompileTimeComputable\(argument\); if \((.*?)\) \{ handleError\(argument, \"\$Incompatible_argument\"\); continue; \}", body)
    if not m:
        raise TranslateError("TypeChecker::visitInstance: $Incompatible_argument test not found")
    disj = [d.strip() for d in m.group(1).split("||")]
    known = {"(!ref && !computable)": "value", "(ref && !constant && !isUniqueReference(argument))": "unique", "(ref && constant && !computable)": "constref"}
    for d in disj:
        if d not in known:
            raise TranslateError("TypeChecker::visitInstance: unrecognised disjunct %r" % d)
    have = {known[d] for d in disj}
    return "value" in have, "constref" in have


def tr_sites(tc):
    """Every handleError(..., "$X") with X ending in _must_be_side-effect_free or = Must_be_computable_at_compile_time,
    together with the (normalised) condition of the innermost enclosing `if`/`else if` -- as (message, condition-kind)."""
    out = []
    for m in re.finditer(r'handleError\(\s*([^;]*?),\s*"\$(\w+_must_be_side-effect_free|Must_be_computable_at_compile_time)"\s*\)\s*;', tc):
        msg = m.group(2)
        # look backwards for the opening brace of the block and the condition before it
        i = m.start()
        depth = 0
        k = i - 1
        while k >= 0:
            if tc[k] == "}":
                depth += 1
            elif tc[k] == "{":
                if depth == 0:
                    break
                depth -= 1
            k -= 1
        head = norm(tc[max(0, k - 300):k])
        mm = re.search(r"(?:if|else if) \((.*)\)$", head)
        cond = mm.group(1) if mm else "?"
        # keep the last `if (`: strip anything before an unbalanced prefix
        j = cond.rfind("if (")
        if j >= 0:
            cond = cond[j + 4:]
        if msg.endswith("side-effect_free"):
            kind = "changes" if re.search(r"\bchanges_any_variable\(\)$", cond) and not cond.startswith("!") else "other:" + cond
        else:
            kind = "notctc" if re.match(r"!isCompileTimeComputable\(.*\)$", cond) else "other:" + cond
        out.append((msg, kind))
    return out


# ------------------------------------------------------------------------------------------------ which expressions inside a TYPE are checked

CHILD0_RE = re.compile(r'^(?:if \([^{}]*\) \{ handleError\(type, "\$[\w-]+"\); \} )?checkType\(type\[0\], (?:initialisable|true), inStruct\); break;$')
RANGE_BOUND = ('if (checkExpression(%(b)s)) { if (!is_integer(%(b)s)) { handleError(%(b)s, "$Integer_expected"); } '
               'if (!isCompileTimeComputable(%(b)s)) { handleError(%(b)s, "$Must_be_computable_at_compile_time"); } } ')
RANGE_BODY = ('if (!type.is_integer() && !type.is_scalar()) { handleError(type, "$Range_over_this_type_not_allowed"); } '
              'std::tie(l, u) = type.get_range(); ' + RANGE_BOUND % {"b": "l"} + RANGE_BOUND % {"b": "u"} + "break;")
ARRAY_BODY = ('size = type.get_array_size(); if (!size.is(RANGE)) { handleError(type, "$Invalid_array_size"); } else { checkType(size); } '
              'checkType(type[0], initialisable, inStruct); break;')
RECORD_BODY = "for (size_t i = 0; i < type.size(); i++) { checkType(type.get_sub(i), true, true); } break;"
LEAF_BODIES = ("break;", 'if (inStruct) { handleError(type, "$This_type_cannot_be_declared_inside_a_struct"); }',
               'if (initialisable) { handleError(type, "$This_type_cannot_be_declared_const_or_meta"); }')


def tr_check_type(tc):
    """TypeChecker::checkType: per case label what happens to the children of the type --
    child0 (checkType(type[0], ..)), bounds (both bounds of a RANGE through checkExpression + isCompileTimeComputable),
    sizeElem (ARRAY: checkType(size) and checkType(type[0], ..)), fields (RECORD: every field), nothing."""
    body = function_body(tc, r"void\s+TypeChecker::checkType\s*\(\s*type_t\s+type\s*,\s*bool\s+initialisable\s*,\s*bool\s+inStruct\s*\)\s*\{", "TypeChecker::checkType")
    m = re.search(r"switch\s*\(\s*type\.get_kind\(\)\s*\)\s*\{", body)
    if not m:
        raise TranslateError("TypeChecker::checkType: switch (type.get_kind()) not found")
    i = m.end() - 1
    j = match_brace(body, i)
    if norm(body[:m.start()]) != "expression_t l, u; type_t size; frame_t frame;" or norm(body[j:]) != "":
        raise TranslateError("TypeChecker::checkType: unexpected code around the switch: %r / %r" % (norm(body[:m.start()]), norm(body[j:])))
    rows = []
    for labels, b in split_cases(body[i + 1:j - 1], "TypeChecker::checkType"):
        if CHILD0_RE.match(b):
            act = "child0"
        elif b == RANGE_BODY:
            act = "bounds true true"
        elif b == ARRAY_BODY:
            act = "sizeElem true true"
        elif b == RECORD_BODY:
            act = "fields"
        elif b in LEAF_BODIES:
            act = "nothing"
        else:
            raise TranslateError("TypeChecker::checkType: unrecognised body for %r: %r" % (labels, b))
        for l in labels:
            if l != "default":
                rows.append((l, act))
    return rows


def tr_check_type_sites(tc):
    """every call `checkType(<type>)` of src/typechecker.cpp outside checkType itself, as (member function, case labels of the
    enclosing switch group or '', normalised argument)"""
    out = []
    defs = [(m.group(1), m.end() - 1) for m in re.finditer(r"\bTypeChecker::(\w+)\s*\([^;{}]*\)\s*(?:const\s*)?\{", tc)]
    for name, i in defs:
        if name == "checkType":
            continue
        j = match_brace(tc, i)
        fbody = tc[i:j]
        for m in re.finditer(r"\bcheckType\(", fbody):
            k, depth = m.end(), 1
            while k < len(fbody) and depth:
                depth += {"(": 1, ")": -1}.get(fbody[k], 0)
                k += 1
            arg = norm(fbody[m.end():k - 1])
            # the run of case labels that opens the switch group the call stands in (nearest labels before the call)
            labs = list(re.finditer(r"\bcase\s+([A-Za-z_][\w:]*)\s*:", fbody[:m.start()]))
            group = []
            if name == "checkExpression" and labs:
                group = [labs[-1].group(1).split("::")[-1]]
                end = labs[-1].start()
                for l in reversed(labs[:-1]):
                    if fbody[l.end():end].strip():
                        break
                    group.insert(0, l.group(1).split("::")[-1])
                    end = l.start()
            out.append((name, "+".join(group), arg))
    if not out:
        raise TranslateError("src/typechecker.cpp: no call of checkType found")
    return out


STRIP_ARRAY_BODY = "type_t type = strip(); while (type.get_kind() == ARRAY) { type = type.get(0).strip(); } return type;"
VISIT_VARIABLE_RE = re.compile(r"void\* data = frame\[i\]\.get_data\(\); type = type\.strip_array\(\); if \(\((.*?)\) && data != nullptr\) "
                               r"\{ visitor\.visitVariable\(\*static_cast<variable_t\*>\(data\)\); \}")


def tr_variable_visit(repo):
    """type_t::strip_array strips at EVERY array level (typedef names and prefixes between two levels included), and the frame
    walk of Document::accept classifies a symbol by strip_array(): -> base kinds for which visitVariable is called"""
    ty = read(repo, "src/type.cpp")
    body = norm(function_body(ty, r"type_t\s+type_t::strip_array\s*\(\s*\)\s*const\s*\{", "type_t::strip_array"))
    if body != STRIP_ARRAY_BODY:
        raise TranslateError("type_t::strip_array: unrecognised shape: %r" % body)
    doc = read(repo, "src/document.cpp")
    vbody = norm(function_body(doc, r"static\s+void\s+visit\s*\(\s*DocumentVisitor&\s*visitor\s*,\s*frame_t\s+frame\s*\)\s*\{", "visit(DocumentVisitor&, frame_t)"))
    m = VISIT_VARIABLE_RE.search(vbody)
    if not m:
        raise TranslateError("document.cpp visit(): the variable branch (strip_array, kinds, visitVariable) has an unrecognised shape")
    kinds = []
    for d in m.group(1).split("||"):
        mm = re.match(r"^type\.is\((?:Constants::)?(\w+)\)$|^type\.get_kind\(\) == (?:Constants::)?(\w+)$", d.strip())
        if not mm:
            raise TranslateError("document.cpp visit(): unrecognised disjunct %r in the variable branch" % d.strip())
        kinds.append(mm.group(1) or mm.group(2))
    return kinds


# ------------------------------------------------------------------------------------------------ emit

def lk(n):
    return ".k" + n


def lean_list(xs, per=6, ind="    "):
    if not xs:
        return "[]"
    rows = [", ".join(xs[i:i + per]) for i in range(0, len(xs), per)]
    return "[\n" + ind + (",\n" + ind).join(rows) + "]"


# statement classes the model (Model/Effect.lean, `inductive Stmt`) knows, with the fields it expects; a class or field
# that is not listed here is a change of include/utap/statement.h the model has not been extended for: fail closed.
EXPECTED_CLASSES = {
    "EmptyStatement": ("Statement", [], []),
    "ExprStatement": ("Statement", ["expr"], []),
    "AssertStatement": ("Statement", ["expr"], []),
    "ForStatement": ("Statement", ["init", "cond", "step"], ["stat"]),
    "IterationStatement": ("Statement", [], ["stat"]),
    "WhileStatement": ("Statement", ["cond"], ["stat"]),
    "DoWhileStatement": ("Statement", ["cond"], ["stat"]),
    "BlockStatement": ("Statement", [], []),
    "ExternalBlockStatement": ("BlockStatement", [], []),
    "SwitchStatement": ("BlockStatement", ["cond"], []),
    "CaseStatement": ("BlockStatement", ["cond"], []),
    "DefaultStatement": ("BlockStatement", [], []),
    "IfStatement": ("Statement", ["cond"], ["trueCase", "falseCase"]),
    "BreakStatement": ("Statement", [], []),
    "ContinueStatement": ("Statement", [], []),
    "ReturnStatement": ("Statement", ["value"], []),
}

# VisitFlags field  <-  (statement class, action)
FLAG_OF = [
    ("exprE", "ExprStatement", "expr:expr"), ("assertE", "AssertStatement", "expr:expr"),
    ("forInit", "ForStatement", "expr:init"), ("forCond", "ForStatement", "expr:cond"), ("forStep", "ForStatement", "expr:step"),
    ("forBody", "ForStatement", "stat:stat"), ("iterBody", "IterationStatement", "stat:stat"),
    ("whileCond", "WhileStatement", "expr:cond"), ("whileBody", "WhileStatement", "stat:stat"),
    ("doCond", "DoWhileStatement", "expr:cond"), ("doBody", "DoWhileStatement", "stat:stat"),
    ("blockInits", "BlockStatement", "frame-inits"), ("blockStats", "BlockStatement", "stats"),
    ("switchCond", "SwitchStatement", "expr:cond"), ("switchInits", "SwitchStatement", "frame-inits"), ("switchStats", "SwitchStatement", "stats"),
    ("caseCond", "CaseStatement", "expr:cond"), ("caseInits", "CaseStatement", "frame-inits"), ("caseStats", "CaseStatement", "stats"),
    ("defaultInits", "DefaultStatement", "frame-inits"), ("defaultStats", "DefaultStatement", "stats"),
    ("ifCond", "IfStatement", "expr:cond"), ("ifThen", "IfStatement", "stat:trueCase"), ("ifElse", "IfStatement", "stat?:falseCase"),
    ("returnE", "ReturnStatement", "expr:value"),
]

SITE_OF = {
    "Argument_must_be_side-effect_free": "argument", "Assertion_must_be_side-effect_free": "assertion",
    "Condition_must_be_side-effect_free": "condition", "Expression_must_be_side-effect_free": "expression",
    "Guard_must_be_side-effect_free": "guard", "Index_must_be_side-effect_free": "index",
    "Initialiser_must_be_side-effect_free": "initialiser", "Invariant_must_be_side-effect_free": "invariant",
    "Message_must_be_side-effect_free": "message", "Probability_must_be_side-effect_free": "probability",
    "Property_must_be_side-effect_free": "property", "Synchronisation_must_be_side-effect_free": "synchronisation",
    "Must_be_computable_at_compile_time": "notComputable",
}


def translate(repo="/repo", kind_names=None, strict_c13=True):
    """strict_c13=False (used by C11): a change in the parts only C13's theorems read (the `restricted` closure, visitProcess,
    the $Incompatible_argument rule) does not break the tie of C11; the flags then take their weakest value and the change
    is recorded in info["c13_only_errors"]."""
    ex = read(repo, "src/expression.cpp")
    hdr = read(repo, "include/utap/statement.h")
    st = read(repo, "src/statement.cpp")
    tc = read(repo, "src/typechecker.cpp")
    gs = tr_get_symbols(ex)
    w_rec, w_lhs, w_call, w_flags = tr_writes(ex)
    r_prop, r_call, r_dep, r_rnd, r_dot = tr_reads(ex)
    classes = tr_statement_classes(hdr)
    rows, deps_random = tr_visitors(hdr, st, classes)
    vf = tr_visit_function(tc)
    ctc_random = tr_ctc(tc)
    sites = tr_sites(tc)
    ct_rows = tr_check_type(tc)
    ct_sites = tr_check_type_sites(tc)
    var_kinds = tr_variable_visit(repo)
    c13_errors = []
    try:
        deps_follow = tr_restricted(repo)
    except TranslateError as ex_:
        if strict_c13:
            raise
        c13_errors.append(str(ex_))
        deps_follow = False
    try:
        arg_value, arg_constref = tr_argument_rule(tc)
    except TranslateError as ex_:
        if strict_c13:
            raise
        c13_errors.append(str(ex_))
        arg_value, arg_constref = False, False
    if kind_names is not None:
        for k in [k for k, _ in gs] + w_lhs + w_call + r_call + r_rnd + [k for k, _ in ct_rows] + var_kinds:
            if k not in kind_names:
                raise TranslateError("case label %s is not an enumerator of kind_t" % k)
    # statement classes: exactly the modelled ones, with exactly the modelled fields
    seen = {}
    for name, base, exprs, stmts, frame, stats_vec in classes:
        if name not in EXPECTED_CLASSES:
            raise TranslateError("statement.h: statement class %s is not modelled (Model/Effect.lean: inductive Stmt)" % name)
        if (base, exprs, stmts) != EXPECTED_CLASSES[name]:
            raise TranslateError("statement.h: class %s now has base/fields %r, the model expects %r" % (name, (base, exprs, stmts), EXPECTED_CLASSES[name]))
        seen[name] = 1
    missing = [c for c in EXPECTED_CLASSES if c not in seen]
    if missing:
        raise TranslateError("statement.h: modelled statement classes no longer exist: %r" % missing)
    known_actions = {}
    for f, cls, act in FLAG_OF:
        known_actions.setdefault(cls, set()).add(act)
    for cls, acts in rows.items():
        for a in acts:
            if a not in known_actions.get(cls, set()):
                raise TranslateError("visitor of %s performs %r, which the model has no flag for" % (cls, a))
    flags = [(f, act in rows.get(cls, [])) for f, cls, act in FLAG_OF]
    cnt, other = {}, 0
    for msg, kind in sites:
        if msg not in SITE_OF:
            raise TranslateError("unknown diagnostic $%s" % msg)
        if kind.startswith("other:"):
            other += 1
        else:
            cnt[SITE_OF[msg]] = cnt.get(SITE_OF[msg], 0) + 1
    b = lambda x: "true" if x else "false"  # noqa: E731
    L = ["/- GENERATED by translate/effects.py from src/expression.cpp, include/utap/statement.h, src/statement.cpp and",
         "   src/typechecker.cpp of the current working tree -- do not edit.  Regenerated on every run of C11 / C13. -/",
         "import UtapModel.Model.EffectCfg", "import UtapModel.Model.TypeWalk", "namespace UtapModel.EffectGen",
         "open UtapModel UtapModel.Effect", "",
         "def genVisit : VisitFlags where"]
    L += ["  %s := %s" % (f, b(v)) for f, v in flags]
    L += ["", "def genCfg : Cfg where",
          "  getSymbolsTable := " + lean_list(["(%s, [%s])" % (lk(k), ", ".join(map(str, ix))) for k, ix in gs], 4),
          "  writesRecurses := " + b(w_rec),
          "  writeLhsKinds := " + lean_list([lk(k) for k in w_lhs]),
          "  writeCallKinds := " + lean_list([lk(k) for k in w_call]),
          "  callAddsChanges := " + b(w_flags["callAddsChanges"]),
          "  callAddsRefArgs := " + b(w_flags["callAddsRefArgs"]),
          "  writeCallResolvesDot := " + b(w_flags["resolvesDot"]),
          "  readCallResolvesDot := " + b(r_dot),
          "  readCallKinds := " + lean_list([lk(k) for k in r_call]),
          "  callAddsDepends := " + b(r_dep),
          "  readsPropagatesRandom := " + b(r_prop),
          "  randomKinds := " + lean_list([lk(k) for k in r_rnd]),
          "  ctcCollectsRandom := " + b(ctc_random),
          "  dependsCollectsRandom := " + b(deps_random),
          "  visit := genVisit"]
    for k, v in vf.items():
        L.append("  %s := %s" % (k, b(v)))
    L += ["  depsFollowFunctions := " + b(deps_follow), "  argValueNeedsCtc := " + b(arg_value), "  argConstRefNeedsCtc := " + b(arg_constref)]
    L += ["  sites := " + lean_list(["(.%s, %d)" % (s, n) for s, n in sorted(cnt.items())], 4),
          "  unrecognisedSites := %d" % other, "",
          "/-- statement classes found in include/utap/statement.h (all modelled; the translator fails closed otherwise) -/",
          "def statementClassCount : Nat := %d" % len(classes), "",
          "/-- TypeChecker::checkType (children of a type that are checked), every call of checkType elsewhere in",
          "    src/typechecker.cpp, and the base kinds for which the frame walk of Document::accept calls visitVariable -/",
          "def genWalk : TypeWalk.WalkCfg where",
          "  checkType := " + lean_list(["(%s, .%s)" % (lk(k), a) for k, a in ct_rows], 3),
          "  sites := " + lean_list(['("%s", "%s", "%s")' % t for t in ct_sites], 1),
          "  variableBaseKinds := " + lean_list([lk(k) for k in var_kinds]), "",
          "end UtapModel.EffectGen", ""]
    info = {"get_symbols": gs, "write_lhs": w_lhs, "write_call": w_call, "flags": w_flags, "read_call": r_call,
            "random": r_rnd, "classes": [c[0] for c in classes], "rows": rows, "visitFunction": vf, "sites": cnt,
            "unrecognisedSites": other, "visitFlags": dict(flags), "readsPropagatesRandom": r_prop,
            "dependsCollectsRandom": deps_random, "ctcCollectsRandom": ctc_random, "callAddsDepends": r_dep,
            "c13_only_errors": c13_errors, "checkType_rows": len(ct_rows), "checkType_sites": len(ct_sites)}
    return "\n".join(L), info


if __name__ == "__main__":
    text, info = translate(sys.argv[1] if len(sys.argv) > 1 else "/repo")
    sys.stdout.write(text)
