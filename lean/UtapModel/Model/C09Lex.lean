/-
M-LEX (C09) — token-level model of `src/lexer.l`, parameterised by the generated rule table.

  * `matchLen r s`    length of the longest prefix of `s` matched by rule `r` (0 = no match)
  * `best rules s`    flex's choice: the longest match, the earliest rule among equally long ones
  * `action`          what the rule's action returns (keyword lookup under the syntax mask, `is_type` oracle,
                      number / float / string rules, newline tokens under PROPERTY syntax)
  * `commentStep`     the exclusive `<comment>` start condition (incl. the `EXPECT:` rule and `<<EOF>>`)
  * `lexGo`           the token stream of a whole input

The `is_type` callback is an oracle `Nat → List Ch → Bool`: its first argument is the number of tokens produced so
far (the symbol table changes while the parser consumes tokens; two runs with equal token histories see equal tables).
Core Lean only.
-/
import UtapModel.Model.C09Base
namespace UtapModel.C09

def isBlank (c : Ch) : Bool := c == 32 || c == 9
def isDigit (c : Ch) : Bool := 48 ≤ c && c ≤ 57
def isAlpha (c : Ch) : Bool := (97 ≤ c && c ≤ 122) || (65 ≤ c && c ≤ 90) || c == 95
def isIdChr (c : Ch) : Bool := isAlpha c || isDigit c || c == 36 || c == 35

/-- length of the longest prefix all of whose characters satisfy `p` -/
def spanLen (p : Ch → Bool) : List Ch → Nat
  | [] => 0
  | c :: cs => if p c then spanLen p cs + 1 else 0

/-- `l` is a prefix of `s` -/
def pre : List Ch → List Ch → Bool
  | [], _ => true
  | _ :: _, [] => false
  | a :: l, b :: s => a == b && pre l s

def crlfLen : List Ch → Nat
  | 13 :: 10 :: r => crlfLen r + 2
  | _ => 0

/-- `("."{num})?` after the integer part -/
def fracLen (s : List Ch) : Nat :=
  match s with
  | 46 :: r => if spanLen isDigit r = 0 then 0 else spanLen isDigit r + 1
  | _ => 0

/-- `([eE]("+"|"-")?{num})?` -/
def expLen (s : List Ch) : Nat :=
  match s with
  | c :: r =>
    if c == 101 || c == 69 then
      match r with
      | sg :: r' =>
        if sg == 43 || sg == 45 then (if spanLen isDigit r' = 0 then 0 else spanLen isDigit r' + 2)
        else (if spanLen isDigit r = 0 then 0 else spanLen isDigit r + 1)
      | [] => 0
    else 0
  | [] => 0

def floatLen (s : List Ch) : Nat :=
  let d := spanLen isDigit s
  if d = 0 then 0
  else
    let f := fracLen (s.drop d)
    d + f + expLen (s.drop (d + f))

def matchLen (r : Rule) (s : List Ch) : Nat :=
  match r with
  | .lit l _ => if pre l s then l.length else 0
  | .litOld l _ => if pre l s then l.length else 0
  | .cont =>
    match s with
    | 92 :: r => let b := spanLen isBlank r; if pre [10] (r.drop b) then b + 2 else 0
    | _ => 0
  | .lineComment => if pre [47, 47] s then spanLen (fun c => c != 10) (s.drop 2) + 2 else 0
  | .blanks => spanLen isBlank s
  | .commentOpen => if pre [47, 42] s then 2 else 0
  | .newlines => spanLen (fun c => c == 10) s
  | .crlf => crlfLen s
  | .ident =>
    match s with
    | c :: r => if isAlpha c then spanLen isIdChr r + 1 else 0
    | [] => 0
  | .num => spanLen isDigit s
  | .float => floatLen s
  | .anyChar =>
    match s with
    | c :: _ => if c == 10 then 0 else 1
    | [] => 0
  | .string =>
    match s with
    | 34 :: r => let b := spanLen (fun c => c != 34) r; if b = 0 then 0 else if pre [34] (r.drop b) then b + 2 else 0
    | _ => 0

/-- the longest match length over all rules -/
def maxMatch (rules : List Rule) (s : List Ch) : Nat :=
  rules.foldr (fun r m => max (matchLen r s) m) 0

/-- flex: longest match; among equally long matches the rule listed first -/
def best (rules : List Rule) (s : List Ch) : Option (Rule × Nat) :=
  if maxMatch rules s = 0 then none
  else (rules.find? (fun r => matchLen r s == maxMatch rules s)).map (fun r => (r, maxMatch rules s))

structure Cfg where
  rules : List Rule
  kws : List (List Ch × TokId × Nat)
  maxLen : Nat
  mask : Nat                       -- the parser's `syntax`
  bitOld : Nat
  bitProperty : Nat
  bitProb : Nat
  tConst : TokId
  tOldConst : TokId
  isType : Nat → List Ch → Bool    -- ch->is_type(text) when the n-th token is being produced
  softLits : List (List Ch) := []  -- literal rules whose action first asks `is_type` (outside PROPERTY syntax): repaired "A" "U" "R" "W" "E"
  expectStops : Bool := false      -- the EXPECT rule of the <comment> state is the repaired variant (stops before `*/`)

def kwFind (kws : List (List Ch × TokId × Nat)) (w : List Ch) : Option (TokId × Nat) :=
  match kws with
  | [] => none
  | (k, t, m) :: rest => if k == w then some (t, m) else kwFind rest w

/-- the keyword token of `w` under the configuration's syntax mask, if any (identifier rule of lexer.l) -/
def kwTok (cfg : Cfg) (w : List Ch) : Option TokId :=
  match kwFind cfg.kws w with
  | none => none
  | some (t, m) =>
    let s := if m &&& cfg.bitProb != 0 then 0 else m          -- ENABLE_PROB is not defined
    if cfg.mask &&& s != 0 then
      some (if t == cfg.tConst && cfg.mask &&& cfg.bitOld != 0 then cfg.tOldConst else t)
    else none

def digitsVal (s : List Ch) : Nat := s.foldl (fun a c => a * 10 + (c - 48)) 0

def dropZeros : List Ch → List Ch
  | 48 :: r => dropZeros r
  | s => s

def numTok (w : List Ch) : Tok :=
  let s := dropZeros w
  if s.isEmpty then .nat 0
  else if s == [50, 49, 52, 55, 52, 56, 51, 54, 52, 56] then .posNegMax
  else if s.length ≤ 10 && digitsVal s ≤ 2147483647 then .nat (digitsVal s) else .overflow

/-- result of an action in the INITIAL state: tokens handed to the parser and whether `<comment>` was entered -/
def action (cfg : Cfg) (n : Nat) (r : Rule) (w : List Ch) : List Tok × Bool :=
  match r with
  | .lit _ t =>
    (if cfg.softLits.contains w && !(cfg.mask &&& cfg.bitProperty != 0) && cfg.isType n w then [.typename w] else [.lit t], false)
  | .litOld _ t => (if cfg.mask &&& cfg.bitOld != 0 then [.lit t] else [.unknown], false)
  | .cont => ([], false)
  | .lineComment => ([], false)
  | .blanks => ([], false)
  | .commentOpen => ([], true)
  | .newlines => (if cfg.mask &&& cfg.bitProperty != 0 then [.newline] else [], false)
  | .crlf => (if cfg.mask &&& cfg.bitProperty != 0 then [.newline] else [], false)
  | .ident =>
    match kwTok cfg w with
    | some t => ([.lit t], false)
    | none =>
      let pre := if w.length ≥ cfg.maxLen then [Tok.tooLong] else []
      let w' := w.take (cfg.maxLen - 1)
      (pre ++ [if cfg.isType n w then .typename w' else .id w'], false)
  | .num => ([numTok w], false)
  | .float => ([.float w], false)
  | .anyChar => ([.unknown], false)
  | .string => ([.str (w.take (cfg.maxLen - 1))], false)

inductive CStep
  | eof                      -- <<EOF>>
  | close                    -- "*/"
  | expect (n : Nat)         -- "EXPECT:"[^\t \n]*   (n = total length)
  | skip                     -- \n or .
  deriving DecidableEq, Repr

/-- "EXPECT:" -/
def expectLit : List Ch := [69, 88, 80, 69, 67, 84, 58]

def expectAt (s : List Ch) : Bool := pre expectLit s

/-- repaired variant of the rule: `"EXPECT:"([^\t \n*]|"*"+[^\t \n*/])*` — the value stops before a closing `*/` -/
def expectTail2 : Nat → List Ch → Nat
  | 0, _ => 0
  | fuel + 1, s =>
    match s with
    | [] => 0
    | c :: r =>
      if c == 9 || c == 32 || c == 10 then 0
      else if c == 42 then
        let k := spanLen (fun d => d == 42) r          -- further stars
        match r.drop k with
        | d :: r' => if d == 9 || d == 32 || d == 10 || d == 47 then 0 else k + 2 + expectTail2 fuel r'
        | [] => 0
      else 1 + expectTail2 fuel r

/-- length of the value after `EXPECT:`; `stops` = the rule of the source tree is the repaired variant -/
def expectTail (stops : Bool) (s : List Ch) : Nat :=
  if stops then expectTail2 (s.length + 1) s else spanLen (fun c => !(c == 9 || c == 32 || c == 10)) s

/-- one step of the `<comment>` start condition (longest match: EXPECT ≥ 7 > "*/" = 2 > single character) -/
def commentStep (stops : Bool) (s : List Ch) : CStep :=
  match s with
  | [] => .eof
  | _ :: _ =>
    if expectAt s then .expect (7 + expectTail stops (s.drop 7))
    else if pre [42, 47] s then .close
    else .skip

/-- the token stream: `fuel` ≥ input length suffices (every step consumes at least one character) -/
def lexGo (cfg : Cfg) : Nat → Bool → Nat → List Ch → List Tok
  | 0, _, _, _ => []
  | fuel + 1, true, n, s =>
    match commentStep cfg.expectStops s with
    | .eof => [.commentNotClosed]
    | .close => lexGo cfg fuel false n (s.drop 2)
    | .expect k => .expect ((s.take k).drop 7) :: lexGo cfg fuel true (n + 1) (s.drop k)
    | .skip => lexGo cfg fuel true n (s.drop 1)
  | fuel + 1, false, n, s =>
    match s with
    | [] => []
    | _ :: _ =>
      match best cfg.rules s with
      | none => []
      | some (r, len) =>
        let res := action cfg n r (s.take len)
        res.1 ++ lexGo cfg fuel res.2 (n + res.1.length) (s.drop len)

def lex (cfg : Cfg) (s : List Ch) : List Tok := lexGo cfg (s.length + 1) false 0 s

/-- lexemes with offsets (for the driver): (start, end, rule index or 1000+comment-state code, tokens) -/
def lexemesGo (cfg : Cfg) : Nat → Bool → Nat → Nat → List Ch → List (Nat × Nat × Nat × List Tok)
  | 0, _, _, _, _ => []
  | fuel + 1, true, n, pos, s =>
    match commentStep cfg.expectStops s with
    | .eof => [(pos, pos, 1000, [.commentNotClosed])]
    | .close => (pos, pos + 2, 1001, []) :: lexemesGo cfg fuel false n (pos + 2) (s.drop 2)
    | .expect k => (pos, pos + k, 1002, [.expect ((s.take k).drop 7)]) :: lexemesGo cfg fuel true (n + 1) (pos + k) (s.drop k)
    | .skip => (pos, pos + 1, 1003, []) :: lexemesGo cfg fuel true n (pos + 1) (s.drop 1)
  | fuel + 1, false, n, pos, s =>
    match s with
    | [] => []
    | _ :: _ =>
      match best cfg.rules s with
      | none => []
      | some (r, len) =>
        let res := action cfg n r (s.take len)
        (pos, pos + len, (cfg.rules.findIdx? (· == r)).getD 999, res.1) ::
          lexemesGo cfg fuel res.2 (n + res.1.length) (pos + len) (s.drop len)

end UtapModel.C09
