/- C01: pinned exception set, stacks G, L (finite check over the generated table; split over several modules so that
   lake checks them in parallel). -/
import UtapModel.Lemmas.C01Pin
namespace UtapModel.C01
theorem pinned_G : pinnedOn .G = true := by decide +kernel
theorem pinned_L : pinnedOn .L = true := by decide +kernel
end UtapModel.C01
