/- Line-protocol driver for the FeatureChecker model (property C17).
   in : `D <abstract document S-expression>`  (as printed by harness/c17.cpp)   |   `EXC`   |   `ALL`
   out: `V <sym> <sto> <con> T <throws> S <specSym> <specSto> <specCon> K <shape keys present, comma separated>`
        `EXC <keys of the computed exception set of the current configuration>` / `ALL <all shape keys>` -/
import UtapModel.Drv.FeatureSexp
open UtapModel UtapModel.Feature UtapModel.Sexp

def b01 (b : Bool) : String := if b then "1" else "0"

def dedup (xs : List String) : List String := xs.foldl (fun acc x => if acc.contains x then acc else acc ++ [x]) []

def stepLine (line : String) : String :=
  let l := line.trimAscii.toString
  if l == "EXC" then "EXC " ++ ",".intercalate ((exceptions Cfg.current).map Shape.key)
  else if l == "ALL" then "ALL " ++ ",".intercalate (allShapes.map Shape.key)
  else if l.startsWith "D " then
    match parse (l.drop 2).toString with
    | some [sx] =>
      match decodeDoc sx with
      | some m =>
        let v := reported Cfg.current m
        let keys := dedup ((shapesOf m).map Shape.key)
        let und := dedup (((shapesOf m).filter (fun s => !detects Cfg.current s)).map Shape.key)
        s!"V {b01 v.symbolic} {b01 v.stochastic} {b01 v.concrete} T {b01 (throws Cfg.current m)} S {b01 (decide (SpecSymbolic m))} {b01 (decide (SpecStochastic m))} {b01 (decide (SpecConcrete m))} K {",".intercalate keys} U {",".intercalate und}"
      | none => "bad-doc"
    | _ => "bad-sexp"
  else "bad-op"

partial def loop (h : IO.FS.Stream) (out : IO.FS.Stream) : IO Unit := do
  let line ← h.getLine
  if line.isEmpty then return ()
  out.putStrLn (stepLine line)
  loop h out

def main : IO Unit := do
  let out ← IO.getStdout
  loop (← IO.getStdin) out
