/- C01 (the part that is logic): stack discipline of the builder callbacks along every derivation of parser.y,
   including bison's error recovery.  Property theorems only; the generic soundness proof is in Lemmas/C01.lean, the
   production table is regenerated from /repo/src/parser.y (+ `bison -x`) into Gen/Grammar.lean on every run, the effect
   table (Model/C01Effect.lean) is validated against the real library on every traced call.

   PARTIAL claim.  Full-strength C01 ("no input crashes, corrupts memory or hangs any parsing entry point") is NOT
   provable here: memory safety of the flex/bison tables, libxml2, the heap, recursion depth and running time have no
   Lean model (no C++ semantics is available); they are exercised under sanitizers by checks/c01_stream.py (testing).
   What is proved: on the model of the builder stacks (heights of fragments / typeFragments / frames / fields / blocks /
   properties and the static `types` counter), every callback sequence that any derivation -- complete, abandoned at any
   symbol boundary, or recovering through `error` productions -- of the production table can emit never makes a callback
   reach below the level at which its production was entered, provided only productions outside the *computed* exception
   set are used.  The exception set of today's table is pinned by `utap_exceptions_known`. -/
import UtapModel.Lemmas.C01
import UtapModel.Lemmas.C01PinA
import UtapModel.Lemmas.C01PinB
import UtapModel.Lemmas.C01PinC
import UtapModel.Lemmas.C01PinD
import UtapModel.Lemmas.C01PinE
import UtapModel.Lemmas.C01PinF
namespace UtapModel.C01
open UtapModel.Gen.Grammar

/-! ## generic theorem (any table, any effects, any signatures) -/

/-- **Stack safety from local balance.**  If every production of `G` passes the decidable local check, then every run
    of every nonterminal `B` -- complete (`part = false`) or abandoned anywhere / recovering (`part = true`) -- started
    with at least `need B` entries is safe (`runH` never fails), never ends below `entry - dip B` (so whatever encloses
    it keeps its operands), and a complete run ends at least at `entry + c0 + c1*attr`. -/
theorem safe_of_locally_balanced {CB NT : Type} (G : List (Prod CB NT)) (sig : NT → Sig) (eff : CB → Eff)
    (hG : ∀ p ∈ G, lbProd sig eff p = true) (hwf : ∀ cb, (eff cb).wf = true)
    (part : Bool) (B : NT) (v : Nat) (tr : List (CallInst CB)) (hrun : RunNT G part B v tr)
    (h : Int) (hentry : ((sig B).need : Int) ≤ h) :
    ∃ h', runH eff h tr = some h' ∧ 0 ≤ h' ∧
      ((sig B).lo.isSome → h - (sig B).dip ≤ h') ∧
      (part = false → ∀ c0 c1, (sig B).lo = some (c0, c1) → h + c0 + c1 * v ≤ h') := by
  obtain ⟨p, hp, hlhs, vals, hr, hv⟩ := hrun
  subst hlhs
  have hlb := hG p hp
  simp only [lbProd, Bool.and_eq_true, decide_eq_true_eq] at hlb
  obtain ⟨⟨_, hdip⟩, hlb2⟩ := hlb
  cases hci : checkItems sig eff (sig p.lhs).need (sig p.lhs).dip (sig p.lhs).lo 0 p.items (.rel Lin.zero) with
  | none => simp [hci] at hlb2
  | some stp =>
    simp only [hci] at hlb2
    obtain ⟨h', hrun', hnn, hsat, hpart⟩ :=
      run_sound sig eff hG hwf hr (sig p.lhs).need (sig p.lhs).dip (sig p.lhs).lo h h (.rel Lin.zero) stp hci hentry hdip (by simp [Sat])
    refine ⟨h', hrun', hnn, hpart, ?_⟩
    intro hb c0 c1 hlo
    have := finalOk_bound hlb2 (hsat hb) c0 c1 hlo
    rw [hv]; exact this

-- the hypotheses are satisfiable by a non-trivial table: one production  E -> E E {binary}  |  {push}
example : ∃ (G : List (Prod Nat Nat)) (sig : Nat → Sig) (eff : Nat → Eff),
    G.length = 2 ∧ (∀ p ∈ G, lbProd sig eff p = true) ∧ (∀ cb, (eff cb).wf = true) :=
  ⟨[⟨0, 0, [.act [⟨0, .none⟩]], ⟨0, []⟩⟩, ⟨1, 0, [.nt 0, .nt 0, .act [⟨1, .none⟩]], ⟨0, []⟩⟩],
   fun _ => ⟨0, 0, some (1, 0)⟩, fun cb => if cb = 0 then e 0 0 1 else e 2 2 1, rfl, by decide,
   by intro cb; by_cases h : cb = 0 <;> simp [h, Eff.wf, e]⟩

/-! ## instance: today's parser.y -/

/-- every row of the hand-written effect table is well formed (no callback removes more than it may touch) -/
theorem effect_wf : ∀ (s : Stack) (cb : CB), (utapEff s cb).wf = true := by
  intro s cb
  cases cb <;> cases s <;> rfl

/-- heights of the model stacks when a parse call starts on a fresh builder: one frame (the global frame) -/
def initHeight : Stack → Int
  | .R => 1
  | _ => 0

theorem init_meets_entry : ∀ s : Stack, ((utapSig s startNT).need : Int) ≤ initHeight s := by
  intro s; cases s <;> decide

/-- **C01, stack part (partial: outside the computed exception set).**  For every stack of the model, every callback
    trace of every complete, aborted or error-recovering derivation of the start symbol that uses only productions
    that pass the obligation on that stack (i.e. outside `utapExceptions`) is safe from the initial heights: no callback reaches below what is there. -/
theorem C01_stack_safety_partial (s : Stack) (part : Bool) (v : Nat) (tr : List (CallInst CB))
    (hrun : RunNT (utapGood s) part startNT v tr) :
    ∃ h', runH (utapEff s) (initHeight s) tr = some h' ∧ 0 ≤ h' := by
  have hG : ∀ p ∈ utapGood s, lbProd (utapSig s) (utapEff s) p = true := by
    intro p hp
    exact (List.mem_filter.mp hp).2
  obtain ⟨h', h1, h2, _, _⟩ :=
    safe_of_locally_balanced (utapGood s) (utapSig s) (utapEff s) hG (effect_wf s) part startNT v tr hrun
      (initHeight s) (init_meets_entry s)
  exact ⟨h', h1, h2⟩

/-- the same for every nonterminal (every `xta_part_t` entry point starts at one of them) and any entry heights that
    meet the nonterminal's requirement; also: a run never ends below `entry - dip`. -/
theorem C01_stack_safety_any_entry (s : Stack) (part : Bool) (B : NT) (v : Nat) (tr : List (CallInst CB))
    (hrun : RunNT (utapGood s) part B v tr) (h : Int) (hentry : ((utapSig s B).need : Int) ≤ h) :
    ∃ h', runH (utapEff s) h tr = some h' ∧ 0 ≤ h' ∧ ((utapSig s B).lo.isSome → h - (utapSig s B).dip ≤ h') := by
  have hG : ∀ p ∈ utapGood s, lbProd (utapSig s) (utapEff s) p = true := by
    intro p hp
    exact (List.mem_filter.mp hp).2
  obtain ⟨h', h1, h2, h3, _⟩ :=
    safe_of_locally_balanced (utapGood s) (utapSig s) (utapEff s) hG (effect_wf s) part B v tr hrun h hentry
  exact ⟨h', h1, h2, h3⟩

/-! ## the XML reader's own operand-consuming call

`XMLReader::location` parses the `invariant` / `exponentialrate` labels with `parse_XTA(text, builder, newxta, S_INVARIANT |
S_EXPONENTIAL_RATE)` and passes `hasInvariant` / `hasER = true` to `proc_location` **only when that parse returned 0**
(src/xmlreader.cpp `invariant()`), i.e. after a *complete* (possibly error-recovering) derivation of the start
alternative.  `proc_location` is the only direct call of the reader that consumes operands.  (The reader's call
sequences as a whole are not modelled; these lemmas cover the hand-over of operands.) -/

theorem C01_reader_location_invariant (tok : NT) (htok : tok = .Start_T_NEW_INVARIANT ∨ tok = .Start_T_OLD_INVARIANT)
    (v : Nat) (tr : List (CallInst CB)) (hrun : RunNT (utapGood .F) false tok v tr) (h : Int) (h0 : 0 ≤ h) :
    ∃ h', runH (utapEff .F) h (tr ++ [⟨.proc_location_true_false, 0, false, 0⟩]) = some h' ∧ 0 ≤ h' := by
  have hG : ∀ p ∈ utapGood .F, lbProd (utapSig .F) (utapEff .F) p = true := fun p hp => (List.mem_filter.mp hp).2
  have hlo : (utapSig .F tok).lo = some (1, 0) ∧ (utapSig .F tok).need = 0 := by
    rcases htok with rfl | rfl <;> decide
  obtain ⟨h1, hr, _, _, hexit⟩ :=
    safe_of_locally_balanced (utapGood .F) (utapSig .F) (utapEff .F) hG (effect_wf .F) false tok v tr hrun h
      (by rw [hlo.2]; simpa using h0)
  have hb := hexit rfl 1 0 hlo.1
  refine ⟨h1 + (-1), runH_snoc (utapEff .F) h h1 tr _ 1 (-1) hr (by rfl) (by omega), by omega⟩

theorem C01_reader_location_rate (v : Nat) (tr : List (CallInst CB))
    (hrun : RunNT (utapGood .F) false .Start_T_EXPONENTIAL_RATE v tr) (h : Int) (h0 : 0 ≤ h) :
    ∃ h', runH (utapEff .F) h (tr ++ [⟨.proc_location_false_true, 0, false, 0⟩]) = some h' ∧ 0 ≤ h' := by
  have hG : ∀ p ∈ utapGood .F, lbProd (utapSig .F) (utapEff .F) p = true := fun p hp => (List.mem_filter.mp hp).2
  have hlo : (utapSig .F .Start_T_EXPONENTIAL_RATE).lo = some (1, 0) ∧ (utapSig .F .Start_T_EXPONENTIAL_RATE).need = 0 := by
    decide
  obtain ⟨h1, hr, _, _, hexit⟩ :=
    safe_of_locally_balanced (utapGood .F) (utapSig .F) (utapEff .F) hG (effect_wf .F) false _ v tr hrun h
      (by rw [hlo.2]; simpa using h0)
  have hb := hexit rfl 1 0 hlo.1
  refine ⟨h1 + (-1), runH_snoc (utapEff .F) h h1 tr _ 1 (-1) hr (by rfl) (by omega), by omega⟩

/-- both labels: invariant, then rate (any further *failed* label parses in between only add operands) -/
theorem C01_reader_location_both (v1 v2 : Nat) (tr1 tr2 : List (CallInst CB))
    (hrun1 : RunNT (utapGood .F) false .Start_T_NEW_INVARIANT v1 tr1)
    (hrun2 : RunNT (utapGood .F) false .Start_T_EXPONENTIAL_RATE v2 tr2) (h : Int) (h0 : 0 ≤ h) :
    ∃ h', runH (utapEff .F) h ((tr1 ++ tr2) ++ [⟨.proc_location_true_true, 0, false, 0⟩]) = some h' ∧ 0 ≤ h' := by
  have hG : ∀ p ∈ utapGood .F, lbProd (utapSig .F) (utapEff .F) p = true := fun p hp => (List.mem_filter.mp hp).2
  have hlo1 : (utapSig .F .Start_T_NEW_INVARIANT).lo = some (1, 0) ∧ (utapSig .F .Start_T_NEW_INVARIANT).need = 0 := by
    decide
  have hlo2 : (utapSig .F .Start_T_EXPONENTIAL_RATE).lo = some (1, 0) ∧ (utapSig .F .Start_T_EXPONENTIAL_RATE).need = 0 := by
    decide
  obtain ⟨h1, hr1, hnn1, _, hexit1⟩ :=
    safe_of_locally_balanced (utapGood .F) (utapSig .F) (utapEff .F) hG (effect_wf .F) false _ v1 tr1 hrun1 h
      (by rw [hlo1.2]; simpa using h0)
  have hb1 := hexit1 rfl 1 0 hlo1.1
  obtain ⟨h2, hr2, _, _, hexit2⟩ :=
    safe_of_locally_balanced (utapGood .F) (utapSig .F) (utapEff .F) hG (effect_wf .F) false _ v2 tr2 hrun2 h1
      (by rw [hlo2.2]; simpa using hnn1)
  have hb2 := hexit2 rfl 1 0 hlo2.1
  have hr12 : runH (utapEff .F) h (tr1 ++ tr2) = some h2 := by simp [runH_append, hr1, hr2]
  refine ⟨h2 + (-2), runH_snoc (utapEff .F) h h2 (tr1 ++ tr2) _ 2 (-2) hr12 (by rfl) (by omega), by omega⟩

-- non-vacuity: on the operand stack all but one production are good, and every start alternative is
example : (utapGood .F).length + 3 ≥ prods.length ∧ ((utapGood .F).filter (fun p => p.lhs == startNT)).length = 29 := by
  decide +kernel

/-! ## the exception set of today's table, pinned -/

/-- **today's exception set is within the known shapes** (`knownExceptionKeys`, Lemmas/C01Pin.lean): for every stack,
    every production failing the obligation is one of the listed (production, stack) shapes.  Finite check over the
    generated table by kernel evaluation (`pinned_*`, one lemma per stack). -/
theorem utap_exceptions_known : ∀ s : Stack, pinnedOn s = true := by
  intro s
  cases s
  · exact pinned_F
  · exact pinned_T
  · exact pinned_R
  · exact pinned_S
  · exact pinned_P
  · exact pinned_C
  · exact pinned_Q
  · exact pinned_E
  · exact pinned_M
  · exact pinned_U
  · exact pinned_G
  · exact pinned_L

/-! ## witnesses: the model rejects the callback traces the real parser emits on the witness inputs
   (those that depend on a *generated* unguarded-dereference flag are stated under that flag, so that they stay true
   when the guard is added to the source) -/

/-- `void f(){ if () ; }`: IfCondition's error production pushes no condition, `if_end` reads `fragments[0]`. -/
theorem C01_witness_if_end :
    runH (utapEff .F) 0 [⟨.if_begin, 0, false, 0⟩, ⟨.empty_statement, 0, false, 0⟩, ⟨.if_then, 0, false, 0⟩,
                         ⟨.if_end, 0, false, 0⟩] = none := by decide

/-- `int a[int[0,1]][struct{int b[2];}];`: the nested declarator resets `types`; the outer
    `type_array_of_type(types--)` runs with `types = 0`. -/
theorem C01_witness_types_counter :
    runH (utapEff .C) 0 [⟨.ps_types_reset, 0, false, 0⟩, ⟨.ps_types_inc, 0, false, 0⟩, ⟨.ps_types_reset, 0, false, 0⟩,
                         ⟨.type_array_of_type, 0, false, 0⟩] = none := by decide

/-- `strategy s = control: A[] undeclared`: `property()` returns early without pushing a PropInfo,
    `strategy_declaration` takes `&properties.back()` of an empty list. -/
theorem C01_witness_strategy_declaration : ptrDeref .strategy_declaration .Q = true →
    runH (utapEff .Q) 0 [⟨.property, 0, true, 0⟩, ⟨.strategy_declaration, 0, false, 0⟩] = none := by decide

/-- `trans X -> L0 { select i : int[0,1]; }` with undeclared `X`: `proc_edge_begin` fails (no edge is created),
    `proc_select` dereferences the null `currentEdge`. -/
theorem C01_witness_proc_select : ptrDeref .proc_select .E = true →
    runH (utapEff .E) 0 [⟨.proc_edge_begin, 0, true, 0⟩, ⟨.proc_select, 0, false, 0⟩] = none := by decide

/-- `parse_XTA("I", builder, newxta, S_INSTANCE_LINE)` on a fresh builder: `instance_name` dereferences the null
    `currentInstanceLine`. -/
theorem C01_witness_instance_name : ptrDeref .instance_name_false .L = true →
    runH (utapEff .L) 0 [⟨.instance_name_false, 0, false, 0⟩] = none := by decide

end UtapModel.C01
