/- feasibility spike: precedence climbing round trip for binary operators -/
inductive Tok where
  | atom (n : Nat) | op (o : Nat) | lp | rp
deriving DecidableEq, Repr

inductive Expr where
  | atom (n : Nat)
  | bin (o : Nat) (l r : Expr)
deriving DecidableEq, Repr

structure Tbl where
  bp : Nat → Nat          -- binding power of operator (≥ 1)
  rassoc : Nat → Bool

namespace Tbl
def next (T : Tbl) (o : Nat) : Nat := if T.rassoc o then T.bp o else T.bp o + 1
end Tbl

/-- level of an expression's root -/
def lvl (T : Tbl) : Expr → Option Nat
  | .atom _ => none
  | .bin o _ _ => some (T.bp o)

def needParen (T : Tbl) (ctx : Nat) (e : Expr) : Bool :=
  match e with
  | .atom _ => false
  | .bin o _ _ => T.bp o < ctx

/-- minimal-parenthesis printer relative to context minimum binding power -/
def pr (T : Tbl) (ctx : Nat) : Expr → List Tok
  | .atom n => [.atom n]
  | .bin o l r =>
    let body := pr T (if T.rassoc o then T.bp o + 1 else T.bp o) l ++ [.op o] ++ pr T (T.next o) r
    if T.bp o < ctx then [.lp] ++ body ++ [.rp] else body

mutual
def parseE (T : Tbl) : Nat → Nat → List Tok → Option (Expr × List Tok)
  | 0, _, _ => none
  | f+1, q, ts =>
    match ts with
    | .atom n :: ts' => loop T f q (.atom n) ts'
    | .lp :: ts' =>
      match parseE T f 0 ts' with
      | some (e, .rp :: ts'') => loop T f q e ts''
      | _ => none
    | _ => none
def loop (T : Tbl) : Nat → Nat → Expr → List Tok → Option (Expr × List Tok)
  | 0, _, _, _ => none
  | f+1, q, lhs, ts =>
    match ts with
    | .op o :: ts' =>
      if T.bp o ≥ q then
        match parseE T f (T.next o) ts' with
        | some (rhs, ts'') => loop T f q (.bin o lhs rhs) ts''
        | none => none
      else some (lhs, ts)
    | _ => some (lhs, ts)
end

#eval parseE ⟨fun o => o, fun _ => false⟩ 100 0 (pr ⟨fun o => o, fun _ => false⟩ 0 (.bin 1 (.bin 2 (.atom 1) (.atom 2)) (.bin 1 (.atom 3) (.atom 4))))
