/- Line-protocol driver for the generated type-checker model (properties C14 and C10, expression level).
   One request per input line, one canonical answer per output line; `harness/c14.cpp` answers the same questions by
   calling the real TypeChecker, `checks/c14.py` converts the harness' type dumps into the Polish wire format of
   `UtapModel.Types.parseTy` and compares.
     bin <OP> <ty0> | <ty1>         ->  ok <type> | rej
     un <OP> <ty0>                  ->  ok <type> | rej
     q <OP> <ty1>                   ->  ok <type> | rej
     iif <ty0> | <ty1> | <ty2>      ->  ok <type> | rej
     call <paramTy> | <argTy> | <0|1 = argument is a modifiable lvalue>   ->  (ok | rej) pe=<E(arg,param)E(param,arg)E(arg,unwrapped param)E(unwrapped param,arg)>
     eqv <tyA> | <tyB>              ->  8 bits: E(A,B) E(B,A) E(&A,B) E(A,&B) E(const A,B) E(A,const B) E(&A,&B) E(B,&A)
     acc <ty>                       ->  g=<0|1> i=<0|1>     (accepted as guard / as invariant)
     obs <OP> <ty0> | <ty1>         ->  ok | rej            (the comparison as an observation or goal of `{..} control:`: typed by
                                                              checkExpression, then the two tests of checkObservationConstraints)
     exceptions                     ->  result-kind pairs k1/k2 on which inline-if is not symmetric (primitive branches), or `none`  -/
import UtapModel.Gen.TypeClauses
open UtapModel.Types UtapModel.TypeClauses

def splitBar (ws : List String) : List (List String) :=
  ws.foldr (fun w acc => if w == "|" then [] :: acc else match acc with
    | [] => [[w]]
    | a :: r => (w :: a) :: r) [[]]

def tyOf (ws : List String) : Option Ty :=
  match parseTy (ws.length + 1) ws with
  | some (t, []) => some t
  | _ => none

def showRes : Option Ty → String
  | some t => "ok " ++ t.show
  | none => "rej"

/-- drop the leading REF / CONSTANT nodes of a parameter type (what the harness does with `get(0)`) -/
def unwrapRC : Ty → Ty
  | .ref t => unwrapRC t
  | .pfx .CONSTANT t => unwrapRC t
  | t => t

def bit (b : Bool) : String := if b then "1" else "0"

def stepLine (line : String) : String :=
  let ws := (line.trimAscii.toString.splitOn " ").filter (· ≠ "")
  match ws with
  | "bin" :: op :: rest =>
    match BinOp.ofName? op, (splitBar rest).map tyOf with
    | some op, [some a, some b] => showRes (typeBin op a b)
    | _, _ => "bad-op"
  | "un" :: op :: rest =>
    match UnOp.ofName? op, tyOf rest with
    | some op, some a => showRes (typeUn op a)
    | _, _ => "bad-op"
  | "q" :: op :: rest =>
    match QOp.ofName? op, tyOf rest with
    | some op, some a => showRes (typeQuant op a)
    | _, _ => "bad-op"
  | "iif" :: rest =>
    match (splitBar rest).map tyOf with
    | [some c, some a, some b] => showRes (inlineIf c a b)
    | _ => "bad-op"
  | "call" :: rest =>
    match splitBar rest with
    | [p, a, [lv]] =>
      match tyOf p, tyOf a with
      | some p, some a =>
        let u := unwrapRC p
        (if isParameterCompatible p a (lv == "1") then "ok" else "rej") ++ " pe=" ++
          bit (areEquivalent a p) ++ bit (areEquivalent p a) ++ bit (areEquivalent a u) ++ bit (areEquivalent u a)
      | _, _ => "bad-op"
    | _ => "bad-op"
  | "eqv" :: rest =>
    match (splitBar rest).map tyOf with
    | [some a, some b] =>
      let rA := Ty.ref a; let rB := Ty.ref b
      let cA := Ty.pfx .CONSTANT a; let cB := Ty.pfx .CONSTANT b
      String.join [bit (areEquivalent a b), bit (areEquivalent b a), bit (areEquivalent rA b), bit (areEquivalent a rB),
                   bit (areEquivalent cA b), bit (areEquivalent a cB), bit (areEquivalent rA rB), bit (areEquivalent b rA)]
    | _ => "bad-op"
  | "obs" :: op :: rest =>
    match BinOp.ofName? op, (splitBar rest).map tyOf with
    | some op, [some a, some b] => if (typeBin op a b).isNone || obsRejected op a b then "rej" else "ok"
    | _, _ => "bad-op"
  | "acc" :: rest =>
    match tyOf rest with
    | some t => "g=" ++ bit (guardAccepted t) ++ " i=" ++ bit (invariantAccepted t)
    | none => "bad-op"
  | ["exceptions"] =>
    -- the exact exception set of the inline-if result kind (same computation as Lemmas/C14 `exactKindExceptions`)
    let ex := TK.all.flatMap fun ka => (TK.all.filterMap fun kb =>
      match (inlineIf (.prim .BOOL) (.prim ka) (.prim kb)).map Ty.term, (inlineIf (.prim .BOOL) (.prim kb) (.prim ka)).map Ty.term with
      | some r1, some r2 => if r1 != r2 then some (r1.name ++ "/" ++ r2.name) else none
      | _, _ => none)
    if ex.isEmpty then "none" else " ".intercalate ex.eraseDups
  | _ => "bad-op"

partial def loop (h : IO.FS.Stream) (out : IO.FS.Stream) : IO Unit := do
  let line ← h.getLine
  if line.isEmpty then return ()
  out.putStrLn (stepLine line)
  loop h out

def main : IO Unit := do
  let out ← IO.getStdout
  loop (← IO.getStdin) out
