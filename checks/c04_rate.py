"""C04 stage: the invariant the type checker stores for a location (RateDecomposer, Model/RateDecomp.lean, Props/C04Rate.lean).

Generated invariants (conjunctions of clock bounds, integer predicates, clock rates in both operand orders, quantified conjuncts with rates,
quantifiers nested in quantifiers, rate-free groups in parentheses) are put on the locations of real XML models; the conjuncts stored in the
Document (harness op `ratedec`), the stop-watch / strict flags and the diagnostics are compared with
  (a) the Lean model `stored RateDecompCfg.cfg` run by drv_c04 on the abstraction of the same invariant (correspondence), and
  (b) the property itself: 1, then the conjuncts of the source, each once, in order, a quantified conjunct whole (oracle on the implementation).
Every leaf carries a distinct number >= 100, by which a stored conjunct is recognised whatever way it is printed."""
import re
import subprocess

from checks import c04_model as m
from vlib import core

DECL = ("clock x0, x1, x2; clock xs[2]; clock ys[2][2]; int gi; int[0,9] gj;")


class Gen:
    def __init__(self, r):
        self.r = r
        self.num = 100
        self.qd = 0

    def n(self):
        self.num += 1
        return self.num

    def clock(self, binders):
        r = self.r
        if binders and r.random() < 0.8:
            if len(binders) >= 2 and r.random() < 0.6:
                return "ys[%s][%s]" % (binders[-2], binders[-1])
            return "xs[%s]" % binders[-1]
        return r.choice(["x0", "x1", "x2"])

    def leaf(self, binders):
        """('cmp', strict, text) | ('rate', text)"""
        r = self.r
        k = r.random()
        if k < 0.35:
            strict = r.random() < 0.4
            return ("cmp", strict, "%s %s %d" % (self.clock(binders), "<" if strict else "<=", self.n()))
        if k < 0.5:
            strict = r.random() < 0.3
            return ("cmp", strict, "%s %s %d" % (r.choice(["gi", "gj"]), "<" if strict else "<=", self.n()))
        c = self.clock(binders)
        return ("rate", "%s' == %d" % (c, self.n()) if r.random() < 0.7 else "%d == %s'" % (self.n(), c))

    def tree(self, depth, binders):
        r = self.r
        k = r.random()
        if depth <= 0 or k < 0.3:
            return self.leaf(binders)
        if k < 0.75:
            return ("and", self.tree(depth - 1, binders), self.tree(depth - 1, binders))
        if len(binders) < 3:
            q = "q%d" % len(binders)
            return ("all", q, self.tree(depth - 1, binders + [q]))
        return self.leaf(binders)


def has_rate(t):
    if t[0] == "rate":
        return True
    if t[0] == "and":
        return has_rate(t[1]) or has_rate(t[2])
    if t[0] == "all":
        return has_rate(t[2])
    return False


def nested(t, inside=False):
    """a quantifier with rates inside a quantifier"""
    if t[0] == "and":
        return nested(t[1], inside) or nested(t[2], inside)
    if t[0] == "all":
        return (inside and has_rate(t)) or nested(t[2], True)
    return False


def text(t, top=True):
    if t[0] == "cmp":
        return t[2]
    if t[0] == "rate":
        return t[1]
    if t[0] == "and":
        s = "%s && %s" % (text(t[1], False), text(t[2], False))
        return s if top else "(" + s + ")"
    return "%sforall (%s : int[0,1]) (%s)%s" % ("" if top else "(", t[1], text(t[2], True), "" if top else ")")


def nums(s):
    return frozenset(int(x) for x in re.findall(r"\d+", s) if int(x) >= 100)


def abstract(t, names):
    """prefix notation for the driver; names: list of (name, number set of the sub-expression)"""
    if not has_rate(t):
        names.append(nums(text(t)))
        return "I %d %d" % (1 if t[0] == "cmp" and t[1] else 0, len(names))
    if t[0] == "and":
        return "A %s %s" % (abstract(t[1], names), abstract(t[2], names))
    if t[0] == "rate":
        names.append(nums(t[1]))
        return "R 0 %d" % len(names)
    names.append(nums(text(t)))
    k = len(names)
    return "Q %d %s" % (k, abstract(t[2], names))


def spine(t):
    """the property: the conjuncts of the source (a rate-free sub-expression and a quantified conjunct are one conjunct each)"""
    if t[0] == "and" and has_rate(t):
        return spine(t[1]) + spine(t[2])
    return [nums(text(t))]


def flags(t):
    """(clock rate anywhere, a rate-free sub-expression whose top node is `<`) -- the second is what the decomposer looks at"""
    if not has_rate(t):
        return False, t[0] == "cmp" and t[1]
    if t[0] == "and":
        a, b = flags(t[1]), flags(t[2])
        return a[0] or b[0], a[1] or b[1]
    if t[0] == "rate":
        return True, False
    return flags(t[2])


def model_xml(invs):
    locs = "".join('<location id="id%d"><name>L%d</name><label kind="invariant">%s</label></location>' % (i, i, m_escape(v)) for i, v in enumerate(invs))
    return ('<?xml version="1.0" encoding="utf-8"?><nta><declaration>%s</declaration><template><name>P</name>%s<init ref="id0"/></template>'
            '<system>system P;</system></nta>' % (DECL, locs))


def m_escape(s):
    return s.replace("&", "&amp;").replace("<", "&lt;").replace(">", "&gt;")


def run(ctx, exe, drv):
    r = ctx.rng
    n_models = 60 if not ctx.thorough else 1500
    models = []
    for k in range(n_models):
        g = Gen(r)
        invs = []
        for _ in range(r.randint(1, 4)):
            t = g.tree(r.choice([1, 2, 3, 3, 4]), [])
            invs.append(t)
        models.append(invs)
    # hand-written shapes that must be present in every run: nested quantifiers, rate-free group in front of a rate, rate first
    fixed = [
        ("all", "q0", ("all", "q1", ("rate", "ys[q0][q1]' == 101"))),
        ("and", ("cmp", False, "x0 <= 102"), ("all", "q0", ("and", ("rate", "xs[q0]' == 103"), ("all", "q1", ("rate", "ys[q0][q1]' == 104"))))),
        ("and", ("and", ("cmp", True, "x0 < 105"), ("cmp", False, "x1 <= 106")), ("rate", "x0' == 107")),
        ("and", ("rate", "108 == x1'"), ("and", ("cmp", True, "x2 < 109"), ("all", "q0", ("cmp", False, "xs[q0] <= 110")))),
    ]
    models.append(fixed)
    frames, lines, meta = [], [], {}
    for mi, invs in enumerate(models):
        frames.append(("r%d" % mi, m.frame("ratedec", "r%d" % mi, model_xml([text(t) for t in invs]))))
        for li, t in enumerate(invs):
            names = []
            lines.append("ratedec r%d.%d %s" % (mi, li, abstract(t, names)))
            meta["r%d.%d" % (mi, li)] = (t, names)
    blocks, crashed = m.run_batches(exe, [], frames)
    p = subprocess.run([drv], input="\n".join(lines) + "\n", stdout=subprocess.PIPE, stderr=subprocess.PIPE, universal_newlines=True, timeout=600)
    pred = {}
    for l in p.stdout.split("\n"):
        f = l.split(" ", 2)
        if len(f) == 3 and f[0] == "RATEDEC":
            pred[f[1]] = f[2]
    st = dict(models=len(models), invariants=len(meta), compared=0, model_disagreements=0, property_failures=0, quantified=0, nested_quantifiers=0,
              with_rates=0, accepted=0)
    out = []          # (kind, key, what, replay)
    for mi, invs in enumerate(models):
        b = blocks.get("r%d" % mi)
        xml = model_xml([text(t) for t in invs])
        if b is None or "r%d" % mi in crashed or any(l == "<<UNTERMINATED>>" for l in b):
            out.append(("finding", "crash:invariant-decomposition", "the library died on a model with the invariants %r" % [text(t) for t in invs], {"xml": xml}))
            continue
        errs = [l for l in b if l.startswith("RDERR") or l.startswith("EXCEPTION")]
        if errs:
            out.append(("machinery", "generator", "a generated invariant was rejected: %r %r" % (errs[:2], [text(t) for t in invs]), {"xml": xml}))
            continue
        st["accepted"] += 1
        rd = [l for l in b if l.startswith("RD ")]
        fl = [l for l in b if l.startswith("RDFLAGS")]
        want_sw = any(flags(t)[0] for t in invs)
        want_strict = any(flags(t)[1] for t in invs)
        if fl and fl[0] != "RDFLAGS stopwatch=%d strict=%d" % (want_sw, want_strict):
            out.append(("finding", "invariant:flags", "invariants %r: %s, the source has clock rates=%s, strict bounds=%s" % ([text(t) for t in invs], fl[0], want_sw, want_strict),
                        {"xml": xml, "observed": fl[0]}))
        for li, t in enumerate(invs):
            cid = "r%d.%d" % (mi, li)
            if li >= len(rd):
                break
            got = [nums(c) for c in rd[li].split("\t")[1:]]
            got_txt = rd[li].split("\t")[1:]
            st["compared"] += 1
            st["with_rates"] += has_rate(t)
            st["quantified"] += "forall" in text(t)
            st["nested_quantifiers"] += nested(t)
            names = meta[cid][1]
            # (a) the Lean model
            pl = pred.get(cid, "")
            mm = re.match(r"(.*) \| cost=(\S+) count=(\d+) clockRates=(\w+) strict=(\w+)$", pl)
            model_conj = None
            if mm:
                model_conj = [frozenset() if c == "1" else names[int(c[1:]) - 1] for c in mm.group(1).split()]
            # (b) the property
            want = [frozenset()] + spine(t)
            replay = {"entry": "parse_XML_buffer(buf, Document*, true); location_t::invariant", "xml": xml, "location": "L%d" % li, "invariant": text(t),
                      "stored_conjuncts": got_txt, "required": "1, then the conjuncts of the source, each once, in source order",
                      "model": pl}
            if got != want:
                st["property_failures"] += 1
                extra, rest = [], list(want)
                for c in got:
                    if c in rest:
                        rest.remove(c)
                    else:
                        extra.append(c)
                missing = rest
                key = "invariant:extra-conjunct" if extra else "invariant:missing-conjunct" if missing else "invariant:conjunct-order-or-duplicate"
                if nested(t) and extra and not missing and all(re.search(r"^\(?forall", got_txt[got.index(c)]) for c in extra):
                    key = "invariant:nested-quantifier-stored-twice"
                out.append(("finding", key, "invariant %r is stored as %r" % (text(t), got_txt), replay))
            if model_conj is None or model_conj != got:
                st["model_disagreements"] += 1
                out.append(("model", "RateDecomp", "invariant %r: the library stores %r, the model (decomposer as read from the source) says %r" % (text(t), got_txt, pl), replay))
    return st, out
