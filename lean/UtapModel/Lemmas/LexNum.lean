/- Exactness of the integer-literal rule of the lexer model (`lexNum`, Model/ExprTable.lean). -/
import UtapModel.Model.ExprTable

namespace UtapModel.ExprTable

theorem digitChar_val (d : Nat) (h : d < 10) : (Nat.digitChar d).toNat - '0'.toNat = d := by
  match d, h with
  | 0, _ => decide | 1, _ => decide | 2, _ => decide | 3, _ => decide | 4, _ => decide
  | 5, _ => decide | 6, _ => decide | 7, _ => decide | 8, _ => decide | 9, _ => decide

theorem digitsVal_append (l : List Char) (c : Char) : digitsVal (l ++ [c]) = digitsVal l * 10 + (c.toNat - '0'.toNat) := by
  simp [digitsVal, List.foldl_append]

/-- reading back the decimal representation gives the number -/
theorem digitsVal_toDigits : ∀ n : Nat, digitsVal (Nat.toDigits 10 n) = n := by
  intro n
  induction n using Nat.strongRecOn with
  | _ n ih =>
    rw [Nat.toDigits_eq_if (by decide)]
    split
    · rename_i h
      simp only [digitsVal, List.foldl_cons, List.foldl_nil, Nat.zero_mul, Nat.zero_add]
      exact digitChar_val n h
    · rename_i h
      rw [digitsVal_append, ih (n / 10) (by omega), digitChar_val _ (Nat.mod_lt _ (by decide))]
      omega

theorem toDigits_head_ne_zero : ∀ n : Nat, 0 < n → ∃ c r, Nat.toDigits 10 n = c :: r ∧ c ≠ '0' := by
  intro n
  induction n using Nat.strongRecOn with
  | _ n ih =>
    intro hn
    rw [Nat.toDigits_eq_if (by decide)]
    split
    · rename_i h
      refine ⟨Nat.digitChar n, [], rfl, ?_⟩
      match n, h, hn with
      | 1, _, _ => decide | 2, _, _ => decide | 3, _, _ => decide | 4, _, _ => decide | 5, _, _ => decide
      | 6, _, _ => decide | 7, _, _ => decide | 8, _, _ => decide | 9, _, _ => decide
    · rename_i h
      obtain ⟨c, r, h1, h2⟩ := ih (n / 10) (by omega) (by omega)
      exact ⟨c, r ++ [Nat.digitChar (n % 10)], by rw [h1]; rfl, h2⟩

theorem stripZeros_of_head {c : Char} {r : List Char} (h : c ≠ '0') : stripZeros (c :: r) = c :: r := by
  unfold stripZeros
  split
  · rename_i heq; injection heq with h1 _; exact absurd h1 h
  · rfl

theorem stripZeros_zeros (k : Nat) (ds : List Char) : stripZeros (List.replicate k '0' ++ ds) = stripZeros ds := by
  induction k with
  | zero => rfl
  | succ k ih => simp only [List.replicate_succ, List.cons_append]; rw [stripZeros]; exact ih

/-- **Integer literals are represented exactly or rejected.**  For the decimal text of any natural number `n`, with any
number of leading zeros, the lexer yields the literal `n` when `n ≤ INT_MAX`, the special token for 2147483648 (which
the grammar only accepts after a minus sign, giving INT_MIN), and an overflow diagnostic otherwise. -/
theorem lexNum_exact (n k : Nat) :
    lexNum (List.replicate k '0' ++ Nat.toDigits 10 n) =
      if n ≤ 2147483647 then .nat n else if n = 2147483648 then .posNegMax else .overflow := by
  unfold lexNum
  simp only [stripZeros_zeros]
  by_cases h0 : n = 0
  · subst h0; simp [Nat.toDigits_zero, stripZeros]
  · obtain ⟨c, r, h1, h2⟩ := toDigits_head_ne_zero n (by omega)
    have hs : stripZeros (Nat.toDigits 10 n) = Nat.toDigits 10 n := by rw [h1]; exact stripZeros_of_head h2
    simp only [hs]
    have hne : Nat.toDigits 10 n ≠ [] := Nat.toDigits_ne_nil
    simp only [hne, if_false]
    have hv := digitsVal_toDigits n
    by_cases hp : n = 2147483648
    · subst hp
      have : Nat.toDigits 10 2147483648 = "2147483648".toList := by decide
      simp [this]
    · have hne2 : Nat.toDigits 10 n ≠ "2147483648".toList := by
        intro heq
        have := congrArg digitsVal heq
        rw [hv] at this
        have h2 : digitsVal "2147483648".toList = 2147483648 := by decide
        omega
      simp only [hne2, if_false, hv]
      by_cases hle : n ≤ 2147483647
      · have hlen : (Nat.toDigits 10 n).length ≤ 10 := (Nat.length_toDigits_le_iff (by decide) (by decide)).mpr (by omega)
        simp [hle, hlen]
      · simp [hle, hp]

end UtapModel.ExprTable
