/- stub: line-protocol driver for C13 (to be written) -/
def main : IO Unit := pure ()
