/- C01: pinned exception set, stacks F, T (finite check over the generated table; split over several modules so that
   lake checks them in parallel). -/
import UtapModel.Lemmas.C01Pin
namespace UtapModel.C01
theorem pinned_F : pinnedOn .F = true := by decide +kernel
theorem pinned_T : pinnedOn .T = true := by decide +kernel
end UtapModel.C01
