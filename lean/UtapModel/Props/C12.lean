/-
C12 — no accepted model writes to a constant.

Model: `Model/Const.lean` (types, `is_mutable`, `get_sub`, the three lvalue predicates, the write / argument / binder
rules); its kind lists and branch shapes are `Gen/ConstGen.lean`, regenerated from the current source on every run.
Specification side (`constRooted`, `mutTarget`, `Ty.constDeclared`, `Ty.clean`, `writeKinds`): hand-written, uses no
generated table.  All theorems hold for lvalue paths of any length and types of any depth (structural induction).

Exception set (DESIGN §2.4): the converse of `C12_accept` for targets that are not const-rooted does not hold in
general: `isModifiableLValue` judges the *whole* type of the root identifier, so a record variable with one const array
member has no writable member at all (`C12_exception_sibling_const_witness`).  `C12_accept` is therefore stated for
roots whose whole type is free of const, and the remaining shape is reported by the check as a finding.
-/
import UtapModel.Lemmas.Const
import UtapModel.Lemmas.ConstDecl

namespace UtapModel.Const
open UtapModel UtapModel.ConstGen

/-! ### types: constness survives every wrapper and every selection -/

/-- A type declared const (CONSTANT met below qualifiers, references, typedef labels, ranges and array layers of any
    depth) is never mutable. -/
theorem C12_constDeclared_not_mutable (t : Ty) (h : t.constDeclared = true) : t.isMutable = false :=
  constDeclared_not_mutable t h

example : (Ty.mk .kARRAY (.cons "" (Ty.mk .kLABEL (.cons "ci" (Ty.mk .kCONSTANT (.cons "" (Ty.prim .kINT) .nil)) .nil))
    (.cons "" (Ty.prim .kINT) .nil))).constDeclared = true := by decide

/-- Core lemma (type.cpp `get_sub()`, prefix re-wrapping): the element type of a non-mutable array type is non-mutable
    — the contrapositive says that no sequence of indexings can turn a const into something mutable. -/
theorem C12_getSub_keeps_const (t : Ty) (h : t.getSub.isMutable = false) : t.isMutable = false := by
  cases hm : t.isMutable with
  | false => rfl
  | true => rw [mutable_getSub t hm] at h; exact absurd h (by decide)

/-- Core lemma (type.cpp `get_sub(i)`): the same for field selection on a record type. -/
theorem C12_getSubField_keeps_const (t : Ty) (i : Nat) (hs : t.recordShape = true)
    (h : (t.getSubField i).isMutable = false) : t.isMutable = false := by
  cases hm : t.isMutable with
  | false => rfl
  | true => rw [mutable_getSubField t i hs hm] at h; exact absurd h (by decide)

/-- For a path `x.f[i].g…` of any length: if the checker calls it a modifiable lvalue then its static type is mutable
    (so a component that is const by its own type, e.g. an element of a const array member, is never modifiable). -/
theorem C12_path_type_mutable : ∀ e : Ex, purePath e = true → isModLv e = true → (typeOf e).isMutable = true
  | .ident n ty, _, h => by
    simpa [isModLv, lvPred, modLvClause, applyClause, typeOf] using h
  | .dot e i, hp, h => by
    simp only [purePath, Bool.and_eq_true] at hp
    simp only [isModLv, lvPred, modLvClause, applyClause] at h
    split at h
    · simp at h
    · exact mutable_getSubField _ i hp.2 (C12_path_type_mutable e hp.1 h)
  | .index e c, hp, h => by
    simp only [purePath] at hp
    simp only [isModLv, lvPred, modLvClause, applyClause] at h
    exact mutable_getSub _ (C12_path_type_mutable e hp h)
  | .unary _ _, hp, _ => by simp [purePath] at hp
  | .binary _ _ _, hp, _ => by simp [purePath] at hp
  | .iif _ _ _ _ _, hp, _ => by simp [purePath] at hp
  | .opaque _ _, hp, _ => by simp [purePath] at hp

/-- Core lemma of DESIGN §4 (type.cpp `get_sub` / `get_sub(i)`, prefix re-wrapping): along a path `x.f[i].g…` of any length
    rooted at an identifier declared const, the static type of *every* component is again declared const — the CONSTANT
    prefix survives each indexing and each field selection, through typedef labels, references and qualifiers — and is
    therefore never mutable. -/
theorem C12_static_type_const : ∀ e : Ex, purePath e = true → rootConst e = true → (typeOf e).constDeclared = true
  | .ident _ _, _, h => by simpa [rootConst, typeOf] using h
  | .dot e i, hp, h => by
    simp only [purePath, Bool.and_eq_true] at hp
    exact constDeclared_getSubField _ i hp.2 (C12_static_type_const e hp.1 (by simpa [rootConst] using h))
  | .index e _, hp, h => by
    simp only [purePath] at hp
    exact constDeclared_getSub _ (C12_static_type_const e hp (by simpa [rootConst] using h))
  | .unary _ _, hp, _ => by simp [purePath] at hp
  | .binary _ _ _, hp, _ => by simp [purePath] at hp
  | .iif _ _ _ _ _, hp, _ => by simp [purePath] at hp
  | .opaque _ _, hp, _ => by simp [purePath] at hp

theorem C12_static_type_not_mutable (e : Ex) (hp : purePath e = true) (h : rootConst e = true) :
    (typeOf e).isMutable = false :=
  constDeclared_not_mutable _ (C12_static_type_const e hp h)

/-! ### C12, rejection: a const-rooted lvalue is never a modifiable lvalue -/

/-- **C12_reject.** Whatever is — or indexes into, or selects a field of, to any depth — a const variable, const
    parameter, binder, or const component, also through `?:` (either branch) and `,`, is not a modifiable lvalue. -/
theorem C12_reject : ∀ e : Ex, constRooted e = true → isModLv e = false
  | .ident n ty, h => by
    simp only [constRooted] at h
    simpa [isModLv, lvPred, modLvClause, applyClause] using constDeclared_not_mutable ty h
  | .dot e i, h => by
    simp only [constRooted, Bool.or_eq_true, Bool.and_eq_true] at h
    rcases h with h | ⟨hp, hc⟩
    · have ih := C12_reject e h
      simp only [isModLv] at ih
      simp only [isModLv, lvPred, modLvClause, applyClause, ih]
      split <;> rfl
    · cases hm : isModLv (.dot e i) with
      | false => rfl
      | true =>
        have := C12_path_type_mutable (.dot e i) hp hm
        rw [constDeclared_not_mutable _ hc] at this
        exact absurd this (by decide)
  | .index e c, h => by
    simp only [constRooted, Bool.or_eq_true, Bool.and_eq_true] at h
    rcases h with h | ⟨hp, hc⟩
    · have ih := C12_reject e h
      simp only [isModLv] at ih
      simp only [isModLv, lvPred, modLvClause, applyClause, ih]
    · cases hm : isModLv (.index e c) with
      | false => rfl
      | true =>
        have := C12_path_type_mutable (.index e c) hp hm
        rw [constDeclared_not_mutable _ hc] at this
        exact absurd this (by decide)
  | .iif eq ty c a b, h => by
    simp only [constRooted, Bool.or_eq_true] at h
    rcases h with h | h
    · have ih := C12_reject a h
      simp only [isModLv] at ih
      simp [isModLv, lvPred, modLvClause, applyClause, ih]
    · have ih := C12_reject b h
      simp only [isModLv] at ih
      simp [isModLv, lvPred, modLvClause, applyClause, ih]
  | .binary k a b, h => by
    simp only [constRooted, Bool.and_eq_true] at h
    have hk : k = .kCOMMA := by simpa using h.1
    subst hk
    have ih := C12_reject b h.2
    simp only [isModLv] at ih
    simp [isModLv, lvPred, modLvClause, applyClause, ih]
  | .unary _ _, h => by simp [constRooted] at h
  | .opaque _ _, h => by simp [constRooted] at h

-- the hypothesis is satisfiable by deep, non-trivial targets:  cs.b[1] for `const S cs` (S = struct {int a; int b[2];})
example : constRooted (.index (.dot (.ident "cs" (Ty.mk .kCONSTANT (.cons "" (Ty.mk .kLABEL (.cons "S" (Ty.mk .kRECORD
    (.cons "a" (Ty.prim .kINT) (.cons "b" (Ty.mk .kARRAY (.cons "" (Ty.prim .kINT) (.cons "" (Ty.prim .kINT) .nil))) .nil)))
    .nil)) .nil))) 1) true) = true := by decide

/-- Every write form (`=`, the ten `op=`, `++`/`--` pre and post) whose target is const-rooted is refused by its clause
    of `checkExpression`. -/
theorem C12_write_rejected (k : Kind) (lhs : Ex) (hk : isWriteKind k = true) (h : constRooted lhs = true) :
    writeRefused k lhs = true := by
  simp [writeRefused, writeGuard_writeKinds k hk, C12_reject lhs h]

example : isWriteKind .kASS_XOR = true ∧ isWriteKind .kPOST_DECREMENT = true := by decide

/-- Passing a const-rooted object for a non-const reference parameter of a function is refused by
    `isParameterCompatible` before any type comparison. -/
theorem C12_ref_argument_rejected (param : Ty) (arg : Ex) (href : param.is .kREF = true)
    (hnc : param.isConstant = false) (h : constRooted arg = true) : argRefused param arg = true := by
  simp [argRefused, paramRefuses, href, hnc, C12_reject arg h]

example : (Ty.mk .kREF (.cons "" (Ty.mk .kRANGE (.cons "" (Ty.prim .kINT) .nil)) .nil)).is .kREF = true ∧
    (Ty.mk .kREF (.cons "" (Ty.mk .kRANGE (.cons "" (Ty.prim .kINT) .nil)) .nil)).isConstant = false := by decide

/-- The same for an argument of a template instantiation (`visitInstance`), whatever the computability of the argument. -/
theorem C12_inst_argument_rejected (param : Ty) (arg : Ex) (computable : Bool) (href : param.is .kREF = true)
    (hnc : param.isConstant = false) (h : constRooted arg = true) : instArgRefused param arg computable = true := by
  simp [instArgRefused, instThenChecksParam, C12_ref_argument_rejected param arg href hnc h]

/-- Binders (forall / exists / sum / for-iteration / select): whatever type the binder is declared over, the symbol's
    type is not mutable, so the binder is not a modifiable lvalue. -/
theorem C12_binder_rejected (site : BinderSite) (declared : Ty) (name : String) :
    isModLv (.ident name (binderType site declared)) = false := by
  have hm : (binderType site declared).isMutable = false := by
    simp only [binderType, binderForcedConst_all site, if_true]
    split
    · rename_i hc; exact isCONSTANT_not_mutable _ hc
    · rw [Ty.createPrefix, Ty.isMutable, mutClause_CONSTANT]
  simpa [isModLv, lvPred, modLvClause, applyClause] using hm

/-- … and neither is anything indexed by or selected from something rooted at a binder-typed identifier that is
    declared const (binders over a plain type: the CONSTANT prefix is outermost). -/
theorem C12_binder_constRooted (site : BinderSite) (declared : Ty) (name : String)
    (h : declared.is .kCONSTANT = false) : constRooted (.ident name (binderType site declared)) = true := by
  simp [constRooted, binderType, binderForcedConst_all site, h, Ty.createPrefix, Ty.constDeclared]

/-- An expression all of whose write sites pass the lvalue rule (what `checkExpression` accepting it implies) contains
    no write, at any nesting depth, whose target is const-rooted — e.g. `(c = 1) = 2`, `(++c)++`, `x = (c += 1)`. -/
theorem C12_no_const_write_site : ∀ e : Ex, sitesOk e = true → ∀ s ∈ writeSites e, constRooted s.2 = false
  | .ident _ _, _, s, hs => by simp [writeSites] at hs
  | .opaque _ _, _, s, hs => by simp [writeSites] at hs
  | .dot e _, h, s, hs => C12_no_const_write_site e (by simpa [sitesOk] using h) s (by simpa [writeSites] using hs)
  | .index e _, h, s, hs => C12_no_const_write_site e (by simpa [sitesOk] using h) s (by simpa [writeSites] using hs)
  | .unary k e, h, s, hs => by
    simp only [sitesOk, Bool.and_eq_true, Bool.not_eq_true', Bool.and_eq_false_imp] at h
    simp only [writeSites, List.mem_append] at hs
    rcases hs with hs | hs
    · split at hs
      · rename_i hk
        have : s = (k, e) := by simpa using hs
        subst this
        cases hc : constRooted e with
        | false => rfl
        | true => have := h.2 hk; rw [C12_write_rejected k e hk hc] at this; exact absurd this (by decide)
      · simp at hs
    · exact C12_no_const_write_site e h.1 s hs
  | .binary k a b, h, s, hs => by
    simp only [sitesOk, Bool.and_eq_true, Bool.not_eq_true', Bool.and_eq_false_imp] at h
    simp only [writeSites, List.mem_append] at hs
    rcases hs with (hs | hs) | hs
    · split at hs
      · rename_i hk
        have : s = (k, a) := by simpa using hs
        subst this
        cases hc : constRooted a with
        | false => rfl
        | true => have := h.2 hk; rw [C12_write_rejected k a hk hc] at this; exact absurd this (by decide)
      · simp at hs
    · exact C12_no_const_write_site a h.1.1 s hs
    · exact C12_no_const_write_site b h.1.2 s hs
  | .iif _ _ c a b, h, s, hs => by
    simp only [sitesOk, Bool.and_eq_true] at h
    simp only [writeSites, List.mem_append] at hs
    rcases hs with (hs | hs) | hs
    · exact C12_no_const_write_site c h.1.1 s hs
    · exact C12_no_const_write_site a h.1.2 s hs
    · exact C12_no_const_write_site b h.2 s hs

/-- Chains of assignment operators group to the right: `m = c += 1` is `m = (c += 1)`, `m -= c <<= 1` is `m -= (c <<= 1)`.
    The inner write is a write site of the whole expression, so the chain is refused as soon as `c` is const-rooted --
    whatever the outer operator `k1`, its target `m` and the operand `e` are. -/
theorem C12_chain_rejected (k1 k2 : Kind) (m x e : Ex) (hk : isWriteKind k2 = true) (h : constRooted x = true) :
    sitesOk (.binary k1 m (.binary k2 x e)) = false := by
  simp [sitesOk, hk, C12_write_rejected k2 x hk h]

/-! ### C12, acceptance: the same shapes on mutable objects pass the lvalue rule -/

/-- A type with no const (and no function / process) part anywhere is mutable. -/
theorem C12_clean_mutable (t : Ty) (h : t.clean = true) : t.isMutable = true := noneOf_mutable t h

/-- **C12_accept.** Identifier of const-free type, any chain of fields / elements of it, inline-if over two such
    (of equivalent type), right operand of a comma, result of an assignment or prefix increment: modifiable lvalue. -/
theorem C12_accept : ∀ e : Ex, mutTarget e = true → isModLv e = true
  | .ident n ty, h => by
    simpa [isModLv, lvPred, modLvClause, applyClause] using noneOf_mutable ty (by simpa [mutTarget, Ty.clean] using h)
  | .dot e i, h => by
    simp only [mutTarget, Bool.and_eq_true, Bool.not_eq_true'] at h
    have ih := C12_accept e h.1
    simp only [isModLv] at ih
    simp [isModLv, lvPred, modLvClause, applyClause, ih, h.2]
  | .index e c, h => by
    simp only [mutTarget] at h
    have ih := C12_accept e h
    simp only [isModLv] at ih
    simp [isModLv, lvPred, modLvClause, applyClause, ih]
  | .iif eq ty c a b, h => by
    simp only [mutTarget, Bool.and_eq_true] at h
    have iha := C12_accept a h.1.2
    have ihb := C12_accept b h.2
    simp only [isModLv] at iha ihb
    simp [isModLv, lvPred, modLvClause, applyClause, iha, ihb, h.1.1]
  | .binary k a b, h => by
    simp only [mutTarget] at h
    split at h
    · rename_i hk
      have hk' : k = .kCOMMA := by simpa using hk
      subst hk'
      have ih := C12_accept b h
      simp only [isModLv] at ih
      simp [isModLv, lvPred, modLvClause, applyClause, ih]
    · have hk : k ∈ assignKinds := by simpa using h
      simp only [assignKinds, List.mem_cons, List.mem_nil_iff, or_false] at hk
      rcases hk with hk | hk | hk | hk | hk | hk | hk | hk | hk | hk | hk <;> subst hk <;>
        simp [isModLv, lvPred, modLvClause, applyClause]
  | .unary k e, h => by
    simp only [mutTarget, Bool.or_eq_true, beq_iff_eq] at h
    rcases h with hk | hk <;> subst hk <;> simp [isModLv, lvPred, modLvClause, applyClause]
  | .opaque _ _, h => by simp [mutTarget] at h

-- msa[1].b[0] for `S msa[2]`
example : mutTarget (.index (.dot (.index (.ident "msa" (Ty.mk .kARRAY (.cons "" (Ty.mk .kLABEL (.cons "S" (Ty.mk .kRECORD
    (.cons "a" (Ty.prim .kINT) (.cons "b" (Ty.mk .kARRAY (.cons "" (Ty.prim .kINT) (.cons "" (Ty.prim .kINT) .nil))) .nil)))
    .nil)) (.cons "" (Ty.prim .kINT) .nil)))) true) 1) true) = true := by decide

/-- Every write form on such a target passes the lvalue rule of its clause. -/
theorem C12_write_accepted (k : Kind) (lhs : Ex) (h : mutTarget lhs = true) : writeRefused k lhs = false := by
  simp [writeRefused, C12_accept lhs h]

/-- … and such a target passes the reference rule of `isParameterCompatible` for every parameter type. -/
theorem C12_ref_argument_accepted (param : Ty) (arg : Ex) (h : mutTarget arg = true) : argRefused param arg = false := by
  simp [argRefused, paramRefuses, C12_accept arg h]

/-- A modifiable lvalue is an lvalue (`isModifiableLValue ⇒ isLValue`), for every expression. -/
theorem C12_modifiable_is_lvalue : ∀ e : Ex, isModLv e = true → isLv e = true
  | .ident _ _, h => by
    simp only [isModLv, isLv, lvPred] at h ⊢
    exact applyClause_mod_lv _ _ _ _ _ _ _ _ _ _ _ (fun x => x) (fun x => x) (fun x => x) h
  | .opaque _ _, h => by
    simp only [isModLv, isLv, lvPred] at h ⊢
    exact applyClause_mod_lv _ _ _ _ _ _ _ _ _ _ _ (fun x => x) (fun x => x) (fun x => x) h
  | .dot e _, h => by
    simp only [isModLv, isLv, lvPred] at h ⊢
    exact applyClause_mod_lv _ _ _ _ _ _ _ _ _ _ _ (C12_modifiable_is_lvalue e) (fun x => x) (fun x => x) h
  | .index e _, h => by
    simp only [isModLv, isLv, lvPred] at h ⊢
    exact applyClause_mod_lv _ _ _ _ _ _ _ _ _ _ _ (C12_modifiable_is_lvalue e) (fun x => x) (fun x => x) h
  | .unary _ e, h => by
    simp only [isModLv, isLv, lvPred] at h ⊢
    exact applyClause_mod_lv _ _ _ _ _ _ _ _ _ _ _ (C12_modifiable_is_lvalue e) (fun x => x) (fun x => x) h
  | .binary _ a b, h => by
    simp only [isModLv, isLv, lvPred] at h ⊢
    exact applyClause_mod_lv _ _ _ _ _ _ _ _ _ _ _ (C12_modifiable_is_lvalue a) (C12_modifiable_is_lvalue b) (fun x => x) h
  | .iif _ _ c a b, h => by
    simp only [isModLv, isLv, lvPred] at h ⊢
    exact applyClause_mod_lv _ _ _ _ _ _ _ _ _ _ _ (C12_modifiable_is_lvalue c) (C12_modifiable_is_lvalue a)
      (C12_modifiable_is_lvalue b) h

/-! ### from declaration syntax to the declared type (the builder callbacks) -/

/-- **Source-level constness reaches the type.**  A declaration on which `const` is written — directly, on a typedef it
    names (to any depth), or on the element type below any number of array declarators, and also when the parameter is a
    reference — is given by the builder a type that is declared const; so (with `C12_reject`) the declared object, every
    element and every field of it are not modifiable lvalues. -/
theorem C12_decl_const : ∀ d : Decl, d.isConst = true → d.elab.constDeclared = true
  | .base b p, h => by
    have hp : p = .const := by simpa [Decl.isConst] using h
    subst hp
    cases b <;> simp only [Decl.elab, elabBase] <;>
      first
      | exact constDeclared_viaCallback_const _ _
      | exact constDeclared_createLabel _ _ (constDeclared_viaCallback_const _ _)
  | .named p n body, h => by
    simp only [Decl.isConst, Bool.or_eq_true] at h
    simp only [Decl.elab]
    rcases h with h | h
    · have hp : p = .const := by simpa using h
      subst hp
      exact constDeclared_viaCallback_const _ _
    · exact constDeclared_viaCallback _ _ _ (constDeclared_createLabel _ _ (C12_decl_const body h))
  | .struct p fs, h => by
    have hp : p = .const := by simpa [Decl.isConst] using h
    subst hp
    simp only [Decl.elab]
    exact constDeclared_viaCallback_const _ _
  | .array e, h => by
    have ih := C12_decl_const e (by simpa [Decl.isConst] using h)
    simp [Decl.elab, Ty.constDeclared, Children.constDeclared0, ih, wrapperKinds]
  | .ref d, h => by
    have ih := C12_decl_const d (by simpa [Decl.isConst] using h)
    simp only [Decl.elab]
    exact constDeclared_wrapKinds _ _ refParamKinds_wrappers ih

-- `typedef const int ci;  void f(ci &p[3][2])`-like: reference to a two-dimensional array of a typedef'd const
example : (Decl.ref (.array (.array (.named .none "ci" (.base .int .const))))).isConst = true := by decide

/-- An identifier declared that way is const-rooted, hence (C12_reject) never a modifiable lvalue, and neither is any
    path into it. -/
theorem C12_decl_const_rejected (d : Decl) (x : String) (h : d.isConst = true) :
    constRooted (.ident x d.elab) = true ∧ isModLv (.ident x d.elab) = false := by
  have hc : constRooted (.ident x d.elab) = true := by simpa [constRooted] using C12_decl_const d h
  exact ⟨hc, C12_reject _ hc⟩

mutual
  /-- **…and its absence too.**  A declaration in which `const` occurs nowhere (nor in the typedefs it names, nor in its
      fields) gets a type without any const part: every path into the declared object is a modifiable lvalue
      (`C12_accept`). -/
  theorem C12_decl_constFree : ∀ d : Decl, d.constFree = true → d.elab.clean = true
    | .base b p, h => by
      have hp : p ≠ .const := by simpa [Decl.constFree] using h
      cases b <;> simp only [Decl.elab, elabBase]
      · exact clean_viaCallback _ _ _ hp (by decide)
      · refine clean_viaCallback _ _ _ hp ?_
        split
        · exact clean_rangeInt
        · decide
      · exact clean_viaCallback _ _ _ hp (by decide)
      · exact clean_viaCallback _ _ _ hp clean_rangeInt
      · exact clean_viaCallback _ _ _ hp (by decide)
      · exact clean_createLabel _ _ (clean_viaCallback _ _ _ hp (clean_createRange _ (by decide)))
    | .named p n body, h => by
      simp only [Decl.constFree, Bool.and_eq_true, bne_iff_ne, ne_eq] at h
      simp only [Decl.elab]
      exact clean_viaCallback _ _ _ h.1 (clean_createLabel _ _ (C12_decl_constFree body h.2))
    | .struct p fs, h => by
      simp only [Decl.constFree, Bool.and_eq_true, bne_iff_ne, ne_eq] at h
      simp only [Decl.elab]
      refine clean_viaCallback _ _ _ h.1 ?_
      have hf := C12_fields_constFree fs h.2
      have hk : nonMutableKinds.contains Kind.kRECORD = false := by decide
      simp only [Ty.clean, Ty.noneOf, hk, hf, Bool.not_false, Bool.and_self]
    | .array e, h => by
      have ih := C12_decl_constFree e (by simpa [Decl.constFree] using h)
      have hr := clean_rangeInt
      have hk : nonMutableKinds.contains Kind.kARRAY = false := by decide
      simp only [Ty.clean] at ih hr ⊢
      simp only [Decl.elab, Ty.noneOf, Children.noneOf, ih, hr, hk, Bool.not_false, Bool.and_self]
    | .ref d, h => by
      have ih := C12_decl_constFree d (by simpa [Decl.constFree] using h)
      simp only [Decl.elab]
      exact clean_wrapKinds _ _ refParamKinds_good ih
  theorem C12_fields_constFree : ∀ fs : DeclFields, fs.constFree = true → fs.elab.noneOf nonMutableKinds = true
    | .nil, _ => by simp [DeclFields.elab, Children.noneOf]
    | .cons n d r, h => by
      simp only [DeclFields.constFree, Bool.and_eq_true] at h
      have h1 := C12_decl_constFree d h.1
      have h2 := C12_fields_constFree r h.2
      simp only [Ty.clean] at h1
      simp only [DeclFields.elab, Children.noneOf, h1, h2, Bool.and_self]
end

theorem C12_decl_constFree_accepted (d : Decl) (x : String) (h : d.constFree = true) :
    mutTarget (.ident x d.elab) = true ∧ isModLv (.ident x d.elab) = true := by
  have hm : mutTarget (.ident x d.elab) = true := by simpa [mutTarget] using C12_decl_constFree d h
  exact ⟨hm, C12_accept _ hm⟩

/-- Paths are lvalues whether const or not (a const-rooted path is refused for its constness, not for its shape) … -/
theorem C12_path_is_lvalue : ∀ e : Ex, purePath e = true → isLv e = true
  | .ident _ _, _ => by simp [isLv, lvPred, lvClause, applyClause]
  | .dot e i, hp => by
    simp only [purePath, Bool.and_eq_true] at hp
    have ih := C12_path_is_lvalue e hp.1
    simp only [isLv] at ih
    simp [isLv, lvPred, lvClause, applyClause, ih]
  | .index e c, hp => by
    simp only [purePath] at hp
    have ih := C12_path_is_lvalue e hp
    simp only [isLv] at ih
    simp [isLv, lvPred, lvClause, applyClause, ih]
  | .unary _ _, hp => by simp [purePath] at hp
  | .binary _ _ _, hp => by simp [purePath] at hp
  | .iif _ _ _ _ _, hp => by simp [purePath] at hp
  | .opaque _ _, hp => by simp [purePath] at hp

/-- … and, with compile-time computable indices, unique references: -/
theorem C12_path_is_unique : ∀ e : Ex, purePath e = true → allCtc e = true → isUniq e = true
  | .ident _ _, _, _ => by simp [isUniq, lvPred, uniqClause, applyClause]
  | .dot e i, hp, hc => by
    simp only [purePath, Bool.and_eq_true] at hp
    have ih := C12_path_is_unique e hp.1 (by simpa [allCtc] using hc)
    simp only [isUniq] at ih
    simp [isUniq, lvPred, uniqClause, applyClause, ih]
  | .index e c, hp, hc => by
    simp only [purePath] at hp
    simp only [allCtc, Bool.and_eq_true] at hc
    have ih := C12_path_is_unique e hp hc.2
    simp only [isUniq] at ih
    simp [isUniq, lvPred, uniqClause, applyClause, ih, hc.1]
  | .unary _ _, hp, _ => by simp [purePath] at hp
  | .binary _ _ _, hp, _ => by simp [purePath] at hp
  | .iif _ _ _ _ _, hp, _ => by simp [purePath] at hp
  | .opaque _ _, hp, _ => by simp [purePath] at hp

/-- so a path into a const-free variable, with computable indices, passes both rules of `visitInstance` for a
    non-const reference parameter of a template. -/
theorem C12_inst_argument_accepted (param : Ty) (arg : Ex) (computable : Bool) (href : param.is .kREF = true)
    (hnc : param.isConstant = false) (hp : purePath arg = true) (hc : allCtc arg = true) (hm : mutTarget arg = true) :
    instArgRefused param arg computable = false := by
  simp [instArgRefused, instRefuses, href, hnc, C12_path_is_unique arg hp hc, C12_ref_argument_accepted param arg hm]

/-! ### the exception: a mutable member next to a const array member -/

/-- `struct { const int k[2]; int v; } kk;  kk.v = 1`:  `kk.v` is not const-rooted, yet it is not a modifiable lvalue. -/
def witnessSiblingConst : Ex :=
  .dot (.ident "kk" (Ty.mk .kLABEL (.cons "K" (Ty.mk .kRECORD
    (.cons "k" (Ty.mk .kARRAY (.cons "" (Ty.mk .kCONSTANT (.cons "" (Ty.prim .kINT) .nil)) (.cons "" (Ty.prim .kINT) .nil)))
    (.cons "v" (Ty.mk .kRANGE (.cons "" (Ty.prim .kINT) .nil)) .nil))) .nil))) 1

/-- why the shape exists: `struct_field` refuses a field only when `type.is(CONSTANT)`, and `is` does not look through ARRAY -/
theorem C12_exception_const_array_member_passes_struct_field :
    (Decl.array (.base .int .const)).isConst = true ∧ ((Decl.array (.base .int .const)).elab.is .kCONSTANT) = false := by decide

theorem C12_exception_sibling_const_witness :
    constRooted witnessSiblingConst = false ∧ (typeOf witnessSiblingConst).isMutable = true ∧
    isModLv witnessSiblingConst = false := by decide

end UtapModel.Const
