/- C08: parsed documents satisfy the structural invariants clients rely on.

   Model: `UtapModel.Model.Builder` (state machine behind ParserBuilder, abstract document with explicit object
   identities standing for the `void*` user data of symbols).  `Inv` (Model/BuilderInv.lean) is the conjunction the
   property lists:
     own       every variable / location / branchpoint / function / template / instance / process is the user object
               of its own symbol;
     backLoc/backBp/backInst  conversely a location / branchpoint / instance symbol points at an object of that kind
               that names it (this is what makes `static_cast<location_t*>(sym.get_data())` in add_edge,
               instantiation_end and process meaningful);
     edges     every edge has exactly one source and exactly one target pointer, of the right kinds;
     numLoc/numBp/numEdge  numbers are dense and in creation (= source) order within each template;
     insts     unbound parameters first, type arity = #unbound, mapping = exactly the bound parameters.
   The theorems hold for EVERY callback sequence (no assumption that it comes from a valid input): all error and
   throw branches of the callbacks are part of `step`.
   Helper lemmas: UtapModel/Lemmas/C08.lean.  This file: property theorems only. -/
import UtapModel.Lemmas.C08
import UtapModel.Lemmas.C08Own
import UtapModel.Lemmas.C08Init

namespace UtapModel.Builder

/-- the freshly constructed Document + DocumentBuilder -/
theorem C08_init : Inv BState.init := by
  unfold Inv
  constructor
  · intro r sid h; cases r <;> simp [BState.init, Doc.uidOf] at h
  · intro sid sym h; simp [BState.init] at h
  · intro sid sym h; simp [BState.init] at h
  · intro sid sym a h; simp [BState.init] at h
  · intro i l h; simp [BState.init] at h
  · intro i b h; simp [BState.init] at h
  · intro t T i e h; simp [BState.init] at h
  · intro t T i e h; simp [BState.init] at h
  · intro r I h; cases r <;> simp [BState.init, Doc.inst?] at h

/-- every ParserBuilder callback, in every state, on every branch (diagnostic recorded / exception thrown included),
    preserves the invariant -/
theorem C08_step (s : BState) (c : Call) (h : Inv s) : Inv (step s c) := by
  cases c
  case handleError => exact h
  case handleWarning => exact h
  case frag => exact h
  case exprIdentifier => exact h
  case quantBegin name =>
    exact inv_of_eq (inv_addSymbol_plain (s := s.popType.1.pushNewFrame) (f := s.popType.1.pushNewFrame.top) (name := name)
      (ty := .var s.popType.2) h (plain_var _)) rfl rfl
  case quantEnd => exact h
  case dynQuantBegin name => simp only [step]; inv_plain
  case dynQuantEnd => exact h
  case typeDuplicate => exact h
  case typePop => exact h
  case typePrim => exact h
  case typeName name =>
    simp only [step]
    split <;> exact h
  case typeArrayOfSize => exact h
  case typeArrayOfType => exact h
  case typeStruct => exact h
  case structField => exact h
  case declTypedef name =>
    simp only [step, BState.popType]
    refine inv_ite ?_ ?_
    · exact h
    · inv_plain
  case declVar name hasInit =>
    simp only [step]
    cases hasInit <;> exact inv_addVariable h
  case declParameter name => simp only [step]; inv_plain
  case declFuncBegin name =>
    simp only [step]
    refine inv_of_eq (inv_addFunction (name := name) (s := ({ s with currentFun := none } : BState).popType.1) h) ?_ ?_ <;> simp
  case declFuncEnd => exact h
  case declExternalFunc name =>
    simp only [step]
    refine inv_of_eq (inv_addFunction (name := name) (s := s.popType.1) h) ?_ ?_ <;> simp
  case declDynamicTemplate name =>
    simp only [step]
    refine inv_of_eq (inv_addTemplate (name := name) (isTA := true) (dyn := true) (s := (if ({ s with currentTemplate := none } : BState).topContains name then ({ s with currentTemplate := none } : BState).error else ({ s with currentTemplate := none } : BState))) ?_) rfl rfl
    exact inv_ite h h
  case blockBegin => exact h
  case blockEnd => exact h
  case iterationBegin name => simp only [step]; exact inv_addVariable h
  case iterationEnd => exact h
  case returnStatement args =>
    simp only [step]
    split
    · exact h
    · split <;> exact h
  case procBegin name isTA =>
    simp only [step]
    cases hd : s.findDynamicTemplate name with
    | some t =>
      refine inv_of_eq (s := { s with doc := s.doc.modifyTempl t (fun T => { T with isDefined := true }) }) ?_ rfl rfl
      exact inv_modifyTempl h t _ (fun T => rfl) (fun T hT i e he => ⟨h.numEdge t T i e hT he, h.edges t T i e hT he⟩)
    | none =>
      refine inv_of_eq (inv_addTemplate (name := name) (isTA := isTA) (dyn := false) (s := (if s.topContains name then s.error else s)) ?_) rfl rfl
      exact inv_ite h h
  case procEnd => exact h
  case procLocation name hasInv hasEr =>
    cases hasEr <;> cases hasInv <;> (simp only [step]; try simp only [if_true, if_false, Bool.false_eq_true]) <;> split <;> first | exact h | exact inv_addLocation h
  case procLocationCommit name =>
    simp only [step]
    split
    · rename_i sid x u c usr hr
      refine inv_ite h ?_
      exact inv_setSymTy_loc h sid _ (resolveSym_sym hr) rfl _ _
    · exact h
  case procLocationUrgent name =>
    simp only [step]
    split
    · rename_i sid x u c usr hr
      refine inv_ite h ?_
      exact inv_setSymTy_loc h sid _ (resolveSym_sym hr) rfl _ _
    · exact h
  case procLocationInit name =>
    simp only [step]
    split
    · split
      · rename_i t _
        exact inv_modifyTempl h t _ (fun T => rfl) (fun T hT i e he => ⟨h.numEdge t T i e hT he, h.edges t T i e hT he⟩)
      · exact h
    · exact h
  case procBranchpoint name =>
    simp only [step]
    split
    · exact h
    · exact inv_addBranchpoint h
  case procEdgeBegin src dst control =>
    simp only [step]
    split
    · rename_i fs ts t hf ht _
      exact inv_addEdge (s := s) h t fs ts control _ _ _ _ (resolveEndpoint_sym hf) (resolveEndpoint_sym ht)
    · exact h
    · exact h
  case procEdgeEnd => exact h
  case procSelect name =>
    simp only [step]
    cases s.currentEdge with
    | none => exact h
    | some p => exact inv_addSelectSymbol h _ _
  case procGuard => exact inv_setEdge h _ (fun _ _ => ⟨rfl, rfl, rfl, rfl, rfl⟩)
  case procSync =>
    simp only [step]
    split
    · exact h
    · exact inv_setEdge (s := s.fresh.1) h _ (fun _ _ => ⟨rfl, rfl, rfl, rfl, rfl⟩)
  case procUpdate => exact inv_setEdge h _ (fun _ _ => ⟨rfl, rfl, rfl, rfl, rfl⟩)
  case procProb => exact inv_setEdge h _ (fun _ _ => ⟨rfl, rfl, rfl, rfl, rfl⟩)
  case ganttDeclBegin => exact h
  case ganttSelect name => exact inv_addSelectSymbol h _ _
  case ganttDeclEnd => exact h
  case ganttEntryBegin => exact h
  case ganttEntryEnd => exact h
  case instanceNameBegin => exact h
  case instanceNameEnd => exact h
  case instantiationBegin name templ =>
    simp only [step]
    refine inv_of_eq (s := s) h ?_ ?_ <;> (simp; split <;> simp)
  case instantiationEnd name templ arguments =>
    simp only [step]
    split
    · rename_i sid nm a user hr
      split
      · exact h
      · split
        · exact h
        · rename_i h1 h2
          split
          · rename_i old hold
            have hs := resolveSym_sym hr
            obtain ⟨r, I, hu, hi, _, hun⟩ := h.backInst sid _ a hs (Or.inl rfl)
            simp only at hu
            subst hu
            have hoi : old = I := by
              have : s.doc.inst? r = some old := hold
              rw [hi] at this; cases this; rfl
            subst hoi
            refine inv_addInstance (s := s.popFrame.popFrag arguments) h false name old _ _ (h.insts r old hi) ?_
            simp; omega
          · exact h
    · rename_i sid nm a user hr
      split
      · exact h
      · split
        · exact h
        · rename_i h1 h2
          split
          · rename_i old hold
            have hs := resolveSym_sym hr
            obtain ⟨r, I, hu, hi, _, hun⟩ := h.backInst sid _ a hs (Or.inr rfl)
            simp only at hu
            subst hu
            have hoi : old = I := by
              have : s.doc.inst? r = some old := hold
              rw [hi] at this; cases this; rfl
            subst hoi
            refine inv_addInstance (s := s.popFrame.popFrag arguments) h true name old _ _ (h.insts r old hi) ?_
            simp; omega
          · exact h
    · exact h
  case process name =>
    simp only [step]
    split
    · rename_i sid nm a user hr
      split
      · rename_i inst hold
        have hs := resolveSym_sym hr
        obtain ⟨r, I, hu, hi, _, hun⟩ := h.backInst sid _ a hs (Or.inl rfl)
        simp only at hu
        subst hu
        have hoi : inst = I := by
          have : s.doc.inst? r = some inst := hold
          rw [hi] at this; cases this; rfl
        subst hoi
        exact inv_addProcess h inst (h.insts r inst hi)
      · exact h
    · exact h

/-- hence every state reachable by ANY callback sequence satisfies the invariant -/
theorem C08_reachable (cs : List Call) : Inv (run BState.init cs) := by
  have : ∀ (s : BState), Inv s → Inv (run s cs) := by
    induction cs with
    | nil => intro s h; exact h
    | cons c cs ih => intro s h; exact ih (step s c) (C08_step s c h)
  exact this _ C08_init

-- the hypothesis of C08_step is satisfiable by a non-trivial state (a template with two locations, an edge, an instance and a process):
example : let s := run BState.init [.procBegin "P" true, .procLocation "A" false false, .procLocation "A" false false,
      .procLocationInit "A", .procEdgeBegin "A" "A" true, .procEdgeEnd, .procEnd,
      .instantiationBegin "Q" "P", .instantiationEnd "Q" "P" 0, .process "Q"]
    Inv s ∧ s.doc.locs.length = 2 ∧ (s.doc.templates.map (·.edges.length)) = [1] ∧ s.doc.insts.length = 2 :=
  ⟨C08_reachable _, by decide, by decide, by decide⟩

/-- reading of `own` for the object kinds the property names: in every reachable state the symbol of the i-th
    location (variable, branchpoint, function, template, instance/process) has that very object as user data -/
theorem C08_user_object (cs : List Call) (r : Obj) (sid : SymId) (h : (run BState.init cs).doc.uidOf r = some sid) :
    symUser (run BState.init cs).syms sid = some r :=
  (C08_reachable cs).own r sid h

/-- every edge of every reachable document has exactly one source and one target, a location or a branchpoint -/
theorem C08_edge_endpoints (cs : List Call) (t : Nat) (T : Templ) (i : Nat) (e : Edge)
    (hT : (run BState.init cs).doc.templates[t]? = some T) (he : T.edges[i]? = some e) : EdgeOk e ∧ e.nr = i :=
  ⟨(C08_reachable cs).edges t T i e hT he, (C08_reachable cs).numEdge t T i e hT he⟩

/-- instances: unbound parameters first, arity = #unbound, mapping domain = bound parameters -/
theorem C08_instances (cs : List Call) (r : Obj) (I : Inst) (h : (run BState.init cs).doc.inst? r = some I) :
    InstOk (run BState.init cs).syms I :=
  (C08_reachable cs).insts r I h

/-- "maps exactly its bound parameters to argument expressions": the keys of the mapping are pairwise distinct and are precisely the
    bound parameters, so every bound parameter has one argument expression and nothing else has any -- at every instantiation level,
    whatever the parameters are called (keys are symbols, not names) -/
theorem C08_mapping_exact (cs : List Call) (r : Obj) (I : Inst) (h : (run BState.init cs).doc.inst? r = some I) :
    (I.mapping.map Prod.fst).Nodup ∧ ∀ x, x ∈ I.mapping.map Prod.fst ↔ x ∈ I.params.drop I.unbound := by
  have hI := (C08_reachable cs).insts r I h
  refine ⟨hI.mapKeys, fun x => ?_⟩
  rw [← hI.mapDom x]
  constructor
  · intro hx
    obtain ⟨⟨a, e⟩, hm, hfst⟩ := List.mem_map.mp hx
    exact ⟨e, by simpa [← hfst] using hm⟩
  · rintro ⟨e, he⟩
    exact List.mem_map.mpr ⟨(x, e), he, rfl⟩

/-! ### clauses that depend on the callers' scope discipline

   `SafeRun s cs` (Lemmas/C08Own.lean): every popping callback other than proc_end is issued when the frame on top of the
   stack is neither the global frame's sole entry nor the frame of the template being parsed -- i.e. it removes a frame that
   was pushed after the template was entered.  This is what the grammar and the XML reader guarantee (every pop sits behind its
   push in straight-line code; error recovery can only drop pops, never add them); it is evaluated on every real callback
   trace by drv_c08 (`S ok`).  Without it the clauses are false of the *model*: proc_begin A, proc_begin B, proc_edge_end,
   proc_edge_begin would attach A's locations to an edge of B. -/

/-- every edge has its source and its target in the edge's own template -/
theorem C08_own_template (cs : List Call) (hs : SafeRun BState.init cs) (t : Nat) (T : Templ) (e : Edge)
    (hT : (run BState.init cs).doc.templates[t]? = some T) (he : e ∈ T.edges) :
    (∀ i, e.src = some (.loc i) → ∃ l, (run BState.init cs).doc.locs[i]? = some l ∧ l.templ = t) ∧
    (∀ i, e.srcb = some (.bp i) → ∃ b, (run BState.init cs).doc.bps[i]? = some b ∧ b.templ = t) ∧
    (∀ i, e.dst = some (.loc i) → ∃ l, (run BState.init cs).doc.locs[i]? = some l ∧ l.templ = t) ∧
    (∀ i, e.dstb = some (.bp i) → ∃ b, (run BState.init cs).doc.bps[i]? = some b ∧ b.templ = t) := by
  obtain ⟨_, ho⟩ := scope_reachable cs BState.init Inv2_init OwnT_init hs
  obtain ⟨h1, h2, h3, h4⟩ := ho.edges t T e hT he
  have locOf : ∀ (o : Option Obj) i, ownEnd (run BState.init cs).view t o → o = some (.loc i) →
      ∃ l, (run BState.init cs).doc.locs[i]? = some l ∧ l.templ = t := by
    intro o i h hi
    have := h _ hi
    simp only [View.objTempl, BState.view, List.getElem?_map] at this
    cases hl : (run BState.init cs).doc.locs[i]? with
    | none => simp [hl] at this
    | some l => simp [hl] at this; exact ⟨l, rfl, this⟩
  have bpOf : ∀ (o : Option Obj) i, ownEnd (run BState.init cs).view t o → o = some (.bp i) →
      ∃ b, (run BState.init cs).doc.bps[i]? = some b ∧ b.templ = t := by
    intro o i h hi
    have := h _ hi
    simp only [View.objTempl, BState.view, List.getElem?_map] at this
    cases hl : (run BState.init cs).doc.bps[i]? with
    | none => simp [hl] at this
    | some l => simp [hl] at this; exact ⟨l, rfl, this⟩
  exact ⟨fun i hi => locOf _ i h1 hi, fun i hi => bpOf _ i h2 hi, fun i hi => locOf _ i h3 hi, fun i hi => bpOf _ i h4 hi⟩

/-- a template's initial location, once set, is one of the template's own locations (and `init` is that location's symbol) -/
theorem C08_init_own_location (cs : List Call) (hs : SafeRun BState.init cs) (t : Nat) (T : Templ) (sid : SymId)
    (hT : (run BState.init cs).doc.templates[t]? = some T) (hi : T.init = some sid) :
    ∃ i l, symUser (run BState.init cs).syms sid = some (.loc i) ∧ (run BState.init cs).doc.locs[i]? = some l ∧
      l.templ = t ∧ l.uid = sid := by
  obtain ⟨_, ho⟩ := scope_reachable cs BState.init Inv2_init OwnT_init hs
  obtain ⟨hown, sym, hsym, hloc⟩ := ho.init t T sid hT hi
  obtain ⟨i, hu, hd⟩ := (C08_reachable cs).backLoc sid sym hsym hloc
  have hsu : symUser (run BState.init cs).syms sid = some (.loc i) := by simp [symUser, hsym, hu]
  rw [hsu] at hown
  simp only [View.objTempl, BState.view, List.getElem?_map] at hown
  simp only [Doc.uidOf] at hd
  cases hl : (run BState.init cs).doc.locs[i]? with
  | none => simp [hl] at hown
  | some l =>
    simp [hl] at hown hd
    exact ⟨i, l, hsu, hl, hown, hd⟩

-- the hypothesis is satisfiable by a non-trivial list (two templates, edges in both, an abandoned quantifier frame in between):
example : SafeRun BState.init [.procBegin "A" true, .procLocation "a" false false, .procLocationInit "a", .procEdgeBegin "a" "a" true,
    .frag 0 1, .frag 0 1, .typePrim true 2 false, .quantBegin "i", .handleError, .procEdgeEnd, .procEnd,
    .procBegin "B" true, .procLocation "a" false false, .procLocationInit "a", .procEdgeBegin "a" "a" true, .procEdgeEnd, .procEnd] := by
  simp only [SafeRun]; decide

/-- "normal return and no errors => every TA template has an initial location": if the reader follows the protocol
    `initShape` (Lemmas/C08Init.lean: a TA template is entered outside any template, and before its proc_end the reader issues
    proc_location_init or records a diagnostic) and no diagnostic was recorded, every (non-dynamic) TA template has `init` set;
    with `C08_init_own_location` it is one of the template's own locations.
    The XML reader follows the protocol (xmlreader.cpp templ()/init(): "$Missing_initial_location"); the XTA grammar does
    not: `ProcBody` has an empty alternative -- see `C08_empty_body_witness` and the known finding. -/
theorem C08_init_location (cs : List Call) (hshape : initShape false cs = true) (hclean : (run BState.init cs).diags = 0)
    (t : Nat) (T : Templ) (hT : (run BState.init cs).doc.templates[t]? = some T) (hta : T.isTA = true) (hdy : T.dynamic = false) :
    T.init.isSome = true := by
  have := init_location_run cs BState.init false InitInv_init hshape hclean
  rcases this t T hT hta hdy with h | ⟨h, _⟩
  · exact h
  · cases h

-- hypotheses satisfiable: a template with a location and its init
example : initShape false [.procBegin "P" true, .procLocation "A" false false, .procLocationInit "A", .procEnd] = true ∧
    (run BState.init [.procBegin "P" true, .procLocation "A" false false, .procLocationInit "A", .procEnd]).diags = 0 := by decide

/-- the exception: the callbacks of XTA `process P() { }` (proc_begin, proc_end) violate the protocol, record no diagnostic and
    leave a TA template without initial location -- the negation of the init clause on a concrete witness -/
theorem C08_empty_body_witness :
    initShape false [.procBegin "P" true, .procEnd] = false ∧
    (run BState.init [.procBegin "P" true, .procEnd]).diags = 0 ∧
    ((run BState.init [.procBegin "P" true, .procEnd]).doc.templates.map (fun T => (T.isTA, T.dynamic, T.init))) = [(true, false, none)] := by
  decide

end UtapModel.Builder
