"""C09 -- accept/reject verdicts are invariant under meaning-preserving rewrites (DESIGN.md section 4, C09).

 1 translate   src/lexer.l, src/keywords.cpp, src/parser.y, src/libparser.h -> lean/UtapModel/Gen/C09Tables.lean   (tie T)
 2 prove       UtapModel.Props.C09: trivia / renaming theorems of the lexer model, alias + parenthesis theorems of the
               operator-trace model, scope-resolution equivariance, negations on the exception-shape witnesses
 3 correspond  (a) Lean lexer model vs the real lexer on generated token soups (is_type() call sequence + lexer errors)
               (b) Lean operator-trace model vs the real parser's callback sequence on generated expressions
 4 metamorph   original vs rewritten model on the REAL library (parse_XML_buffer incl. static analysis, parse_XTA):
               diagnostics multiset (renaming applied, positions ignored), supported-methods verdict, canonical
               document dump up to the renaming.  Rewrites: trivia at every lexeme boundary, parentheses around every
               expression node, keyword aliases <-> symbolic forms, injective renamings (fresh, long, soft keywords,
               one-letter names).  A disagreement is delta-debugged to a minimal set of sites = the replay.
               Models: corpus/c09 (X.xml / X.xta in the 4.x syntax, X.old.xml / X.ta in the 3.x syntax, read with newxta = false),
               /repo/test/models, generated XML models.
"""
import binascii
import hashlib
import json
import os
import re
import struct
import sys
import time
import xml.etree.ElementTree as ET

from vlib import core

sys.path.insert(0, os.path.join(core.VERIF, "translate"))
import c09_tables  # noqa: E402

GEN = os.path.join(core.LEAN_DIR, "UtapModel", "Gen", "C09Tables.lean")
MODULE = "UtapModel.Props.C09"
LAST_TABLES = GEN[:-5] + ".last.json"      # tables of the last good translation (committed with Gen/): the search uses them when the tie is broken
CORPUS = os.path.join(core.VERIF, "corpus", "c09")
VARIANT = os.environ.get("C09_VARIANT", "plain")  # bulk of the pairs; the every-site rewrites are repeated on the ASan+UBSan build
MASK_NEW = 10   # syntax_t::NEW | GUIDING   (parse_XTA(..., newxta = true, ...))
MASK_OLD = 9    # syntax_t::OLD | GUIDING   (newxta = false: the 3.x syntax of .ta files and of XML read with newxta = false)

PARSED_LABELS = {"invariant", "guard", "select", "synchronisation", "assignment", "probability", "exponentialrate",
                 "message", "update", "condition"}
INDEXED = {"template": "template", "location": "location", "branchpoint": "branchpoint", "transition": "transition",
           "label": "label", "nail": "nail", "lsc": "lscTemplate", "instance": "instance", "temperature": "temperature",
           "message": "message", "condition": "condition", "update": "update", "anchor": "anchor", "query": "query",
           "yloccoord": "ylocoord"}
WRAP_KINDS_EXCLUDED = {"COMMA", "LIST", "SYNC", "FORALL", "EXISTS", "SUM"}   # not `Expression` spans / binder inside

ONE_LETTER = ["A", "U", "R", "W", "E"]           # literal rules of lexer.l that precede the identifier rule
SOFT = ["M", "sup", "inf", "bounds", "simulation"]
# keywords only under PROPERTY / TIGA syntax: plain identifiers inside a model
PROPERTY_ONLY = ["deadlock", "control", "control_t", "minE", "maxE", "minPr", "maxPr", "under", "imitate", "strategy", "simulate",
                 "sat", "Pmax", "Pr", "X", "numOf", "foreach", "loadStrategy", "saveStrategy"]
NEAR = ["And", "OR", "nott", "imply_", "int_", "Int", "constant", "forall_", "true1", "_false", "location_", "a$b", "x#1", "_", "__x",
        "AA", "Ab", "UU", "E1", "x_t", "_t", "t_", "type_", "Type", "id_T", "clock_", "chan1", "Location", "Xx", "sup_", "inf1", "x_and_y", "W_", "Rr", "A$", "cont", "voids", "ints", "iff", "elsewhere", "doit", "form", "struct_", "typedefs"]


def hexs(b):
    if isinstance(b, str):
        b = b.encode("utf-8")
    return binascii.hexlify(b).decode()


# ----------------------------------------------------------------------------------------------------------------------
# processes
# ----------------------------------------------------------------------------------------------------------------------

class Harness:
    """Batch interface to harness/c09 : ops in, list of answers (list of lines) out; a crash is localised."""

    def __init__(self, exe, ctx):
        self.exe, self.ctx = exe, ctx
        self.calls = 0

    def run(self, ops):
        res = [None] * len(ops)
        i = 0
        while i < len(ops):
            chunk = ops[i:]
            rc, out, err, dt = core.run_exe(self.exe, [], stdin_text="\n".join(chunk) + "\n", timeout=1500)
            answers = out.split(".END\n")
            done = len(answers) - 1
            for k in range(done):
                res[i + k] = answers[k].split("\n")[:-1] if answers[k] else []
            self.calls += done
            if done >= len(chunk):
                break
            # the op after the last complete answer killed the process (sanitizer report / crash / timeout)
            res[i + done] = ["CRASH rc=%s" % rc] + (err[-1500:].split("\n") if err else [])
            i += done + 1
        return res


class LeanDrv:
    def __init__(self, exe):
        self.exe = exe
        self.calls = 0

    def run(self, lines):
        if not lines:
            return []
        rc, out, err, dt = core.run_exe(self.exe, [], stdin_text="\n".join(lines) + "\n", timeout=1500)
        o = out.split("\n")
        if rc != 0 or len(o) < len(lines):
            raise RuntimeError("drv_c09 failed rc=%s: %s" % (rc, err[-500:]))
        self.calls += len(lines)
        return o[:len(lines)]

    def lex(self, texts, mask=MASK_NEW, types="-"):
        out = self.run(["lex %d %s %s" % (mask, types, hexs(t) or "") if t else "toks %d - 00" % mask for t in texts])
        res = []
        for t, l in zip(texts, out):
            lx = []
            if t:
                for item in l.split(" "):
                    if not item:
                        continue
                    a, b, r, toks = item.split(":", 3)
                    # (the items of one lexeme are separated by commas; the comma token itself is written ',')
                    lx.append((int(a), int(b), int(r), [x.replace("\x00", "','") for x in toks.replace("','", "\x00").split(",") if x]))
            res.append(lx)
        return res

    def toks(self, texts, mask=MASK_NEW, types="-"):
        out = self.run(["toks %d %s %s" % (mask, types, hexs(t)) if t else "toks %d - 00" % mask for t in texts])
        return [([] if not t else [x for x in l.split(" ") if x]) for t, l in zip(texts, out)]


# ----------------------------------------------------------------------------------------------------------------------
# models as lists of text blocks
# ----------------------------------------------------------------------------------------------------------------------

class Model:
    """kind 'xml': ElementTree + text-bearing elements;  kind 'xta': one text block.  newxta = False: the model is written in the
    3.x syntax and read with newxta = false (another keyword set, `const N 3;`, guards as comma lists): every rewrite family
    applies to it as it does to a 4.x model, the lexer model is asked with the mask of that syntax."""

    def __init__(self, name, kind, source, newxta=True):
        self.name, self.kind, self.newxta = name, kind, newxta
        self.mask = MASK_NEW if newxta else MASK_OLD
        self.blocks = []       # [text]
        self.bkind = []        # 'code' | 'name'
        self.bpath = []        # xpath (xml)
        if kind == "xta":
            self.blocks, self.bkind, self.bpath = [source], ["code"], [""]
            self.root = None
        else:
            self.root = ET.fromstring(source)
            self.elems = []
            self._collect(self.root, "/" + self.root.tag)

    def _collect(self, e, path):
        tag = e.tag
        if tag in ("declaration", "parameter", "system", "instantiation") or (tag == "label" and e.get("kind") in PARSED_LABELS):
            self.elems.append(e)
            self.blocks.append(e.text or "")
            self.bkind.append("code")
            self.bpath.append(path)
        elif tag == "name":
            self.elems.append(e)
            self.blocks.append(e.text or "")
            self.bkind.append("name")
            self.bpath.append(path)
        counts = {}
        for ch in e:
            t = ch.tag
            if t in INDEXED:
                counts[t] = counts.get(t, 0) + 1
                p = "%s/%s[%d]" % (path, INDEXED[t], counts[t])
            else:
                p = "%s/%s" % (path, t)
            self._collect(ch, p)

    def render(self, blocks=None):
        blocks = self.blocks if blocks is None else blocks
        if self.kind == "xta":
            return blocks[0]
        old = [e.text for e in self.elems]
        try:
            for e, t in zip(self.elems, blocks):
                e.text = t
            return '<?xml version="1.0" encoding="utf-8"?>\n' + ET.tostring(self.root, encoding="unicode")
        finally:
            for e, t in zip(self.elems, old):
                e.text = t

    def op(self, blocks=None, sites=False):
        text = self.render(blocks)
        return "%s%s %d %s" % ("sites" if sites else "", self.kind, 1 if self.newxta else 0, hexs(text)), text


def apply_edits(blocks, edits):
    """edits: (block, start, end, new, order) ; non-overlapping except pure insertions at one point (ordered by `order`)."""
    per = {}
    for e in edits:
        per.setdefault(e[0], []).append(e)
    out = list(blocks)
    for b, es in per.items():
        t = out[b]
        es = sorted(es, key=lambda e: (e[1], e[4]))
        res, pos = [], 0
        for (_, s, en, new, _) in es:
            if s < pos:
                raise ValueError("overlapping edits")
            res.append(t[pos:s])
            res.append(new)
            pos = en
        res.append(t[pos:])
        out[b] = "".join(res)
    return out


# ----------------------------------------------------------------------------------------------------------------------
# canonical comparison
# ----------------------------------------------------------------------------------------------------------------------

WORD = re.compile(r"[A-Za-z_][A-Za-z0-9_$#]*")


def canon(answer, rho):
    """(sorted diagnostics, verdict, dump) with the renaming applied to every identifier-shaped word"""
    def ren(s):
        return WORD.sub(lambda m: rho.get(m.group(0), m.group(0)), s) if rho else s
    diags = sorted(ren(l[2:]) for l in answer if l.startswith("D "))
    verdict = [l for l in answer if l.startswith("V ") or l.startswith("RC ")]
    dump = [ren(l[2:]) for l in answer if l.startswith("X ")]
    crash = [l for l in answer if l.startswith("CRASH") or l.startswith("EXC ")]
    return {"diags": diags, "verdict": verdict, "dump": dump, "crash": crash}


def differ(a, b):
    for k in ("crash", "verdict", "diags", "dump"):
        if a[k] != b[k]:
            if k == "dump":
                for i, (x, y) in enumerate(zip(a[k], b[k])):
                    if x != y:
                        return "dump line %d: %r vs %r" % (i, x[:300], y[:300])
                return "dump length %d vs %d" % (len(a[k]), len(b[k]))
            return "%s: %r vs %r" % (k, a[k][:6], b[k][:6])
    return None


# ----------------------------------------------------------------------------------------------------------------------
# rewrite families
# ----------------------------------------------------------------------------------------------------------------------

TRIVIA = [("blank", " "), ("tab", "\t"), ("newline", "\n"), ("mixed", "  \n\t "), ("linecomment", "// c; x = ( 1\n"),
          ("blockcomment", "/* c */"), ("emptyblock", "/**/"), ("multiline", "/* a\n * b = 1; \"\n */"), ("continuation", "\\\n"),
          ("starcomment", "/***/"), ("crlf", "\r\n")]
ALIAS_FWD = {"T_KW_AND": "&&", "T_KW_OR": "||", "T_KW_NOT": "!"}           # keyword -> symbolic (the property's direction)
ALIAS_BWD = {"T_BOOL_AND": " and ", "T_BOOL_OR": " or "}                    # symbolic -> keyword (same relation, read backwards)
ALIAS_TOKMAP = {"T_KW_AND": "T_BOOL_AND", "T_KW_OR": "T_BOOL_OR", "T_KW_NOT": "T_EXCLAM"}
OPERAND_END = re.compile(r"^(T_ID|T_TYPENAME|T_NAT|T_FLOATING|T_TRUE|T_FALSE|T_POS_NEG_MAX|T_CHARARR|'\)'|'\]'|'A'|'U'|'R'|'W'|'E'|"
                         r"T_INCREMENT|T_DECREMENT|T_DEADLOCK|'\\'')")


def tok_lexemes(lx):
    """token-bearing lexemes (start, end, tokname...) of an INITIAL-state lexeme list"""
    return [(a, b, toks) for (a, b, r, toks) in lx if toks and r < 1000]


def literal_strings(tables):
    return [lit for k, lit, _ in tables["rules"] if k in ("lit", "litOld")]


def closed(prev, d, lits):
    """sufficient syntactic condition: the lexeme `prev` cannot be extended when followed by character d"""
    if not prev:
        return True
    if prev[0] in '\\"':
        return False
    wd = prev + d
    if wd.startswith("//") or wd.startswith("/*"):
        return False
    for l in lits:
        if l.startswith(wd):
            return False
    if re.fullmatch(r"[A-Za-z_][A-Za-z0-9_$#]*", prev) and re.fullmatch(r"[A-Za-z0-9_$#]", d):
        return False
    if prev[0].isdigit() and (d.isdigit() or d in ".eE+-"):
        return False
    return True


EXPR_START = re.compile(r"^(T_ID=|T_NAT=|T_FLOATING=|T_CHARARR=|T_TRUE|T_FALSE|T_POS_NEG_MAX|'\('|'[AURWE]'|T_MINUS|T_PLUS|T_EXCLAM|T_KW_NOT|"
                        r"T_INCREMENT|T_DECREMENT|T_FORALL|T_EXISTS|T_SUM|T_DEADLOCK|T_[A-Z0-9]+$)")
EXPR_END = re.compile(r"^(T_ID=|T_NAT=|T_FLOATING=|T_CHARARR=|T_TRUE|T_FALSE|T_POS_NEG_MAX|'\)'|'\]'|'[AURWE]'|T_INCREMENT|T_DECREMENT|"
                      r"'\\''|T_DEADLOCK|T_LOCATION)")


class Sites:
    """per model: lexemes of every block, expression spans, identifiers"""

    def __init__(self, model, lexemes, spans):
        self.m, self.lx, self.spans = model, lexemes, spans

    def boundaries(self, b):
        """positions where the lexer is in INITIAL state at a lexeme boundary, with the preceding lexeme text"""
        t, lx = self.m.blocks[b], self.lx[b]
        out = []
        prev = ""
        for (a, e, r, toks) in lx:
            if r < 1000:
                out.append((a, prev))
            prev = t[a:e] if r < 1000 else ""
        if lx and lx[-1][2] < 1000 and lx[-1][1] == len(t) and (lx[-1][2] != 1000):
            out.append((len(t), prev))
        return out


def gen_trivia_edits(S, tables, rng, tname, ttext, every=True, k=1):
    lits = literal_strings(tables)
    edits = []
    for b, kind in enumerate(S.m.bkind):
        if kind != "code" or not tok_lexemes(S.lx[b]):
            continue
        for (p, prev) in S.boundaries(b):
            if closed(prev, ttext[0], lits):
                edits.append([(b, p, p, ttext, 0)])
    if not every:
        rng.shuffle(edits)
        edits = edits[:k]
    return edits


ALIAS_WORDS = {"and": "&&", "or": "||", "not": "!"}   # the pairs as the property names them: by spelling, in every syntax


def gen_alias_edits(S, direction):
    edits = []
    for b, kind in enumerate(S.m.bkind):
        if kind != "code":
            continue
        tl = tok_lexemes(S.lx[b])
        for i, (a, e, toks) in enumerate(tl):
            t = toks[-1]
            text = S.m.blocks[b][a:e]
            if direction == "fwd":
                # the site is the WORD (a lexeme of the INITIAL state spelled and / or / not), whatever token the generated keyword table
                # gives it in this model's syntax: the words are operators of the 3.x, the 4.x and the property syntax alike, so a table
                # that stops saying so for one of them must show as a changed result, not as a site that is no longer visited
                if t in ALIAS_FWD or text in ALIAS_WORDS:
                    # `not(` / `not x` -> `!`: keep a blank so that `a and! b`-like glue cannot arise
                    edits.append([(b, a, e, " " + (ALIAS_FWD.get(t) or ALIAS_WORDS[text]) + " ", 0)])
                elif t == "T_ASSIGNMENT" and text == ":=":
                    edits.append([(b, a, e, "=", 0)])
            else:
                if t in ALIAS_BWD:
                    edits.append([(b, a, e, ALIAS_BWD[t], 0)])
                elif t == "T_ASSIGNMENT" and text == "=":
                    edits.append([(b, a, e, ":=", 0)])
                elif t == "T_EXCLAM":
                    prevt = tl[i - 1][2][-1] if i > 0 else ""
                    if i + 1 < len(tl) and not OPERAND_END.match(prevt):
                        edits.append([(b, a, e, " not ", 0)])
    return edits


def gen_paren_edits(S):
    edits = []
    for (b, s, e, kind) in S.spans:
        edits.append([(b, s, s, "(", 1), (b, e, e, ")", 0)])
    return edits


def valid_span(S, b, s, e, kind):
    if kind in WRAP_KINDS_EXCLUDED or not (0 <= s < e <= len(S.m.blocks[b])):
        return False
    tl = tok_lexemes(S.lx[b])
    starts = {a: i for i, (a, _, _) in enumerate(tl)}
    ends = {en: i for i, (_, en, _) in enumerate(tl)}
    if s not in starts or e not in ends or ends[e] < starts[s]:
        return False
    i0, i1 = starts[s], ends[e]
    depth = 0
    for (_, _, toks) in tl[i0:i1 + 1]:
        t = toks[-1]
        if t in ("'('", "'['", "'{'"):
            depth += 1
        elif t in ("')'", "']'", "'}'"):
            depth -= 1
            if depth < 0:
                return False
        elif depth == 0 and t in ("';'", "','", "T_ARROW", "':'") and kind != "INLINE_IF":
            return False
        elif depth == 0 and t in ("';'", "','", "T_ARROW"):
            return False
    if depth != 0:
        return False
    first, last = tl[i0][2][-1], tl[i1][2][-1]
    if not EXPR_START.match(first) or not EXPR_END.match(last):
        return False
    if kind == "IDENTIFIER":
        return i0 == i1 and re.match(r"^(T_ID=|'[AURWE]')", first) is not None
    if kind == "CONSTANT":
        if i0 == i1:
            return re.match(r"^(T_NAT=|T_FLOATING=|T_TRUE|T_FALSE|T_CHARARR=)", first) is not None
        return i1 == i0 + 1 and first == "T_MINUS" and last == "T_POS_NEG_MAX"
    if i0 > 0 and tl[i0 - 1][2][-1] == "'.'":
        return False
    return True


# ----------------------------------------------------------------------------------------------------------------------
# renaming
# ----------------------------------------------------------------------------------------------------------------------

def builtin_names():
    src = open(os.path.join(core.REPO, "src", "parser.y")).read()
    m = re.search(r"const char\* utap_builtin_declarations\(\) \{(.*?)\n\}", src, re.S)
    words = set()
    if m:
        for s in re.findall(r'"((?:[^"\\]|\\.)*)"', m.group(1)):
            words |= set(WORD.findall(s))
    return words


def identifiers(S):
    """identifier spelling -> list of (block, start, end) occurrences; plus the set of typedef-declared names"""
    occ, typedefs = {}, set()
    for b, kind in enumerate(S.m.bkind):
        t = S.m.blocks[b]
        if kind == "name":
            for mm in WORD.finditer(t):
                occ.setdefault(mm.group(0), []).append((b, mm.start(), mm.end()))
            continue
        tl = tok_lexemes(S.lx[b])
        in_td, depth, last_id = False, 0, None
        for (a, e, toks) in tl:
            tk = toks[-1]
            if tk.startswith("T_ID=") or tk.startswith("T_TYPENAME=") or re.fullmatch(r"'[AURWE]'", tk):
                occ.setdefault(t[a:e], []).append((b, a, e))
                last_id = t[a:e]
            if tk == "T_TYPEDEF":
                in_td, depth, last_id = True, 0, None
            elif in_td:
                if tk in ("'{'", "'['", "'('"):
                    depth += 1
                elif tk in ("'}'", "']'", "')'"):
                    depth -= 1
                elif depth == 0 and tk in ("';'", "','"):
                    if last_id:
                        typedefs.add(last_id)
                    if tk == "';'":
                        in_td = False
                if depth > 0 and tk in ("';'",):
                    last_id = None
    return occ, typedefs


def rename_edits(occ, rho):
    return [[(b, s, e, rho[x], 0) for (b, s, e) in occ[x]] for x in rho if x in occ and rho[x] != x]


# ----------------------------------------------------------------------------------------------------------------------
# delta debugging of a failing edit set
# ----------------------------------------------------------------------------------------------------------------------

def ddmin(groups, fails, budget=60):
    """smallest subset of edit groups that still fails (classic ddmin, bounded)"""
    n = 2
    cur = list(groups)
    while len(cur) >= 2 and budget > 0:
        size = max(1, len(cur) // n)
        subsets = [cur[i:i + size] for i in range(0, len(cur), size)]
        reduced = False
        for sub in subsets:
            budget -= 1
            if fails(sub):
                cur, n, reduced = sub, 2, True
                break
        if not reduced:
            for sub in subsets:
                comp = [g for g in cur if g not in sub]
                budget -= 1
                if comp and fails(comp):
                    cur, n, reduced = comp, max(n - 1, 2), True
                    break
        if not reduced:
            if n >= len(cur):
                break
            n = min(len(cur), n * 2)
    return cur


# ----------------------------------------------------------------------------------------------------------------------
# generators
# ----------------------------------------------------------------------------------------------------------------------

def gen_expr(rng, depth, ids, aliases=True):
    if depth <= 0 or rng.random() < 0.25:
        r = rng.random()
        if r < 0.5:
            return rng.choice(ids)
        if r < 0.8:
            return str(rng.choice([0, 1, 2, 3, 7, 10, 255, 2147483647]))
        return rng.choice(["true", "false"])
    r = rng.random()
    a = gen_expr(rng, depth - 1, ids, aliases)
    if r < 0.55:
        ops = ["+", "-", "*", "/", "%", "<", "<=", ">", ">=", "==", "!=", "&&", "||", "&", "|", "^", "<<", ">>", "<?", ">?"]
        if aliases:
            ops += ["and", "or", "and", "or", "imply"]
        op = rng.choice(ops)
        b = gen_expr(rng, depth - 1, ids, aliases)
        sp = rng.choice([" ", " ", "  "])
        return a + sp + op + sp + b
    if r < 0.7:
        op = rng.choice(["-", "!", "+"] + (["not "] if aliases else []))
        if op == "-" and a.startswith("-"):
            op = "- "
        if op == "+" and a.startswith("+"):
            op = "+ "
        return op + a
    if r < 0.85:
        return "(" + a + ")"
    if r < 0.93:
        b = gen_expr(rng, depth - 1, ids, aliases)
        c = gen_expr(rng, depth - 1, ids, aliases)
        return a + " ? " + b + " : " + c
    return rng.choice(ids) + "[" + a + "]" if rng.random() < 0.5 else rng.choice(ids) + "(" + a + ")"


def gen_model_xml(rng, idx):
    """a small random accepted-or-rejected model whose guards / updates / initialisers are random integer expressions"""
    names = rng.sample(["a", "b", "cc", "d1", "e_", "f", "gg", "hh", "ii", "A", "U", "W", "R", "E", "M", "sup", "inf", "bounds",
                        "simulation", "control", "deadlock", "strategy", "Pr", "X"], 6)
    ints, arr, fn = names[:3], names[3], names[4]
    tdn = rng.choice(["t_t", "T", "Ty", "B", "M", "sup", "bounds"])
    ids = ints + [str(rng.randint(0, 9))]
    decl = "typedef int[0,3] %s;\n" % tdn
    decl += "".join("int %s = %s;\n" % (n, rng.randint(0, 5)) for n in ints)
    decl += "int %s[4] = {0, 1, 2, 3};\n%s sel = 1;\n" % (arr, tdn)
    decl += "int %s(int p) { return p + %s; }\nclock x;\n" % (fn, ints[0])

    def e(d=3):
        s = gen_expr(rng, d, ids)
        if rng.random() < 0.1:
            s = s.replace(ids[0], "nowhere", 1)        # unknown identifier -> rejected
        return s
    guard = "%s %s %s" % (e(), rng.choice(["<", "<=", "==", "!=", ">"]), e())
    if rng.random() < 0.15:
        guard += " +"                                     # syntax error
    upd = "%s = %s, %s := %s[(%s) %% 4]" % (ints[0], e(), ints[1], arr, e(2))
    if rng.random() < 0.5:
        upd += ", %s = %s(%s)" % (ints[2], fn, e(2))
    inv = "x <= %d" % rng.randint(1, 9)
    sel = "q : %s" % tdn
    xml = """<?xml version="1.0" encoding="utf-8"?>
<nta><declaration>%s</declaration><template><name>Tm%d</name><declaration>int loc = 0;</declaration>
<location id="id0"><name>L0</name><label kind="invariant">%s</label></location><location id="id1"><name>L1</name></location><init ref="id0"/>
<transition><source ref="id0"/><target ref="id1"/><label kind="select">%s</label><label kind="guard">%s</label><label kind="assignment">%s</label></transition>
<transition><source ref="id1"/><target ref="id0"/><label kind="guard">x &gt;= 1 and q_free(loc)</label><label kind="assignment">x = 0, loc = loc + 1</label></transition>
</template><system>P%d = Tm%d();
system P%d;</system></nta>
""" % (esc(decl + "bool q_free(int v) { return v >= 0 or not (v < -3); }\n"), idx, esc(inv), esc(sel), esc(guard), esc(upd), idx, idx, idx)
    return xml


def esc(s):
    return s.replace("&", "&amp;").replace("<", "&lt;").replace(">", "&gt;")


def gen_soup(rng, tables):
    """a token soup: arbitrary lexemes glued with arbitrary (possibly empty) separators"""
    lits = [l for l in literal_strings(tables) if l not in ('"',)]
    kws = [k for k, _, _, _ in tables["keywords"]]
    n = rng.randint(1, 14)
    parts = []
    for _ in range(n):
        r = rng.random()
        if r < 0.3:
            parts.append(rng.choice(lits))
        elif r < 0.45:
            parts.append(rng.choice(kws))
        elif r < 0.6:
            parts.append(rng.choice(NEAR + ONE_LETTER + SOFT + PROPERTY_ONLY + ["x", "y1", "foo_bar"]))
        elif r < 0.7:
            parts.append(rng.choice(["0", "007", "12", "2147483647", "2147483648", "2147483649", "99999999999", "1.5", "1e5", "1e+5",
                                     "1.e5", "12e", "3.", "0.25e-3", "1E9", "00", "1.2.3"]))
        elif r < 0.75:
            parts.append(rng.choice(['"str"', '"a b"', '""', '"', '"unterminated']))
        elif r < 0.8:
            parts.append(rng.choice(["@", "$", "`", "~", "\\", "\x01", "\xc3\xa9"]))
        else:
            parts.append(rng.choice(["/* c */", "// lc\n", "/**/", "/* EXPECT:val */", "/* EXPECT:v*/", "/*/", "/* a * / */", "\\\n",
                                     "\\ \t\n", "\n", "\r\n", " ", "\t", "/* open"]))
        if rng.random() < 0.6:
            parts.append(rng.choice([" ", " ", "\n", "\t", "  "]))
    return "".join(parts)


# ----------------------------------------------------------------------------------------------------------------------
# the check
# ----------------------------------------------------------------------------------------------------------------------

def load_corpus(ctx):
    models = []
    for d, pred in ((CORPUS, lambda f: True), (os.path.join(core.REPO, "test", "models"), lambda f: f.endswith(".xml"))):
        for f in sorted(os.listdir(d)):
            p = os.path.join(d, f)
            if not pred(f) or not os.path.isfile(p):
                continue
            src = open(p, encoding="utf-8", errors="replace").read()
            try:
                if f.endswith(".xml"):
                    models.append(Model(f, "xml", src, newxta=not f.endswith(".old.xml")))     # X.old.xml: XML in the 3.x syntax
                elif f.endswith(".xta"):
                    models.append(Model(f, "xta", src))
                elif f.endswith(".ta"):
                    models.append(Model(f, "xta", src, newxta=False))                           # X.ta: text in the 3.x syntax
            except ET.ParseError as ex:
                ctx.log("skip %s: %s" % (f, ex))
    return models


def prepare(models, H, L, ctx):
    """baseline run + sites of every model"""
    ops = [m.op(sites=True)[0] for m in models]
    ans = H.run(ops)
    # spans for xta come without the report: run the plain op as well
    base = H.run([m.op()[0] for m in models])
    out = []
    for m, a, b in zip(models, ans, base):
        lx = L.lex(m.blocks, mask=m.mask)
        S = Sites(m, lx, [])
        raw = []
        for l in a:
            if not l.startswith("S "):
                continue
            if m.kind == "xta":
                _, s, e, kind = l.split(" ")
                raw.append((0, int(s), int(e), kind))
            else:
                mm = re.fullmatch(r'S "([^"]*)" (\d+) (\d+) (\d+) (\d+) (\w+)', l)
                if not mm or mm.group(1) not in m.bpath:
                    continue
                bi = [i for i, p in enumerate(m.bpath) if p == mm.group(1) and m.bkind[i] == "code"]
                if len(bi) != 1:
                    continue
                t = m.blocks[bi[0]]
                ls = t.split("\n")
                l0, c0, l1, c1 = (int(mm.group(k)) for k in (2, 3, 4, 5))
                if l0 > len(ls) or l1 > len(ls):
                    continue
                s = sum(len(x) + 1 for x in ls[:l0 - 1]) + c0
                e = sum(len(x) + 1 for x in ls[:l1 - 1]) + c1
                raw.append((bi[0], s, e, mm.group(6)))
        seen = set()
        for sp in raw:
            if sp[:3] in seen:
                continue
            if valid_span(S, *sp):
                seen.add(sp[:3])
                S.spans.append(sp)
        S.raw_spans = len(raw)
        out.append((S, canon(b, None), b))
    return out


def key_of(family, detail, S, groups):
    """shape identifier of a minimal failing edit set"""
    g = groups[0]
    b, s, e, new, _ = g[0]
    t = S.m.blocks[b]
    if family == "trivia":
        tl = tok_lexemes(S.lx[b])
        prev = [x for x in tl if x[1] <= s]
        nxt = [x for x in tl if x[0] >= s]
        pt = prev[-1][2][-1].split("=")[0] if prev else "START"
        nt = nxt[0][2][-1].split("=")[0] if nxt else "END"
        return "trivia:%s:%s|%s" % (detail, pt, nt)
    if family == "paren":
        if len(new) >= 180 and set(new) <= set("()"):
            return "paren-depth:parser-stack"       # deeper than bison's fixed stack of 200 entries (the stacks cannot grow: see DESIGN 9.3)
        kinds = [sp[3] for sp in S.spans if sp[0] == b and sp[1] == s]
        return "paren:%s" % (kinds[0] if kinds else "?")
    if family == "alias":
        return "alias:%s->%s" % (t[s:e].strip(), new.strip())
    return "%s:%s" % (family, detail)


def norm_tokname(msg):
    return re.sub(r"'[AURWE]'", "T_ID", msg) if "$syntax_error" in msg else msg


class Meta:
    def __init__(self, ctx, H, L, tables):
        self.ctx, self.H, self.L, self.tables = ctx, H, L, tables
        self.pairs = 0
        self.sites = {}
        self.by_family = {}
        self.disagreements = []
        self.skipped_by_model = 0
        self.samples = []
        self.HA = None
        self.asan_pairs = 0
        self.distinct = set()

    def run_batch(self, items):
        """items: (S, base_canon, family, detail, groups, rho, expect_tokens_same) -> evaluates all, handles failures"""
        ops, texts = [], []
        for it in items:
            S, groups = it[0], it[4]
            blocks = apply_edits(S.m.blocks, [e for g in groups for e in g])
            op, text = S.m.op(blocks)
            ops.append(op)
            texts.append(text)
        ans = self.H.run(ops)
        for t in texts:
            self.distinct.add(hashlib.sha256(t.encode("utf-8", "replace")).digest()[:12])
        for it, a, text in zip(items, ans, texts):
            S, base, family, detail, groups, rho = it[:6]
            self.pairs += 1
            self.by_family[family] = self.by_family.get(family, 0) + 1
            self.sites[family] = self.sites.get(family, 0) + len(groups)
            base_c = canon(it[6], rho) if rho else base
            d = differ(base_c, canon(a, rho))
            if len(self.samples) < 6 and family not in [s["family"] for s in self.samples]:
                self.samples.append({"family": family, "detail": detail, "model": S.m.name, "sites": len(groups),
                                     "rewritten_head": text[:300], "equal": d is None})
            if d is None:
                continue
            self.failure(S, base, it[6], family, detail, groups, rho, d)

    def failure(self, S, base, base_raw, family, detail, groups, rho, d):
        def fails(sub):
            blocks = apply_edits(S.m.blocks, [e for g in sub for e in g])
            a = self.H.run([S.m.op(blocks)[0]])[0]
            bc = canon(base_raw, rho) if rho else base
            return differ(bc, canon(a, rho)) is not None
        minimal = groups if family.startswith("rename") else ddmin(groups, fails)
        blocks = apply_edits(S.m.blocks, [e for g in minimal for e in g])
        a = self.H.run([S.m.op(blocks)[0]])[0]
        bc = canon(base_raw, rho) if rho else base
        d2 = differ(bc, canon(a, rho)) or d
        key = key_of(family, detail, S, minimal)
        if rho and set(rho.values()) & set(ONE_LETTER):
            # exception shape 2 of the renaming theorem: the one-letter literal tokens are named in bison's messages
            ca, cb = canon(base_raw, rho), canon(a, rho)
            if ca["verdict"] == cb["verdict"] and ca["dump"] == cb["dump"] and \
                    sorted(norm_tokname(x) for x in ca["diags"]) == sorted(norm_tokname(x) for x in cb["diags"]):
                key = "rename:syntax-error-names-one-letter-token"
        self.disagreements.append(key)
        self.ctx.finding(key, "%s rewrite changes the result of %s: %s" % (family, S.m.name, d2),
                         {"entry": "parse_XML_buffer" if S.m.kind == "xml" else "parse_XTA", "newxta": S.m.newxta, "model": S.m.name,
                          "family": family, "detail": detail, "edits": [[list(e) for e in g] for g in minimal][:20],
                          "renaming": rho, "original_b64": b64(S.m.render()), "rewritten_b64": b64(S.m.render(blocks)),
                          "difference": d2})


def b64(s):
    import base64
    return base64.b64encode(s.encode("utf-8")).decode()


def metamorphic(ctx, M, prepared, tables):
    rng = ctx.rng
    thorough = ctx.thorough
    builtins = builtin_names()
    kw_all = {k for k, _, _, _ in tables["keywords"]}
    lits = set(literal_strings(tables))
    items = []
    exception_hits = {}
    paren_deep_done = [None]
    for (S, base, base_raw) in prepared:
        m = S.m
        # ---- trivia: every applicable boundary at once, per trivia kind; plus random single sites ----------------
        for tname, ttext in TRIVIA:
            groups = gen_trivia_edits(S, tables, rng, tname, ttext)
            if not groups:
                continue
            # the model decides whether the insertion is a legal separator there: tokens must be unchanged
            items.append((S, base, "trivia", tname, groups, None, base_raw))
            for _ in range(6 if thorough else 2):
                items.append((S, base, "trivia", tname, rng.sample(groups, min(len(groups), rng.randint(1, 3))), None, base_raw))
        # ---- blanks around the text of <name> elements (template / location names): the reader takes the identifier inside --------
        for tname, ttext in TRIVIA:
            if ttext.strip():
                continue
            ng, lsc = [], []
            for b, kind in enumerate(m.bkind):
                if kind == "name" and m.blocks[b].strip():
                    es = [[(b, 0, 0, ttext, 0)], [(b, len(m.blocks[b]), len(m.blocks[b]), ttext, 0)]]
                    if "/instance" in m.bpath[b]:
                        lsc += es          # the name of an LSC instance line is a text of its own kind
                    else:
                        ng += es
            if ng:
                items.append((S, base, "trivia", "name-" + tname, ng, None, base_raw))
            if lsc and tname == "blank":
                items.append((S, base, "trivia", "lsc-instance-name", lsc, None, base_raw))
        # ---- parentheses ------------------------------------------------------------------------------------------
        pg = gen_paren_edits(S)
        if pg:
            items.append((S, base, "paren", "all", pg, None, base_raw))
            items.append((S, base, "paren", "all-twice", pg + pg, None, base_raw))
            for _ in range(12 if thorough else 4):
                items.append((S, base, "paren", "subset", rng.sample(pg, rng.randint(1, min(len(pg), 4))), None, base_raw))
            if thorough:
                for g in pg:
                    items.append((S, base, "paren", "single", [g], None, base_raw))
            # one expression wrapped in MANY pairs: redundant at any depth (up to the parser's fixed stack, 200 entries)
            for depth in ((40, 120, 250) if not thorough else (40, 80, 120, 150, 250)):
                if depth == 250:
                    if paren_deep_done[0] is not None or not base_raw or "errors=0" not in " ".join(base_raw[:2]):
                        continue      # the witness of the known depth limit: once per run, on an accepted model
                    paren_deep_done[0] = S
                g = rng.choice(pg)
                deep = [(g[0][0], g[0][1], g[0][2], "(" * depth, g[0][4]), (g[1][0], g[1][1], g[1][2], ")" * depth, g[1][4])]
                items.append((S, base, "paren", "deep-%d" % depth, [deep], None, base_raw))
        # ---- aliases ----------------------------------------------------------------------------------------------
        for direction in ("fwd", "bwd"):
            ag = gen_alias_edits(S, direction)
            if ag:
                items.append((S, base, "alias", direction + "-all", ag, None, base_raw))
                for _ in range(8 if thorough else 3):
                    items.append((S, base, "alias", direction + "-subset", rng.sample(ag, rng.randint(1, min(len(ag), 3))), None, base_raw))
        # ---- renaming ---------------------------------------------------------------------------------------------
        occ, typedefs = identifiers(S)
        user = sorted(x for x in occ if x not in builtins)
        if not user:
            continue
        used = set(occ) | builtins | kw_all | lits

        def fresh(i, style):
            while True:
                if style == "long":
                    n = "veryLongIdentifierNameWithCommonPrefix_%d_%d" % (i, rng.randint(0, 10 ** 6))
                elif style == "short":
                    n = rng.choice("bcdfghjklmnpqstvxyz") + rng.choice("0123456789_$#abc") + str(i)
                else:
                    n = rng.choice(["v", "Zz", "_q", "n$", "k#", "Id", "tmpVar", "x_"]) + "%d_%d" % (i, rng.randint(0, 999))
                if n not in used:
                    used.add(n)
                    return n
        for style in ("plain", "long", "short"):
            rho = {x: fresh(i, style) for i, x in enumerate(user)}
            items.append((S, base, "rename-fresh", style, rename_edits(occ, rho), rho, base_raw))
        # one identifier -> one special spelling (soft keywords, one-letter tokens, PROPERTY-only keywords, near-keywords)
        specials = ONE_LETTER + SOFT + PROPERTY_ONLY + NEAR
        picks = user if (thorough or len(user) <= 6) else rng.sample(user, 6)
        # a declared type name is the one kind of identifier the lexer itself treats differently (is_type(): T_TYPENAME, and the
        # literal one-letter rules ask it too): every typedef of the model gets every one-letter / soft-keyword spelling in both
        # tiers, so that each use of the type -- whatever token precedes it -- is lexed once under each of these rules
        plan = [(x, specials if thorough else rng.sample(ONE_LETTER, 2) + rng.sample(SOFT, 2) + rng.sample(PROPERTY_ONLY, 2) + rng.sample(NEAR, 2))
                for x in picks]
        if not thorough:
            plan += [(x, ONE_LETTER + SOFT) for x in user if x in typedefs]
        planned = set()
        for x, sps in plan:
            for sp in sps:
                if (x, sp) in planned:
                    continue
                planned.add((x, sp))
                if sp in occ or sp == x:
                    continue
                rho = {x: sp}
                role = "typedef" if x in typedefs else ("xmlname" if any(S.m.bkind[b] == "name" for (b, _, _) in occ[x]) else "other")
                if role == "xmlname" and sp in kw_all:
                    continue   # XMLReader::readText reserves every OLD/PROPERTY keyword for <name> elements (explicit test)
                items.append((S, base, "rename-special", "%s-named-%s" % (role, sp), rename_edits(occ, rho), rho, base_raw))
    ctx.log("metamorphic: %d rewritten models to run" % len(items))
    # filter by the lexer model: trivia / alias rewrites must leave the model's token stream unchanged
    keep = []
    check_idx, texts, expect, masked, masks = [], [], [], [], []
    for i, it in enumerate(items):
        S, family, groups = it[0], it[2], it[4]
        if family in ("trivia", "alias"):
            blocks = apply_edits(S.m.blocks, [e for g in groups for e in g])
            for b in {g[0][0] for g in groups}:
                check_idx.append(i)
                texts.append(blocks[b])
                expect.append(S.m.blocks[b])
                sites = set()
                if family == "alias":
                    starts = [a for (a, _, _) in tok_lexemes(S.lx[b])]
                    sites = {starts.index(g[0][1]) for g in groups if g[0][0] == b and g[0][1] in starts}
                masked.append(sites)
                masks.append(S.m.mask)
    got, want = [None] * len(texts), [None] * len(texts)
    for mk in sorted(set(masks)):            # each text with the keyword set of its model's syntax
        sel = [j for j, x in enumerate(masks) if x == mk]
        for j, g, w in zip(sel, M.L.toks([texts[j] for j in sel], mask=mk), M.L.toks([expect[j] for j in sel], mask=mk)):
            got[j], want[j] = g, w
    bad = set()
    for i, g, w, sites in zip(check_idx, got, want, masked):
        # alias rewrites: the pairs are given by the property, the lexer model only has to confirm that every OTHER token
        # is unchanged (the token at a rewritten site is masked); trivia rewrites: the whole stream must be unchanged
        g2 = [x for k, x in enumerate(g) if k not in sites]
        w2 = [x for k, x in enumerate(w) if k not in sites]
        if len(g) != len(w) or g2 != w2:
            bad.add(i)
    M.skipped_by_model = len(bad)
    keep = [it for i, it in enumerate(items) if i not in bad]
    # the exception shape of the renaming theorem: a typedef name that is one of the one-letter literal tokens
    normal = []
    for it in keep:
        family, detail = it[2], it[3]
        if family == "rename-special":
            role, sp = detail.split("-named-")
            if role == "typedef" and sp in ONE_LETTER:
                exception_hits.setdefault(sp, []).append(it)
                continue
        normal.append(it)
    B = 400
    for i in range(0, len(normal), B):
        M.run_batch(normal[i:i + B])
    # the every-site rewrites once more on the sanitizer build (a sanitizer report kills the harness = CRASH = disagreement)
    if M.HA is not None:
        sub = [it for it in normal if it[2] == "rename-fresh" or it[3] in ("all", "fwd-all", "bwd-all") or
               (it[2] == "trivia" and len(it[4]) > 3)]
        if not ctx.thorough:
            sub = sub[::2] if len(sub) > 500 else sub
        h0, M.H = M.H, M.HA
        p0 = M.pairs
        for i in range(0, len(sub), B):
            M.run_batch(sub[i:i + B])
        M.H = h0
        M.asan_pairs = M.pairs - p0
    return exception_hits


def lexer_correspondence(ctx, H, L, tables):
    """Lean lexer model vs real lexer on token soups: the is_type() call sequence and the lexer's own diagnostics"""
    rng = ctx.rng
    n = 6000 if ctx.thorough else 1500
    soups = [gen_soup(rng, tables) for _ in range(n)]
    soups += ["/* EXPECT:foo*/ x", "a /*EXPECT:*/ b", "x/y", "x//y\nz", "A[] A U", "-u->", "- u ->", "a--> b", "1e+", "1.e", "12e5x",
              "=< => <= >=", "location locations", "const", "x\\\ny", "x \\ \n y", "\"a\nb\" c", "/*", "/* *", "/* */ */"]
    # forty pending '(' : the production `'(' error ')'` lets bison's error recovery read on to the end of the text,
    # so the real lexer is called for every lexeme (without it the parser aborts at the first unrecoverable error)
    soups = ["(" * 40 + " " + s for s in soups if "\x00" not in s]
    dis = []
    stats = {"is_type_calls": 0, "error_tokens": 0}
    for mask, newxta in ((MASK_NEW, 1), (9, 0)):
        ops = ["trace %d expr - %s" % (newxta, hexs(s)) for s in soups]
        real = H.run(ops)
        model = L.toks(soups, mask=mask)
        for s, ra, mt in zip(soups, real, model):
            r_ids = [json.loads(l[len("T is_type "):].rsplit(" ", 1)[0].replace("\\x", "\\u00")) for l in ra if l.startswith("T is_type ")]
            r_err = sorted(l for l in ra if l.startswith("T ERROR") and any(k in l for k in ("$Unknown_symbol", "$Overflow", "$Comment_not_closed",
                                                                                         "$Identifier_is_too_long")))
            r_exp = [l for l in ra if l.startswith("T expect ")]
            # is_type() is asked for every non-keyword match of the identifier rule and by a repaired one-letter literal rule
            soft_tok = {"'%s'" % l: l for l in tables.get("soft", [])}
            m_ids = [binascii.unhexlify(t.split("=", 1)[1]).decode("latin-1") if "=" in t else soft_tok[t]
                     for t in mt if t.startswith("T_ID=") or t.startswith("T_TYPENAME=") or t in soft_tok]
            m_err = sorted({"ERR_UNKNOWN": 'T ERROR "$Unknown_symbol"', "ERR_OVERFLOW": 'T ERROR "$Overflow"',
                            "ERR_COMMENT": 'T ERROR "$Comment_not_closed"'}[t] for t in mt if t in ("ERR_UNKNOWN", "ERR_OVERFLOW", "ERR_COMMENT"))
            m_exp = [t for t in mt if t.startswith("EXPECT=")]
            stats["is_type_calls"] += len(r_ids)
            stats["error_tokens"] += len(r_err)
            crashed = any(l.startswith("CRASH") for l in ra)
            if crashed or r_ids != m_ids or r_err != m_err or len(r_exp) != len(m_exp):
                dis.append({"text": s, "mask": mask, "real_ids": r_ids, "model_ids": m_ids, "real_err": r_err, "model_err": m_err,
                            "crash": ra[:3] if crashed else None})
    return len(soups) * 2, dis, stats


def trace_correspondence(ctx, H, L):
    """operator-trace model vs the real parser's callback sequence on generated expressions"""
    rng = ctx.rng
    n = 8000 if ctx.thorough else 2000
    ids = ["a", "b", "c", "A", "U", "sup", "x1"]
    exprs = [gen_expr(rng, rng.randint(1, 5), ids) for _ in range(n)]
    exprs += ["a and b or c", "not a and b", "a imply b imply c", "a = b = c", "a ? b : c ? d : e", "- -a", "-a++", "++a++", "a--", "(++a)++",
              "-2147483648", "- 2147483648", "a := b += c", "a <? b >? c", "!a.b", "a.b.c[1](2)", "f()", "f(a, b)(c)", "a'", "a' == 1",
              "a imply b or c", "a or b imply c", "a and b && c", "a || b or c", "a + b * c ** d", "x ? y : z = 1", "a = b ? c : d"]
    # the fragment of the small parser the parenthesis theorem is proved for: atoms, prefix / binary operators, parentheses
    def gen_small(d):
        if d <= 0 or rng.random() < 0.25:
            return rng.choice(ids + ["1", "2", "true"])
        r = rng.random()
        if r < 0.6:
            op = rng.choice(["+", "-", "*", "/", "%", "<", "<=", ">", ">=", "==", "!=", "&&", "||", "&", "|", "^", "<<", ">>", "<?", ">?",
                             "**", "and", "or", "xor"])
            return gen_small(d - 1) + " " + op + " " + gen_small(d - 1)
        if r < 0.8:
            return rng.choice(["- ", "!", "+ ", "not "]) + gen_small(d - 1)
        return "(" * rng.randint(1, 2) + gen_small(d - 1) + ")" * 0 if False else "(" + gen_small(d - 1) + ")"
    small = [gen_small(rng.randint(1, 6)) for _ in range(n // 2)]
    exprs += small
    real = H.run(["trace 1 expr - %s" % hexs(e) for e in exprs])
    model = L.run(["trace %d - %s" % (MASK_NEW, hexs(e)) for e in exprs])
    pratt = L.run(["pratt %d - %s" % (MASK_NEW, hexs(e)) for e in exprs])
    dis, unsupported, errs = [], 0, 0
    pratt_cases = 0
    for e, mt, pt in zip(exprs, model, pratt):
        # where the small parser speaks it must say what the larger operator model says (which is compared with bison below)
        if pt != "unsupported":
            pratt_cases += 1
            if pt != mt:
                dis.append({"expr": e, "small_parser": pt, "operator_model": mt})
    for e, pt in zip(small, pratt[-len(small):]):
        if pt == "unsupported":
            dis.append({"expr": e, "small_parser": pt, "note": "expression of the fragment not parsed"})
    for e, ra, mt in zip(exprs, real, model):
        if any(l.startswith("T ERROR") or l.startswith("T EXC") or l.startswith("CRASH") for l in ra):
            errs += 1
            if mt != "unsupported":
                dis.append({"expr": e, "real": ra[:8], "model": mt})
            continue
        if mt == "unsupported":
            unsupported += 1
            dis.append({"expr": e, "real": "accepted", "model": mt})
            continue
        rt = []
        for l in ra:
            if not l.startswith("T ") or l.startswith("T is_type"):
                continue
            w = l[2:].split(" ", 1)
            if w[0] in ("expr_identifier", "expr_dot"):
                rt.append(w[0] + " " + json.loads(w[1]))
            elif w[0] == "expr_double":
                rt.append("expr_double")
            else:
                rt.append(l[2:])
        mt2, k = [], mt.split(" ")
        i = 0
        while i < len(k):
            if k[i] in ("expr_identifier", "expr_dot", "expr_nat", "expr_unary", "expr_binary", "expr_assignment", "expr_call_end"):
                mt2.append(k[i] + " " + k[i + 1])
                i += 2
            elif k[i] in ("expr_double", "expr_string"):
                mt2.append(k[i])
                i += 2
            else:
                mt2.append(k[i])
                i += 1
        if rt != mt2:
            dis.append({"expr": e, "real": rt, "model": mt2})
    return len(exprs), dis, {"rejected_by_both": errs, "small_parser_cases": pratt_cases}


# queries (PROPERTY syntax): the soft keywords sup / inf / bounds / simulation ARE keywords here ------------------------------

QUERY_MODEL = """<nta><declaration>const int N = 3;
typedef int[0,N-1] idx_t;
int cnt = 1, lim = 2;
int arr[N] = {0, 1, 2};
bool flag = true;
clock gc;
chan go;
int twice(int v) { return 2 * v; }
</declaration><template><name>Proc</name><parameter>const idx_t me</parameter><declaration>clock lc; int loc = 0;</declaration>
<location id="id0"><name>Idle</name><label kind="invariant">lc &lt;= 5</label></location><location id="id1"><name>Busy</name></location><init ref="id0"/>
<transition><source ref="id0"/><target ref="id1"/><label kind="guard">lc &gt;= 1</label><label kind="assignment">loc = loc + 1, cnt = twice(cnt) % 7</label></transition>
<transition><source ref="id1"/><target ref="id0"/><label kind="assignment">lc = 0</label></transition>
</template><system>P0 = Proc(0);
P1 = Proc(1);
system P0, P1;</system></nta>
"""
QUERIES = ["A[] cnt >= 0", "E<> cnt > lim and not flag", "A[] not deadlock", "E<> P0.Busy && P1.Idle", "A[] P0.loc <= 3 or P1.loc >= 0",
           "cnt > 1 --> lim > 0", "A[] forall (i : idx_t) arr[i] >= 0", "E<> exists (i : idx_t) arr[i] == cnt", "A<> P0.lc > 2 imply flag",
           "E[] (cnt < 10)", "sup: cnt, lim", "inf{flag}: gc", "sup{cnt > 0}: P0.lc", "bounds: cnt", "A[] twice(cnt) >= cnt",
           "A[] arr[0] + arr[1] * arr[2] <= 9", "E<> sum (i : idx_t) arr[i] > 2", "Pr[<=10](<> cnt > 2)", "simulate [<=10] {cnt, lim}",
           "E<> cnt ==", "A[] undefinedName > 1", "A[] (flag ? cnt : lim) > 0", "E<> P0.Busy and (cnt := 3) > 1",
           # query productions outside `Expression` that mention an operator alias themselves (Gen.aliasContexts): the Buchi objective
           "control: A[] (cnt >= 0 and A<> P0.Busy)", "control: A[] (not flag or cnt > 0 and A<> P1.Idle)",
           "control: A[] (cnt >= 0 && A<> P0.Busy)", "control: A<> P0.Busy and not flag", "control: A[ cnt >= 0 U P0.Busy or flag ]"]
QTRIVIA = [("blank", " "), ("tab", "\t"), ("mixed", " \t "), ("blockcomment", "/* c */"), ("emptyblock", "/**/"), ("starcomment", "/***/")]
MASK_PROPERTY = 4


def query_family(ctx, H, L, tables):
    """metamorphic pairs on (model, query): parse_XML_buffer, then the query through parseProperty (PROPERTY syntax)"""
    rng = ctx.rng
    m = Model("query-model.xml", "xml", QUERY_MODEL)
    S = Sites(m, L.lex(m.blocks), [])
    occ, typedefs = identifiers(S)
    builtins = builtin_names()
    qlex = L.lex(QUERIES, mask=MASK_PROPERTY)
    lits = literal_strings(tables)
    kw_prop = {k for k, _, _, bits in tables["keywords"] if bits & MASK_PROPERTY} | {k for k, _, _, bits in tables["keywords"] if bits & 2}
    model_text = m.render()

    def qcanon(a, rho):
        def ren(x):
            return WORD.sub(lambda mm: rho.get(mm.group(0), mm.group(0)), x) if rho else x
        return {"q": [ren(l) for l in a if l.startswith("Q ")], "diags": sorted(ren(l) for l in a if l.startswith("D ")),
                "crash": [l for l in a if l.startswith("CRASH") or l.startswith("EXC") or l.startswith("RC ")]}
    base = H.run(["query %s %s" % (hexs(model_text), hexs(q)) for q in QUERIES])
    items = []     # (qi, family, detail, model_text', query', rho)
    for qi, (q, lx) in enumerate(zip(QUERIES, qlex)):
        tl = tok_lexemes(lx)
        # trivia at every boundary, alias rewrites
        bounds = []
        prev = ""
        for (a, e, r, toks) in lx:
            if r < 1000:
                bounds.append((a, prev))
            prev = q[a:e] if r < 1000 else ""
        bounds.append((len(q), prev))
        for tname, tt in QTRIVIA:
            pos = [p for (p, pv) in bounds if closed(pv, tt[0], lits)]
            allq = "".join((tt if i in pos else "") + (q[i] if i < len(q) else "") for i in range(len(q) + 1))
            items.append((qi, "query-trivia", tname, model_text, allq, None))
            for p in rng.sample(pos, min(len(pos), 3 if ctx.thorough else 1)):
                items.append((qi, "query-trivia", tname, model_text, q[:p] + tt + q[p:], None))
        for direction, table in (("fwd", ALIAS_FWD), ("bwd", ALIAS_BWD)):
            q2, done = q, False
            for (a, e, toks) in reversed(tl):
                if toks[-1] in table:
                    q2 = q2[:a] + " " + table[toks[-1]].strip() + " " + q2[e:]
                    done = True
            if done:
                items.append((qi, "query-alias", direction, model_text, q2, None))
        # renaming across model and query
        qocc = {}
        for (a, e, toks) in tl:
            if toks[-1].startswith("T_ID=") or toks[-1].startswith("T_TYPENAME="):
                qocc.setdefault(q[a:e], []).append((a, e))
        user = sorted(x for x in (set(occ) | set(qocc)) if x not in builtins)
        used = set(user) | builtins | kw_prop | set(lits)

        def apply(rho):
            blocks = apply_edits(m.blocks, [ed for g in rename_edits(occ, rho) for ed in g])
            q2 = q
            for (a, e, x) in sorted(((a, e, x) for x in qocc for (a, e) in qocc[x]), reverse=True):
                if x in rho:
                    q2 = q2[:a] + rho[x] + q2[e:]
            return m.render(blocks), q2
        rho = {}
        for i, x in enumerate(user):
            n = "fresh%d_%d" % (i, rng.randint(0, 999))
            rho[x] = n
        mt, q2 = apply(rho)
        items.append((qi, "query-rename-fresh", "plain", mt, q2, rho))
        pool = [n for n in ONE_LETTER + SOFT + NEAR if n not in kw_prop or n in SOFT]
        for x in sorted(qocc):
            if x in builtins:
                continue
            for sp in (pool if ctx.thorough else rng.sample(ONE_LETTER, 2) + ["sup", "inf", "bounds", "simulation", "M"] + rng.sample(NEAR, 2)):
                if sp in occ or sp in qocc:
                    continue
                role = "typedef" if x in typedefs else ("array" if any(q[e:e + 1] == "[" for (a, e) in qocc[x]) else "other")
                if x in occ and any(m.bkind[b] == "name" for (b, _, _) in occ[x]) and sp in kw_prop:
                    continue   # XMLReader::readText reserves every OLD/PROPERTY keyword for <name> elements (explicit test)
                mt, q2 = apply({x: sp})
                items.append((qi, "query-rename-special", "%s-named-%s" % (role, sp), mt, q2, {x: sp}))
    # token-stream filter for trivia (model says unchanged) -- alias pairs are the property's
    tq = [it[4] for it in items if it[1] == "query-trivia"]
    got = L.toks(tq, mask=MASK_PROPERTY)
    want = L.toks([QUERIES[it[0]] for it in items if it[1] == "query-trivia"], mask=MASK_PROPERTY)
    ok = iter([g == w for g, w in zip(got, want)])
    items = [it for it in items if it[1] != "query-trivia" or next(ok)]
    ans = H.run(["query %s %s" % (hexs(it[3]), hexs(it[4])) for it in items])
    stats, shapes = {}, {}
    for it, a in zip(items, ans):
        qi, family, detail, mt, q2, rho = it
        stats[family] = stats.get(family, 0) + 1
        ca, cb = qcanon(base[qi], rho), qcanon(a, rho)
        if ca == cb:
            continue
        diff = next("%s: %r vs %r" % (k, ca[k][:3], cb[k][:3]) for k in ("crash", "q", "diags") if ca[k] != cb[k])
        key = "%s:%s" % (family.replace("query-rename-special", "rename:query"), detail)
        rp = {"entry": "parse_XML_buffer + parseProperty", "model_b64": b64(mt), "original_model_b64": b64(model_text), "query": q2,
              "original_query": QUERIES[qi],
              "renaming": rho, "difference": diff}
        if family == "query-rename-special":
            role, sp = detail.split("-named-")
            if sp in ONE_LETTER + ["sup", "inf", "bounds", "simulation"]:
                # exception shapes of the renaming theorem in PROPERTY syntax: the spelling is a literal / keyword token there;
                # NonTypeId re-admits it as a plain identifier only (not as a type name, not before '[' for E, not where the
                # query grammar itself starts with that token)
                shapes.setdefault("rename:query-%s-named-%s" % (role, "one-letter-token" if sp in ONE_LETTER else "soft-keyword"), []).append(
                    (QUERIES[qi], q2, diff, rp))
                continue
        ctx.finding(key, "%s rewrite changes the result of query %r: %s" % (family, QUERIES[qi], diff), rp)
    for key, lst in sorted(shapes.items()):
        if os.environ.get("C09_DEBUG"):
            for (q0, q2, diff, rp) in lst:
                print("SHAPE", key, repr(q0), "->", repr(q2), diff[:200])
        q0, q2, diff, rp = lst[0]
        ctx.finding(key, "renaming an identifier of a query to a soft keyword / one-letter token changes the result (%d pairs), e.g. %r -> %r: %s"
                    % (len(lst), q0, q2, diff), rp)
    return sum(stats.values()), stats, {k: len(v) for k, v in shapes.items()}


# exception shapes of the theorems: witnesses replayed on the real library -----------------------------------------------

WITNESS_TYPEDEF = "typedef int[0,3] %s; %s v; process P() { state s; init s; } system P;"
WITNESS_EXPECT = ("int x = 1; /* %s*/ int y = 2; process P() { state s; init s; } system P;", "note", "EXPECT:note")


def exception_witnesses(ctx, H, exception_hits):
    cov = ctx.coverage
    ex = []
    # rename:typedef-named-<one letter>
    names = ONE_LETTER + ["B", "M", "Q"]
    ans = H.run(["xta 1 " + hexs(WITNESS_TYPEDEF % (n, n)) for n in names])
    ref = canon(ans[names.index("B")], {"B": "@"})
    for n, a in zip(names, ans):
        c = canon(a, {n: "@"})
        d = differ(ref, c)
        if d is not None:
            ex.append("rename:typedef-named-" + n)
            ctx.finding("rename:typedef-named-" + n,
                        "a typedef named %s cannot be used as a type: the literal rule \"%s\" of lexer.l precedes the identifier rule, the "
                        "token is never T_TYPENAME; `%s` is rejected while the same model with the name B is accepted (%s)"
                        % (n, n, WITNESS_TYPEDEF % (n, n), d),
                        {"entry": "parse_XTA", "newxta": True, "original_b64": b64(WITNESS_TYPEDEF % ("B", "B")),
                         "rewritten_b64": b64(WITNESS_TYPEDEF % (n, n)), "renaming": {"B": n}, "difference": d})
    # metamorphic hits of the same shape on corpus models must all be explained by it; where the shape is no longer an
    # exception (repaired lexer) the pairs are ordinary tests
    leftover = [it for sp, its in exception_hits.items() if "rename:typedef-named-" + sp not in ex for it in its]
    # rename:syntax-error-names-one-letter-token
    t = "int v; v %s; process P() { state s; init s; } system P;"
    a0, a1 = H.run(["xta 1 " + hexs(t % "B"), "xta 1 " + hexs(t % "W")])
    d = differ(canon(a0, {"B": "@"}), canon(a1, {"W": "@"}))
    if d is not None:
        ex.append("rename:syntax-error-names-one-letter-token")
        ctx.finding("rename:syntax-error-names-one-letter-token",
                    "in a rejected model the text of a syntax-error diagnostic depends on the spelling of the offending identifier: "
                    "the one-letter names A U R W E are literal tokens of lexer.l and bison names them ('W') where any other "
                    "identifier is reported as T_ID (%s)" % d,
                    {"entry": "parse_XTA", "newxta": True, "original_b64": b64(t % "B"), "rewritten_b64": b64(t % "W"),
                     "renaming": {"B": "W"}, "difference": d})
    # trivia:comment-EXPECT
    t, plain, expect = WITNESS_EXPECT
    a0, a1 = H.run(["xta 1 " + hexs(t % plain), "xta 1 " + hexs(t % expect)])
    d = differ(canon(a0, None), canon(a1, None))
    if d is not None:
        ex.append("trivia:comment-EXPECT")
        ctx.finding("trivia:comment-EXPECT",
                    "a block comment containing `EXPECT:` directly followed by non-blank text swallows its own `*/`: the <comment> rule "
                    "\"EXPECT:\"[^\\t \\n]* is the longest match, so `/* EXPECT:note */`-style comments written without a blank before `*/` "
                    "do not close (%s)" % d,
                    {"entry": "parse_XTA", "newxta": True, "original_b64": b64(t % plain), "rewritten_b64": b64(t % expect), "difference": d})
    cov["exception_shapes_confirmed_on_implementation"] = ex
    return ex, leftover


def run(ctx):
    cov = ctx.coverage
    t0 = time.time()
    # 1 translate --------------------------------------------------------------------------------------------------
    tables, tie_err = None, None
    try:
        text, tables = c09_tables.lean_text(core.REPO)
        core.write_if_changed(GEN, text)
        cov["translated"] = {"lexer_rules": len(tables["rules"]), "keywords": len(tables["keywords"]),
                             "precedence_levels": len(tables["grammar"]["levels"]), "binary_productions": len(tables["grammar"]["binary"])}
    except c09_tables.TranslateError as ex:
        tie_err = str(ex)
        ctx.log("translator failed:", ex)
    # 2 prove ------------------------------------------------------------------------------------------------------
    ok, log = (False, tie_err) if tie_err else ctx.prove(MODULE, ["drv_c09"])
    broken = []
    if tie_err:
        cov.update({"obligations": len(core.theorems_of(MODULE)), "discharged": 0, "checker_cmd": "n/a (translation failed)",
                    "trusted_base": core.TRUSTED_BASE})
        # keep going with the last generated tables so that the search for a failing input can run
        text = open(GEN).read()
        try:
            _, tables = None, json.load(open(LAST_TABLES))
        except Exception:  # noqa
            tables = None
    elif not ok:
        broken = core.failing_theorems(log)
        ctx.log("proof broken:", broken or log[-1500:])
    if tables is not None and not tie_err:
        json.dump({k: tables[k] for k in ("rules", "keywords", "maxlen", "bits", "toks", "soft", "expect_fixed")} | {"grammar": tables["grammar"]},
                  open(LAST_TABLES, "w"), sort_keys=True)
    # 3/4 the implementation ----------------------------------------------------------------------------------------
    b = core.build_repo(VARIANT)
    exe = core.build_harness(b, "c09", ["c09.cpp"])
    H = Harness(exe, ctx)
    drv = core.lean_exe("drv_c09")
    if not os.path.exists(drv) or tables is None:
        ok2, _ = core.lake_build(["drv_c09"])
        if not os.path.exists(drv) or tables is None:
            ctx.proof_broken("translate/c09_tables.py" if tie_err else "lake build", (tie_err or log)[-3000:], "nothing could be run")
            return
    L = LeanDrv(drv)
    models = load_corpus(ctx)
    ngen = 40 if ctx.thorough else 12
    for i in range(ngen):
        models.append(Model("gen%d.xml" % i, "xml", gen_model_xml(ctx.rng, i)))
    prepared = prepare(models, H, L, ctx)
    cov["models"] = {"total": len(models), "old_syntax": sum(1 for m in models if not m.newxta), "accepted": sum(1 for (_, c, _) in prepared if not c["diags"] or all("ERROR" not in d for d in c["diags"])),
                     "with_errors": sum(1 for (_, c, _) in prepared if any("ERROR" in d for d in c["diags"])),
                     "expression_spans_valid": sum(len(S.spans) for (S, _, _) in prepared),
                     "expression_spans_reported": sum(S.raw_spans for (S, _, _) in prepared)}
    # corpus twins: X.paren.xml is X.xml with the parentheses the OPERATOR TABLE makes redundant written out (hand-made, independent of how the
    # library parses either text): the two must give the same result
    byname = {S.m.name: (S, c) for (S, c, _) in prepared}
    ntw = 0
    for nm, (S2, c2) in sorted(byname.items()):
        if nm.endswith(".paren.xml") and nm[:-10] + ".xml" in byname:
            S1, c1 = byname[nm[:-10] + ".xml"]
            ntw += 1
            d = differ(c1, c2)
            if d:
                ctx.finding("paren-twin:" + nm[:-10], "redundant parentheses (per the operator table) change the result of %s: %s" % (nm[:-10] + ".xml", d),
                            {"entry": "parse_XML_buffer", "original_b64": b64(S1.m.render()), "rewritten_b64": b64(S2.m.render()), "difference": d})
    cov["paren_twins"] = ntw
    for (S, c, raw) in prepared:
        if c["crash"]:
            ctx.finding("crash:baseline:" + S.m.name, "the library crashed on an unmodified model", {"model": S.m.name, "out": raw[:20]})
    # how many real text blocks satisfy the hypotheses of the lexer theorems (Renderable, evaluated by the Lean driver)
    code_blocks = [(S.m.mask, b) for (S, _, _) in prepared for b, k in zip(S.m.blocks, S.m.bkind) if k == "code" and b.strip()]
    hyp = L.run(["hyp %d - %s" % (mk, hexs(b)) for mk, b in code_blocks])
    why = {}
    for o in hyp:
        if not o.startswith("yes"):
            k = o.split(":")[1] if ":" in o else o
            why[k] = why.get(k, 0) + 1
    cov["lexer_theorem_hypotheses"] = {"text_blocks": len(code_blocks), "renderable": sum(1 for o in hyp if o.startswith("yes")),
                                       "not_renderable_by_reason": why,
                                       "lexemes_covered": sum(int(o.split(":")[1]) for o in hyp if o.startswith("yes"))}
    # ... and of the renaming theorem: the same blocks after a fresh renaming (hypothesis h' of C09_rename_lex)
    ren_blocks = []
    for (S, _, _) in prepared[:12]:
        occ, _td = identifiers(S)
        bn = builtin_names()
        rho = {x: "rn%d_%s" % (i, x[:3].replace("$", "s").replace("#", "h")) for i, x in enumerate(sorted(occ)) if x not in bn}
        blocks = apply_edits(S.m.blocks, [e for g in rename_edits(occ, rho) for e in g])
        ren_blocks += [(S.m.mask, b) for b, k in zip(blocks, S.m.bkind) if k == "code" and b.strip()]
    hyp2 = L.run(["hyp %d - %s" % (mk, hexs(b)) for mk, b in ren_blocks])
    cov["lexer_theorem_hypotheses"]["renamed_text_blocks"] = len(ren_blocks)
    cov["lexer_theorem_hypotheses"]["renamed_renderable"] = sum(1 for o in hyp2 if o.startswith("yes"))
    M = Meta(ctx, H, L, tables)
    try:
        ba = core.build_repo("asan")
        M.HA = Harness(core.build_harness(ba, "c09a", ["c09.cpp"]), ctx)
    except core.BuildError as ex:
        ctx.notes.append("sanitizer build unavailable: %s" % str(ex)[-300:])
    exception_hits = metamorphic(ctx, M, prepared, tables)
    ctx.log("metamorphic done: %d pairs" % M.pairs)
    ex, leftover = exception_witnesses(ctx, H, exception_hits)
    if leftover:
        M.run_batch(leftover)
    else:
        # pairs of a confirmed exception shape: they must FAIL only in the way the shape says (evidence, not alarms)
        n_ex = sum(len(v) for v in exception_hits.values())
        cov["pairs_in_exception_shapes"] = n_ex
    if tie_err:
        # the Lean driver is the one built from the last translatable tree: comparing it with the changed library says nothing
        n_lex, dis_lex, st_lex, n_tr, dis_tr, st_tr = 0, [], {}, 0, [], {}
        ctx.notes.append("translation failed: model/implementation correspondences skipped, rewrite sites computed with the last good tables")
    else:
        n_lex, dis_lex, st_lex = lexer_correspondence(ctx, H, L, tables)
        n_tr, dis_tr, st_tr = trace_correspondence(ctx, H, L)
    ctx.log("correspondences done")
    cov["correspondence_cases"] = n_lex + n_tr
    cov["correspondence_disagreements"] = len(dis_lex) + len(dis_tr)
    cov["lexer_correspondence"] = {"texts": n_lex, "disagreements": len(dis_lex), **st_lex}
    cov["trace_correspondence"] = {"expressions": n_tr, "disagreements": len(dis_tr), **st_tr}
    nq, qstats, qshapes = query_family(ctx, H, L, tables)
    cov["query_pairs"] = nq
    hq = L.run(["hyp %d - %s" % (MASK_PROPERTY, hexs(q)) for q in QUERIES])
    cov["lexer_theorem_hypotheses"]["queries"] = len(QUERIES)
    cov["lexer_theorem_hypotheses"]["queries_renderable"] = sum(1 for o in hq if o.startswith("yes"))
    cov["query_pairs_by_family"] = qstats
    cov["query_pairs_in_exception_shapes"] = qshapes
    cov["exceptions"] = sorted(set(ex) | set(qshapes))
    cov["metamorphic_pairs"] = M.pairs + nq
    cov["pairs_repeated_under_asan_ubsan"] = M.asan_pairs
    cov["pairs_by_family"] = M.by_family
    cov["rewrite_sites_by_family"] = M.sites
    cov["rewrites_rejected_by_lexer_model"] = M.skipped_by_model
    cov["metamorphic_disagreements"] = len(M.disagreements)
    cov["evaluations"] = M.pairs + n_lex + n_tr
    cov["distinct_nontrivial"] = len(M.distinct) + nq
    cov["samples"] = M.samples
    cov["rule"] = ("diagnostic multiset (renaming applied, positions ignored), get_supported_methods() and vh::dumpDocument of the "
                   "rewritten model equal those of the original, for every rewrite the lexer model classifies as token-preserving")
    if dis_lex:
        ctx.finding("correspondence:lexer", "Lean lexer model and the real lexer disagree on %d of %d texts, first: %r" % (len(dis_lex), n_lex, dis_lex[0]),
                    {"disagreements": dis_lex[:5]}, no_input=False)
    if dis_tr:
        ctx.finding("correspondence:trace", "operator-trace model and the real parser disagree on %d of %d expressions, first: %r"
                    % (len(dis_tr), n_tr, dis_tr[0]), {"disagreements": dis_tr[:5]}, no_input=False)
    if not ok:
        found = bool(ctx.violations)
        for path, thm, msg in (broken or [("?", "translate" if tie_err else "lake build", (tie_err or log)[-300:])]):
            if not found:
                ctx.proof_broken(thm, msg + "\n" + (log or "")[-2000:],
                                 "%d metamorphic pairs, %d lexer texts, %d expressions on the implementation" % (M.pairs, n_lex, n_tr))
    ctx.assumptions += [
        "rewrites are applied to the text blocks libutap parses (declarations, parameters, labels, system, XTA text); XML layout "
        "attributes, <queries> (stored unparsed by parse_XML_buffer) and LSC-only elements are not rewritten",
        "a trivia / alias rewrite is only required to preserve the result where the lexer model says the token stream is unchanged "
        "(the side condition of C09_trivia: no rule can extend the preceding lexeme by the first inserted character)",
        "parenthesis sites are the source spans the library records for expression nodes (Expression non-terminals), validated "
        "against the lexer model's token boundaries; statement bodies of functions are rewritten by trivia/alias/renaming only",
        "float literals are compared as text on the model side (atof is libc's)",
    ]
    cov["wall_breakdown_s"] = round(time.time() - t0, 1)


def replay(ctx, path):
    import base64
    r = json.load(open(path))
    rp = r.get("replay", {})
    print(json.dumps({k: v for k, v in r.items() if k != "replay"}, indent=1))
    if "model_b64" in rp:
        b = core.build_repo(VARIANT)
        H = Harness(core.build_harness(b, "c09", ["c09.cpp"]), ctx)
        m0 = base64.b64decode(rp["original_model_b64"]).decode("utf-8")
        m1 = base64.b64decode(rp["model_b64"]).decode("utf-8")
        a0, a1 = H.run(["query %s %s" % (hexs(m0), hexs(rp["original_query"])), "query %s %s" % (hexs(m1), hexs(rp["query"]))])
        rho = rp.get("renaming") or {}
        ren = lambda x: WORD.sub(lambda mm: rho.get(mm.group(0), mm.group(0)), x)
        print("original query :", rp["original_query"], "\n ->", [ren(l) for l in a0])
        print("rewritten query:", rp["query"], "\n ->", [ren(l) for l in a1])
        return 1 if [ren(l) for l in a0] != [ren(l) for l in a1] else 0
    if "original_b64" not in rp:
        print(json.dumps(rp, indent=1)[:4000])
        return 1
    b = core.build_repo(VARIANT)
    exe = core.build_harness(b, "c09", ["c09.cpp"])
    H = Harness(exe, ctx)
    o = base64.b64decode(rp["original_b64"]).decode("utf-8")
    w = base64.b64decode(rp["rewritten_b64"]).decode("utf-8")
    kind = "xml" if rp.get("entry") == "parse_XML_buffer" else "xta"
    nx = 0 if rp.get("newxta") is False else 1
    a0, a1 = H.run(["%s %d %s" % (kind, nx, hexs(o)), "%s %d %s" % (kind, nx, hexs(w))])
    rho = rp.get("renaming")
    d = differ(canon(a0, rho), canon(a1, rho))
    print("--- original\n" + o[:2000] + "\n--- rewritten\n" + w[:2000])
    print("difference:", d)
    return 1 if d else 0
