/- The structural invariant of C08 on the builder model: as a proposition (`Inv`, used by Props/C08.lean) and as an
   executable report (`invReport`, evaluated by the driver on the final model state of every replayed trace).
   Core Lean only. -/
import UtapModel.Model.Builder

namespace UtapModel.Builder

/-- the symbol (`uid`) of the object an object reference denotes -/
def Doc.uidOf (d : Doc) : Obj → Option SymId
  | .var i => (d.vars[i]?).map (·.uid)
  | .func i => (d.funs[i]?).map (·.uid)
  | .loc i => (d.locs[i]?).map (·.uid)
  | .bp i => (d.bps[i]?).map (·.uid)
  | .templ t => (d.templates[t]?).map (·.inst.uid)
  | .inst i => (d.insts[i]?).map (·.uid)

def symUser (syms : List Symbol) (sid : SymId) : Option Obj := (syms[sid]?).bind (·.user)

/-- an edge has exactly one source and exactly one target pointer, of the right kinds -/
structure EdgeOk (e : Edge) : Prop where
  srcOne : e.src.isSome = !e.srcb.isSome
  dstOne : e.dst.isSome = !e.dstb.isSome
  srcLoc : ∀ o, e.src = some o → ∃ i, o = .loc i
  srcBp : ∀ o, e.srcb = some o → ∃ i, o = .bp i
  dstLoc : ∀ o, e.dst = some o → ∃ i, o = .loc i
  dstBp : ∀ o, e.dstb = some o → ∃ i, o = .bp i

/-- unbound parameters first, type arity = #unbound, mapping = exactly the bound parameters -/
structure InstOk (syms : List Symbol) (I : Inst) : Prop where
  unboundLe : I.unbound ≤ I.params.length
  mapDom : ∀ x, (∃ e, (x, e) ∈ I.mapping) ↔ x ∈ I.params.drop I.unbound
  /-- one entry per key (`std::map`): together with `mapDom`, every bound parameter has exactly one argument expression -/
  mapKeys : (I.mapping.map Prod.fst).Nodup
  arity : I.kind ≠ .proc → ∃ sym, syms[I.uid]? = some sym ∧ (sym.ty = .inst I.unbound ∨ sym.ty = .lscInst I.unbound)

/-- the C08 invariant as a property of the symbol heap and the document (nothing else of the builder state matters) -/
structure InvH (syms : List Symbol) (doc : Doc) : Prop where
  /-- every variable / location / branchpoint / function / template / instance / process is the user object of its own symbol -/
  own : ∀ r sid, doc.uidOf r = some sid → symUser syms sid = some r
  /-- conversely a location / branchpoint / instance symbol points to an object of that kind that names it -/
  backLoc : ∀ sid sym, syms[sid]? = some sym → sym.ty.isLocation → ∃ i, sym.user = some (.loc i) ∧ doc.uidOf (.loc i) = some sid
  backBp : ∀ sid sym, syms[sid]? = some sym → sym.ty.isBranchpoint → ∃ i, sym.user = some (.bp i) ∧ doc.uidOf (.bp i) = some sid
  backInst : ∀ sid sym a, syms[sid]? = some sym → (sym.ty = .inst a ∨ sym.ty = .lscInst a) →
    ∃ r I, sym.user = some r ∧ doc.inst? r = some I ∧ I.uid = sid ∧ I.unbound = a
  /-- location numbers are dense and in creation order within each template: `nr` = number of earlier locations of that template -/
  numLoc : ∀ (i : Nat) (l : Loc), doc.locs[i]? = some l → l.nr = ((doc.locs.take i).filter (·.templ = l.templ)).length
  numBp : ∀ (i : Nat) (b : Bp), doc.bps[i]? = some b → b.nr = ((doc.bps.take i).filter (·.templ = b.templ)).length
  numEdge : ∀ (t : Nat) (T : Templ) (i : Nat) (e : Edge), doc.templates[t]? = some T → T.edges[i]? = some e → e.nr = i
  edges : ∀ (t : Nat) (T : Templ) (i : Nat) (e : Edge), doc.templates[t]? = some T → T.edges[i]? = some e → EdgeOk e
  insts : ∀ r I, doc.inst? r = some I → InstOk syms I

def Inv (s : BState) : Prop := InvH s.syms s.doc

/-! ### caller discipline (what C01's stack-safety theorem establishes for the grammar and the XML reader) -/

def Call.pops : Call → Bool
  | .quantEnd | .dynQuantEnd | .declFuncEnd | .blockEnd | .iterationEnd | .procEdgeEnd | .ganttDeclEnd | .ganttEntryEnd
  | .instanceNameEnd _ | .instantiationEnd .. | .declExternalFunc _ => true
  | _ => false

/-- a popping callback (other than `proc_end`) is only issued when the frame on top is neither the global frame nor the
    frame of the template being parsed, i.e. when it removes a frame pushed after the template was entered -/
def safeCall (s : BState) (c : Call) : Bool :=
  match c with
  | .declExternalFunc _ => true
  | .procEnd => s.frames.length ≥ 2
  | _ =>
    if c.pops then
      s.frames.length ≥ 2 &&
      (match s.currentTemplate.bind (fun t => s.doc.templates[t]?) with
       | some T => s.top != T.frame
       | none => true)
    else true

/-- the readers' protocol for the initial location: a TA template is entered only outside a template; between its
    proc_begin and its proc_end (or a decl_dynamic_template, or the end of the input) the reader either issues
    proc_location_init or records a diagnostic.  The flag = "a TA template is open and neither has happened yet". -/
def initShape : Bool → List Call → Bool
  | p, [] => !p
  | p, .procBegin _ isTA :: r => !p && initShape isTA r
  | _, .procLocationInit _ :: r => initShape false r
  | _, .handleError :: r => initShape false r
  | p, .procEnd :: r => !p && initShape false r
  | p, .declDynamicTemplate _ :: r => !p && initShape false r
  | p, _ :: r => initShape p r

/-! ### executable report -/

def allIdx {α} (l : List α) (p : Nat → α → Bool) : Bool :=
  (List.range l.length).all (fun i => match l[i]? with
    | some x => p i x
    | none => true)

def BState.ownOk (s : BState) (r : Obj) : Bool :=
  match s.doc.uidOf r with
  | some sid => symUser s.syms sid == some r
  | none => true

def edgeOkB (e : Edge) : Bool :=
  (e.src.isSome == !e.srcb.isSome) && (e.dst.isSome == !e.dstb.isSome) &&
  (match e.src with | some (.loc _) | none => true | _ => false) &&
  (match e.srcb with | some (.bp _) | none => true | _ => false) &&
  (match e.dst with | some (.loc _) | none => true | _ => false) &&
  (match e.dstb with | some (.bp _) | none => true | _ => false)

def distinctB : List SymId → Bool
  | [] => true
  | k :: ks => !ks.contains k && distinctB ks

def instOkB (s : BState) (I : Inst) : Bool :=
  decide (I.unbound ≤ I.params.length) &&
  distinctB (I.mapping.map Prod.fst) &&
  I.mapping.all (fun kv => (I.params.drop I.unbound).contains kv.1) &&
  (I.params.drop I.unbound).all (fun p => I.mapping.any (fun kv => kv.1 == p)) &&
  (I.kind == .proc ||
    (match s.sym? I.uid with
     | some sym => sym.ty == .inst I.unbound || sym.ty == .lscInst I.unbound
     | none => false))

def backOkB (s : BState) : Bool :=
  allIdx s.syms (fun sid sym =>
    match sym.ty with
    | .location _ _ => (match sym.user with
        | some (.loc i) => s.doc.uidOf (.loc i) == some sid
        | _ => false)
    | .branchpoint => (match sym.user with
        | some (.bp i) => s.doc.uidOf (.bp i) == some sid
        | _ => false)
    | .inst a | .lscInst a => (match sym.user.bind s.doc.inst? with
        | some I => I.uid == sid && I.unbound == a
        | none => false)
    | _ => true)

/-- own-template clause (needs the caller discipline `safeCall`): endpoints and init belong to the edge's template -/
def ownTemplateB (s : BState) : Bool :=
  let locOf (t : Nat) (o : Option Obj) : Bool :=
    match o with
    | some (.loc i) => (match s.doc.locs[i]? with
        | some l => l.templ == t
        | none => false)
    | some (.bp i) => (match s.doc.bps[i]? with
        | some b => b.templ == t
        | none => false)
    | _ => true
  allIdx s.doc.templates (fun t T =>
    T.edges.all (fun e => locOf t e.src && locOf t e.srcb && locOf t e.dst && locOf t e.dstb) &&
    (match T.init with
     | some sid => (match symUser s.syms sid with
        | some (.loc i) => locOf t (some (.loc i))
        | _ => false)
     | none => true))

def invReport (s : BState) : String :=
  let checks : List (String × Bool) := [
    ("own", allIdx s.doc.vars (fun i _ => s.ownOk (.var i)) && allIdx s.doc.funs (fun i _ => s.ownOk (.func i)) &&
        allIdx s.doc.locs (fun i _ => s.ownOk (.loc i)) && allIdx s.doc.bps (fun i _ => s.ownOk (.bp i)) &&
        allIdx s.doc.templates (fun i _ => s.ownOk (.templ i)) && allIdx s.doc.insts (fun i _ => s.ownOk (.inst i))),
    ("back", backOkB s),
    ("numbering", allIdx s.doc.locs (fun i l => l.nr == ((s.doc.locs.take i).filter (·.templ = l.templ)).length) &&
        allIdx s.doc.bps (fun i b => b.nr == ((s.doc.bps.take i).filter (·.templ = b.templ)).length) &&
        s.doc.templates.all (fun T => allIdx T.edges (fun i e => e.nr == i))),
    ("edges", s.doc.templates.all (fun T => T.edges.all edgeOkB)),
    ("instances", s.doc.templates.all (fun T => instOkB s T.inst) && s.doc.insts.all (instOkB s)),
    ("own-template", ownTemplateB s)]
  match checks.find? (fun c => !c.2) with
  | some c => c.1
  | none => "ok"

end UtapModel.Builder
