/- Helper lemmas for the remaining statistical query forms (Model/QuerySmc2.lean; theorems in Props/C03Query.lean). -/
import UtapModel.Model.QuerySmc2
import UtapModel.Lemmas.QuerySmc

namespace UtapModel.QuerySmc
open UtapModel.Pratt UtapModel.ExprTable UtapModel.PrintModel UtapModel.QueryTables UtapModel.Query

/-- the terminals `parseX` tests for -/
def QS2 : List String := ["T_PROBA", "T_SIMULATE", "T_BOX", "T_DIAMOND", "T_GEQ", "'{'", "'}'"]

theorem qid_inj_tbl2 : ∀ x ∈ QS2, ∀ y ∈ QS2, (qid x == qid y) = (x == y) := by decide +kernel

theorem isTok_qs2 (x y : String) (hx : x ∈ QS2) (hy : y ∈ QS2) : isTok (qid x) y = (x == y) := qid_inj_tbl2 x hx y hy

/-- the generated literals of the PROBA_MIN / PROBA_CMP / SIMULATEREACH cases, as tokens -/
theorem lits2 :
    lit "cmpOpen" = [.rb, .lp] ∧ lit "cmpBox" = [.sym (qid "T_BOX")] ∧ lit "cmpDiamond" = [.sym (qid "T_DIAMOND")] ∧
    lit "geq" = [.rp, .sym (qid "T_GEQ")] ∧ lit "reachOpen" = [.sym (qid "'}'"), .colon] ∧ lit "reachSep" = [.colon] := by decide +kernel

def pathName (box : Bool) : String := if box then "T_BOX" else "T_DIAMOND"

theorem pathTok_name (box : Bool) : pathTok? (qid (pathName box)) = some box := by
  cases box <;> simp (disch := decide) [pathTok?, pathName, isTok_qs2]

/-- **the head of a probability query is read back**: `B ]( <> e )` in front of anything -/
theorem prHead_print (b : Bnd) (hb : b.wf = true) (box : Bool) (e : Expr) (he : goodE e = true) (rest : List Tok) :
    prHead (bndToks P b ++ .rb :: .lp :: .sym (qid (pathName box)) :: (P e ++ .rp :: rest)) = some (b, box, e, rest) := by
  have h1 := parseBnd_print b hb (.lp :: .sym (qid (pathName box)) :: (P e ++ .rp :: rest))
  have h2 := pE_print e he (.rp :: rest) (qstop_rp rest)
  simp only [prHead, h1, pathTok_name, h2]

theorem xq_qual (box : Bool) (b : Bnd) (pred : Expr) (p : String) (hb : b.wf = true) (hp : goodE pred = true) :
    parseX (xprint (.qual box b pred p)) = some (.qual box b pred p) := by
  obtain ⟨hpr, _, hbox, hdia, _⟩ := lits
  obtain ⟨_, _, _, hgeq, _, _⟩ := lits2
  have hh := prHead_print b hb box pred hp [.sym (qid "T_GEQ"), .atom (.dbl p)]
  unfold xprint
  cases box with
  | true =>
    simp only [pathName, if_true] at hh
    simp (disch := decide) [printX, hpr, hbox, hgeq, parseX, isTok_qs2, List.append_assoc, hh]
  | false =>
    simp only [pathName, Bool.false_eq_true, if_false] at hh
    simp (disch := decide) [printX, hpr, hdia, hgeq, parseX, isTok_qs2, List.append_assoc, hh]

theorem bndToks_noruns (b : Bnd) (h : b.runs.isNone = true) : boundToks P b = bndToks P b := by
  obtain ⟨k, bound, runs⟩ := b
  cases runs with
  | none => simp [bndToks, runsToks]
  | some n => simp at h

theorem xq_cmp (b1 : Bnd) (box1 : Bool) (p1 : Expr) (b2 : Bnd) (box2 : Bool) (p2 : Expr)
    (h : (XQuery.cmp b1 box1 p1 b2 box2 p2).wf = true) :
    parseX (xprint (.cmp b1 box1 p1 b2 box2 p2)) = some (.cmp b1 box1 p1 b2 box2 p2) := by
  obtain ⟨hpr, _, _, _, _, _, hcl, _⟩ := lits
  obtain ⟨hco, hcb, hcd, hgeq, _, _⟩ := lits2
  simp only [XQuery.wf, Bool.and_eq_true] at h
  obtain ⟨⟨⟨⟨⟨hb1, hr1⟩, hp1⟩, hb2⟩, hr2⟩, hp2⟩ := h
  have hpt : ∀ box, pathToks box = [.sym (qid (pathName box))] := by
    intro box; cases box <;> simp [pathToks, pathName, hcb, hcd]
  have hh2 := prHead_print b2 hb2 box2 p2 hp2 []
  have hh1 := prHead_print b1 hb1 box1 p1 hp1
    (.sym (qid "T_GEQ") :: .sym (qid "T_PROBA") :: .lb :: (bndToks P b2 ++ .rb :: .lp :: .sym (qid (pathName box2)) :: (P p2 ++ [.rp])))
  rw [← bndToks_noruns b1 hr1, ← bndToks_noruns b2 hr2] at hh1
  rw [← bndToks_noruns b2 hr2] at hh2
  simp only [P] at hh1 hh2
  unfold xprint
  simp (disch := decide) only [printX, hpr, hco, hpt, hgeq, hcl, parseX, isTok_qs2, List.append_assoc, List.cons_append, List.nil_append,
    beq_self_eq_true, if_true]
  rw [hh1]
  simp (disch := decide) only [isTok_qs2, beq_self_eq_true, if_true]
  rw [hh2]
  simp [hr1, hr2]

theorem xq_reach (b : Bnd) (l : List Expr) (n : Nat) (pred : Expr) (h : (XQuery.reach b l n pred).wf = true) :
    parseX (xprint (.reach b l n pred)) = some (.reach b l n pred) := by
  obtain ⟨_, hruns, _, _, _, _, _, _, _, _, hsim, hso, _⟩ := lits
  obtain ⟨_, _, _, _, hro, hrs⟩ := lits2
  simp only [XQuery.wf, Bool.and_eq_true, Bool.not_eq_true', List.isEmpty_eq_false_iff] at h
  obtain ⟨⟨⟨⟨hb, hr⟩, hg⟩, hne⟩, hp⟩ := h
  obtain ⟨k, bound, runs⟩ := b
  cases runs with
  | none => simp at hr
  | some m =>
    have hbnd := parseBnd_print { kind := k, bound := bound, runs := some m } hb
      (.sym (qid "'{'") :: (printList P l ++ .sym (qid "'}'") :: .colon :: .atom (.nat n) :: .colon :: P pred))
    have hst : QStop (Tok.sym (qid "'}'") :: .colon :: .atom (.nat n) :: .colon :: P pred) :=
      qstop_sym (nonop_qs _ (by decide) (by decide)) _
    have hpl := parseList_print l hne hg _ hst (by intro r h; cases h)
    have hlen := printList_length l hg
    have hpe := pE_print pred hp [] qstop_nil
    simp only [List.append_nil] at hpe
    unfold xprint
    simp only [bndToks, runsToks, hruns, P, List.append_assoc, List.cons_append, List.nil_append] at hbnd hpl hlen hpe
    simp (disch := decide) only [printX, hsim, hruns, hso, hro, hrs, parseX, isTok_qs, List.append_assoc, List.cons_append,
      List.nil_append, Option.getD_some, beq_self_eq_true, if_true]
    rw [hbnd]
    simp (disch := decide) only [isTok_qs, beq_self_eq_true, if_true]
    rw [hpl _ (by simp only [List.length_append, List.length_cons]; omega)]
    simp (disch := decide) [isTok_qs, hpe]

/-- the case analysis behind `C03_smc2_roundtrip` -/
theorem smc2_roundtrip (q : XQuery) (h : q.wf = true) : parseX (xprint q) = some q := by
  cases q with
  | qual box b pred p =>
    simp only [XQuery.wf, Bool.and_eq_true] at h
    exact xq_qual box b pred p h.1 h.2
  | cmp b1 box1 p1 b2 box2 p2 => exact xq_cmp b1 box1 p1 b2 box2 p2 h
  | reach b l n pred => exact xq_reach b l n pred h

end UtapModel.QuerySmc
