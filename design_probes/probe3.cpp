#include "utap/utap.h"
#include <iostream>
#include <sstream>
#include <fstream>
using namespace UTAP;
int main(int argc, char** argv) {
    for (int i=1;i<argc;++i){
    std::ifstream f(argv[i]); std::stringstream ss; ss << f.rdbuf();
    try {
    Document doc;
    int r = parse_XML_buffer(ss.str().c_str(), &doc, true);
    auto sm = doc.get_supported_methods();
    std::cout << argv[i] << ": parse=" << r << " errors=" << doc.get_errors().size() << " warns=" << doc.get_warnings().size() << " sym=" << sm.symbolic << " sto=" << sm.stochastic << " con=" << sm.concrete << "\n";
    for (auto& e: doc.get_errors()) std::cout << "  ERR " << e.str() << "\n";
    for (auto& e: doc.get_warnings()) std::cout << "  WRN " << e.str() << "\n";
    } catch (std::exception& e) { std::cout << argv[i] << " EXC " << e.what() << "\n"; }
    }
}
