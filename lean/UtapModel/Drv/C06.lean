/- Line-protocol driver for the position model (property C06; also used by C15).
   One op per input line, one canonical line out.  The C++ harness `harness/c06.cpp` answers the same questions by
   running the real library.

   L <newxta> <consumed|-1> <hex>   lex the block text with the generated rule table, run the tracker;
                                    -> c=<consumed> tab=<off>:<line>,… errs=<msg>@<l>:<c>-<l>:<c>;…
   X <stop|-> <addr> <sexp>         XPath string the Path model prints when the reader stands on the node at <addr>
                                    of the element tree <sexp>  (tags are element names), and what it selects
-/
import UtapModel.Model.Pos
import UtapModel.Model.LexLines
import UtapModel.Gen.LexRules
import UtapModel.Gen.PathTable
import UtapModel.Model.PathCheck

open UtapModel.Pos UtapModel.LexLines

def hexVal (c : Char) : Nat :=
  if c.toNat ≥ 48 && c.toNat ≤ 57 then c.toNat - 48
  else if c.toNat ≥ 97 && c.toNat ≤ 102 then c.toNat - 87
  else if c.toNat ≥ 65 && c.toNat ≤ 70 then c.toNat - 55
  else 0

def unhex : List Char → List Char
  | a :: b :: rest => Char.ofNat (hexVal a * 16 + hexVal b) :: unhex rest
  | _ => []

/-- lexemes until exactly `c` characters are consumed (`none` when `c` is not a lexeme boundary) -/
def takeConsumed : List Lexeme → Nat → Option (List Lexeme)
  | _, 0 => some []
  | [], _ => none
  | lx :: rest, c =>
    if lx.chars.length ≤ c then (takeConsumed rest (c - lx.chars.length)).map (lx :: ·) else none

def showLoc (idx : Index) (pos : Nat) : String :=
  match resolve idx pos with
  | .ok l => s!"{l.line}:{l.col}"
  | .error _ => "?"

def lexOp (newxta : Bool) (c : Int) (text : List Char) : String :=
  let (all, finalMode) := lexAll UtapModel.LexRulesGen.rules .initial text
  let total := (flat all).length
  let cN := if c < 0 then total else c.toNat
  match takeConsumed all cN with
  | none => s!"c={cN} not-a-lexeme-boundary"
  | some ls =>
    -- p0 = 0: positions are relative to the block (the harness subtracts its own p0)
    let s0 : St := { tr := { line := 0, offset := 0, position := 0, path := "" }, idx := [] }
    match s0.setPath "/p" with
    | .error _ => "error"
    | .ok s1 =>
      match runLexemes s1 ls with
      | .error _ => "throws"
      | .ok s2 =>
        let tab := s2.idx.map fun e => s!"{e.position - 1}:{e.line}"
        -- lexer-level diagnostics: (message, start offset, end offset)
        let rec errs (ls : List Lexeme) (off : Nat) (acc : List (String × Nat × Nat)) : List (String × Nat × Nat) :=
          match ls with
          | [] => acc.reverse
          | lx :: rest =>
            let e := off + lx.chars.length
            let acc := match lx.rule.err with
              | .always m => (m, off, e) :: acc
              | .unlessOld m => if newxta then (m, off, e) :: acc else acc
              | _ => acc
            errs rest e acc
        let es := errs ls 0 []
        -- <<EOF>> inside a comment: reported with the location of the last lexeme (EOF rules do not run YY_USER_ACTION)
        let stillComment := (ls.foldl (fun m lx => modeAfter lx.rule m) Mode.initial) == Mode.comment
        let es := if cN == total && stillComment then
            match UtapModel.LexRulesGen.rules.find? (fun r => r.mode == .comment && r.pat == .eof) with
            | some r =>
              match r.err with
              | .always m =>
                let lastLen := (ls.getLast?.map (·.chars.length)).getD 0
                es ++ [(m, total - lastLen, total)]
              | _ => es
            | none => es
          else es
        let _ := finalMode
        let estr := es.map fun (m, a, b) => s!"{m}@{showLoc s2.idx (1 + a)}-{showLoc s2.idx (1 + b)}"
        s!"c={cN} tab={",".intercalate tab} errs={";".intercalate estr}"

/-! ### element trees as s-expressions: `(name child child …)` -/

partial def parseNodes (cs : List Char) (acc : List XNode) : List XNode × List Char :=
  match cs with
  | [] => (acc.reverse, [])
  | ')' :: rest => (acc.reverse, rest)
  | ' ' :: rest => parseNodes rest acc
  | '(' :: rest =>
    let name := rest.takeWhile (fun c => c != ' ' && c != '(' && c != ')')
    let rest := rest.drop name.length
    let (kids, rest) := parseNodes rest []
    parseNodes rest (XNode.elem (String.ofList name) kids :: acc)
  | _ :: rest => parseNodes rest acc

/-- tag enumerator of an element name (tag_map); unknown elements are `NONE` -/
def tagOfName (n : String) : String :=
  match UtapModel.PathTableGen.tagMap.find? (·.1 == n) with
  | some (_, t) => t
  | none => "NONE"

/-- element name of a tag (inverse of tag_map) -/
def nameOfTag (t : String) : String :=
  match UtapModel.PathTableGen.tagMap.find? (·.2 == t) with
  | some (n, _) => n
  | none => "?" ++ t

partial def retag : XNode → XNode
  | .elem n kids => .elem (tagOfName n) (kids.map retag)

def pathOp (stop : String) (addr : List Nat) (sexp : List Char) : String :=
  let (roots, _) := parseNodes sexp []
  let roots := roots.map retag
  let p := Path.run Path.init (prefixTo roots addr)
  let stopTag := if stop == "-" then none else some stop
  match p.steps UtapModel.PathTableGen.table stopTag with
  | none => "xpath_corrupt_error"
  | some ss =>
    let sel := select nameOfTag roots ss
    let selStr := sel.map fun a => ".".intercalate (a.map toString)
    s!"{renderSteps ss} selects={",".intercalate selStr}"

def stepLine (line : String) : String :=
  let ws := (line.trimAscii.toString.splitOn " ").filter (· ≠ "")
  match ws with
  | ["L", nx, c, hex] => lexOp (nx == "1") (c.toInt?.getD (-1)) (unhex hex.toList)
  | ["L", nx, c] => lexOp (nx == "1") (c.toInt?.getD (-1)) []
  | "X" :: stop :: addr :: rest =>
    let a := (addr.splitOn ".").filterMap String.toNat?
    pathOp stop a (" ".intercalate rest).toList
  | ["B"] => ",".intercalate (UtapModel.PathCheck.badRows.map fun r => s!"{r.tag}:{r.name}:{UtapModel.PathCheck.elementName r.tag}")
  | _ => "bad-op"

partial def loop (h : IO.FS.Stream) (out : IO.FS.Stream) : IO Unit := do
  let line ← h.getLine
  if line.isEmpty then return ()
  out.putStrLn (stepLine line)
  loop h out

def main : IO Unit := do
  let out ← IO.getStdout
  loop (← IO.getStdin) out
