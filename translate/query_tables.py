#!/usr/bin/env python3
"""
translate/query_tables.py -- the verification-query layer of C03, read from the current source on every run.

  src/expression.cpp  expression_t::print: for the query kinds listed in KINDS the `case` body is translated into a LAYOUT,
                      the sequence of string literals and operand positions it writes.  Only straight-line bodies built from
                          os << "lit" ;   get(i).print(os, old) ;   get(i).print(os << "lit", old) << "lit" ;   [[fallthrough]] ;   break ;
                      are accepted (anything else: TranslateError, fail closed).  LIST must be the comma-join loop (skeleton match).
                      Each literal is cut into the terminals the lexer makes of it (maximal munch over the literal rules of lexer.l,
                      the keyword table of keywords.cpp restricted to the property syntax, and the single-letter rules `"A" .. return 'A'`).
  src/parser.y        the alternatives of SubProperty, AssignablePropperty, Property, PropertyExpr, SupPrefix, InfPrefix, BoundsPrefix,
                      BracketExprList, ExpressionList, NonEmptyExpressionList: right-hand side and the builder callbacks of the action.

Output: lean/UtapModel/Gen/QueryTables.lean.  The hand-written parser of Model/Query.lean lists the productions it implements
(`modelProds`); `C03_query_tables` proves by `decide` that each of them is a production of the current grammar with the same callbacks,
and the printer of the model is driven by the generated layouts directly.
"""
import os
import re
import sys

sys.path.insert(0, os.path.dirname(os.path.abspath(__file__)))
import exprgrammar  # noqa: E402
import printer  # noqa: E402
from exprgrammar import TranslateError  # noqa: E402

KINDS = ["EF", "EG", "AF", "AG", "LEADS_TO", "A_UNTIL", "A_WEAK_UNTIL", "PO_CONTROL", "EF_CONTROL", "CONTROL", "CONTROL_TOPT",
         "CONTROL_TOPT_DEF1", "CONTROL_TOPT_DEF2", "SUP_VAR", "INF_VAR", "BOUNDS_VAR"]
NONTERMINALS = ["SubProperty", "AssignablePropperty", "Property", "PropertyExpr", "SupPrefix", "InfPrefix", "BoundsPrefix", "BracketExprList",
                "ExpressionList", "NonEmptyExpressionList", "BoolOrKWAnd", "SMCBounds", "BoundType", "PathType", "CmpGLE"]
# the statistical forms print conditionally (optional run count, `<>` / `[]` / `U`, the bound type): their cases and print_bound_type are
# matched as whole skeletons (white space removed); Model/QuerySmc.lean is the hand-written reading of exactly these texts
SMC_SKELETONS = {
    "PROBA_BOX": 'flag=true;[[fallthrough]];',
    "PROBA_DIAMOND": 'os<<"Pr[";print_bound(os,get(1),get(2),old);if(get(0).get_value()>=0)get(0).print(os<<";",old);'
                     'if(flag||get(4).is_true()){os<<(flag?"]([]":"](<>");get(3).print(os,old)<<")";}'
                     'else{get(3).print(os<<"](",old)<<"U";get(4).print(os,old)<<")";}break;',
    "PROBA_EXP": 'os<<"E[";print_bound(os,get(1),get(2),old);if(get(0).get_value()>=0)get(0).print(os<<";",old);'
                 'os<<"]("<<(get(3).get_value()?"max:":"min:");get(4).print(os,old)<<")";break;',
    "PROBA_MIN_BOX": 'flag=true;[[fallthrough]];',
    "PROBA_MIN_DIAMOND": 'os<<"Pr[";print_bound(os,get(1),get(2),old);if(get(0).get_value()>=0)get(0).print(os<<";",old);'
                         'os<<(flag?"]([]":"](<>");print_double(get(3).print(os,old)<<")>=",get(4).get_double_value());break;',
    "PROBA_CMP": 'os<<"Pr[";print_bound(os,get(0),get(1),old)<<"](";os<<(get(2).get_value()==kind_t::BOX?"[]":"<>");'
                 'get(3).print(os,old)<<")>=";os<<"Pr[";print_bound(os,get(4),get(5),old)<<"](";'
                 'os<<(get(6).get_value()==kind_t::BOX?"[]":"<>");get(7).print(os,old)<<")";break;',
    "SIMULATEREACH": 'os<<"simulate[";print_bound(os,get(1),get(2),old)<<";";get(0).print(os,old)<<"]{";nb=get_size()-5;'
                     'if(nb>0){get(3).print(os,old);for(inti=1;i<nb;++i)get(3+i).print(os<<",",old);}os<<"}:";'
                     'get(4+nb).print(os,old)<<":";get(3+nb).print(os,old);break;',
    "SIMULATE": 'os<<"simulate[";print_bound(os,get(1),get(2),old)<<";";get(0).print(os,old)<<"]{";nb=get_size()-3;'
                'if(nb>0){get(3).print(os,old);for(inti=1;i<nb;++i)get(3+i).print(os<<",",old);}os<<"}";break;',
}
BOUND_TYPE_SKELETON = ('if(boundType.get_kind()==CONSTANT)returnbound.print(os<<(boundType.get_value()==0?"#<=":"<="),old);'
                       'returnexpression_t::create_binary(LE,boundType,bound).print(os,old);')
# floating-point constants: the shortest text that reads back as the same value, never an integer literal
PRINT_DOUBLE_SKELETON = ('charbuffer[32];auto[end,ec]=std::to_chars(buffer,buffer+sizeof(buffer),value);autotext=(ec==std::errc{})?'
                         'std::string(buffer,end):std::to_string(value);if(text.find_first_of(".en")==std::string::npos)text+=".0";returnos<<text;')
# the literals of those texts, by the name the Lean printer uses for them
SMC_LITERALS = {"pr": "Pr[", "runs": "; ", "box": "]([] ", "diamond": "](<> ", "untilOpen": "](", "until": " U ", "close": ")", "ex": "E[",
                "exOpen": "] (", "colon": ":", "sim": "simulate[", "simOpen": "] {", "comma": ", ", "simClose": "}", "steps": "#", "leq": "<=",
                "cmpOpen": "] (", "cmpBox": "[] ", "cmpDiamond": "<> ", "geq": ") >= ", "reachOpen": "} : ", "reachSep": " : "}
LIST_SKELETON = "if(get_size()>0){get(0).print(os,old);for(uint32_ti=1;i<get_size();i++)get(i).print(os<<\",\",old);}break;"


def c_unescape(lit):
    return re.sub(r"\\(.)", lambda m: {"n": "\n", "t": "\t", "\\": "\\", '"': '"', "'": "'"}.get(m.group(1), m.group(1)), lit)


def parse_stream_expr(s):
    """`os << "a" << 'b'` -> ["a", "b"]   (the stream expression written into before / after an operand)"""
    s = s.strip()
    if not s.startswith("os"):
        raise TranslateError("stream expression does not start with os: %r" % s)
    rest, out = s[2:], []
    while rest.strip():
        m = re.match(r'\s*<<\s*(?:"((?:[^"\\]|\\.)*)"|\'((?:[^\'\\]|\\.))\')', rest)
        if not m:
            raise TranslateError("unsupported stream operand: %r" % rest[:60])
        out.append(c_unescape(m.group(1) if m.group(1) is not None else m.group(2)))
        rest = rest[m.end():]
    return out


def parse_statement(st):
    """one statement of a case body -> list of items ("lit", text) / ("arg", i)"""
    st = st.strip()
    if st in ("break", "[[fallthrough]]", ""):
        return []
    m = re.match(r"get\((\d+)\)\.print\((.*?),\s*old\)(.*)$", st, re.S)
    if m:
        items = [("lit", l) for l in parse_stream_expr(m.group(2))]
        items.append(("arg", int(m.group(1))))
        items += [("lit", l) for l in parse_stream_expr("os" + m.group(3))]
        return items
    if st.startswith("os"):
        return [("lit", l) for l in parse_stream_expr(st)]
    raise TranslateError("unsupported statement in a query print case: %r" % st[:100])


def split_statements(code):
    out, cur, d, i = [], [], 0, 0
    while i < len(code):
        c = code[i]
        if c in "\"'":
            j = i + 1
            while code[j] != c:
                j += 2 if code[j] == "\\" else 1
            cur.append(code[i:j + 1])
            i = j + 1
            continue
        if c in "({":
            d += 1
        elif c in ")}":
            d -= 1
        if c == ";" and d == 0:
            out.append("".join(cur))
            cur = []
        else:
            cur.append(c)
        i += 1
    if "".join(cur).strip():
        raise TranslateError("trailing text in a case body: %r" % "".join(cur)[:60])
    return out


def lex_literal(text, lits, kws, singles):
    """terminals of a layout literal (maximal munch, as flex does for the literal rules; words through the keyword table)"""
    out, i = [], 0
    while i < len(text):
        c = text[i]
        if c in " \t\n":
            i += 1
            continue
        if c.isalpha() or c == "_":
            m = re.match(r"[A-Za-z_][A-Za-z_0-9]*", text[i:])
            w = m.group(0)
            # the literal rules come first in lexer.l and win ties; a longer identifier match wins otherwise
            best = max((l for l, _ in lits if text.startswith(l, i)), key=len, default="")
            if len(best) >= len(w):
                out.append(dict(lits)[best])
                i += len(best)
                continue
            if w in singles:
                out.append("'%s'" % w)
            elif w in kws:
                out.append(kws[w])
            else:
                raise TranslateError("layout literal %r contains the word %r, which is not a property keyword" % (text, w))
            i += len(w)
            continue
        best = max((l for l, _ in lits if text.startswith(l, i)), key=len, default="")
        if not best:
            raise TranslateError("layout literal %r: no lexer rule for %r" % (text, text[i:i + 3]))
        out.append(dict(lits)[best])
        i += len(best)
    return out


def extract(repo="/repo"):
    G = exprgrammar.extract(repo)
    lits = [(l, t) for l, t in G["literals"]]
    if not any(l == ";" for l, _ in lits):
        # (the literal table of exprgrammar.py reads `return X;` up to the first `;` and so misses this one rule)
        if not re.search(r'^";"\s*\{\s*return\s*\';\';\s*\}', open(os.path.join(repo, "src", "lexer.l")).read(), re.M):
            raise TranslateError("lexer.l: rule for `;` not found")
        lits.append((";", "';'"))
    kws = {w: t for w, t, syn in G["keywords"] if "PROPERTY" in syn}
    lx = open(os.path.join(repo, "src", "lexer.l")).read()
    singles = set(re.findall(r'^"([A-Z])"\s*\{[^\n]*return \'\1\';\s*\}', lx, re.M))
    if not {"A", "U", "W"} <= singles:
        raise TranslateError("single-letter rules of lexer.l not found: %r" % sorted(singles))
    src = printer.strip_comments(open(os.path.join(repo, "src", "expression.cpp")).read())
    body = printer.body_of(src, r"std::ostream&\s*expression_t::print\s*\(\s*std::ostream&\s*os\s*,\s*bool\s+old\s*\)\s*const\s*\{")
    sw = printer.body_of(body, r"switch\s*\(\s*data->kind\s*\)\s*\{")
    groups = printer.case_groups(sw)
    layouts = {}
    for gi, (labels, code) in enumerate(groups):
        wanted = [l for l in labels if l in KINDS]
        if "LIST" in labels:
            if re.sub(r"\s+", "", code) != LIST_SKELETON:
                raise TranslateError("print case LIST is not the comma-join loop any more: %r" % code[:200])
            layouts["LIST"] = "join"
        if not wanted:
            continue
        items = []
        for st in split_statements(code):
            items += parse_statement(st)
        # a body that ends in [[fallthrough]] continues with the next group
        g2 = gi
        while re.search(r"\[\[fallthrough\]\]\s*;\s*$", groups[g2][1].strip()):
            g2 += 1
            for st in split_statements(groups[g2][1]):
                items += parse_statement(st)
        for l in wanted:
            # labels that share the body but come before a flag assignment would be handled here; none of KINDS does
            layouts[l] = items
    for gi, (labels, code) in enumerate(groups):
        for l in labels:
            if l in SMC_SKELETONS and re.sub(r"\s+", "", code) != SMC_SKELETONS[l] and not (len(labels) > 1 and l != labels[-1]):
                raise TranslateError("print case %s is not the text the statistical query model was written from: %r" % (l, re.sub(r"\s+", "", code)[:300]))
    seen = {l for labels, _ in groups for l in labels}
    if not set(SMC_SKELETONS) <= seen:
        raise TranslateError("print cases not found: %r" % sorted(set(SMC_SKELETONS) - seen))
    bt = printer.body_of(src, r"static\s+std::ostream&\s*print_bound\s*\(\s*std::ostream&\s*os\s*,\s*const\s+expression_t&\s*boundType\s*,\s*const\s+expression_t&\s*bound\s*,\s*bool\s+old\s*\)\s*\{")
    if re.sub(r"\s+", "", bt) != BOUND_TYPE_SKELETON:
        raise TranslateError("print_bound is not the text the statistical query model was written from: %r" % re.sub(r"\s+", "", bt)[:300])
    pd = printer.body_of(src, r"static\s+std::ostream&\s*print_double\s*\(\s*std::ostream&\s*os\s*,\s*double\s+value\s*\)\s*\{")
    if re.sub(r"\s+", "", pd) != PRINT_DOUBLE_SKELETON:
        raise TranslateError("print_double is not the text the models were written from (a double literal is kept as a text that reads back as "
                             "the same value): %r" % re.sub(r"\s+", "", pd)[:300])
    missing = [k for k in KINDS + ["LIST"] if k not in layouts]
    if missing:
        raise TranslateError("print cases not found: %r" % missing)
    lay2 = {}
    for k in KINDS:
        out = []
        for what, v in layouts[k]:
            if what == "lit":
                out.append(("lit", v, lex_literal(v, lits, kws, singles)))
            else:
                out.append(("arg", v))
        lay2[k] = out
    # ---- productions
    y = open(os.path.join(repo, "src", "parser.y")).read()
    gram = exprgrammar.strip_c_comments(y.split("\n%%")[1])
    rules = exprgrammar.split_rules(gram)
    prods = []
    for nt in NONTERMINALS:
        if nt not in rules:
            raise TranslateError("nonterminal %s not found in parser.y" % nt)
        for alt in rules[nt]:
            calls = ["%s(%s)" % (fn, re.sub(r"\s+", "", args)) for _pos, fn, args in exprgrammar.calls_of(alt)]
            prods.append((nt, alt["symbols"], calls))
    qtoks = []
    for k in KINDS:
        for it in lay2[k]:
            if it[0] == "lit":
                qtoks += it[2]
    for nt, syms, _ in prods:
        qtoks += [s for s in syms if s.startswith("'") or s.startswith("T_")]
    smclits = {nm: lex_literal(txt, lits, kws, singles) for nm, txt in SMC_LITERALS.items()}
    for v in smclits.values():
        qtoks += v
    pk = sorted((w, t) for w, t in kws.items() if t in set(qtoks))
    return dict(layouts=lay2, prods=prods, qtoks=sorted(set(qtoks)), propkw=pk, singles=sorted(singles), smclits=smclits)


def lean_str(s):
    return '"' + s.replace("\\", "\\\\").replace('"', '\\"').replace("\n", "\\n") + '"'


def emit(Q):
    o = ["/- GENERATED by translate/query_tables.py from src/expression.cpp (expression_t::print), src/parser.y, src/lexer.l,",
         "   src/keywords.cpp on every check run -- do not edit. -/", "namespace UtapModel.QueryTables", "",
         "/-- an item of a print layout: the terminals of a string literal the printer writes, or the operand printed at that place -/",
         "inductive LItem where", "  | lit (text : String) (toks : List String)", "  | arg (i : Nat)", "deriving DecidableEq, Repr", "",
         "/-- `expression_t::print`, query kinds: kind ↦ what is written, in order -/",
         "def printLayouts : List (String × List LItem) := ["]
    rows = []
    for k, items in Q["layouts"].items():
        its = ", ".join((".lit %s [%s]" % (lean_str(i[1]), ", ".join(lean_str(t) for t in i[2]))) if i[0] == "lit" else ".arg %d" % i[1]
                        for i in items)
        rows.append("  (%s, [%s])" % (lean_str(k), its))
    o.append(",\n".join(rows))
    o += ["]", "", "/-- the LIST case of `print` is the comma-join loop (skeleton match in the translator) -/", "def listIsCommaJoin : Bool := true", "",
          "/-- query productions of parser.y: (left-hand side, right-hand side symbols, builder callbacks of the action in order) -/",
          "def queryProds : List (String × List String × List String) := ["]
    o.append(",\n".join("  (%s, [%s], [%s])" % (lean_str(nt), ", ".join(lean_str(s) for s in syms), ", ".join(lean_str(c) for c in calls))
                        for nt, syms, calls in Q["prods"]))
    o += ["]", "", "/-- terminals that occur in the layouts and productions above -/",
          "def queryTokNames : List String := [%s]" % ", ".join(lean_str(t) for t in Q["qtoks"]), "",
          "/-- the literals written by the print cases of the statistical queries (PROBA_BOX / PROBA_DIAMOND / PROBA_EXP / SIMULATE) and by",
          "    print_bound_type, by role, as terminals; the cases themselves were matched as whole texts by the translator -/",
          "def smcLits : List (String × List String) := [%s]" % ", ".join("(%s, [%s])" % (lean_str(k), ", ".join(lean_str(t) for t in v)) for k, v in Q["smclits"].items()), "",
          "/-- words of keywords.cpp that are keywords in the property syntax and occur above: (word, terminal) -/",
          "def propertyKeywords : List (String × String) := [%s]" % ", ".join("(%s, %s)" % (lean_str(w), lean_str(t)) for w, t in Q["propkw"]), "",
          "/-- the one-letter rules of lexer.l (`\"A\" { .. return 'A'; }`) -/",
          "def singleLetterToks : List String := [%s]" % ", ".join(lean_str(x) for x in Q["singles"]), "", "end UtapModel.QueryTables", ""]
    return "\n".join(o)


def translate(repo="/repo"):
    Q = extract(repo)
    return emit(Q), {"layouts": len(Q["layouts"]), "productions": len(Q["prods"]), "terminals": len(Q["qtoks"])}


if __name__ == "__main__":
    text, summary = translate(sys.argv[1] if len(sys.argv) > 1 else "/repo")
    sys.stdout.write(text)
    sys.stderr.write(repr(summary) + "\n")
