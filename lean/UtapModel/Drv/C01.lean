/- stub: line-protocol driver for C01 (to be written) -/
def main : IO Unit := pure ()
