/-
C17 — analysis methods are reported as supported only when the model permits them.

The objects (Model/Feature.lean):
* `reported cfg m`   the verdict `Document::get_supported_methods()` returns after `FeatureChecker` ran over the abstract
                     document `m`; `cfg` are the decisions of the C++ source.  `Cfg.current` is regenerated from
                     `/repo/src/featurechecker.cpp` + `expression.cpp` on every run (translate/feature.py); the theorems
                     below are proved for EVERY configuration, so they hold for whatever the source says today.
* `SpecSymbolic m`, `SpecStochastic m`, `SpecConcrete m`   the property statement: every sub-expression of every guard and
                     invariant of every instantiated template, every relational operator, both operand orders, every
                     element of an update list, global and local declarations, channel arrays and local channels.
                     "A floating-point value" is an operand that is one or is computed from one (`hasFp`: some sub-expression
                     has floating-point type, whatever the type of the operators above it: `i = fint(d)`, `x >= i + fint(d)`).
* `shapesOf m`       the placements of restricting features present in `m`; `exceptions cfg` the computed set of
                     placements the configured checker does not inspect (`detects cfg s = false`).

Full-strength statement (NOT provable for the pinned commit, `exceptions Cfg.original` has 32 elements):
    theorem C17_full (m : Doc) : Sound Cfg.current m
What is proved instead, for all documents of any size:
    `C17_partial`: `Sound cfg m` for every `m` none of whose placements lies in `exceptions cfg`
    `C17_witness_original`: `¬ Sound Cfg.original (witness s)` for every `s ∈ exceptions Cfg.original`
    `C17_full_of_no_exceptions`: the full statement for any configuration whose exception set is empty
    `C17_repaired_exceptions`: after proposed_fixes/C17-feature-placements.diff only the two "rate below a quantifier"
                               placements remain
plus `C17_uninstantiated` and `C17_order_irrelevant` (both full strength).
-/
import UtapModel.Lemmas.FeatureMain

namespace UtapModel.C17
open UtapModel UtapModel.Feature

/-- the three "only if" clauses of the property -/
def Sound (cfg : Cfg) (m : Doc) : Prop :=
  ((reported cfg m).symbolic = true → SpecSymbolic m) ∧
  ((reported cfg m).stochastic = true → SpecStochastic m) ∧
  ((reported cfg m).concrete = true → SpecConcrete m)

instance (cfg : Cfg) (m : Doc) : Decidable (Sound cfg m) := by unfold Sound; infer_instance

theorem mem_exceptions (cfg : Cfg) (s : Shape) : s ∈ exceptions cfg ↔ s ∈ allShapes ∧ detects cfg s = false := by
  simp [exceptions]

/-- symbolic analysis is reported only if the statement allows it — for every configuration and every document all of
    whose restricting features sit at placements the configuration inspects -/
theorem C17_symbolic_partial (cfg : Cfg) (m : Doc) (hs : ∀ s ∈ shapesOf m, detects cfg s = true)
    (h : (reported cfg m).symbolic = true) : SpecSymbolic m := by
  have hnt := not_throws cfg m hs
  rw [reported_eq cfg m hnt] at h
  simp only [Bool.not_eq_true', Bool.or_eq_false_iff] at h
  obtain ⟨⟨hdyn, hg⟩, ht⟩ := h
  simp only [throws, Bool.or_eq_false_iff] at hnt
  refine ⟨hdyn, ?_, ?_⟩
  · intro s hmem
    exact (frame_ok cfg false m.gframe hnt.1 hg
      (fun s h => hs s (by simp only [shapesOf, List.mem_append]; exact Or.inl h)) s hmem).1
  · intro t htm hti
    have hsh : ∀ s ∈ templShapes t, detects cfg s = true := fun s h => hs s (by
      simp only [shapesOf, List.mem_append, List.mem_flatMap]
      exact Or.inr ⟨t, htm, by simpa [hti] using h⟩)
    have hlost : templLost cfg t = false := by
      simp only [anyVisited, List.any_eq_false] at ht
      simpa [hti] using ht t htm
    have hthr : frameThrows cfg t.frame = false := by
      have := hnt.2
      simp only [anyVisited, List.any_eq_false] at this
      simpa [hti] using this t htm
    simp only [templLost, Bool.or_eq_false_iff] at hlost
    refine ⟨?_, ?_⟩
    · exact frame_ok cfg true t.frame hthr hlost.1
        (fun s h => hsh s (by simp only [templShapes, List.mem_append]; exact Or.inl h))
    · intro e hem
      have hel : edgeLost cfg e = false := by
        have := hlost.2
        simp only [List.any_eq_false] at this
        simpa using this e hem
      exact edge_ok cfg e hel (fun s h => hsh s (by
        simp only [templShapes, List.mem_append, List.mem_flatMap]; exact Or.inr ⟨e, hem, h⟩))

example : ∃ m : Doc, (∀ s ∈ shapesOf m, detects Cfg.original s = true) ∧ (reported Cfg.original m).symbolic = true ∧ m.templs ≠ [] :=
  ⟨{ dyn := false, prio := false, gframe := [.var { clkD := true, clkS := true } (.node .kCONSTANT {} (.int 2) [])],
     templs := [{ inst := true, dynamic := false, frame := [], edges := [] }] }, by decide⟩

/-- stochastic analysis is reported only if every declared channel is broadcast and there are no priorities -/
theorem C17_stochastic_partial (cfg : Cfg) (m : Doc) (hs : ∀ s ∈ shapesOf m, detects cfg s = true)
    (h : (reported cfg m).stochastic = true) : SpecStochastic m := by
  have hnt := not_throws cfg m hs
  rw [reported_eq cfg m hnt] at h
  simp only [Bool.not_eq_true', Bool.or_eq_false_iff] at h
  obtain ⟨⟨hprio, hg⟩, ht⟩ := h
  refine ⟨hprio, ?_, ?_⟩
  · exact chan_ok cfg false m.gframe hg (fun s h => hs s (by simp only [shapesOf, List.mem_append]; exact Or.inl h))
  · intro t htm hti
    have hsh : ∀ s ∈ t.frame.flatMap (symShapes true), detects cfg s = true := fun s h => hs s (by
      simp only [shapesOf, List.mem_append, List.mem_flatMap]
      refine Or.inr ⟨t, htm, ?_⟩
      simp only [hti, if_true, templShapes, List.mem_append]
      exact Or.inl h)
    by_cases hl : cfg.chanLocalFrames = true
    · have hv : visitFrame cfg t.frame = false := by
        simp only [hl, Bool.true_and, anyVisited, List.any_eq_false] at ht
        simpa [hti] using ht t htm
      exact chan_ok cfg true t.frame hv hsh
    · -- local frames are not scanned: a non-broadcast local channel would be a placement outside the inspected ones
      intro sym hmem
      refine Bool.eq_false_iff.mpr (fun hb => ?_)
      cases sym with
      | tdef f => simp [badChan] at hb
      | other f => simp [badChan] at hb
      | loc f inv => simp [badChan] at hb
      | var f init =>
        have hd := hsh (.chan true (!(f.chD && !f.bcD)))
          (List.mem_flatMap.mpr ⟨.var f init, hmem, by simp [symShapes, hb]⟩)
        simp [detects, hl] at hd

/-- concrete simulation is reported only if there are no priorities -/
theorem C17_concrete_partial (cfg : Cfg) (m : Doc) (hs : ∀ s ∈ shapesOf m, detects cfg s = true)
    (h : (reported cfg m).concrete = true) : SpecConcrete m := by
  have hnt := not_throws cfg m hs
  rw [reported_eq cfg m hnt] at h
  simpa [SpecConcrete] using h

/-- **C17, outside the computed exception set**: for every configuration of the checker and every document none of whose
    restricting features sits at a placement of `exceptions cfg`, each method is reported only if the statement allows it -/
theorem C17_partial (cfg : Cfg) (m : Doc) (hs : ∀ s ∈ shapesOf m, s ∉ exceptions cfg) : Sound cfg m := by
  have hd : ∀ s ∈ shapesOf m, detects cfg s = true := by
    intro s hmem
    cases hdt : detects cfg s with
    | true => rfl
    | false => exact absurd ((mem_exceptions cfg s).mpr ⟨shapesOf_in_all m s hmem, hdt⟩) (hs s hmem)
  exact ⟨C17_symbolic_partial cfg m hd, C17_stochastic_partial cfg m hd, C17_concrete_partial cfg m hd⟩

/-- a configuration with an empty exception set satisfies the property at full strength -/
theorem C17_full_of_no_exceptions (cfg : Cfg) (h : exceptions cfg = []) (m : Doc) : Sound cfg m :=
  C17_partial cfg m (fun s _ => by simp [h])

/-- the placements the checker of the pinned commit does not inspect (what `exceptions` computes for it) -/
theorem C17_original_exceptions :
    (exceptions Cfg.original).map Shape.key =
      ["cmp:guard/root/NEQ", "cmp:guard/root/GE", "cmp:guard/root/GT",
       "cmp:guard/nested/LT", "cmp:guard/nested/LE", "cmp:guard/nested/EQ", "cmp:guard/nested/NEQ", "cmp:guard/nested/GE",
       "cmp:guard/nested/GT",
       "cmp:invariant/root/LT", "cmp:invariant/root/LE", "cmp:invariant/root/EQ", "cmp:invariant/root/NEQ",
       "cmp:invariant/root/GE", "cmp:invariant/root/GT",
       "cmp:invariant/nested/LT", "cmp:invariant/nested/LE", "cmp:invariant/nested/EQ", "cmp:invariant/nested/NEQ",
       "cmp:invariant/nested/GE", "cmp:invariant/nested/GT",
       "assign:hybrid-in-value", "init:clock-array", "rate:int/non-conjunct", "rate:double/conjunct", "rate:double/non-conjunct",
       "chan:global/array", "chan:local/scalar", "chan:local/array"] := by decide

/-- after proposed_fixes/C17-feature-placements.diff only a rate below a quantifier (`forall (i : …) x[i]' == 2`) is missed -/
theorem C17_repaired_exceptions : exceptions Cfg.repaired = [.rateInt false, .rateDbl false] := by decide

/-! ### the negation on a witness per placement -/

namespace W
def clk : FExpr := .node .kIDENTIFIER { clk := true } .none []
def hclk : FExpr := .node .kIDENTIFIER { clk := true, hyb := true, symHyb := true } .none []
def dbl : FExpr := .node .kCONSTANT { dbl := true } (.dbl 2) []
def dvar : FExpr := .node .kIDENTIFIER { dbl := true } .none []
def ivar : FExpr := .node .kIDENTIFIER {} .none []
def int (n : Int) : FExpr := .node .kCONSTANT {} (.int n) []
def tt : FExpr := int 1
def bin (k : Kind) (a b : FExpr) : FExpr := .node k {} .none [a, b]
def rate (c : FExpr) : FExpr := .node .kRATE {} .none [c]
def doc (gframe : List FSym) (frame : List FSym) (guard assign : FExpr) : Doc :=
  { dyn := false, prio := false, gframe := gframe,
    templs := [{ inst := true, dynamic := false, frame := frame, edges := [{ guard := guard, assign := assign }] }] }
end W

open W in
/-- a smallest document exhibiting the placement -/
def witness : Shape → Doc
  | .cmp .guard true k => doc [] [] (bin k clk dbl) tt
  | .cmp .guard false k => doc [] [] (bin .kAND (bin .kEQ ivar (int 0)) (bin k dbl clk)) tt
  | .cmp .inv true k => doc [] [.loc {} (bin k clk dbl)] tt tt
  | .cmp .inv false k => doc [] [.loc {} (bin .kAND tt (bin k clk dbl))] tt tt
  | .assign false => doc [] [] tt (bin .kCOMMA (bin .kASSIGN ivar (int 1)) (.node .kASSIGN { clk := true } .none [clk, dbl]))
  | .assign true => doc [] [] tt (.node .kASSIGN { dbl := true } .none [dvar, .node .kMULT { dbl := true } .none [hclk, dbl]])
  | .init false => doc [.var { clkD := true, clkS := true } dbl] [] tt tt
  | .init true => doc [] [.var { clkS := true } (.node .kLIST {} .none [int 1, dbl])] tt tt
  | .rateInt true => doc [] [.loc {} (bin .kAND (bin .kAND tt (bin .kLE clk (int 5))) (bin .kEQ (int 2) (rate clk)))] tt tt
  | .rateInt false => doc [] [.loc {} (bin .kAND tt (bin .kFORALL ivar (bin .kEQ (rate clk) (int 2))))] tt tt
  | .rateDbl true => doc [] [.loc {} (bin .kAND tt (bin .kEQ (rate clk) dbl))] tt tt
  | .rateDbl false => doc [] [.loc {} (bin .kAND tt (bin .kFORALL ivar (bin .kEQ (rate clk) dbl)))] tt tt
  | .chan false false => doc [.var { chD := true, chS := true } .empty] [] tt tt
  | .chan false true => doc [.var { chS := true } .empty] [] tt tt
  | .chan true false => doc [] [.var { chD := true, chS := true } .empty] tt tt
  | .chan true true => doc [] [.var { chS := true } .empty] tt tt

/-- the witness of a placement contains that placement -/
theorem C17_witness_has_shape : ∀ s ∈ allShapes, s ∈ shapesOf (witness s) := by decide

/-- at the pinned commit, every placement of the computed exception set breaks the property on its witness -/
theorem C17_witness_original : ∀ s ∈ exceptions Cfg.original, ¬ Sound Cfg.original (witness s) := by decide

/-- and the placements outside it do not (the witnesses are sharp) -/
theorem C17_witness_inspected : ∀ s ∈ allShapes, detects Cfg.original s = true → Sound Cfg.original (witness s) := by decide

/-! ### templates that are never instantiated, order of declarations -/

/-- two documents that differ only in templates that are never instantiated get the same verdict -/
theorem C17_uninstantiated (cfg : Cfg) (m m' : Doc) (hd : m.dyn = m'.dyn) (hp : m.prio = m'.prio) (hg : m.gframe = m'.gframe)
    (ht : m.templs.filter (·.inst) = m'.templs.filter (·.inst)) : reported cfg m = reported cfg m' := by
  have key : ∀ f : Templ → Bool, anyVisited m f = anyVisited m' f := by
    intro f
    simp only [anyVisited, ← List.any_filter, ht]
  simp [reported, check, throws, key, hd, hp, hg]

example : ∃ m m' : Doc, m.templs.filter (·.inst) = m'.templs.filter (·.inst) ∧ m.templs.length ≠ m'.templs.length :=
  ⟨witness (.chan false false),
   { witness (.chan false false) with templs := (witness (.cmp .guard true .kLT)).templs.map (fun t => { t with inst := false })
                                                  ++ (witness (.chan false false)).templs }, rfl, by decide⟩

/-- the verdict does not depend on the order of declarations: templates, entries of the global frame, entries of a
    template's frame (variables, locations), edges -/
theorem C17_order_irrelevant (cfg : Cfg) (m m' : Doc) (hd : m.dyn = m'.dyn) (hp : m.prio = m'.prio)
    (hg : m.gframe.Perm m'.gframe) (ht : ∃ l, m.templs.Perm l ∧ Pointwise Templ.Equiv l m'.templs) :
    reported cfg m = reported cfg m' := by
  have e1 : frameThrows cfg m.gframe = frameThrows cfg m'.gframe := hg.any_eq
  have e2 : frameLost cfg m.gframe = frameLost cfg m'.gframe := hg.any_eq
  have e3 : visitFrame cfg m.gframe = visitFrame cfg m'.gframe := hg.any_eq
  have e4 := anyVisited_congr m m' (fun t => frameThrows cfg t.frame) (fun a b hab => hab.2.1.any_eq) ht
  have e5 := anyVisited_congr m m' (fun t => visitFrame cfg t.frame) (fun a b hab => hab.2.1.any_eq) ht
  have e6 := anyVisited_congr m m' (templLost cfg) (fun a b hab => by
    simp only [templLost, frameLost]; rw [hab.2.1.any_eq, hab.2.2.any_eq]) ht
  simp [reported, check, throws, e1, e2, e3, e4, e5, e6, hd, hp]

example : ∃ m m' : Doc, m.gframe.Perm m'.gframe ∧ (∃ l, m.templs.Perm l ∧ Pointwise Templ.Equiv l m'.templs) ∧
    m.gframe.map (fun s => match s with | .tdef _ => true | _ => false) ≠ m'.gframe.map (fun s => match s with | .tdef _ => true | _ => false) :=
  ⟨{ witness (.chan false false) with gframe := [.tdef {}, .other {}] },
   { witness (.chan false false) with gframe := [.other {}, .tdef {}] },
   List.Perm.swap _ _ _, ⟨_, List.Perm.refl _, .cons ⟨rfl, List.Perm.refl _, List.Perm.refl _⟩ .nil⟩, by decide⟩

end UtapModel.C17
