/- Property C14 -- typing of commutative operators and inline-if is symmetric in its operands; reference-parameter
   equivalence is symmetric.

   Every theorem is about the rules regenerated from the *current* src/typechecker.cpp + include/utap/type.h
   (UtapModel/Gen/TypeClauses.lean) and quantifies over ALL types `Ty` (arbitrary nesting of prefixes, REF, LABEL,
   RANGE, ARRAY, RECORD), i.e. over all operand expressions through their types.  No bound.

   On the unchanged tree two obligations fail (Lemmas `body_W2`: `isSameScalarType` tests kind `EF` instead of `REF`
   for its second operand; `iif_core`: `areInlineIfCompatible` tests `t1` twice) -- see proposed_fixes/C14-*.diff.
   With both one-token fixes everything below holds; the only remaining deviation from the property's text is the
   computed set `kindExceptions` (two different *integral* result kinds, e.g. `b ? 1 : true` has type int while
   `!b ? true : 1` has type bool) -- `inlineIf_kind_symm_partial` excludes exactly that set and
   `inlineIf_kind_witness` shows it is inhabited. -/
import UtapModel.Lemmas.C14
namespace UtapModel.C14
open UtapModel.Types UtapModel.TypeClauses UtapModel.TypeBasics

/-- the operators the property lists: + * == != && || & | ^ <? >? -/
def commutativeOps : List BinOp := [.PLUS, .MULT, .EQ, .NEQ, .AND, .OR, .BIT_AND, .BIT_OR, .BIT_XOR, .MIN, .MAX]

/-! ### equivalence of types -/

/-- scalar-set name equivalence is symmetric (fails on the unfixed tree: F-C14-2) -/
theorem isSameScalarType_symm (t1 t2 : Ty) : isSameScalarType t1 t2 = isSameScalarType t2 t1 :=
  UtapModel.C14.isSameScalarType_symm' t1 t2

/-- `TypeChecker::areEquivalent` is symmetric -/
theorem areEquivalent_symm (a b : Ty) : areEquivalent a b = areEquivalent b a := areEquivalent_symm' a b

/-- `TypeChecker::areEqCompatible` is symmetric -/
theorem areEqCompatible_symm (a b : Ty) : areEqCompatible a b = areEqCompatible b a := areEqCompatible_symm' a b

/-! ### commutative binary operators -/

/-- the finite core: on primitive operand types every listed operator gives the same verdict in both orders
    (complete table: 11 operators x 39 x 39 kinds, kernel evaluation) -/
theorem typeBin_symm_prims : ∀ op ∈ commutativeOps, ∀ ka kb : TK,
    typeBin op (.prim ka) (.prim kb) = typeBin op (.prim kb) (.prim ka) := by
  decide +kernel

/-- FULL STRENGTH: for every listed operator and all operand types, swapping the operands changes neither whether the
    expression is accepted (`none` = a diagnostic) nor its result type -/
theorem typeBin_symm (op : BinOp) (h : op ∈ commutativeOps) (a b : Ty) : typeBin op a b = typeBin op b a := by
  by_cases h1 : op = .EQ
  · subst h1; exact typeBin_EQ_symm a b
  by_cases h2 : op = .NEQ
  · subst h2; exact typeBin_NEQ_symm a b
  rw [typeBin_prims op ⟨h1, h2⟩ a b, typeBin_prims op ⟨h1, h2⟩ b a]
  exact typeBin_symm_prims op h _ _

example : BinOp.PLUS ∈ commutativeOps := by decide

/-! ### inline-if -/

/-- `c` is acceptable as the condition of an inline-if (observed through the generated rule itself) -/
def condOk (c : Ty) : Bool := (inlineIf c (.prim .INT) (.prim .INT)).isSome

theorem condOk_eq (c : Ty) : condOk c = (h_is_integral c || h_is_guard c) := by
  simp only [condOk, inlineIf_eq]
  cases h : (h_is_integral c || h_is_guard c) <;> simp <;> decide

/-- observation of a verdict: `none` = rejected, `some k` = accepted with a result type of terminal kind `k` -/
abbrev verdict (r : Option Ty) : Option TK := obs r

/-- Swapping the branches of an inline-if (with any condition of the same acceptability, in particular the negated
    one) gives verdicts that `agree`: both rejected, or both accepted with the same result kind, or both accepted with
    a pair of kinds in `kindExceptions`. -/
theorem inlineIf_symm (c c' a b : Ty) (hc : condOk c = condOk c') :
    agree (verdict (inlineIf c a b)) (verdict (inlineIf c' b a)) = true := by
  rw [condOk_eq, condOk_eq] at hc
  simp only [verdict, inlineIf_eq, hc]
  cases (h_is_integral c' || h_is_guard c')
  · rfl
  · exact iif_core a b

example (c : Ty) : condOk c = condOk c := rfl

/-- FULL STRENGTH (acceptance): swapping the branches never changes whether the inline-if is accepted
    (fails on the unfixed tree: F-C14-1) -/
theorem inlineIf_accept_symm (c c' a b : Ty) (hc : condOk c = condOk c') :
    (inlineIf c a b).isSome = (inlineIf c' b a).isSome := by
  have h := inlineIf_symm c c' a b hc
  cases h1 : inlineIf c a b <;> cases h2 : inlineIf c' b a <;> simp_all [agree, obs]

/-- PARTIAL (result kind): outside the computed exception set the result kinds are equal.
    Full statement `verdict (inlineIf c a b) = verdict (inlineIf c' b a)` is false of the unchanged rules:
    see `inlineIf_kind_witness`. -/
theorem inlineIf_kind_symm_partial (c c' a b : Ty) (hc : condOk c = condOk c') (ra rb : Ty)
    (h1 : inlineIf c a b = some ra) (h2 : inlineIf c' b a = some rb)
    (hex : (ra.term, rb.term) ∉ kindExceptions) : ra.term = rb.term := by
  have h := inlineIf_symm c c' a b hc
  simp only [verdict, h1, h2, obs, Option.map, agree, Bool.or_eq_true, beq_iff_eq, Option.some.injEq] at h
  rcases h with h | h
  · exact h
  · exact absurd (List.contains_iff_mem.mp h) hex

example : ∀ k : TK, (k, k) ∉ kindExceptions := by decide
/-- the exception set is exactly: two different integral kinds -/
theorem kindExceptions_spec : ∀ k1 k2 : TK,
    ((k1, k2) ∈ kindExceptions) ↔ (ty_is_integral (.prim k1) = true ∧ ty_is_integral (.prim k2) = true ∧ k1 ≠ k2) := by
  decide +kernel

/-- the exact exception set (what the rules really do on primitive branch types) lies inside `kindExceptions`, and
    every member of it is a real asymmetry of the rules: both orders accepted, different result kinds.
    On the unchanged tree it is {(INT,BOOL), (BOOL,INT)} and pairs with the integral kinds PROCESS_VAR / LOCATION /
    LOCATION_EXPR: `b ? 1 : true` is typed int, `!b ? true : 1` is typed bool. -/
theorem exactKindExceptions_spec : ∀ e ∈ exactKindExceptions, e ∈ kindExceptions ∧
    ∃ ka kb : TK, verdict (inlineIf (.prim .BOOL) (.prim ka) (.prim kb)) = some e.1 ∧
                  verdict (inlineIf (.prim .BOOL) (.prim kb) (.prim ka)) = some e.2 ∧ e.1 ≠ e.2 := by
  decide +kernel

/-- the negated condition: for an integral condition `c`, `!c` is typed (BOOL) and is an acceptable condition, so
    `c ? a : b` and `!c ? b : a` agree -/
theorem inlineIf_negated_cond (c a b : Ty) (hc : ty_is_integral c = true) :
    ∃ nc, typeUn .NOT c = some nc ∧ agree (verdict (inlineIf c a b)) (verdict (inlineIf nc b a)) = true := by
  refine ⟨.prim .BOOL, ?_, ?_⟩
  · unfold_type_cases; simp [h_is_integral, hc, Ty.isUnknown, Ty.kind]
  · apply inlineIf_symm
    rw [condOk_eq, condOk_eq]
    simp [h_is_integral, hc]; decide


/-! ### `==` and `!=` in the observations of a partially observable game query

`{ observations } control: goal` restricts the clock comparisons it may contain (`TypeChecker::checkObservationConstraints`, run by
`visitProperty` over the whole query).  The two tests are regenerated from the source as `obsInvalid` and `obsDifference`. -/

/-- FULL STRENGTH: whether `a == b` / `a != b` is rejected as an observation does not depend on the order of its operands -/
theorem obsRejected_symm (k : BinOp) (hk : k = .EQ ∨ k = .NEQ) (a b : Ty) : obsRejected k a b = obsRejected k b a := by
  rcases hk with rfl | rfl <;>
    simp only [obsRejected, obsInvalid, obsDifference] <;>
    cases h_is_clock a <;> cases h_is_clock b <;> cases h_is_integral a <;> cases h_is_integral b <;>
    cases h_is_integer a <;> cases h_is_integer b <;> cases h_is_diff a <;> cases h_is_diff b <;> rfl

/-- together with the typing rule: the verdict on `{ a == b } control: ..` is that on `{ b == a } control: ..` -/
theorem observation_verdict_symm (k : BinOp) (hk : k = .EQ ∨ k = .NEQ) (a b : Ty) :
    ((typeBin k a b).isNone || obsRejected k a b) = ((typeBin k b a).isNone || obsRejected k b a) := by
  have hmem : k ∈ commutativeOps := by rcases hk with rfl | rfl <;> decide
  rw [typeBin_symm k hmem a b, obsRejected_symm k hk a b]

/-! ### reference parameters -/

/-- a modifiable lvalue argument is accepted for a (const) reference parameter of non-channel type exactly when
    `areEquivalent` holds, in whichever order the two types are given -/
theorem refParam_iff_equivalent (p a : Ty) (href : p.is .REF = true)
    (hch : (ty_is_channel p && ty_is_channel a) = false) :
    isParameterCompatible p a true = areEquivalent a p ∧ isParameterCompatible p a true = areEquivalent p a := by
  have : isParameterCompatible p a true = areEquivalent a p := by
    simp [isParameterCompatible, href, hch]
  exact ⟨this, by rw [this, areEquivalent_symm]⟩

example : (Ty.ref (.prim .INT)).is .REF = true ∧
    (ty_is_channel (Ty.ref (.prim .INT)) && ty_is_channel (.prim .INT)) = false := by decide

/-! ### "whichever of the two carries the reference or const wrapper"

`wfTy` only excludes type trees that `type_t` cannot build (a childless node of kind REF / LABEL / RANGE / ARRAY / RECORD
or of a prefix kind); for those the C++ accessors would read past a node. -/

/-- the fuel the recursive rules are run with is adequate: more fuel never changes the answer -/
theorem areEquivalent_fuel_adequate (a b : Ty) (wa : wfTy a = true) (wb : wfTy b = true) (m : Nat)
    (hm : a.size + b.size ≤ m) : areEquivalentF m a b = areEquivalent a b :=
  (aeF_adequate _ m a b wa wb (Nat.le_refl _) hm).symm

theorem isSameScalarType_fuel_adequate (a b : Ty) (wa : wfTy a = true) (wb : wfTy b = true) (m : Nat)
    (hm : a.size + b.size ≤ m) : isSameScalarTypeF m a b = isSameScalarType a b :=
  (sstF_adequate _ m a b wa wb (Nat.le_refl _) hm).symm

/-- a REF wrapper on either side does not change equivalence (fails on the unfixed tree: F-C14-2) -/
theorem areEquivalent_ref (a b : Ty) (wa : wfTy a = true) (wb : wfTy b = true) :
    areEquivalent (.ref a) b = areEquivalent a b ∧ areEquivalent a (.ref b) = areEquivalent a b := by
  refine ⟨areEquivalent_ref_left' a b wa wb, ?_⟩
  rw [areEquivalent_symm a (.ref b), areEquivalent_ref_left' b a wb wa, areEquivalent_symm]

/-- a CONSTANT wrapper on either side does not change equivalence -/
theorem areEquivalent_const (a b : Ty) (wa : wfTy a = true) (wb : wfTy b = true) :
    areEquivalent (.pfx .CONSTANT a) b = areEquivalent a b ∧ areEquivalent a (.pfx .CONSTANT b) = areEquivalent a b := by
  refine ⟨areEquivalent_const_left' a b wa wb, ?_⟩
  rw [areEquivalent_symm a (.pfx .CONSTANT b), areEquivalent_const_left' b a wb wa, areEquivalent_symm]

example : wfTy (.ref (.pfx .CONSTANT (.label 7 (.label 8 (.range (.prim .SCALAR) 1 2))))) = true ∧
    wfTy (.array (.record (.cons 1 (.prim .INT) (.cons 2 (.prim .BOOL) .nil))) (.range (.prim .INT) 1 2)) = true := by decide

/-- FULL STRENGTH (reference parameters): a modifiable lvalue of type `a` is accepted for a parameter `T &p` or
    `const T &p` (non-channel) exactly when `a` and `T` are equivalent -- the same verdict as for the unwrapped types in
    either order, i.e. it does not matter which of the two carries the reference or const wrapper -/
theorem refParam_symm (t a : Ty) (wt : wfTy t = true) (wa : wfTy a = true)
    (hch : (ty_is_channel t && ty_is_channel a) = false) :
    isParameterCompatible (.ref t) a true = areEquivalent t a ∧
    isParameterCompatible (.ref (.pfx .CONSTANT t)) a true = areEquivalent t a ∧
    isParameterCompatible (.ref a) t true = areEquivalent t a := by
  have h1 : (ty_is_channel (.ref t) && ty_is_channel a) = false := by
    simpa [ty_is_channel, Ty.is] using hch
  have h2 : (ty_is_channel (.ref (.pfx .CONSTANT t)) && ty_is_channel a) = false := by
    simpa [ty_is_channel, Ty.is, Pfx.toTK] using hch
  have h3 : (ty_is_channel (.ref a) && ty_is_channel t) = false := by
    rw [Bool.and_comm]; simpa [ty_is_channel, Ty.is] using hch
  refine ⟨?_, ?_, ?_⟩
  · rw [(refParam_iff_equivalent (.ref t) a (by simp [Ty.is]) h1).2, (areEquivalent_ref t a wt wa).1]
  · have wc : wfTy (.pfx .CONSTANT t) = true := by simpa [wfTy] using wt
    rw [(refParam_iff_equivalent (.ref (.pfx .CONSTANT t)) a (by simp [Ty.is]) h2).2,
        (areEquivalent_ref (.pfx .CONSTANT t) a wc wa).1, (areEquivalent_const t a wt wa).1]
  · rw [(refParam_iff_equivalent (.ref a) t (by simp [Ty.is]) h3).1, (areEquivalent_ref t a wt wa).2]

end UtapModel.C14
