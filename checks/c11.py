"""C11 -- expressions that must be side-effect free are rejected if they can write state (DESIGN.md section 4, C11).

 1 translate   src/expression.cpp (get_symbols, collect_possible_writes/reads), include/utap/statement.h + src/statement.cpp
               (statement classes, ExpressionVisitor), src/typechecker.cpp (visitFunction, check sites, checkType: which
               children of a type are checked) -> lean/UtapModel/Gen/EffectGen.lean   (tie T: tables regenerated every run)
 2 prove       UtapModel.Props.C11: MayWrite -> changesAny for every program / expression (all statement forms, call
               chains, reference parameters), twin theorem, context table; the size of every dimension of an array type is
               handed to the checks (C11_every_dimension_checked)                         (all inputs, no bound)
 3 correspond  real function bodies and context expressions (dumped by harness/c11.cpp after parse_XML_buffer /
               parse_XTA) through the Lean model (drv_c11): function_t::changes / depends, changes_any_variable,
               isCompileTimeComputable compared one by one                             (tie C)
 4 search      direct oracle on the implementation: contexts (every kind of declaration and every dimension for array
               sizes) x write forms -> must be rejected, write-free twin -> must be accepted; writers whose parameters /
               locals carry the name of the global they write; writers whose only write to a global sits inside the target
               of an assignment to one of their locals (index, condition of an inline-if); synchronisations whose channel is
               an inline-if over channels / channel arrays; random programs (with such name clashes and such targets) with
               an independent may-write computation
"""
import os
import re
import sys

from vlib import core

sys.path.insert(0, os.path.join(core.VERIF, "translate"))
import effects  # noqa: E402
from checks import c11gen as G  # noqa: E402

GEN = os.path.join(core.LEAN_DIR, "UtapModel", "Gen", "EffectGen.lean")
MODULE = "UtapModel.Props.C11"
MAX_REPORTED = 20      # distinct failing shapes written as replays per run (all are counted in the evidence)
PID = "C11"

POST_PRE = [("%s++", "post++"), ("%s--", "post--"), ("++%s", "pre++"), ("--%s", "pre--")]


def direct_write(target, op):
    if op in G.ASSIGN_OPS:
        return "(%s %s 1)" % (target, op)
    return "(" + dict((n, f) for f, n in POST_PRE)[op] % target + ")"


def twin_expr(cx, read="(w + 1)"):
    return "(C + 1)" if cx["ctc"] else read


# ------------------------------------------------------------------------------------------------------------------
# systematic matrix: contexts x write forms, each with its twin

def gen_matrix(ctx):
    r = ctx.rng
    ctxs = G.contexts()
    ctxs.update(conditional_sync_contexts())
    cases = []
    n = [0]

    def add(cn, e, pre, expect, shape, fmt=None, meta=None):
        n[0] += 1
        fmt = fmt or ("xta" if (n[0] % 5 == 0) else "xml")
        cases.append(G.build_case("m%d" % n[0], cn, ctxs[cn], e, pre, expect, shape, fmt, meta))

    all_ops = G.ASSIGN_OPS + [nm for _, nm in POST_PRE]
    targets = list(G.TARGETS)
    stmt_forms = list(G.STMT_FORMS)
    full = True        # the whole matrix in both tiers (the plain build runs ~1500 models/s); thorough adds sanitizers on all of it
    core_ctx = {"guard", "invariant", "sync-index", "probability", "select-domain", "init-global", "init-template", "init-local",
                "array-size", "range-bound", "typedef-range-bound", "inst-arg", "quantified-body-guard", "quantified-body-exists",
                "quantified-body-sum", "quantified-body-function", "assertion", "query-AG", "query-EF", "query-leadsto", "query-quantified"}
    for cn, cx in ctxs.items():
        # contexts marked `sampled` get a sample of the matrix in the quick tier (as the further query forms would with full = False)
        light = ((cn not in core_ctx) and not full) or (cx.get("sampled") and not ctx.thorough)
        # A. direct writes: every operator on `w`; every target with `=` and one random operator
        for op in all_ops:
            add(cn, direct_write("w", op), "", "reject", "ctx=%s/direct/%s/w" % (cn, op))
        add(cn, twin_expr(cx), "", "accept", "ctx=%s/twin/direct" % cn)
        for t in (targets[1:] if not light else r.sample(targets[1:], 2)):
            ops = all_ops if (full and not light) else ["=", r.choice(all_ops[1:])]
            for op in ops:
                add(cn, direct_write(t, op), "", "reject", "ctx=%s/direct/%s/%s" % (cn, op, t))
            add(cn, twin_expr(cx, "(%s + 1)" % G.TARGETS[t]), "", "accept", "ctx=%s/twin/direct-target/%s" % (cn, t))
        # B. call of a writer: the write sits in every statement form
        for form in (stmt_forms if not light else r.sample(stmt_forms, 5)):
            wes = G.WRITE_EXPRS if (full and not light) else [G.WRITE_EXPRS[0], r.choice(G.WRITE_EXPRS[1:10]), r.choice(G.WRITE_EXPRS[10:])]
            for we in wes:
                add(cn, "wr()", G.writer_function("wr", form, we, False), "reject", "ctx=%s/call/%s/%s" % (cn, form, we))
            tw = "loc + 1" if form == "local-init" else r.choice(G.WRITE_EXPRS[:8])
            pre = G.writer_function("wr", form, tw, form != "local-init")
            add(cn, "wr()", pre, "accept", "ctx=%s/twin/call/%s" % (cn, form))
        # C. call chains of depth 1..4, the inner call placed in a random statement form
        for depth in ((1, 2, 3, 4) if not light else (r.choice([1, 2]), r.choice([3, 4]))):
            for twin in (False, True):
                form0 = r.choice(stmt_forms)
                tw0 = "loc + 1" if (twin and form0 == "local-init") else "w = 1"
                pre = [G.writer_function("f0", form0, tw0, twin and form0 != "local-init")]
                for d in range(1, depth + 1):
                    form = r.choice([f for f in stmt_forms if f != "local-init"])
                    call = "loc = f%d()" % (d - 1) if form != "return" else "f%d()" % (d - 1)
                    pre.append(chain_function("f%d" % d, form, call))
                add(cn, "f%d()" % depth, "\n".join(pre), "accept" if twin else "reject",
                    "ctx=%s/%s/chain-depth-%d" % (cn, "twin" if twin else "call", depth))
        # D. write through a non-constant reference parameter (directly, through a chain, array / struct reference)
        rf = ref_forms(r, cx)
        for shape, pre, e, tpre, te in (rf if not light else r.sample(rf, 3)):
            add(cn, e, pre, "reject", "ctx=%s/ref/%s" % (cn, shape))
            add(cn, te, tpre, "accept", "ctx=%s/twin/ref/%s" % (cn, shape))
        # F. the writer has a parameter or a local variable with the NAME of the global it writes: the may-write set is a set of
        #    symbols, and removing the function's own parameters and locals from it must not remove the global of the same name
        sf = shadow_forms(r, cx)
        for shape, pre, e, tpre, te in (sf if not light else r.sample(sf, 3)):
            add(cn, e, pre, "reject", "ctx=%s/shadow/%s" % (cn, shape))
            add(cn, te, tpre, "accept", "ctx=%s/twin/shadow/%s" % (cn, shape))
        # G. the writer assigns to one of its own locals / value parameters only, and the write to the global sits INSIDE that target
        #    (an index, the condition of an inline-if): removing the function's locals from its may-write set removes the assigned
        #    object, the operands of the target still have to be searched
        lf = local_target_forms(r, cx, ctx.thorough and not light)
        for shape, pre, e, tpre, te in (lf if not light else r.sample(lf, 4)):
            add(cn, e, pre, "reject", "ctx=%s/local-target/%s" % (cn, shape))
            add(cn, te, tpre, "accept", "ctx=%s/twin/local-target/%s" % (cn, shape))
    # E. controls: the same writes where side effects are allowed (update label, function body) are accepted
    wrf = G.writer_function("wr", "nested-loops", "w = 1", False)
    for i, asg in enumerate(["w = 1", "w++, x = w", "arr[x] = wr()", "st.a += 1, wr()", "x = (bb ? w : x) = 2"]):
        n[0] += 1
        kw = dict(gdecl=G.BASE_DECL + wrf + "\n", assign=asg)
        text, kind = (G.xml_model(**kw), "xml") if i % 2 else (G.xta_model(**kw), "xta")
        cases.append(G.Case("m%d" % n[0], kind, text, [], "accept", [], "control/update-label/%s" % asg))
    return cases


def chain_function(name, form, call):
    head = "int %s() { int loc = 0; " % name
    if form == "return":
        return head + "return %s; }" % call
    return head + G.STMT_FORMS[form] % {"W": call} + " return loc; }"


def ref_forms(r, cx):
    """(shape, declarations, expression, twin declarations, twin expression)"""
    out = []
    form = r.choice([f for f in G.STMT_FORMS if f not in ("local-init",)])
    body = G.writer_function("vr", form, "w = 1", False, params="int &r").replace("w = 1", "r = 1")
    tbody = G.writer_function("vr", form, "w = 1", False, params="int r").replace("w = 1", "r = 1")
    rd = "C" if cx["ctc"] else "w"
    for arg, targ in (("w", rd), ("arr[1]", "CA[1]" if cx["ctc"] else "arr[1]"), ("st.a", rd), ("(bb ? w : x)", rd)):
        out.append(("direct/%s/%s" % (form, arg), body, "vr(%s)" % arg, tbody, "vr(%s)" % targ))
    # chains: v1 passes its own reference parameter on
    for depth in (1, 2, 3):
        pre, tpre = [body], [tbody]
        for d in range(1, depth + 1):
            prev = "vr" if d == 1 else "v%d" % (d - 1)
            pre.append("int v%d(int &q) { return %s(q); }" % (d, prev))
            tpre.append("int v%d(int q) { return %s(q); }" % (d, prev))
        out.append(("chain-depth-%d" % depth, "\n".join(pre), "v%d(w)" % depth, "\n".join(tpre), "v%d(%s)" % (depth, rd)))
    # array and struct passed by reference, element / field written
    out.append(("array-ref", "int wa(int &a[3]) { a[1] = 1; return 1; }", "wa(arr)",
                "int wa(const int &a[3]) { return a[1]; }", "wa(CA)" if cx["ctc"] else "wa(arr)"))
    out.append(("array-ref-incr", "int wa(int &a[3]) { a[C]++; return 1; }", "wa(arr)",
                "int wa(int a[3]) { a[C]++; return 1; }", "wa(CA)" if cx["ctc"] else "wa(arr)"))
    # the callee only hands the reference to a writer in a nested statement
    out.append(("ref-then-call-in-loop", "void setr(int &r) { r = 1; }\nint vv(int &q) { int loc = 0; while (loc < 1) { loc++; setr(q); } return 1; }",
                "vv(w)", "void setr(int r) { r = 1; }\nint vv(int q) { int loc = 0; while (loc < 1) { loc++; setr(q); } return 1; }", "vv(%s)" % rd))
    # local of the caller passed by reference: writes the caller's local only -> pure caller
    return out


def shadow_forms(r, cx):
    """(shape, declarations, expression, twin declarations, twin expression): functions whose parameter / local variable hides
    the global they write -- directly before the hiding declaration, or through a callee that sees the global.
    The twins write the hiding parameter / local only."""
    out = []
    one = "C" if cx["ctc"] else "1"
    form = r.choice([f for f in G.STMT_FORMS if f not in ("local-init", "return")])
    via = G.STMT_FORMS[form] % {"W": "setw()"}
    setw = "int setw() { w = 1; return 1; }\n"       # (int: some statement forms use the call as a value)
    # value / reference / constant reference parameter called `w`, the global `w` written by a callee (in a random statement form)
    out.append(("value-parameter/callee/%s" % form, setw + "int sh(int w) { int loc = 0; %s return w; }" % via, "sh(%s)" % one,
                "int sh(int w) { int loc = 0; w = 1; return w; }", "sh(%s)" % one))
    out.append(("reference-parameter/callee/%s" % form, setw + "int sh(int &w) { int loc = 0; %s return 1; }" % via, "sh(x)",
                "int sh(const int &w) { int loc = 0; return w + loc; }", "sh(%s)" % ("C" if cx["ctc"] else "x")))
    out.append(("const-parameter/callee", setw + "int sh(const int w) { setw(); return w; }", "sh(%s)" % one,
                "int sh(const int w) { return w; }", "sh(%s)" % one))
    # chain: the callee that writes is two calls away
    out.append(("value-parameter/callee-chain", setw + "void sw2() { setw(); }\nint sh(int w) { sw2(); return w; }", "sh(%s)" % one,
                "void sw2() { }\nint sh(int w) { sw2(); w++; return w; }", "sh(%s)" % one))
    # a local of the outermost block, of an inner block, of a loop body; the global written before the local exists or by a callee
    out.append(("local/callee", setw + "int sh() { int w = 0; w++; setw(); return w; }", "sh()",
                "int sh() { int w = 0; w++; return w; }", "sh()"))
    out.append(("inner-block-local/direct-before", "int sh() { w = 1; { int w = 0; w++; } return 1; }", "sh()",
                "int sh() { { int w = 0; w++; } return 1; }", "sh()"))
    out.append(("inner-block-local/direct-after", "int sh() { { int w = 0; w++; } w = 1; return 1; }", "sh()",
                "int sh() { { int w = 0; w++; } return 1; }", "sh()"))
    out.append(("loop-body-local/callee", setw + "int sh() { int loc = 0; while (loc < 1) { int w = 0; loc++; w++; setw(); } return 1; }", "sh()",
                "int sh() { int loc = 0; while (loc < 1) { int w = 0; loc++; w++; } return 1; }", "sh()"))
    out.append(("iteration-binder/callee", setw + "int sh() { int loc = 0; for (w : int[0,1]) { loc += w; setw(); } return loc; }", "sh()",
                "int sh() { int loc = 0; for (w : int[0,1]) { loc += w; } return loc; }", "sh()"))
    # the hidden global is an array / a struct, the hiding object of another type
    out.append(("value-parameter/array-global", "void seta() { arr[1] = 1; }\nint sh(int arr) { seta(); return arr; }", "sh(%s)" % one,
                "int sh(int arr) { arr = 1; return arr; }", "sh(%s)" % one))
    out.append(("local/struct-global", "void sets() { st.a = 1; }\nint sh() { bool st = true; sets(); return st ? 1 : 0; }", "sh()",
                "int sh() { bool st = true; st = false; return st ? 1 : 0; }", "sh()"))
    # two functions, each hiding the global: the outer one calls the inner one, the write sits in between
    out.append(("two-levels", setw + "int s1(int w) { setw(); return w; }\nint sh(int w) { return s1(w); }", "sh(%s)" % one,
                "int s1(int w) { w++; return w; }\nint sh(int w) { return s1(w); }", "sh(%s)" % one))
    return out


# targets whose assigned object is local to the function `lt`; %(I)s = an int expression inside the target (the twin reads there)
LOCAL_TARGETS = {
    "local-array-index": ("", "int la[3];", "la[%(I)s]"),
    "local-matrix-1st-index": ("", "int lm[3][3];", "lm[%(I)s][0]"),
    "local-matrix-2nd-index": ("", "int lm[3][3];", "lm[0][%(I)s]"),
    "nested-index": ("", "int la[3];", "la[la[%(I)s]]"),
    "value-array-parameter-index": ("int pa[3]", "", "pa[%(I)s]"),
    "local-struct-field-array-index": ("", "struct { int f[3]; int g; } ls;", "ls.f[%(I)s]"),
    "local-struct-array-index-field": ("", "struct { int f; int g; } lsa[3];", "lsa[%(I)s].g"),
    "inline-if-condition": ("", "int l2 = 0;", "(%(I)s > 0 ? loc : l2)"),
    "inline-if-alternative-index": ("", "int la[3];", "(loc > 0 ? la[%(I)s] : loc)"),
}
# writes placed inside the target: (name, text, declarations it needs)
INNER_WRITES = [("post++", "w++", ""), ("pre--", "--w", ""), ("assign", "(w = 1)", ""), ("op-assign", "(w += 1)", ""),
                ("array-element", "arr[1]++", ""), ("struct-field", "(st.a = 1)", ""),
                ("call", "setw()", "int setw() { w = 1; return 1; }\n"),
                ("call-chain", "sw2()", "int setw() { w = 1; return 1; }\nint sw2() { return setw(); }\n"),
                ("reference-argument", "setr(w)", "int setr(int &r) { r = 1; return 1; }\n")]


def local_target_forms(r, cx, everything=False):
    """(shape, declarations, expression, twin declarations, twin expression): a function whose only write to a non-local sits inside
    the target of an assignment (every operator, ++/--) to an object local to it; called directly or through another function, the
    assignment in a random statement form.  The twins read at the same place."""
    out = []
    rd = "C" if cx["ctc"] else "w"
    all_ops = G.ASSIGN_OPS + [nm for _, nm in POST_PRE]
    forms = [f for f in G.STMT_FORMS if f not in ("local-init", "return")]

    def fn(tn, inner, op, form, twin):
        params, ldecl, target = LOCAL_TARGETS[tn]
        stmt = G.STMT_FORMS[form] % {"W": direct_write(target % {"I": rd if twin else inner}, op)}
        return "int lt(%s) { int loc = 0; %s %s return 1; }" % (params, ldecl, stmt)

    def one(tn, iw, op, form, chain):
        iname, inner, idecl = iw
        arg = ("CA" if cx["ctc"] else "arr") if LOCAL_TARGETS[tn][0] else ""
        pre, tpre = idecl + fn(tn, inner, op, form, False), fn(tn, inner, op, form, True)
        call = "lt(%s)" % arg
        if chain:
            pre += "\nint lt2() { return %s; }" % call
            tpre += "\nint lt2() { return %s; }" % call
            call = "lt2()"
        out.append(("%s/%s/%s/%s%s" % (tn, iname, op, form, "/through-caller" if chain else ""), pre, call, tpre, call))

    for tn in LOCAL_TARGETS:
        for iw in (INNER_WRITES if everything else r.sample(INNER_WRITES, 3)):
            one(tn, iw, r.choice(all_ops), r.choice(forms), r.random() < 0.3)
    # every operator once, on a random target with a random inner write
    for op in all_ops:
        one(r.choice(list(LOCAL_TARGETS)), r.choice(INNER_WRITES), op, "expr", False)
    return out


def conditional_sync_contexts():
    """Synchronisations whose channel expression is not an identifier followed by indices: an inline-if over channels, or over channel
    arrays that is then indexed.  The whole label has to be side-effect free -- the condition, and the indices inside either
    alternative, not just the indices of the outermost array layers.  (`sampled`: as for the array dimensions in c11gen.contexts)"""
    c = {}
    more = "chan ch2; chan chb[4];"
    for name, sync in (("condition", "(%s > 0 ? ch : ch2)!"), ("condition-receive", "(%s > 0 ? ch : ch2)?"),
                       ("condition-element-alternatives", "(%s > 0 ? cha[0] : chb[1])!"),
                       ("condition-arrays-then-index", "(%s > 0 ? cha : chb)[1]!"),
                       ("index-in-then-alternative", "(bb ? cha[%s] : ch2)!"), ("index-in-else-alternative", "(bb ? ch : chb[%s])?"),
                       ("index-after-inline-if", "(bb ? cha : chb)[%s]!"),
                       ("nested-condition", "(bb ? (%s > 0 ? ch : ch2) : cha[0])!"),
                       ("nested-alternative-index", "(bb ? (x > 0 ? ch : chb[%s]) : ch2)?")):
        mk = (lambda sync: (lambda e: dict(sync=sync % e, gdecl_post=more)))(sync)
        c["sync-inline-if-" + name] = dict(mk=mk, allowed=[G.SE % "Synchronisation"], ctc=False, sampled=True)
    return c


# ------------------------------------------------------------------------------------------------------------------
# template-level scope: writer functions and written variables local to the template

def gen_template_scope(ctx):
    r = ctx.rng
    cases = []
    k = 0
    tctx = {
        "guard": dict(f=lambda e: dict(guard="%s == 1" % e), allowed=[G.SE % "Guard"]),
        "invariant": dict(f=lambda e: dict(inv="%s == 1" % e), allowed=[G.SE % "Invariant"]),
        "sync-index": dict(f=lambda e: dict(sync="cha[%s]!" % e), allowed=[G.SE % "Synchronisation"]),
        "sync-inline-if-condition": dict(f=lambda e: dict(sync="(%s > 0 ? ch : cha[1])!" % e), allowed=[G.SE % "Synchronisation"]),
        "select-domain": dict(f=lambda e: dict(select="i : int[0, %s]" % e), allowed=[G.NC]),
        "init-template": dict(f=lambda e: dict(tdecl_post="int y = %s;" % e), allowed=[G.NC, G.SE % "Initialiser"]),
        "array-size-template": dict(f=lambda e: dict(tdecl_post="int z[%s];" % e), allowed=[G.NC]),
    }
    for cn, cx in tctx.items():
        ctc = cn in ("select-domain", "init-template", "array-size-template")
        for form in G.STMT_FORMS:
            for var, where in (("tw", "template-var"), ("w", "global-var")):
                for twin in (False, True):
                    we = "%s = 1" % var
                    if twin:
                        fn = G.writer_function("twr", form, "loc + 1" if form == "local-init" else "w = 1", form != "local-init")
                    else:
                        fn = G.writer_function("twr", form, "w = 1", False).replace("w = 1", we)
                    kw = cx["f"]("twr()")
                    post = kw.pop("tdecl_post", "")
                    kw["tdecl"] = "int tw;\n" + fn + "\n" + post
                    kw["gdecl"] = G.BASE_DECL
                    k += 1
                    if k % 3 == 0:
                        text, kind = G.xta_model(**kw), "xta"
                    else:
                        text, kind = G.xml_model(**kw), "xml"
                    cases.append(G.Case("t%d" % k, kind, text, [], "accept" if twin else "reject", [] if twin else cx["allowed"],
                                        "ctx=%s/template-scope/%s/%s/%s" % (cn, "twin" if twin else "call", where, form)))
    return cases


# ------------------------------------------------------------------------------------------------------------------
# queries that call a function of a process: `P.f()`

def gen_process_dot(ctx):
    r = ctx.rng
    cases, k = [], 0
    queries = [("query-AG", "A[] %s == 1", G.SE % "Property"), ("query-EF", "E<> %s == 1", G.SE % "Property"),
               ("query-leadsto", "%s == 1 --> P.s1", G.SE % "Property"), ("query-sup", "sup: %s", G.SE % "Expression"),
               ("query-quantified", "A[] forall (qi : int[0,1]) %s == 1", G.SE % "Property")]
    forms = list(G.STMT_FORMS) if ctx.thorough else ["expr", "return", "do-cond"] + r.sample([f for f in G.STMT_FORMS if f not in ("expr", "return", "do-cond", "local-init")], 2)
    for qn, q, diag in queries:
        for form in forms:
            for what, fn_write, fn_twin, call, tcall in [
                ("template-variable", G.writer_function("twr", form, "w = 1", False).replace("w = 1", "tw = 1"),
                 G.writer_function("twr", form, "loc + 1" if form == "local-init" else "w = 1", form != "local-init"), "P.twr()", "P.twr()"),
                ("global-variable", G.writer_function("twr", form, "w = 1", False),
                 G.writer_function("twr", form, "loc + 1" if form == "local-init" else "w = 1", form != "local-init"), "P.twr()", "P.twr()"),
                ("chain", G.writer_function("tw0", form, "w = 1", False).replace("w = 1", "tw = 1") + "\nint twr() { return tw0(); }",
                 G.writer_function("tw0", form, "loc + 1" if form == "local-init" else "w = 1", form != "local-init") + "\nint twr() { return tw0(); }", "P.twr()", "P.twr()"),
                ("reference-parameter", "int twr(int &r) { r = 1; return 1; }", "int twr(int r) { r = 1; return 1; }", "P.twr(w)", "P.twr(w)"),
            ]:
                if form == "local-init" and what != "chain":
                    continue
                for twin in (False, True):
                    k += 1
                    tdecl = "int tw;\n" + (fn_twin if twin else fn_write)
                    text = G.xml_model(gdecl=G.BASE_DECL, tdecl=tdecl)
                    cases.append(G.Case("d%d" % k, "xml", text, [q % (tcall if twin else call)], "accept" if twin else "reject",
                                        [] if twin else [diag], "ctx=%s/process-dot/%s/%s/%s" % (qn, "twin" if twin else "call", what, form)))
        # element of a process array: `P(0).f()`, `forall (k : ..) P(k).f()`
        for call, al in (("P(0).%s()", [diag]), ("forall (k : int[0,1]) P(k).%s() == 1 ? 1 : 0", None)):
            if al is None and qn != "query-AG":
                continue
            for twin in (False, True):
                k += 1
                fn = "twr" if not twin else "tpure"
                text = G.xml_model(gdecl=G.BASE_DECL, tdecl="int tw; int twr() { tw = 1; return 1; }\nint tpure() { return tw + 1; }",
                                   params="const int[0,1] id", system="system P;")
                qq = (q % (call % fn)) if al else "A[] forall (k : int[0,1]) P(k).%s() == 1" % fn
                cases.append(G.Case("d%d" % k, "xml", text, [qq.replace("P.s1", "P(0).s1")], "accept" if twin else "reject",
                                    [] if twin else [diag, G.SE % "Expression"], "ctx=%s/process-dot/%s/process-array/%s" % (qn, "twin" if twin else "call", "index" if al else "quantified-index")))
    return cases


C11_EXCEPTION_PREFIX = {"call-through-process-dot": "/process-dot/call/"}
C11_WHAT = {
    "call-through-process-dot": "a query that calls a function of a process as `P.f()` is accepted although `f` writes (a template variable, "
                                "a global, through a chain of calls or through a reference parameter): collect_possible_writes looks up "
                                "get(0).get_symbol(), which for the callee `P.f` is the process `P`, so neither f's `changes` nor its reference "
                                "arguments are added and changes_any_variable() is false; e.g. `A[] P.twr() == 1` with `int twr() { w = 1; return 1; }` "
                                "in P's template gives no diagnostic",
}


# ------------------------------------------------------------------------------------------------------------------
# random programs with an independent may-write computation (Python, declarative fixpoint over its own AST)

class RandProg:
    """Functions f0..fn over globals g0..g3 (ints), ga (int[3]), gs (struct); bodies of random statement structure.
    Python-side ground truth: `writes[f]` = globals f may write (transitively, through reference parameters), and
    `wparam[f]` = indices of reference parameters f may write.
    `shadow` = probability that a function gives one of its parameters / locals the NAME of a global that only its callees
    touch (the sets are sets of symbols: the function's own `g1` must not stand in for, or remove, the global `g1`);
    `plain[f]` keeps the text of f before that renaming."""

    def __init__(self, r, nfun, thorough=False, shadow=0.0):
        self.r = r
        self.shadow = shadow
        self.funs, self.plain = [], {}
        self.writes, self.wparam, self.reads = {}, {}, {}
        self.refpass = {}   # f -> passes some lvalue to a non-const reference parameter anywhere (transitively)
        for i in range(nfun):
            self.gen_fun(i)

    GLOBALS = ["g0", "g1", "g2", "g3"]

    def lval_global(self):
        r = self.r
        c = r.random()
        if c < 0.55:
            g = r.choice(self.GLOBALS)
            return g, g
        if c < 0.75:
            return "ga[%d]" % r.randint(0, 2), "ga"
        if c < 0.9:
            return "gs.%s" % r.choice("ab"), "gs"
        g = r.choice(self.GLOBALS)
        return "ga[%s]" % g, "ga"

    def gen_fun(self, i):
        r = self.r
        name = "f%d" % i
        nparams = r.randint(0, 2)
        params = []
        for p in range(nparams):
            mode = r.choice(["val", "ref", "cref"])
            params.append(("p%d" % p, mode))
        st = {"w": set(), "wp": set(), "rd": set(), "refpass": False, "locals": ["l0", "l1"], "params": params, "i": i}
        st["locals"] = ["l0"]
        body = "int l0 = 0; int l1 = %s; int la[3]; " % self.rexpr(st, 1, allow_call=False)
        st["locals"] = ["l0", "l1"]
        for _ in range(r.randint(1, 4)):
            body += self.stmt(st, 2) + " "
        body += "return %s;" % self.rexpr(st, 1)
        ptxt = ", ".join({"val": "int %s", "ref": "int &%s", "cref": "const int &%s"}[m] % n for n, m in params)
        text = "int %s(%s) { %s }" % (name, ptxt, body)
        self.plain[name] = text
        if self.shadow and r.random() < self.shadow:
            # a global this function does not mention itself (so the renaming cannot capture anything), touched by a callee
            cand = [g for g in sorted(st["w"] | st["rd"]) if not re.search(r"\b%s\b" % g, text)]
            if cand:
                text = re.sub(r"\b%s\b" % r.choice([pn for pn, _ in params] + ["l1"]), r.choice(cand), text)
        self.funs.append((name, text, params))
        self.writes[name], self.wparam[name], self.reads[name], self.refpass[name] = st["w"], st["wp"], st["rd"], st["refpass"]

    def rexpr(self, st, depth, allow_call=True):
        """an int expression without writes of its own (calls may write)"""
        r = self.r
        c = r.random()
        if depth <= 0 or c < 0.3:
            k = r.random()
            if k < 0.3:
                return str(r.randint(0, 3))
            if k < 0.55:
                return r.choice(st["locals"])
            if k < 0.7 and st["params"]:
                return r.choice(st["params"])[0]
            if k < 0.8:
                return "CC"
            g = r.choice(self.GLOBALS + ["ga[1]", "gs.a"])
            st["rd"].add(g.split("[")[0].split(".")[0])
            return g
        if c < 0.6:
            return "(%s %s %s)" % (self.rexpr(st, depth - 1, allow_call), r.choice(["+", "-", "*", "<", "==", "&", "|"]), self.rexpr(st, depth - 1, allow_call))
        if c < 0.7:
            return "(%s ? %s : %s)" % (self.rexpr(st, depth - 1, allow_call), self.rexpr(st, depth - 1, allow_call), self.rexpr(st, depth - 1, allow_call))
        if c < 0.95 and allow_call and st["i"] > 0:
            return self.call(st, depth)
        return "(-%s)" % self.rexpr(st, depth - 1, allow_call)

    def call(self, st, depth):
        r = self.r
        j = r.randrange(0, st["i"])
        name, _, params = self.funs[j]
        args = []
        for idx, (pn, mode) in enumerate(params):
            if mode == "ref":
                # an lvalue: global, local, or own parameter (reference or value)
                k = r.random()
                st["refpass"] = True
                if k < 0.4:
                    txt, root = self.lval_global()
                    args.append(txt)
                    if idx in self.wparam[name]:
                        st["w"].add(root)
                elif k < 0.7 or not st["params"]:
                    args.append(r.choice(st["locals"]))
                else:
                    own = r.randrange(len(st["params"]))
                    pn2, m2 = st["params"][own]
                    if m2 == "cref":
                        args.append(r.choice(st["locals"]))
                    else:
                        args.append(pn2)
                        if idx in self.wparam[name] and m2 == "ref":
                            st["wp"].add(own)
            else:
                args.append(self.rexpr(st, depth - 1))
        st["w"] |= self.writes[name]
        st["rd"] |= self.reads[name]
        st["refpass"] = st["refpass"] or self.refpass[name]
        return "%s(%s)" % (name, ", ".join(args))

    def wexpr(self, st):
        """an expression statement with a write"""
        r = self.r
        k = r.random()
        op = r.choice(G.ASSIGN_OPS)
        if k < 0.35:
            txt, root = self.lval_global()
            st["w"].add(root)
        elif k < 0.75 or not st["params"]:
            txt = r.choice(st["locals"])
            if st["i"] > 0 and r.random() < 0.25:
                # the assigned object is a local, the target itself calls: whatever the callee writes is written here
                txt = "(%s > 0 ? l0 : l1)" % self.call(st, 1) if r.random() < 0.5 else "la[%s]" % self.call(st, 1)
        else:
            own = r.randrange(len(st["params"]))
            pn, m = st["params"][own]
            if m == "cref":
                txt = r.choice(st["locals"])
            else:
                txt = pn
                if m == "ref":
                    st["wp"].add(own)
        c = r.random()
        if c < 0.6:
            return "%s %s %s" % (txt, op, self.rexpr(st, 1))
        return r.choice(["%s++", "%s--", "++%s", "--%s"]) % txt

    def stmt(self, st, depth):
        r = self.r
        c = r.random()
        if depth <= 0 or c < 0.35:
            return self.wexpr(st) + ";"
        if c < 0.45:
            return "l0 = %s;" % self.rexpr(st, 2)
        if c < 0.55:
            return "if (%s) { %s }" % (self.rexpr(st, 1), self.stmt(st, depth - 1))
        if c < 0.63:
            return "if (%s) { %s } else { %s }" % (self.rexpr(st, 1), self.stmt(st, depth - 1), self.stmt(st, depth - 1))
        if c < 0.71:
            return "for (%s; %s; %s) { %s }" % (self.wexpr(st), self.rexpr(st, 1), self.wexpr(st), self.stmt(st, depth - 1))
        if c < 0.78:
            return "while (%s) { %s }" % (self.rexpr(st, 1), self.stmt(st, depth - 1))
        if c < 0.85:
            return "do { %s } while (%s);" % (self.stmt(st, depth - 1), self.rexpr(st, 1))
        if c < 0.92:
            return "for (it%d : int[0,1]) { %s }" % (depth, self.stmt(st, depth - 1))
        return "{ int b%d = %s; %s b%d++; }" % (depth, self.rexpr(st, 1, allow_call=False), self.stmt(st, depth - 1), depth)

    def decls(self):
        return ("int g0; int g1; int g2; int g3; int ga[3]; struct { int a; int b; } gs; const int CC = 1; chan cha[4];\n" +
                "\n".join(t for _, t, _ in self.funs) + "\n")


def gen_random_programs(ctx):
    r = ctx.rng
    cases = []
    nprog = 800 if not ctx.thorough else 6000
    se = {"guard": G.SE % "Guard", "invariant": G.SE % "Invariant", "sync": G.SE % "Synchronisation",
          "sync-inline-if": G.SE % "Synchronisation", "query": G.SE % "Property"}
    for pi in range(nprog):
        prog = RandProg(r, r.randint(2, 7), shadow=0.3)
        # one context per model: call a random function with value arguments / lvalue arguments
        fi = r.randrange(len(prog.funs))
        name, _, params = prog.funs[fi]
        args, wr, refpass = [], set(prog.writes[name]), prog.refpass[name]
        for idx, (pn, mode) in enumerate(params):
            if mode == "ref":
                txt, root = prog.lval_global()
                args.append(txt)
                refpass = True
                if idx in prog.wparam[name]:
                    wr.add(root)
            else:
                args.append(r.choice(["1", "CC", "g0"]))
        e = "%s(%s)" % (name, ", ".join(args))
        where = r.choice(["guard", "invariant", "sync", "sync-inline-if", "query"])
        if wr:
            expect, allowed = "reject", [se[where]]
        elif not refpass:
            expect, allowed = "accept", []
        else:
            expect, allowed = None, []     # the implementation may over-approximate: lvalue handed to a reference parameter
        kw = dict(gdecl=prog.decls())
        queries = []
        if where == "guard":
            kw["guard"] = "%s >= 0" % e
        elif where == "invariant":
            kw["inv"] = "%s >= 0" % e
        elif where == "sync":
            kw["sync"] = "cha[%s]!" % e
        elif where == "sync-inline-if":
            kw["sync"] = "(%s >= 0 ? cha[0] : cha[1])!" % e
        else:
            queries = ["A[] %s >= 0" % e]
        text, kind = (G.xml_model(**kw), "xml") if pi % 4 else (G.xta_model(**kw), "xta")
        cases.append(G.Case("r%d" % pi, kind, text, queries, expect, allowed,
                            "random-program/%s/%s" % (where, "writes" if wr else ("pure" if not refpass else "ref-pass-only")),
                            {"truth_writes": sorted(wr), "function": name}))
    return cases


# ------------------------------------------------------------------------------------------------------------------

def shape_key(shape):
    """the identity of a finding: context and write form, never seeds or counters"""
    return shape


def clean_replays(pid):
    d = os.path.join(core.VERIF, "replays")
    if os.path.isdir(d):
        for f in os.listdir(d):
            if f.startswith(pid + "-") and f.endswith(".json"):
                os.remove(os.path.join(d, f))


def run(ctx):
    cov = ctx.coverage
    clean_replays(PID)
    # 1 translate ---------------------------------------------------------------------------------------------------
    tie_error = None
    try:
        _, kinds = core.regen_kinds()
        text, info = effects.translate(core.REPO, {k for k, _ in kinds}, strict_c13=False)
        core.write_if_changed(GEN, text)
        cov["translated"] = {"write_lhs_kinds": len(info["write_lhs"]), "get_symbols_rows": len(info["get_symbols"]),
                             "statement_classes": len(info["classes"]), "check_sites": info["sites"],
                             "parts_only_C13_reads_that_changed": info["c13_only_errors"],
                             "checkType_case_rows": info["checkType_rows"], "checkType_call_sites": info["checkType_sites"]}
    except effects.TranslateError as ex:
        tie_error = str(ex)
        ctx.log("translator failed:", ex)
    # 2 prove -------------------------------------------------------------------------------------------------------
    ok, log = (False, "translation failed: %s" % tie_error) if tie_error else G.prove(ctx, core, MODULE, ["drv_c11"])
    broken = []
    if tie_error:
        cov.update({"obligations": len(core.theorems_of(MODULE)), "discharged": 0, "checker_cmd": "n/a (translation failed)",
                    "trusted_base": core.TRUSTED_BASE})
    elif not ok:
        broken = core.failing_theorems(log)
        ctx.log("proof broken:", broken or log[-1500:])
    # 4 search: direct oracle on the implementation -----------------------------------------------------------------
    cases = gen_matrix(ctx) + gen_template_scope(ctx) + gen_process_dot(ctx) + gen_random_programs(ctx)
    ctx.log("generated %d models" % len(cases))
    recs, crashes, differ, nsan = G.run_both(core, "c11", "c11.cpp", cases, ctx.thorough, ctx.log)
    cov["models_also_run_under_sanitizers"] = nsan
    for c in differ[:3]:
        ctx.finding("build-variant:" + c.shape, "diagnostics differ between the -O2 and the ASan+UBSan build of the library", c.replay_obj())
    for bad, rc, err in crashes:
        ctx.finding("crash:" + shape_key(bad.shape), "harness died (rc=%s) on a generated model" % rc,
                    dict(bad.replay_obj(), stderr=err))
    # 3 correspondence: model vs implementation on the real trees -----------------------------------------------------
    ncorr, ndis, nfun, nctx = 0, 0, 0, 0
    have_drv = os.path.exists(core.lean_exe("drv_c11"))
    if not ok and have_drv and not tie_error:
        have_drv = core.lake_build(["drv_c11"])[0]
    first_dis = None
    exceptions = None
    if have_drv and not tie_error:
        drv, rc, err = G.run_driver(core, core.lean_exe("drv_c11"), recs)
        for c in cases:
            rec = recs.get(c.cid)
            if rec is None or not rec["analysed"] or not rec["mline"]:
                continue
            ncorr += 1
            nfun += len(rec["FI"])
            nctx += G.own_contexts(rec)
            dv = drv.get(c.cid)
            if dv and dv["exceptions11"] is not None:
                exceptions = dv["exceptions11"]
            d = G.diff_model(rec, dv)
            if d:
                ndis += 1
                if first_dis is None:
                    first_dis = (c, d)
        if rc != 0:
            first_dis = first_dis or (cases[0], ["drv_c11 exited with %s: %s" % (rc, err[-500:])])
            ndis += 1
    cov["computed_exception_set"] = exceptions
    if exceptions is None:
        # no model answer (translation or build broken): the listed findings still explain their own witnesses
        exceptions_for_oracle = [k["key"] for k in ctx.known_db if k["key"] in C11_EXCEPTION_PREFIX]
    else:
        exceptions_for_oracle = exceptions
    confirmed = {}
    nviol, verdicts, dist = 0, {"reject": 0, "accept": 0, "none": 0}, {}
    samples = []
    for c in cases:
        rec = recs.get(c.cid)
        if rec is None:
            continue
        errs = rec["errors"] + rec["qerrors"]
        verdicts[c.expect or "none"] += 1
        top = c.shape.split("/")[0]
        dist[top] = dist.get(top, 0) + 1
        if c.expect == "reject" and not any(a in errs for a in c.allowed):
            ex = [x for x in exceptions_for_oracle if C11_EXCEPTION_PREFIX.get(x, "\0") in c.shape]
            if ex:
                confirmed.setdefault(ex[0], c)     # the exception's witness is accepted by the real library
                continue
            nviol += 1
            if nviol <= MAX_REPORTED:
                ctx.finding("accepted-write:" + shape_key(c.shape),
                        "a side-effect-free context containing a (transitive) write is accepted (diagnostics: %r)" % errs,
                        dict(c.replay_obj(), observed_diagnostics=errs))
        elif c.expect == "accept" and (errs or rec["exc"]):
            nviol += 1
            if nviol <= MAX_REPORTED:
                ctx.finding("rejected-twin:" + shape_key(c.shape),
                        "the write-free twin is rejected: %r" % (errs or rec["exc"]), dict(c.replay_obj(), observed_diagnostics=errs))
        if len(samples) < 4 and c.expect and c.cid.endswith("7"):
            samples.append({"shape": c.shape, "expect": c.expect, "diagnostics": errs})
    # every computed exception must be confirmed on the real library, and is a finding (known or not)
    for ex in exceptions_for_oracle:
        c = confirmed.get(ex)
        if c is None:
            if nviol == 0:
                ctx.finding("unproved:exception-not-confirmed:" + ex,
                            "the Lean model computes exception %s but the real library rejects all its witnesses" % ex,
                            {"exception": ex}, no_input=True)
        else:
            ctx.finding(ex, C11_WHAT.get(ex, ex), dict(c.replay_obj(), lean_witness="UtapModel.C11.C11_witness_process_dot"))
    cov["exceptions_confirmed_on_implementation"] = sorted(confirmed)
    cov["oracle_cases_on_implementation"] = sum(verdicts.values())
    cov["oracle_expectations"] = verdicts
    cov["oracle_failures"] = nviol
    cov["correspondence_cases"] = ncorr
    cov["correspondence_function_sets_compared"] = nfun
    cov["correspondence_context_expressions_compared"] = nctx
    cov["correspondence_disagreements"] = ndis
    cov["hypotheses_validated_on_real_programs"] = {"declaredBeforeUse (C11_sound / C13_sound)": ncorr - ndis if ncorr else 0,
                                                   "how": "drv evaluates the decidable hypothesis on every dumped program; a failure counts as a disagreement"}
    if first_dis and nviol == 0:
        c, d = first_dis
        ctx.finding("unproved:correspondence:effects", "Lean model and library disagree on %d of %d models; first: %s"
                    % (ndis, ncorr, d[:3]), dict(c.replay_obj(), disagreements=d[:10]), no_input=False)
    # proof / translation broken and the oracle found nothing: report per protocol (c)
    if tie_error and nviol == 0:
        ctx.proof_broken("translate/effects.py", tie_error, "oracle: %d models on the implementation, no failure" % sum(verdicts.values()))
    if not ok and not tie_error and nviol == 0:
        for path, thm, msg in (broken or [("?", "lake build " + MODULE, log[-300:])]):
            ctx.proof_broken(thm, msg + "\n" + log[-2000:], "oracle: %d models on the implementation, correspondence %d models, no failing input"
                             % (sum(verdicts.values()), ncorr))
    cov["evaluations"] = sum(verdicts.values()) + nfun + nctx
    cov["distinct_nontrivial"] = len({c.shape for c in cases})
    cov["distribution"] = dist
    cov["formats"] = {"xml": sum(1 for c in cases if c.kind == "xml"), "xta": sum(1 for c in cases if c.kind == "xta")}
    cov["samples"] = samples
    cov["rule"] = ("write placed in a side-effect-free context => one of the context's diagnostics must be reported; "
                   "write-free twin => no diagnostic at all; model vs implementation: equal changes/depends sets per function, "
                   "equal changes_any_variable / isCompileTimeComputable per context expression")
    ctx.assumptions += [
        "switch/case/default/break/continue statements are modelled and proved but cannot be produced through the parser "
        "(StatementBuilder rejects them as unsupported), so the correspondence never exercises them",
        "external functions (FUN_CALL_EXT, dlopen) are outside the generated inputs",
        "contexts that only demand compile-time computability (select domain, array size, range bound) reject a write because "
        "every written symbol is also read; a write to a constant there is rejected by the lvalue rule of C12, not modelled here",
    ]


def replay(ctx, path):
    import json
    r = json.load(open(path))
    rp = r.get("replay", {})
    if "model_text" not in rp:
        print(json.dumps(r, indent=1))
        return 1
    b = core.build_repo("asan")
    exe = core.build_harness(b, "c11", ["c11.cpp"])
    kind = "xml" if rp["entry"] == "parse_XML_buffer" else "xta"
    c = G.Case("replay", kind, rp["model_text"], rp.get("queries", []), rp.get("expect"), rp.get("allowed_diagnostics", []), rp.get("shape", ""))
    recs, crashes = G.run_harness(core, exe, [c])
    if crashes:
        print("harness died:", crashes[0][1], crashes[0][2][-1500:])
        return 1
    rec = recs["replay"]
    errs = rec["errors"] + rec["qerrors"]
    print("model:\n" + rp["model_text"])
    print("queries:", rp.get("queries"))
    print("expected:", rp.get("expect"), "allowed:", rp.get("allowed_diagnostics"))
    print("observed diagnostics:", errs)
    if c.expect == "reject":
        return 0 if any(a in errs for a in c.allowed) else 1
    if c.expect == "accept":
        return 0 if not errs else 1
    return 1
