/-
M-FEAT — executable model of `FeatureChecker` (src/featurechecker.cpp) and of the declarative reading of property C17.

* `FExpr`, `FSym`, `Templ`, `Doc`: the abstract document — exactly the facts the visitors look at (kinds, the type
  predicates `is(DOUBLE)`, `is(HYBRID)`, `is_clock()`, constant values, frames).  `harness/c17.cpp` extracts this
  abstraction from the *real* `Document` after `parse_XML_buffer`.
* `Cfg`: the decisions of the C++ the model is parameterised by.  `Cfg.current` is read from the source text on every
  run by `translate/feature.py` (Gen/FeatureCfg.lean): the `case` labels of `visitGuard`, the `case` labels of
  `expression_t::uses_fp`, and one Boolean per structural decision (recursive guard walk, invariants compared, ...).
* `check` / `reported`: the visitors, clause by clause; `none` = the checker throws (`std::bad_variant_access` from
  `rate.get_value()` on a floating-point constant) and the document keeps its default verdict (all `true`).
* `SpecSymbolic`, `SpecStochastic`, `SpecConcrete`: written from the property statement, not from the code.
* `Shape`, `shapesOf`, `detects`, `exceptions`: the placements of restricting features, which of them the configured
  checker inspects, and the computed exception set (DESIGN.md §2.4).
Core Lean only.
-/
import UtapModel.Gen.Kinds
import UtapModel.Gen.FeatureCfg

namespace UtapModel.Feature
open UtapModel

/-! ## abstract documents -/

/-- value of a CONSTANT node as far as the checker can see it: integral value, or a floating-point constant
    (`dbl 0` = 0.0, `dbl 1` = 1.0, `dbl 2` = any other value) -/
inductive CVal where
  | none
  | int (v : Int)
  | dbl (tag : Nat)
deriving DecidableEq, Repr, Inhabited

/-- type facts of an expression node: `type.is(DOUBLE)`, `type.is(HYBRID)`, `type.is_clock()`,
    `get_symbol().get_type().is(HYBRID)` -/
structure Flags where
  dbl : Bool := false
  hyb : Bool := false
  clk : Bool := false
  symHyb : Bool := false
deriving DecidableEq, Repr, Inhabited

inductive FExpr where
  | empty
  | node (k : Kind) (f : Flags) (v : CVal) (sub : List FExpr)
deriving Repr, Inhabited

namespace FExpr
def isEmpty : FExpr → Bool
  | empty => true
  | node .. => false
def kindIs (e : FExpr) (k : Kind) : Bool :=
  match e with
  | empty => false
  | node k' _ _ _ => k' == k
def flags : FExpr → Flags
  | empty => {}
  | node _ f _ _ => f
def val : FExpr → CVal
  | empty => .none
  | node _ _ v _ => v
def children : FExpr → List FExpr
  | empty => []
  | node _ _ _ s => s
def isDouble (e : FExpr) : Bool := e.flags.dbl
/-- `e.get(i)` on a child list (empty expression when out of range) -/
def arg (sub : List FExpr) (i : Nat) : FExpr := sub.getD i .empty
def isClock (e : FExpr) : Bool := e.flags.clk
def isHybrid (e : FExpr) : Bool := e.flags.hyb
end FExpr

/-- type facts of a frame symbol: `is_clock()` directly / through arrays, `is_channel()`, `is(BROADCAST)` directly /
    on the element type of (nested) arrays, `is(REF)` -/
structure SymFlags where
  clkD : Bool := false
  clkS : Bool := false
  chD : Bool := false
  bcD : Bool := false
  chS : Bool := false
  bcS : Bool := false
  ref : Bool := false
deriving DecidableEq, Repr, Inhabited

/-- a frame entry as `Document`'s `visit(visitor, frame)` dispatches it -/
inductive FSym where
  | var (f : SymFlags) (init : FExpr)
  | loc (f : SymFlags) (inv : FExpr)
  | tdef (f : SymFlags)
  | other (f : SymFlags)
deriving Repr, Inhabited

def FSym.flags : FSym → SymFlags
  | .var f _ => f
  | .loc f _ => f
  | .tdef f => f
  | .other f => f

structure Edge where
  guard : FExpr
  assign : FExpr
deriving Repr, Inhabited

structure Templ where
  inst : Bool
  dynamic : Bool
  frame : List FSym
  edges : List Edge
deriving Repr, Inhabited

structure Doc where
  dyn : Bool
  prio : Bool
  gframe : List FSym
  templs : List Templ
deriving Repr, Inhabited

/-! ## configuration (generated) -/

structure Cfg where
  guardKinds : List Kind
  fpKinds : List Kind
  guardRecursive : Bool
  guardSkipsRates : Bool
  invariantCompared : Bool
  initThroughArrays : Bool
  assignHybridTargetOnly : Bool
  rateDoubleHandled : Bool
  chanThroughArrays : Bool
  chanLocalFrames : Bool
deriving Repr

/-- what `/repo`'s current source says (regenerated on every run) -/
def Cfg.current : Cfg :=
  { guardKinds := FeatureCfg.guardKinds, fpKinds := FeatureCfg.fpKinds,
    guardRecursive := FeatureCfg.guardRecursive, guardSkipsRates := FeatureCfg.guardSkipsRates,
    invariantCompared := FeatureCfg.invariantCompared, initThroughArrays := FeatureCfg.initThroughArrays,
    assignHybridTargetOnly := FeatureCfg.assignHybridTargetOnly, rateDoubleHandled := FeatureCfg.rateDoubleHandled,
    chanThroughArrays := FeatureCfg.chanThroughArrays, chanLocalFrames := FeatureCfg.chanLocalFrames }

def relKinds : List Kind := [.kLT, .kLE, .kEQ, .kNEQ, .kGE, .kGT]

/-- the checker as it is at the pinned commit (reference point for the witnesses) -/
def Cfg.original : Cfg :=
  { guardKinds := [.kLT, .kLE, .kEQ], fpKinds := FeatureCfg.fpKinds,
    guardRecursive := false, guardSkipsRates := false, invariantCompared := false, initThroughArrays := false,
    assignHybridTargetOnly := false, rateDoubleHandled := false, chanThroughArrays := false, chanLocalFrames := false }

/-- the checker after proposed_fixes/C17-feature-placements.diff -/
def Cfg.repaired : Cfg :=
  { guardKinds := relKinds, fpKinds := FeatureCfg.fpKinds,
    guardRecursive := true, guardSkipsRates := true, invariantCompared := true, initThroughArrays := true,
    assignHybridTargetOnly := true, rateDoubleHandled := true, chanThroughArrays := true, chanLocalFrames := true }

/-! ## expression_t::uses_fp / uses_hybrid / uses_clock (src/expression.cpp) -/

mutual
def usesFp (fp : List Kind) : FExpr → Bool
  | .empty => false
  | .node k f _ sub => f.dbl || fp.contains k || usesFpL fp sub
def usesFpL (fp : List Kind) : List FExpr → Bool
  | [] => false
  | e :: es => usesFp fp e || usesFpL fp es
end

mutual
def usesHybrid : FExpr → Bool
  | .empty => false
  | .node _ f _ sub => f.hyb || usesHybridL sub
def usesHybridL : List FExpr → Bool
  | [] => false
  | e :: es => usesHybrid e || usesHybridL es
end

mutual
def usesClock : FExpr → Bool
  | .empty => false
  | .node _ f _ sub => f.clk || usesClockL sub
def usesClockL : List FExpr → Bool
  | [] => false
  | e :: es => usesClock e || usesClockL es
end

/-! ## the visitors -/

/-- the `case` body of visitGuard at one node: some operand uses floating point -/
def guardHitAt (cfg : Cfg) : FExpr → Bool
  | .empty => false
  | .node k _ _ sub =>
    cfg.guardKinds.contains k
      && !(cfg.guardSkipsRates && ((FExpr.arg sub 0).kindIs .kRATE || (FExpr.arg sub 1).kindIs .kRATE))
      && usesFpL cfg.fpKinds sub

mutual
/-- the repaired visitGuard: the `case` body at every sub-expression -/
def guardHitRec (cfg : Cfg) : FExpr → Bool
  | .empty => false
  | .node k f v sub => guardHitAt cfg (.node k f v sub) || guardHitRecL cfg sub
def guardHitRecL (cfg : Cfg) : List FExpr → Bool
  | [] => false
  | e :: es => guardHitRec cfg e || guardHitRecL cfg es
end

def visitGuard (cfg : Cfg) (g : FExpr) : Bool :=
  if cfg.guardRecursive then guardHitRec cfg g else guardHitAt cfg g

mutual
def visitAssignment (cfg : Cfg) : FExpr → Bool
  | .empty => false
  | .node k f v sub =>
    if k == .kASSIGN then
      usesFp cfg.fpKinds (.node k f v sub)
        && !(if cfg.assignHybridTargetOnly then usesHybrid (FExpr.arg sub 0) else usesHybrid (.node k f v sub))
    else if k == .kCOMMA then visitAssignmentL cfg sub
    else false
def visitAssignmentL (cfg : Cfg) : List FExpr → Bool
  | [] => false
  | e :: es => visitAssignment cfg e || visitAssignmentL cfg es
end

def visitVariable (cfg : Cfg) (f : SymFlags) (init : FExpr) : Bool :=
  (if cfg.initThroughArrays then f.clkS else f.clkD) && !init.isEmpty && usesFp cfg.fpKinds init

/-- `isRateDisallowedInSymbolic` at an EQ node.  `none` = `rate.get_value()` throws (floating-point constant). -/
def rateAtEq (cfg : Cfg) (sub : List FExpr) : Option Bool :=
  let a := FExpr.arg sub 0
  let b := FExpr.arg sub 1
  if a.kindIs .kRATE || b.kindIs .kRATE then
    let clock := if a.kindIs .kRATE then a else b
    let rate := if a.kindIs .kRATE then b else a
    if (FExpr.arg clock.children 0).flags.symHyb then some false
    else if !rate.kindIs .kCONSTANT then some false
    else match rate.val with
      | .int v => some (v != 0 && v != 1)
      | .dbl t => if cfg.rateDoubleHandled then some (t != 0 && t != 1) else none
      | .none => some false   -- not reachable on accepted models: a constant rate is integral or floating point
  else some false

mutual
def rateScan (cfg : Cfg) : FExpr → Option Bool
  | .empty => some false
  | .node k _ _ sub =>
    if k == .kEQ then rateAtEq cfg sub
    else if k == .kAND then rateScanL cfg sub
    else some false
def rateScanL (cfg : Cfg) : List FExpr → Option Bool
  | [] => some false
  | e :: es =>
    match rateScan cfg e with
    | none => none
    | some true => some true
    | some false => rateScanL cfg es
end

/-- visitLocation: `none` = throws, `some b` = symbolic lost iff `b` -/
def visitLocation (cfg : Cfg) (inv : FExpr) : Option Bool :=
  if inv.isEmpty then some false
  else match rateScan cfg inv with
    | none => none
    | some r => some ((cfg.invariantCompared && visitGuard cfg inv) || r)

/-- what `visit(visitor, frame)` makes of one frame entry -/
def symLost (cfg : Cfg) : FSym → Option Bool
  | .var f init => some (visitVariable cfg f init)
  | .loc _ inv => visitLocation cfg inv
  | _ => some false

def frameThrows (cfg : Cfg) (fr : List FSym) : Bool := fr.any (fun s => (symLost cfg s).isNone)
def frameLost (cfg : Cfg) (fr : List FSym) : Bool := fr.any (fun s => symLost cfg s == some true)

def edgeLost (cfg : Cfg) (e : Edge) : Bool := visitAssignment cfg e.assign || visitGuard cfg e.guard

def templLost (cfg : Cfg) (t : Templ) : Bool := frameLost cfg t.frame || t.edges.any (edgeLost cfg)

/-- visitFrame at one symbol: a channel that is not broadcast -/
def chanHit (cfg : Cfg) (s : FSym) : Bool :=
  if cfg.chanThroughArrays then
    (match s with | .tdef _ => false | _ => true) && !s.flags.ref && s.flags.chS && !s.flags.bcS
  else s.flags.chD && !s.flags.bcD

def visitFrame (cfg : Cfg) (fr : List FSym) : Bool := fr.any (chanHit cfg)

/-- a template contributes only if the visitor enters it (`visitTemplateBefore` returns `is_instantiated`) -/
def anyVisited (m : Doc) (f : Templ → Bool) : Bool := m.templs.any (fun t => t.inst && f t)

structure Verdict where
  symbolic : Bool
  stochastic : Bool
  concrete : Bool
deriving DecidableEq, Repr, Inhabited

def throws (cfg : Cfg) (m : Doc) : Bool :=
  frameThrows cfg m.gframe || anyVisited m (fun t => frameThrows cfg t.frame)

/-- `FeatureChecker::FeatureChecker(Document&)`; `none` = an exception leaves the constructor -/
def check (cfg : Cfg) (m : Doc) : Option Verdict :=
  if throws cfg m then none
  else some
    { symbolic := !(m.dyn || frameLost cfg m.gframe || anyVisited m (templLost cfg))
      stochastic := !(m.prio || visitFrame cfg m.gframe
                        || (cfg.chanLocalFrames && anyVisited m (fun t => visitFrame cfg t.frame)))
      concrete := !m.prio }

/-- what `Document::get_supported_methods()` returns after the parse: the default verdict survives an exception -/
def reported (cfg : Cfg) (m : Doc) : Verdict := (check cfg m).getD ⟨true, true, true⟩

/-! ## the property, written from its statement -/

/-- position of a sub-expression inside a constraint -/
structure Pos where
  root : Bool      -- it is the constraint itself
  conj : Bool      -- every proper ancestor is a conjunction (`&&`)
deriving DecidableEq, Repr, Inhabited

mutual
/-- every sub-expression of a constraint with its position -/
def walk (r c : Bool) : FExpr → List (Pos × FExpr)
  | .empty => []
  | .node k f v sub => (⟨r, c⟩, .node k f v sub) :: walkL (c && k == .kAND) sub
def walkL (c : Bool) : List FExpr → List (Pos × FExpr)
  | [] => []
  | e :: es => walk false c e ++ walkL c es
end

def occs (e : FExpr) : List (Pos × FExpr) := walk true true e

/-- "a floating-point value": the operand is one or is computed from one -- some sub-expression of it has floating-point
    type, whatever the type of the operators above it (`fint(d)`, `i + fint(2.5)`, `d < 0.5`, `y > 2.5 ? 0 : 1`) -/
def hasFp (e : FExpr) : Bool := (occs e).any (fun pe => pe.2.isDouble)

/-- "compares a clock with a floating-point value": any relational operator, either operand order -/
def isCmpClockFp : FExpr → Bool
  | .node k _ _ [a, b] =>
    relKinds.contains k && !a.kindIs .kRATE && !b.kindIs .kRATE
      && ((a.isClock && hasFp b) || (hasFp a && b.isClock))
  | _ => false

/-- "assigns a non-hybrid clock or variable from a floating-point value" -/
def isAssignFp : FExpr → Bool
  | .node k _ _ [l, r] => k == .kASSIGN && !usesHybrid l && hasFp r
  | _ => false

mutual
/-- the elements of an update list (comma-separated) -/
def updateElems : FExpr → List FExpr
  | .empty => []
  | .node k f v sub => if k == .kCOMMA then updateElemsL sub else [.node k f v sub]
def updateElemsL : List FExpr → List FExpr
  | [] => []
  | e :: es => updateElems e ++ updateElemsL es
end

/-- "initialises a clock with a floating-point value" (a clock or an array of clocks; any element of the initialiser) -/
def isInitFp (f : SymFlags) (init : FExpr) : Bool := f.clkS && hasFp init

def nonHybridRate (e : FExpr) : Bool := e.kindIs .kRATE && !(FExpr.arg e.children 0).flags.symHyb

def constOther (e : FExpr) : Bool :=
  e.kindIs .kCONSTANT && (match e.val with | .int v => v != 0 && v != 1 | .dbl t => t != 0 && t != 1 | .none => false)

def isDblConst (e : FExpr) : Bool := e.kindIs .kCONSTANT && (match e.val with | .dbl _ => true | _ => false)

/-- the two operands of a rate equation `x' == r` / `r == x'` (the clock side first), if it is one -/
def rateSides (e : FExpr) : Option (FExpr × FExpr) :=
  match e with
  | .node k _ _ sub =>
    let a := FExpr.arg sub 0
    let b := FExpr.arg sub 1
    if k == .kEQ then (if a.kindIs .kRATE then some (a, b) else if b.kindIs .kRATE then some (b, a) else none) else none
  | .empty => none

/-- "sets a non-hybrid clock rate other than 0 or 1" (a literal rate, either operand order) -/
def isBadRate (e : FExpr) : Bool :=
  match rateSides e with
  | some (clock, rate) => nonHybridRate clock && constOther rate
  | none => false

/-- a rate given as a floating-point literal (whatever its value): where the unrepaired checker throws -/
def isDblRate (e : FExpr) : Bool :=
  match rateSides e with
  | some (clock, rate) => nonHybridRate clock && isDblConst rate
  | none => false

def initOk : FSym → Bool
  | .var f init => !isInitFp f init
  | _ => true

def invOk : FSym → Bool
  | .loc _ inv => (occs inv).all (fun pe => !isCmpClockFp pe.2 && !isBadRate pe.2)
  | _ => true

def guardOk (e : Edge) : Bool := (occs e.guard).all (fun pe => !isCmpClockFp pe.2)
def updateOk (e : Edge) : Bool := (updateElems e.assign).all (fun a => !isAssignFp a)

/-- symbolic analysis may be reported only if … (property C17, first clause) -/
def SpecSymbolic (m : Doc) : Prop :=
  m.dyn = false ∧ (∀ s ∈ m.gframe, initOk s = true) ∧
  ∀ t ∈ m.templs, t.inst = true →
    (∀ s ∈ t.frame, initOk s = true ∧ invOk s = true) ∧ (∀ e ∈ t.edges, guardOk e = true ∧ updateOk e = true)

/-- a declared channel that is not broadcast (scalar or array; reference parameters declare nothing) -/
def badChan : FSym → Bool
  | .var f _ => !f.ref && f.chS && !f.bcS
  | _ => false

/-- stochastic analysis may be reported only if every declared channel is broadcast and there are no priorities -/
def SpecStochastic (m : Doc) : Prop :=
  m.prio = false ∧ (∀ s ∈ m.gframe, badChan s = false) ∧ ∀ t ∈ m.templs, t.inst = true → ∀ s ∈ t.frame, badChan s = false

def SpecConcrete (m : Doc) : Prop := m.prio = false

instance (m : Doc) : Decidable (SpecSymbolic m) := by unfold SpecSymbolic; infer_instance
instance (m : Doc) : Decidable (SpecStochastic m) := by unfold SpecStochastic; infer_instance
instance (m : Doc) : Decidable (SpecConcrete m) := by unfold SpecConcrete; infer_instance

/-! ## placements (shapes) of the restricting features, and which of them the configured checker inspects -/

inductive Ctx where
  | guard | inv
deriving DecidableEq, Repr, Inhabited

inductive Shape where
  | cmp (ctx : Ctx) (root : Bool) (op : Kind)   -- clock ⋈ floating point
  | assign (hybridInValue : Bool)               -- x = fp, the value mentions a hybrid clock or not
  | init (array : Bool)                         -- clock c = fp  /  clock c[n] = {fp, …}
  | rateInt (conj : Bool)                       -- x' == n, n ∉ {0,1}; a conjunct of the invariant or deeper (forall, …)
  | rateDbl (conj : Bool)                       -- x' == 2.5 (any floating-point literal)
  | chan (localDecl : Bool) (array : Bool)      -- non-broadcast channel
deriving DecidableEq, Repr, Inhabited

def detects (cfg : Cfg) : Shape → Bool
  | .cmp .guard true op => cfg.guardKinds.contains op
  | .cmp .guard false op => cfg.guardRecursive && cfg.guardKinds.contains op
  | .cmp .inv true op => cfg.invariantCompared && cfg.guardKinds.contains op
  | .cmp .inv false op => cfg.invariantCompared && cfg.guardRecursive && cfg.guardKinds.contains op
  | .assign hyb => !hyb || cfg.assignHybridTargetOnly
  | .init arr => !arr || cfg.initThroughArrays
  | .rateInt conj => conj
  | .rateDbl conj => cfg.rateDoubleHandled && conj
  | .chan loc arr => (!loc || cfg.chanLocalFrames) && (!arr || cfg.chanThroughArrays)

def opOf : FExpr → Kind
  | .node k _ _ _ => k
  | .empty => .kCONSTANT

def cmpShapes (ctx : Ctx) (e : FExpr) : List Shape :=
  (occs e).filterMap (fun pe => if isCmpClockFp pe.2 then some (.cmp ctx pe.1.root (opOf pe.2)) else none)

def rateShapes (e : FExpr) : List Shape :=
  (occs e).filterMap (fun pe => if isBadRate pe.2 && !isDblRate pe.2 then some (.rateInt pe.1.conj) else none)
  ++ (occs e).filterMap (fun pe => if isDblRate pe.2 then some (.rateDbl pe.1.conj) else none)

def assignShapes (e : FExpr) : List Shape :=
  (updateElems e).filterMap (fun a => if isAssignFp a then some (.assign (usesHybrid a)) else none)

def symShapes (localDecl : Bool) : FSym → List Shape
  | .var f init =>
    (if isInitFp f init then [.init (!f.clkD)] else [])
      ++ (if badChan (.var f init) then [.chan localDecl (!(f.chD && !f.bcD))] else [])
  | .loc _ inv => cmpShapes .inv inv ++ rateShapes inv
  | _ => []

def edgeShapes (e : Edge) : List Shape := cmpShapes .guard e.guard ++ assignShapes e.assign

def templShapes (t : Templ) : List Shape :=
  t.frame.flatMap (symShapes true) ++ t.edges.flatMap edgeShapes

/-- placements of restricting features present in a model (instantiated templates and global declarations) -/
def shapesOf (m : Doc) : List Shape :=
  m.gframe.flatMap (symShapes false) ++ m.templs.flatMap (fun t => if t.inst then templShapes t else [])

def allShapes : List Shape :=
  ([Ctx.guard, Ctx.inv].flatMap fun c => [true, false].flatMap fun r => relKinds.map fun k => Shape.cmp c r k)
  ++ [.assign false, .assign true, .init false, .init true, .rateInt true, .rateInt false, .rateDbl true, .rateDbl false,
      .chan false false, .chan false true, .chan true false, .chan true true]

/-- the computed exception set: placements the configured checker does not inspect -/
def exceptions (cfg : Cfg) : List Shape := allShapes.filter (fun s => !detects cfg s)

def Shape.key : Shape → String
  | .cmp c r k => s!"cmp:{if c == .guard then "guard" else "invariant"}/{if r then "root" else "nested"}/{k.name}"
  | .assign h => if h then "assign:hybrid-in-value" else "assign:plain"
  | .init a => if a then "init:clock-array" else "init:clock"
  | .rateInt c => if c then "rate:int/conjunct" else "rate:int/non-conjunct"
  | .rateDbl c => if c then "rate:double/conjunct" else "rate:double/non-conjunct"
  | .chan l a => s!"chan:{if l then "local" else "global"}/{if a then "array" else "scalar"}"

end UtapModel.Feature
