"""C20 -- the XML writer's template graph mirrors the document it was given; writing never crashes (DESIGN.md C20).

 1 prove       UtapModel.Props.C20: readGraph (writeXml d) = graphOf d for every document without a computed exception
               shape, writeXml d = none (crash) iff a branchpoint endpoint / missing init, ids unique, a witness per shape
 2 run         C04's generator (+ labels with string literals outside ASCII: string_labels; models whose synchronisations are all
               CSP style, a channel with neither `!` nor `?`: csp_syncs) -> XML text -> real parse_XML_buffer -> real write_XML_file
               (in a child process) -> the written file read with libxml2's *tree* API (independent of the library's own reader)
 3 oracle      written graph ("W" lines) == graph of the document that was written ("G" lines: the specification graphOf,
               printed by drv_c20 from the harness's dump of the Document; the text of a synchronisation is composed from the
               channel expression and the direction the edge holds).  A deviation is accepted only if it is exactly
               the deviation the model of the writer predicts for the exception shapes present in that document
               (then: one finding per shape, listed in known_findings.d/C20.json); anything else is a VIOLATION.
 4 correspond  the model's predicted written graph == the real written graph on every document (tie C).
"""
import base64
import json
import os
import random
import re
import time

from vlib import core
from checks import c04_model as m

MODULE = "UtapModel.Props.C20"


SHAPE_TEXT = {
    "edge:probability-not-written": "a probability weight other than 1 is never written",
    "edge:select-bindings-after-first-not-written": "only the first select binding of an edge is written",
    "edge:select-type-not-written": "the type of a select binding is written only if it is a typedef name",
    "edge:controllable-false-not-written": "the controllable attribute is never written: uncontrollable edges come out controllable",
    "crash:branchpoint-endpoint-null-location": "write_XML_file crashes on an edge from/to a branchpoint (null location_t* dereferenced in XMLWriter::source/target)",
    "crash:process-with-unbound-parameters": "write_XML_file crashes on a process with free parameters (instance_t::print_arguments dereferences mapping.end())",
    "crash:template-without-init": "write_XML_file crashes on a template without initial location (null symbol data dereferenced in XMLWriter::init)",
}


def toks(line):
    """split on blanks outside double quotes; quotes use \\ escapes (vh::quote)"""
    out, cur, q, i = [], "", False, 0
    while i < len(line):
        c = line[i]
        if q:
            cur += c
            if c == "\\" and i + 1 < len(line):
                cur += line[i + 1]
                i += 1
            elif c == '"':
                q = False
        elif c == '"':
            q = True
            cur += c
        elif c == " ":
            if cur:
                out.append(cur)
            cur = ""
        else:
            cur += c
        i += 1
    if cur:
        out.append(cur)
    return out


def unq(s):
    if s.startswith('"') and s.endswith('"'):
        body = s[1:-1]
        t = re.sub(r"\\x([0-9a-f]{2})", lambda mm: chr(int(mm.group(1), 16)),
                   body.replace('\\"', '"').replace("\\n", "\n").replace("\\t", "\t").replace("\\\\", "\\"))
        try:
            return t.encode("latin-1").decode("utf-8")      # the bytes are UTF-8 text (kept byte by byte if they are not: a cut character)
        except (UnicodeEncodeError, UnicodeDecodeError):
            return t
    return s


class TextKeys:
    def __init__(self):
        self.k = {}

    def key(self, text):
        if text not in self.k:
            self.k[text] = "k%d" % len(self.k)
        return self.k[text]

    def ltxt(self, tok, text=None):
        """tok: a (quoted) token of the harness, or `text`: the text itself"""
        if tok == "-":
            return "-"
        t = unq(tok) if text is None else text
        if t == "1":
            return "1"
        if t.startswith("1 && "):
            return "A:" + self.key(t[5:])
        return "P:" + self.key(t)


def lean_doc_lines(cid, dlines, tk):
    """harness 'D' lines -> the line format of drv_c20"""
    out = ["model " + cid]
    locnr, bpnr = {}, {}
    open_t = False
    for l in dlines:
        w = toks(l)
        if w[1] == "template":
            if open_t:
                out.append("endtempl")
            out.append("templ " + w[2])
            open_t = True
            locnr, bpnr = {}, {}
        elif w[1] == "location":
            kv = dict(x.split("=", 1) for x in w[2:])
            locnr[kv["name"]] = int(kv["nr"])
            out.append("loc %s %s %s %s" % (kv["name"], kv["flag"], tk.ltxt(kv["inv"]), tk.ltxt(kv["rate"])))
        elif w[1] == "branchpoint":
            kv = dict(x.split("=", 1) for x in w[2:])
            bpnr[kv["name"]] = int(kv["nr"])
            out.append("bp " + kv["name"])
        elif w[1] == "process":
            if open_t:
                out.append("endtempl")
                open_t = False
            kv = dict(x.split("=", 1) for x in w[3:])
            out.append("proc %s %s -%s" % (w[2], kv["istempl"], kv["bound"][1:-1]))
        elif w[1] == "init":
            out.append("init %s" % (locnr.get(w[2], "-") if w[2] != "NONE" else "-"))
        elif w[1] == "edge":
            def end(x):
                kind, name = x.split(":", 1)
                return ("L%d" % locnr[name]) if kind == "L" else ("B%d" % bpnr[name])
            kv = dict(x.split("=", 1) for x in w[5:])
            sync = tk.ltxt(kv["sync"])
            if kv.get("syncdir", "-") != "-":
                # the text the synchronisation label has to carry: the channel expression followed by the direction the edge holds
                # (`!`, `?`, nothing for a CSP-style synchronisation) -- composed here, not taken from the printed SYNC node
                sync = tk.ltxt(None, unq(kv["syncchan"]) + {"?": "?", "!": "!", "csp": ""}[kv["syncdir"]])
            out.append("edge %s %s %s %s %s %s %s" % (end(w[2]), end(w[4]), kv["control"], tk.ltxt(kv["guard"]), sync,
                                                     tk.ltxt(kv["assign"]), tk.ltxt(kv["prob"])))
            sel = kv["select"][1:-1]
            if sel:
                for b in re.findall(r'([A-Za-z_0-9]+):("(?:[^"\\]|\\.)*")', sel):
                    ty = unq(b[1])
                    mm = re.match(r"\(const \(label ([A-Za-z_0-9]+):", ty)
                    # the text of the type as written in the model: a typedef name, or (for the shapes generated here) a range
                    mr = re.match(r'\(const \(range \(int\) "(-?\d+)" "(-?\d+)"\)\)', ty)
                    text = mm.group(1) if mm else ("int[%s,%s]" % (mr.group(1), mr.group(2)) if mr else tk.key(ty))
                    out.append("sel %s %s %d" % (b[0], text, 1 if mm else 0))
    if open_t:
        out.append("endtempl")
    out.append("end")
    return out


def delocalise(lines):
    """W lines written under a digit-grouping locale: a location id such as `id1,001` is rewritten to its plain form, and so is every
    reference that names a written location of the same template; a reference that names no written location is marked"""
    blocks, cur = [], []
    for l in lines:
        if l.split()[1] == "template" and cur:
            blocks.append(cur)
            cur = []
        cur.append(l)
    if cur:
        blocks.append(cur)
    out = []
    for blk in blocks:
        ids = {x[3:] for l in blk if l.split()[1] == "location" for x in l.split()[2:] if x.startswith("id=")}

        def ref(x):
            return x.replace(",", "") if x in ids else "UNRESOLVED(%s)" % x
        for l in blk:
            w = l.split()
            if w[1] == "location":
                w = [("id=" + x[3:].replace(",", "")) if x.startswith("id=") else x for x in w]
            elif w[1] == "init":
                w = [("ref=" + ref(x[4:])) if x.startswith("ref=") else x for x in w]
            elif w[1] == "transition":
                w[2], w[4] = ref(w[2]), ref(w[4])
            out.append(" ".join(w))
    return out


def norm_w(lines, tk):
    """harness 'W' lines -> the format of the driver's W/G lines (texts as keys, blanks as ~, controllable as 0/1)"""
    out = []
    for l in lines:
        w = toks(l)
        if w[1] == "location":
            kv = [x.split("=", 1) for x in w[2:]]
            res = []
            for k, v in kv:
                if k in ("inv", "rate") and v != "-":
                    v = tk.k.get(unq(v), "?" + unq(v).replace(" ", "~"))
                res.append("%s=%s" % (k, v))
            out.append("W location " + " ".join(res))
        elif w[1] == "transition":
            head = "W transition %s -> %s" % (w[2], w[4])
            res = []
            for x in w[5:]:
                k, v = x.split("=", 1)
                if k == "controllable":
                    v = "1" if v in ("<none>", "true") else "0"
                elif k == "select":
                    v = unq(v).replace(" ", "~")
                else:
                    v = tk.k.get(unq(v), "?" + unq(v).replace(" ", "~"))
                res.append("%s=%s" % (k, v))
            out.append(head + " " + " ".join(res))
        else:
            out.append(" ".join(w))
    return out


def field_key(a, b):
    """shape of an unexplained deviation between a written line and the specified line"""
    x, y = a.split(" "), b.split(" ")
    what = x[1] if len(x) > 1 else (y[1] if len(y) > 1 else "line")
    if what == "transition" and len(x) > 4 and len(y) > 4:
        if x[2] != y[2]:
            return "transition/source"
        if x[4] != y[4]:
            return "transition/target"
        kx = dict(t.split("=", 1) for t in x[5:])
        ky = dict(t.split("=", 1) for t in y[5:])
        for k in ("controllable", "select", "guard", "synchronisation", "assignment", "probability"):
            if kx.get(k) != ky.get(k):
                return "transition/" + k
    if what == "location" and len(x) == len(y):
        for p, q in zip(x[2:], y[2:]):
            if p != q:
                return "location/" + p.split("=")[0]
    return what + "/structure"


def run_models(ctx, exe, drv, cases):
    """cases: {cid: xml}.  Returns per case a dict with real W, predicted W, spec G, shapes, crash flags."""
    frames = [(cid, m.frame("writeL" if cid.startswith("L") else "write", cid, xml)) for cid, xml in cases.items()]
    blocks, crashed = m.run_batches(exe, [], frames)
    lean, tks = [], {}
    res = {}
    for cid in cases:
        b = blocks.get(cid, [])
        acc = [l for l in b if l.startswith("ACCEPTED ")]
        r = {"accepted": bool(acc) and acc[0].startswith("ACCEPTED 1"), "raw": b,
             "crash": any(l.startswith("WRITER-CRASH") for l in b) or cid in crashed,
             "written": "WRITTEN" in b, "exception": [l for l in b if "EXCEPTION" in l]}
        res[cid] = r
        if not r["accepted"]:
            continue
        tks[cid] = TextKeys()
        lean += lean_doc_lines(cid, [l for l in b if l.startswith("D ")], tks[cid])
    rc, lblocks, lerr = m.run_lean(drv, lean)
    for cid, r in res.items():
        if not r["accepted"]:
            continue
        lb = lblocks.get(cid, [])
        r["shapes"] = ([l for l in lb if l.startswith("SHAPES")] or ["SHAPES"])[0].split()[1:]
        r["pred_crash"] = "CRASH" in lb
        r["pred"] = [l for l in lb if l.startswith("W ")]
        r["spec"] = ["W" + l[1:] for l in lb if l.startswith("G ")]
        r["fixed_pred"] = ["W" + l[1:] for l in lb if l.startswith("V ")]
        r["fixed_spec"] = ["W" + l[1:] for l in lb if l.startswith("H ")]
        r["cfg"] = ([l for l in lb if l.startswith("CFG")] or [""])[0]
        r["real"] = norm_w([l for l in r["raw"] if l.startswith("W ")], tks[cid])
        r["keytext"] = {k: t for t, k in tks[cid].k.items()}      # for messages: the text behind a key
        if cid.startswith("L"):
            r["real"] = delocalise(r["real"])
        r["lean_ok"] = bool(lb)
    return res


def wildcard_bp(lines, spec):
    """edges from/to branchpoints are outside the property's statement: blank their endpoints where the spec has none"""
    if len(lines) != len(spec):
        return lines
    out = []
    for a, b in zip(lines, spec):
        x, y = a.split(" "), b.split(" ")
        if len(x) > 4 and len(y) > 4 and x[1] == "transition" and y[1] == "transition":
            if y[2] == "-":
                x[2] = "-"
            if y[4] == "-":
                x[4] = "-"
        out.append(" ".join(x))
    return out


def judge(r):
    """-> (findings: [(key, what)], violations: [(key, what)], model_mismatch: str|None)"""
    known, viol, mism = [], [], None
    shapes = r["shapes"]
    if r["crash"] or not r["written"]:
        if r["pred_crash"]:
            # attribute the crash to a shape only when it is the single possible cause in this document
            cs = [s for s in shapes if s.startswith("crash:")]
            if len(cs) == 1:
                known.append((cs[0], SHAPE_TEXT.get(cs[0], cs[0])))
        else:
            viol.append(("crash:write_XML_file", "the writer crashed on a document without a crash shape: %r" % r["raw"][-3:]))
        return known, viol, mism
    real = [l for l in r["real"] if not l.startswith("W branchpoint")]
    spec = r["spec"]
    if "W NOT-WELL-FORMED" in real or "W NO-NTA-ROOT" in real:
        viol.append(("written:not-well-formed", "the written file is not well-formed XML"))
        return known, viol, mism
    if r["pred_crash"]:
        # the library survives a document on which the unchanged writer dies (a repaired tree): compare with the model of
        # the repaired writer; endpoints of branchpoint edges are not part of the property
        mism = "model predicts a crash (%s), the writer survived" % ",".join(s for s in shapes if s.startswith("crash:"))
        pred = [l for l in r["fixed_pred"] if not l.startswith("W branchpoint")]
        spec = r["fixed_spec"]
        shapes = [s for s in shapes if not s.startswith("crash:")]
    else:
        pred = r["pred"]
    realw, predw = wildcard_bp(real, spec), wildcard_bp(pred, spec)
    if realw == spec:
        if predw != spec:
            mism = (mism + "; " if mism else "") + "model predicts a deviation (%s) that the library does not show" % ",".join(shapes)
        return known, viol, mism
    if not (len(realw) == len(spec) == len(predw)):
        d = m.first_diff(realw, spec)
        viol.append(("written:" + field_key(d[1], d[2]), "written file has %r, document has %r" % (d[1], d[2])))
        return known, viol, mism
    # field by field: every field is either what the document says, or exactly the deviation the writer model predicts
    for lr, lp, ls in zip(realw, predw, spec):
        if lr == ls:
            continue
        fr, fp, fs = fields(lr), fields(lp), fields(ls)
        for k in sorted(set(fr) | set(fs)):
            vr, vp, vs = fr.get(k), fp.get(k), fs.get(k)
            if vr == vs:
                continue
            if vr == vp:
                for sh in shape_of_field(k, vp, vs):
                    known.append((sh, SHAPE_TEXT.get(sh, sh) + ": written %s=%s, document has %s=%s" % (k, vr, k, vs)))
                    if sh not in shapes:
                        viol.append(("model:shape-not-computed/" + sh, "deviation %s without its shape in the computed set %r" % (k, shapes)))
            else:
                kt = r.get("keytext", {})
                viol.append(("written:%s/%s" % (fr.get("_kind", "line"), k),
                             "written file has %s=%s, document has %s=%s (writer model: %s) in %r" % (
                                 k, kt.get(vr, vr), k, kt.get(vs, vs), kt.get(vp, vp), lr)))
    if not known and not viol:
        mism = (mism + "; " if mism else "") + "lines differ but no field does"
    return known, viol, mism


def fields(line):
    w = line.split(" ")
    f = {"_kind": w[1] if len(w) > 1 else "line"}
    if f["_kind"] == "transition" and len(w) > 4:
        f["source"], f["target"] = w[2], w[4]
        rest = w[5:]
    else:
        rest = w[2:]
    for x in rest:
        if "=" in x:
            k, v = x.split("=", 1)
            f[k] = v
        else:
            f["_" + x] = x
    return f


def shape_of_field(k, vp, vs):
    if k == "controllable":
        return ["edge:controllable-false-not-written"]
    if k == "probability":
        return ["edge:probability-not-written"]
    if k == "select":
        out = []
        spec_b = (vs or "").split(",~")
        if len(spec_b) > 1:
            out.append("edge:select-bindings-after-first-not-written")
        if (vp or "") != spec_b[0]:
            out.append("edge:select-type-not-written")
        return out
    return ["field:" + k]


def run(ctx):
    cov = ctx.coverage
    m.regen_tables(ctx)      # on failure (reported as a broken tie) go on with the tables of the last good run: the oracle below finds the input
    ok, log = ctx.prove(MODULE, ["drv_c20"])
    broken = []
    if not ok:
        broken = core.failing_theorems(log)
        ctx.log("proof broken:", broken or log[-1500:])
        if not os.path.exists(core.lean_exe("drv_c20")):
            for path, thm, msg in (broken or [("?", "lake build", log[-300:])]):
                ctx.proof_broken(thm, msg + "\n" + log[-2000:], "nothing could be run")
            return
    b = core.build_repo("asan")
    exe = core.build_harness(b, "c04", ["c04.cpp"])
    drv = core.lean_exe("drv_c20")
    n = 1600 if not ctx.thorough else 15000
    cases, models = {}, {}
    for i in range(n):
        r = random.Random(ctx.rng.getrandbits(48))
        g = m.Gen(r, size=(1.0 if i % 7 else 2.5) if not ctx.thorough else (1.0 if i % 4 else 3.0))
        g.c20 = True
        M = g.model()
        if i % 4 != 3:
            make_clean(M)                 # documents without any exception shape: the writer has to get everything right
        if i % 4 == 1:
            special_names(M, r)
        if i % 4 == 2:
            inject_shape(M, r)            # exactly one kind of exception shape
        if i % 8 == 5:
            string_labels(M, r)
        if i % 5 == 0:
            csp_syncs(M)
        cases["c%d" % i] = m.XmlText(None).render(M)
        models["c%d" % i] = M
    # the same under a global locale that groups digits, including a template with more than a thousand locations (ids above 999)
    for i in range(0, n, 16):
        cases["Lc%d" % i] = cases["c%d" % i]
        models["Lc%d" % i] = models["c%d" % i]
    big = ['<?xml version="1.0" encoding="utf-8"?><nta><declaration>int v;</declaration><template><name>Big</name>']
    nb = 1012
    big += ['<location id="id%d"><name>B%d</name></location>' % (k, k) for k in range(nb)]
    big.append('<init ref="id%d"/>' % (nb - 3))
    big += ['<transition><source ref="id%d"/><target ref="id%d"/><label kind="guard">v &gt;= %d</label></transition>' % (a, b_, a % 7)
            for a, b_ in ((nb - 3, 5), (5, nb - 1), (nb - 1, 1003), (1003, 998), (998, nb - 3), (1, 2))]
    big.append("</template><system>system Big;</system></nta>")
    for cid in ("cbig", "Lcbig"):
        cases[cid] = "\n".join(big)
        models[cid] = None
    t1 = time.time()
    res = run_models(ctx, exe, drv, cases)
    cov["run_s"] = round(time.time() - t1, 1)
    acc = [c for c, r in res.items() if r["accepted"]]
    stats = {"accepted": len(acc), "rejected_by_typechecker": len(res) - len(acc), "writer_crashed": 0, "clean_documents": 0,
             "documents_equal_to_spec": 0, "shape_hits": {}}
    mismatches = []
    viol_cases = {}
    known_seen = {}
    for cid in acc:
        r = res[cid]
        if not r["lean_ok"]:
            ctx.proof_broken("correspondence:drv_c20", "no output of the Lean driver for " + cid, "n/a")
            break
        known, viol, mism = judge(r)
        stats["writer_crashed"] += 1 if r["crash"] else 0
        stats["clean_documents"] += 1 if not r["shapes"] else 0
        stats["documents_equal_to_spec"] += 1 if (not r["crash"] and r["real"] == r["spec"]) else 0
        for s in r["shapes"]:
            stats["shape_hits"][s] = stats["shape_hits"].get(s, 0) + 1
        for k, w in known:
            # prefer an example in which this is the only shape present
            if k not in known_seen or (len(r["shapes"]) == 1 and len(res[known_seen[k][1]]["shapes"]) > 1):
                known_seen[k] = (w, cid)
        for k, w in viol:
            viol_cases.setdefault(k, (w, cid))
        if mism:
            mismatches.append((cid, mism))
    cov.update({"evaluations": len(acc), "correspondence_cases": len(acc), "correspondence_disagreements": len(mismatches) + len(viol_cases),
                "distinct_nontrivial": len({json.dumps(m.model_stats(models[c])) + str(sorted(res[c]["shapes"])) for c in acc if models[c] is not None}),
                "distribution": stats,
                "rule": "graph read from the written file with libxml2's tree API == graphOf(document) (drv_c20 'G' lines); deviations only "
                        "as predicted by the writer model for the computed exception shapes",
                "samples": [{"case": c, "shapes": res[c]["shapes"], "written": res[c]["real"][:4], "specified": res[c]["spec"][:4]} for c in acc[:2]]})
    for k, (w, cid) in known_seen.items():
        ctx.finding(k, w, {"xml": cases[cid], "written": res[cid]["real"], "document_graph": res[cid]["spec"], "crash": res[cid]["crash"]})
    for k, (w, cid) in list(viol_cases.items())[:5]:
        M = models[cid]
        sid = "Ls" if cid.startswith("L") else "s"        # shrink under the same locale

        def still(N, k=k):
            rr = run_models(ctx, exe, drv, {sid: m.XmlText(None).render(N)})[sid]
            return rr["accepted"] and k in [x[0] for x in judge(rr)[1]]
        if M is None:
            xml = cases[cid]
        else:
            try:
                M2 = m.shrink(M, still, budget=60 if not ctx.thorough else 200)
            except Exception as ex:
                ctx.log("shrink failed", ex)
                M2 = M
            xml = m.XmlText(None).render(M2)
        rr = run_models(ctx, exe, drv, {sid: xml})[sid]
        ctx.finding(k, w, {"entry": "parse_XML_buffer + write_XML_file, read back with libxml2 tree API"
                                    + (" (global locale with digit grouping installed first)" if sid == "Ls" else ""), "xml": xml,
                           "xml_b64": base64.b64encode(xml.encode()).decode(), "written": rr.get("real"),
                           "document_graph": rr.get("spec"), "model_prediction": rr.get("pred"), "crash": rr.get("crash")})
    if mismatches and not viol_cases:
        ctx.notes.append("writer model predicts deviations the library no longer shows: %r" % mismatches[:3])
        cov["model_stale"] = mismatches[:5]
    if not ok and not [v for v in ctx.violations if not v[3]]:
        for path, thm, msg in (broken or [("?", "lake build", log[-300:])]):
            ctx.proof_broken(thm, msg + "\n" + log[-2000:], "oracle on the generated models of the real library: no failing input")
    ctx.assumptions += [
        "label texts are the printed expressions (expression_t::str), opaque except for the text \"1\" and the prefix \"1 && \" that "
        "XMLWriter::label inspects; a leading \"1 && \" (how the type checker stores invariants) is not part of the required text",
        "GUI attributes, nails, the re-emitted global declarations, parameters and the system section are not part of the template graph",
        "edges from/to branchpoints are outside the property's statement except for 'writing never crashes'",
        "escaping of special characters is libxml2's writer (tested with names/labels containing < > & \")",
    ]


def make_clean(M):
    free = {t["name"]: bool(t["params"]) for t in M["templates"]}
    for i in M["insts"]:
        free[i["name"]] = bool(i["params"])
    for t in M["templates"]:
        keep = set(l["id"] for l in t["locs"])
        t["edges"] = [e for e in t["edges"] if e["src"] in keep and e["tgt"] in keep]
        for e in t["edges"]:
            if e["ctrl"] is False:
                e["ctrl"] = None
            labs = []
            for k, pl in e["labels"]:
                if k == "probability":
                    continue
                if k == "select":
                    pl = [[pl[0][0], ["named", "idT"]]]
                labs.append([k, pl])
            e["labels"] = labs
    procs = [p for p in M["procs"] if not free.get(p["name"], True)]
    if not procs:
        cand = [n for n, f in free.items() if not f]
        procs = [{"name": cand[0], "lt": False}] if cand else M["procs"]
    if procs:
        procs[0]["lt"] = False
    M["procs"] = procs


def inject_shape(M, r):
    edges = [(t, e) for t in M["templates"] for e in t["edges"]]
    kind = r.choice(["prob", "sel2", "seltype", "ctrl"])
    if not edges:
        return
    t, e = r.choice(edges)
    if kind == "prob":
        e["labels"].append(["probability", ["int", 40000 + r.randint(0, 999)]])
    elif kind == "ctrl":
        e["ctrl"] = False
    else:
        e["labels"] = [l for l in e["labels"] if l[0] != "select"]
        sel = [["j0", ["named", "idT"]], ["j1", ["named", "idT"]]] if kind == "sel2" else [["j0", ["range", 0, 5]]]
        e["labels"].insert(0, ["select", sel])


def special_names(M, r):
    """labels with XML-special text: comparisons with < > and &&, trivially true guards, literal guards other than 1"""
    for t in M["templates"]:
        for e in t["edges"]:
            if r.random() < 0.15 and not any(k == "guard" for k, _ in e["labels"]):
                e["labels"].append(["guard", ["int", 1]])           # trivially true guard: nothing to write
            if r.random() < 0.12 and not any(k == "guard" for k, _ in e["labels"]):
                e["labels"].append(["guard", ["int", r.choice([0, 2, 7])]])   # a literal other than 1: must be written (seed C20-13)
            if r.random() < 0.1 and not any(k == "guard" for k, _ in e["labels"]):
                e["labels"].append(["guard", ["AND", ["LT", ["id", "m"], ["int", 7]], ["GT", ["id", "m"], ["int", -3]]]])


# words with characters of two, three and four bytes in UTF-8, at the start, inside and at the end of the literal
WORDS = ["na\u00efve", "\u00c6r\u00f8", "\u00ff", "\u65e5\u672c\u8a9e", "a\U0001f600b", "\u03a9mega\u2192", "plain ascii", "fa\u00e7ade 2", "\u00e9"]


def string_labels(M, r):
    """labels whose expression contains a string literal with characters outside ASCII (the argument of a function called in a guard,
    an update or an invariant): the text of a label is a sequence of characters, its length in bytes is another number"""
    M["gdecls"].append({"cat": "fun", "name": "code", "text": "int code(const string& s) { return 1; }", "dump": "", "trace": []})

    def call():
        return ["FUN_CALL", ["id", "code"], ["str", r.choice(WORDS)]]
    for t in M["templates"]:
        for e in t["edges"]:
            if e["src"] in t["bps"]:
                continue
            kinds = [k for k, _ in e["labels"]]
            if "guard" not in kinds and r.random() < 0.5:
                e["labels"].append(["guard", ["EQ", call(), ["id", "m"]] if r.random() < 0.5 else ["AND", ["GE", ["id", "m"], ["int", 2]], ["EQ", ["id", "m"], call()]]])
            if "assignment" not in kinds and r.random() < 0.5:
                u = ["ASSIGN", ["id", "m"], call()]
                e["labels"].append(["assignment", u if r.random() < 0.5 else ["COMMA", u, ["ASSIGN", ["id", "x"], ["int", 0]]]])
        for l in t["locs"]:
            if not any(k == "invariant" for k, _ in l["labels"]) and r.random() < 0.3:
                l["labels"].insert(0, ["invariant", ["AND", ["LE", ["id", "x"], ["int", 9000 + r.randint(0, 99)]], ["EQ", call(), ["int", 1]]]])


def csp_syncs(M):
    """every synchronisation of the model in the CSP style (a channel expression with neither `!` nor `?`; a model may not mix the two
    styles): the synchronisation label then is the channel expression alone"""
    for t in M["templates"]:
        for e in t["edges"]:
            for lab in e["labels"]:
                if lab[0] == "synchronisation":
                    lab[1] = [lab[1][0], ""]


def replay(ctx, path):
    r = json.load(open(path))
    rep = r.get("replay", {})
    xml = rep.get("xml")
    if xml is None:
        print(json.dumps(r, indent=1)[:4000])
        return 1
    b = core.build_repo("asan")
    exe = core.build_harness(b, "c04", ["c04.cpp"])
    rr = run_models(ctx, exe, core.lean_exe("drv_c20"), {"replay": xml})["replay"]
    print("\n".join(rr["raw"]))
    print("--- specified graph ---")
    print("\n".join(rr.get("spec", [])))
    known, viol, mism = judge(rr) if rr["accepted"] else ([], [], None)
    print("known:", known, "\nviolations:", viol)
    return 1 if (viol or known) else 0
