"""Model generators shared by checks/c11.py and checks/c13.py (properties C11 and C13).

A case is a whole model (XML document for parse_XML_buffer, or XTA text for parse_XTA) plus queries, together with
what the property statement says about it:  expect = "reject" (some diagnostic of `allowed` must appear),
"accept" (no diagnostic at all) or None (only the model/implementation tie is checked on it).
Everything is deterministic in the `random.Random` handed in.
"""
from xml.sax.saxutils import escape

ASSIGN_OPS = ["=", "+=", "-=", "*=", "/=", "%=", "&=", "|=", "^=", "<<=", ">>="]

BASE_DECL = """int w; int x; int arr[3]; struct { int a; int b; } st; bool bb; clock c; chan ch; chan cha[4];
const int C = 2; const int CA[3] = {0, 1, 2};
int pure(int a) { int l = a; l = l + 1; return l; }
int rdC() { return C + CA[1]; }
"""


class Case:
    def __init__(self, cid, kind, text, queries=(), expect=None, allowed=(), shape="", meta=None):
        self.cid, self.kind, self.text, self.queries = cid, kind, text, list(queries)
        self.expect, self.allowed, self.shape, self.meta = expect, list(allowed), shape, meta or {}

    def frame(self):
        mb = self.text.encode()
        out = [b"CASE %s %s %d %d\n" % (self.cid.encode(), self.kind.encode(), len(mb), len(self.queries)), mb, b"\n"]
        for q in self.queries:
            qb = q.encode()
            out += [b"Q %d\n" % len(qb), qb, b"\n"]
        return b"".join(out)

    def replay_obj(self):
        return {"entry": "parse_XML_buffer" if self.kind == "xml" else "parse_XTA", "newxta": self.kind != "xta_old",
                "model_text": self.text, "queries": self.queries, "expect": self.expect, "allowed_diagnostics": self.allowed,
                "shape": self.shape}


def xml_model(gdecl="", tdecl="", params="", inv=None, select=None, guard=None, sync=None, assign=None, prob=None,
              system="system P;", extra_templates=""):
    """One template P (s0 -> s1, and s0 -> branchpoint -> s1 when a probability is given)."""
    def lab(kind, txt):
        return '<label kind="%s">%s</label>' % (kind, escape(txt)) if txt is not None else ""
    tr = "<transition><source ref=\"id0\"/><target ref=\"id1\"/>%s%s%s%s</transition>" % (
        lab("select", select), lab("guard", guard), lab("synchronisation", sync), lab("assignment", assign))
    bp = ""
    if prob is not None:
        bp = ("<transition><source ref=\"id0\"/><target ref=\"id2\"/></transition>"
              "<transition><source ref=\"id2\"/><target ref=\"id1\"/>%s</transition>" % lab("probability", prob))
    return ("<?xml version=\"1.0\" encoding=\"utf-8\"?>\n<!DOCTYPE nta PUBLIC '-//Uppaal Team//DTD Flat System 1.5//EN' "
            "'http://www.it.uu.se/research/group/darts/uppaal/flat-1_5.dtd'>\n<nta><declaration>%s</declaration>%s"
            "<template><name>P</name><parameter>%s</parameter><declaration>%s</declaration>"
            "<location id=\"id0\"><name>s0</name>%s</location><location id=\"id1\"><name>s1</name></location>"
            "<branchpoint id=\"id2\"/><init ref=\"id0\"/>%s%s</template><system>%s</system></nta>\n" % (
                escape(gdecl), extra_templates, escape(params), escape(tdecl), lab("invariant", inv), tr, bp, escape(system)))


def xta_model(gdecl="", tdecl="", params="", inv=None, select=None, guard=None, sync=None, assign=None, system="system P;"):
    lab = ""
    if select is not None:
        lab += " select %s;" % select
    if guard is not None:
        lab += " guard %s;" % guard
    if sync is not None:
        lab += " sync %s;" % sync
    if assign is not None:
        lab += " assign %s;" % assign
    return "%s\nprocess P(%s) {\n%s\nstate s0%s, s1;\ninit s0;\ntrans s0 -> s1 {%s };\n}\n%s\n" % (
        gdecl, params, tdecl, (" { %s }" % inv) if inv is not None else "", lab, system)


# ------------------------------------------------------------------------------------------------------------------
# contexts of property C11 / C13.  Each takes an int-valued expression text `e` and returns keyword arguments for
# xml_model/xta_model (+ queries) and the diagnostics that a side effect in `e` may legitimately be reported with.
# `ctc` = the context also demands compile-time computability (then a twin may only read constants).

SE = "$%s_must_be_side-effect_free"
NC = "$Must_be_computable_at_compile_time"


def contexts():
    c = {}
    c["guard"] = dict(mk=lambda e: dict(guard="%s == 1" % e), allowed=[SE % "Guard"], ctc=False)
    c["invariant"] = dict(mk=lambda e: dict(inv="%s == 1" % e), allowed=[SE % "Invariant"], ctc=False)
    c["sync-index"] = dict(mk=lambda e: dict(sync="cha[%s]!" % e), allowed=[SE % "Synchronisation"], ctc=False)
    c["probability"] = dict(mk=lambda e: dict(prob="%s" % e), allowed=[SE % "Probability"], ctc=False, xml_only=True)
    c["select-domain"] = dict(mk=lambda e: dict(select="i : int[0, %s]" % e), allowed=[NC], ctc=True)
    c["init-global"] = dict(mk=lambda e: dict(gdecl_post="int y = %s;" % e), allowed=[NC, SE % "Initialiser"], ctc=True)
    c["init-template"] = dict(mk=lambda e: dict(tdecl="int y = %s;" % e), allowed=[NC, SE % "Initialiser"], ctc=True)
    c["init-local"] = dict(mk=lambda e: dict(gdecl_post="void lf() { int l = %s; l = l + 1; }" % e), allowed=[SE % "Initialiser"], ctc=False)
    c["array-size"] = dict(mk=lambda e: dict(gdecl_post="int z[%s];" % e), allowed=[NC], ctc=True)
    # every dimension of an array type is a size of its own: the check of the type has to reach the inner dimensions as well, in
    # every kind of declaration, and the dimensions a typedef name hides (rows of a matrix).  `sampled`: a sample of the write-form
    # matrix in the quick tier, all of it in the thorough tier
    for name, place in (("2nd-dimension", "gdecl_post:int z[2][%s];"), ("middle-dimension", "gdecl_post:int z[2][%s][2];"),
                        ("3rd-dimension", "gdecl_post:int z[2][2][%s];"), ("2nd-dimension-template", "tdecl:int z[2][%s];"),
                        ("2nd-dimension-function-local", "gdecl_post:void lf() { int z[2][%s]; z[0][0] = 1; }"),
                        ("2nd-dimension-function-parameter", "gdecl_post:void pf(int q[2][%s]) { }"),
                        ("2nd-dimension-struct-field", "gdecl_post:struct { int f[2][%s]; } sv;"),
                        ("row-typedef", "gdecl_post:typedef int row_t[%s]; row_t z[2];"),
                        ("behind-row-typedef", "gdecl_post:typedef int row_t[2]; row_t z[2][%s];")):
        mk = (lambda key, txt: (lambda e: {key: txt % e}))(*place.split(":", 1))
        c["array-size-" + name] = dict(mk=mk, allowed=[NC], ctc=True, sampled=True)
    c["range-bound"] = dict(mk=lambda e: dict(gdecl_post="int[0, %s] z;" % e), allowed=[NC], ctc=True)
    c["typedef-range-bound"] = dict(mk=lambda e: dict(gdecl_post="typedef int[0, %s] T; T z;" % e), allowed=[NC], ctc=True)
    c["inst-arg"] = dict(mk=lambda e: dict(params="const int n", system="Q = P(%s);\nsystem Q;" % e),
                         allowed=[SE % "Argument", "$Incompatible_argument"], ctc=True)
    # every argument of an instantiation is checked, whatever its position and however many parameters the new instance declares itself
    # (instance.parameters = own parameters followed by the template's: the arguments belong to the latter)
    for name, params, system in (
            ("2nd", "const int n, const int m", "Q = P(1, %s);\nsystem Q;"),
            ("partial-last", "const int n, const int m", "Q(const int[0,1] k) = P(k, %s);\nsystem Q;"),
            ("partial-first", "const int n, const int m", "Q(const int[0,1] k) = P(%s, k);\nsystem Q;"),
            ("partial-2-middle", "const int n, const int m, const int o", "Q(const int[0,1] k, const int[0,1] l) = P(k, %s, l);\nsystem Q;"),
            ("partial-2-last", "const int n, const int m, const int o", "Q(const int[0,1] k, const int[0,1] l) = P(k, l, %s);\nsystem Q;"),
            ("partial-of-partial", "const int n, const int m", "R(const int[0,1] j, const int w) = P(j, w);\nQ(const int[0,1] k) = R(k, %s);\nsystem Q;")):
        mk = (lambda params, system: (lambda e: dict(params=params, system=system % e)))(params, system)
        c["inst-arg-" + name] = dict(mk=mk, allowed=[SE % "Argument", "$Incompatible_argument"], ctc=True, sampled=True)
    c["quantified-body-guard"] = dict(mk=lambda e: dict(guard="forall (qi : int[0,1]) %s == 1" % e),
                                      allowed=[SE % "Expression", SE % "Guard"], ctc=False)
    c["quantified-body-exists"] = dict(mk=lambda e: dict(guard="exists (qi : int[0,1]) %s == 1" % e),
                                       allowed=[SE % "Expression", SE % "Guard"], ctc=False)
    c["quantified-body-sum"] = dict(mk=lambda e: dict(guard="(sum (qi : int[0,1]) %s) == 1" % e),
                                    allowed=[SE % "Expression", SE % "Guard"], ctc=False)
    c["quantified-body-function"] = dict(mk=lambda e: dict(gdecl_post="bool qf() { return forall (qi : int[0,1]) %s == 1; }" % e),
                                         allowed=[SE % "Expression"], ctc=False)
    # a quantified body is side-effect free also where the surrounding context allows writes: an update label, the statements of a
    # function (typechecker.cpp, cases FORALL / EXISTS / SUM of checkExpression)
    for qn, q in (("forall", "(forall (qi : int[0,1]) %s == 1)"), ("exists", "(exists (qi : int[0,1]) %s == 1)"),
                  ("sum", "((sum (qi : int[0,1]) %s) == 1)")):
        for pn, place in (("update", None), ("fn-expr", "void qf() { x = %s ? 1 : 0; }"), ("fn-return", "bool qf() { return %s; }"),
                          ("fn-if", "void qf() { if (%s) { x = 1; } }"), ("fn-while", "void qf() { int loc = 0; while (%s && loc < 1) { loc++; } }"),
                          ("fn-local-init", "void qf() { bool lq = %s; x = lq ? 1 : 0; }")):
            if place is None:
                mk = (lambda q: (lambda e: dict(assign="x = %s ? 1 : 0" % (q % e))))(q)
            else:
                mk = (lambda q, place: (lambda e: dict(gdecl_post=place % (q % e))))(q, place)
            c["quantified-%s-in-%s" % (qn, pn)] = dict(mk=mk, allowed=[SE % "Expression"] + ([SE % "Initialiser"] if pn == "fn-local-init" else []), ctc=False)
    c["assertion"] = dict(mk=lambda e: dict(gdecl_post="void fa() { assert(%s == 1); }" % e), allowed=[SE % "Assertion"], ctc=False)
    c["query-AG"] = dict(mk=lambda e: dict(queries=["A[] %s == 1" % e]), allowed=[SE % "Property"], ctc=False)
    c["query-EF"] = dict(mk=lambda e: dict(queries=["E<> %s == 1" % e]), allowed=[SE % "Property"], ctc=False)
    c["query-leadsto"] = dict(mk=lambda e: dict(queries=["%s == 1 --> P.s1" % e]), allowed=[SE % "Property"], ctc=False)
    c["query-quantified"] = dict(mk=lambda e: dict(queries=["A[] forall (qi : int[0,1]) %s == 1" % e]),
                                 allowed=[SE % "Property", SE % "Expression"], ctc=False)
    # further query forms (SMC, TIGA, sup/inf): anchors typechecker.cpp:2287-2365, 2750, 2787
    P_ = [SE % "Property"]
    for name, q, al in [("query-AF", "A<> %s == 1", P_), ("query-EG", "E[] %s == 1", P_), ("query-sup", "sup: %s", [SE % "Expression"]),
                        ("query-inf", "inf: %s", [SE % "Expression"]), ("query-sup-predicate", "sup{%s == 1}: w", P_),
                        ("query-control-AF", "control: A<> %s == 1", P_), ("query-control-AG", "control: A[] %s == 1", P_)]:
        c[name] = dict(mk=(lambda q: (lambda e: dict(queries=[q % e])))(q), allowed=al, ctc=False)
    for name, q in [("query-Pr-diamond", "Pr[<=10](<> %s == 1)"), ("query-Pr-box", "Pr[<=10]([] %s == 1)"),
                    ("query-Pr-steps", "Pr[#<=10](<> %s == 1)"), ("query-Pr-compare", "Pr[<=10](<> %s == 1) >= 0.5"),
                    ("query-Pr-until", "Pr[<=10](%s == 1 U P.s1)"), ("query-simulate", "simulate [<=10] { %s }"),
                    ("query-simulate-reach", "simulate [<=10; 3] { w } : 1 : %s == 1"), ("query-E-max", "E[<=10; 5](max: %s)"),
                    ("query-minE", "minE(%s)[<=10]: <> P.s1")]:
        c[name] = dict(mk=(lambda q: (lambda e: dict(queries=[q % e])))(q), allowed=P_, ctc=False, smc=True)
    return c


def build_case(cid, ctx_name, ctx, e, gdecl_pre, expect, shape, fmt="xml", meta=None):
    kw = ctx["mk"](e)
    queries = kw.pop("queries", [])
    post = kw.pop("gdecl_post", "")
    kw["gdecl"] = BASE_DECL + gdecl_pre + "\n" + post
    if ctx.get("smc"):      # statistical queries demand broadcast channels
        kw["gdecl"] = kw["gdecl"].replace("chan ch; chan cha[4];", "broadcast chan ch; broadcast chan cha[4];")
    if fmt == "xml" or ctx.get("xml_only"):
        text, kind = xml_model(**kw), "xml"
    else:
        kw.pop("prob", None)
        text, kind = xta_model(**kw), "xta"
    return Case(cid, kind, text, queries, expect, ctx["allowed"] if expect == "reject" else [], shape, meta)


# ------------------------------------------------------------------------------------------------------------------
# write forms of property C11.  A form gives, for the write version and for its write-free twin:
#   (global declarations to add, template declarations to add, int-valued expression text)
# `const_only=True` asks for a twin that reads constants only (for contexts that also demand computability).

TARGETS = {  # lvalue text -> the same shape reading only
    "w": "w", "arr[0]": "arr[0]", "arr[x]": "arr[x]", "st.a": "st.a", "(bb ? w : x)": "(bb ? w : x)",
    "(w = 2)": "(w + 2)", "(++w)": "(w + 1)", "arr[(x = 1)]": "arr[x]",
}
STMT_FORMS = {  # %(W)s = an expression statement / expression that writes (or, in the twin, touches a local only)
    "expr": "%(W)s;",
    "if-then": "if (C > 0) { %(W)s; }",
    "if-else": "if (C > 0) { loc = 2; } else { %(W)s; }",
    "if-else-if": "if (C > 3) { loc = 2; } else if (C > 2) { loc = 3; } else { %(W)s; }",
    "if-cond": "if ((%(W)s) == 1) { loc = 2; }",
    "for-init": "for (%(W)s; loc < 2; loc++) { loc = loc + 0; }",
    "for-cond": "for (loc = 0; (%(W)s) < 0; loc++) { loc = loc + 0; }",
    "for-step": "for (loc = 0; loc < 2; %(W)s, loc++) { loc = loc + 0; }",
    "for-body": "for (loc = 0; loc < 2; loc++) { %(W)s; }",
    "while-cond": "while ((%(W)s) < 0) { loc++; }",
    "while-body": "while (loc < 2) { loc++; %(W)s; }",
    "do-body": "do { %(W)s; loc++; } while (loc < 2);",
    "do-cond": "do { loc++; } while ((%(W)s) < 0);",
    "iteration-body": "for (it : int[0,1]) { %(W)s; }",
    "nested-block": "{ { int inner = 0; inner++; { %(W)s; } } }",
    "local-init": "{ int li = (%(W)s); li++; }",
    "return": None,  # handled specially: return (W);
    "nested-loops": "for (it : int[0,1]) { while (loc < 2) { loc++; do { if (C > 0) { loc = 2; } else { %(W)s; } } while (loc < 0); } }",
}
WRITE_EXPRS = ["w = 1", "w += 1", "w++", "--w", "arr[1] = 1", "arr[loc] ^= 1", "st.b = 1", "st.a <<= 1", "w = (x = 1)", "(bb ? w : x) = 1",
               "(bb ? loc : w) = 1", "(bb ? w : loc) -= 1", "(bb ? loc : arr[1])++"]


def writer_function(name, form, wexpr, twin, ret="int", params="", wtarget_local="loc"):
    """An int function whose body contains `wexpr` in statement form `form` (twin: the write goes to a local instead)."""
    w = wexpr
    if twin:
        # same operator, target replaced by the local `loc`
        for t in ("(bb ? loc : arr[1])", "(bb ? loc : w)", "(bb ? w : loc)", "arr[loc]", "arr[1]", "st.a", "st.b", "(bb ? w : x)", "w"):
            if w.startswith(t):
                w = wtarget_local + w[len(t):]
                break
            if w.startswith("--" + t) or w.startswith("++" + t):
                w = w[:2] + wtarget_local + w[2 + len(t):]
                break
        w = w.replace("(x = 1)", "(C + 1)").replace(" w ", " loc ")
    head = "%s %s(%s) { int loc = 0; " % (ret, name, params)
    if form == "return":
        return head + "return (%s); }" % w
    return head + STMT_FORMS[form] % {"W": w} + " return 1; }"


# ------------------------------------------------------------------------------------------------------------------
# running cases through the real library (harness) and through the Lean model (driver)

def parse_harness_output(out):
    """-> {cid: record}.  record: errors (model), qerrors, warnings, analysed, mline, X {n: (label, changes, ctc)},
    FI {fid: (changes, depends)}, names {id: name}, F {name: (changes, depends)}, R/P restricted sets, complete (saw END)."""
    recs, cur = {}, None
    for line in out.split("\n"):
        if line.startswith("CASE "):
            cur = {"cid": line[5:].strip(), "errors": [], "qerrors": [], "warnings": [], "analysed": False, "mline": None,
                   "X": {}, "FI": {}, "names": {}, "F": {}, "R": {}, "P": {}, "RI": {}, "complete": False, "exc": None, "rc": None, "q": []}
            recs[cur["cid"]] = cur
            continue
        if cur is None:
            continue
        if line == "END":
            cur["complete"] = True
        elif line.startswith("RC "):
            cur["rc"] = int(line[3:])
        elif line.startswith("E "):
            cur["errors"].append(_unq(line[2:]))
        elif line.startswith("QE "):
            cur["qerrors"].append(_unq(line.split(" ", 2)[2]))
        elif line.startswith("Q "):
            cur["q"].append(line)
        elif line.startswith("W "):
            cur["warnings"].append(_unq(line[2:]))
        elif line.startswith("ANALYSED "):
            cur["analysed"] = line.strip().endswith("1")
        elif line.startswith("M "):
            cur["mline"] = line
        elif line.startswith("X "):
            p = line.split(" ")
            cur["X"][int(p[1])] = (" ".join(p[2:-2]), p[-2], p[-1])
        elif line.startswith("FI "):
            p = line.split(" ")
            cur["FI"][int(p[1])] = (p[2], p[3])
        elif line.startswith("RI "):
            p = line.split(" ")
            cur["RI"][p[1]] = p[2]
        elif line.startswith("N "):
            p = line.split(" ", 2)
            cur["names"][int(p[1])] = p[2]
        elif line.startswith("F "):
            p = line.split(" ")
            cur["F"][p[1]] = (p[2], p[3])
        elif line.startswith(("R ", "P ")):
            p = line.split(" ")
            cur[line[0]][p[1]] = (p[2], p[3])
        elif line.startswith(("EXC ", "MEXC ", "XEXC ")):
            cur["exc"] = line
    return recs


def _unq(s):
    """first quoted string of `s` (quote() of harness/common.hpp)"""
    s = s.strip()
    if not s.startswith('"'):
        return s
    out, i = [], 1
    while i < len(s) and s[i] != '"':
        if s[i] == "\\" and i + 1 < len(s):
            out.append({"n": "\n", "t": "\t", "r": "\r"}.get(s[i + 1], s[i + 1]))
            i += 2
        else:
            out.append(s[i])
            i += 1
    return "".join(out)


def run_harness(core, exe, cases, chunk=400, args=("model",)):
    """Runs the cases through the harness in chunks.  -> (records, crashes) ; a crash = (chunk's first incomplete case, rc, stderr)"""
    recs, crashes = {}, []
    i = 0
    while i < len(cases):
        part = cases[i:i + chunk]
        data = b"".join(c.frame() for c in part).decode()
        rc, out, err, dt = core.run_exe(exe, list(args), stdin_text=data, timeout=900)
        r = parse_harness_output(out)
        recs.update({k: v for k, v in r.items() if v["complete"]})
        done = sum(1 for c in part if c.cid in r and r[c.cid]["complete"])
        if rc != 0 or done < len(part):
            bad = part[done] if done < len(part) else part[-1]
            crashes.append((bad, rc, err[-3000:]))
            i += done + 1    # skip the case that killed the process, continue with the rest
        else:
            i += len(part)
    return recs, crashes


def run_both(core, name, source, cases, thorough, log=None):
    """All cases on the plain (-O2) build, a sample (quick: every 12th; thorough: every 2nd) also on the ASan+UBSan build.
    -> (records of the plain run, crashes of either run, cases whose diagnostics differ between the builds)"""
    bp = core.build_repo("plain")
    exe_p = core.build_harness(bp, name + "p", [source])
    recs, crashes = run_harness(core, exe_p, cases, chunk=1000)
    ba = core.build_repo("asan")
    exe_a = core.build_harness(ba, name, [source])
    sample = cases[::2] if thorough else cases[::12]
    recs_a, crashes_a = run_harness(core, exe_a, sample, args=())
    differ = []
    for c in sample:
        a, p = recs_a.get(c.cid), recs.get(c.cid)
        if a is not None and p is not None and (a["errors"], a["qerrors"], a["F"]) != (p["errors"], p["qerrors"], p["F"]):
            differ.append(c)
    if log:
        log("ran %d models on the plain build, %d of them also under ASan+UBSan" % (len(cases), len(sample)))
    return recs, crashes + crashes_a, differ, len(sample)


def run_driver(core, exe, recs):
    """Feeds every M line to the Lean driver; -> {cid: {"DBU":..., "X": {n: (changes, ctc)}, "FI": {fid: (changes, depends)}, "mismatch": [...]}}"""
    cids = [c for c in recs if recs[c]["mline"]]
    data = "\n".join(recs[c]["mline"] for c in cids) + "\n"
    rc, out, err, dt = core.run_exe(exe, [], stdin_text=data, timeout=900)
    res, k, cur = {}, 0, None
    for line in out.split("\n"):
        if cur is None:
            if not line:
                continue
            cur = {"DBU": None, "X": {}, "FI": {}, "mismatch": [], "bad": False, "RS": {}, "exceptions": None, "exceptions11": None}
        if line == "ENDM":
            if k < len(cids):
                res[cids[k]] = cur
            k += 1
            cur = None
        elif line.startswith("DBU "):
            cur["DBU"] = line.split(" ")[1]
        elif line.startswith("X "):
            p = line.split(" ")
            cur["X"][int(p[1])] = (p[2], p[3])
        elif line.startswith("FI "):
            p = line.split(" ")
            cur["FI"][int(p[1])] = (p[2], p[3]) if len(p) > 3 else ("missing", "missing")
        elif line.startswith("RS "):
            p = line.split(" ")
            cur["RS"][p[1]] = p[2]
        elif line.startswith("EXCEPTIONS11"):
            cur["exceptions11"] = [x for x in line.split(" ")[1:] if x]
        elif line.startswith("EXCEPTIONS"):
            cur["exceptions"] = [x for x in line.split(" ")[1:] if x]
        elif line.startswith("CTCSET-MISMATCH"):
            cur["mismatch"].append(line)
        elif line.startswith("BAD-MODEL-LINE"):
            cur["bad"] = True
    return res, rc, err


def diff_model(rec, drv):
    """disagreements between the real library (rec) and the Lean model (drv) on one case"""
    d = []
    if drv is None:
        return ["no driver output"]
    if drv["bad"]:
        d.append("driver could not read the model line")
    for n, (label, ch, ctc) in rec["X"].items():
        m = drv["X"].get(n)
        if m is None or m[0] != ch:
            d.append("changes_any_variable of %s: impl %s model %s" % (label, ch, m and m[0]))
        if m is None or m[1] != ctc:
            d.append("isCompileTimeComputable of %s: impl %s model %s" % (label, ctc, m and m[1]))
    for f, (ch, dp) in rec["FI"].items():
        m = drv["FI"].get(f)
        name = rec["names"].get(f, "#%d" % f)
        if m is None or m[0] != ch:
            d.append("function_t::changes of %s: impl %s model %s" % (name, ch, m and m[0]))
        if m is None or m[1] != dp:
            d.append("function_t::depends of %s: impl %s model %s" % (name, dp, m and m[1]))
    for mm in drv["mismatch"]:
        d.append(mm)
    for t, real in rec["RI"].items():
        m = drv["RS"].get(t)
        if m is None or not m.startswith("restricted=["):
            d.append("restricted set of template %s: model gives %s" % (t, m))
            continue
        ms = set(x for x in m[len("restricted=["):-1].split(",") if x)
        rs = set(x for x in real[len("restricted=["):-1].split(",") if x)
        if not ms <= rs:
            d.append("restricted set of template %s: impl %s lacks %s of the model's closure" % (t, real, sorted(ms - rs)))
    if drv["DBU"] != "1":
        d.append("declared-before-use hypothesis does not hold on this program (DBU %s)" % drv["DBU"])
    return d


# ------------------------------------------------------------------------------------------------------------------
# proof step shared by C11 / C13

MY_LEAN_FILES = ("UtapModel/Model/EffectCfg.lean", "UtapModel/Model/Effect.lean", "UtapModel/Model/EffectSpec.lean",
                 "UtapModel/Model/TypeWalk.lean", "UtapModel/Lemmas/TypeWalk.lean",
                 "UtapModel/Gen/EffectGen.lean", "UtapModel/Gen/Kinds.lean", "UtapModel/Lemmas/Effect.lean",
                 "UtapModel/Props/C11.lean", "UtapModel/Props/C13.lean", "UtapModel/Drv/C11Lib.lean",
                 "UtapModel/Drv/C11.lean", "UtapModel/Drv/C13.lean")


def prove(ctx, core, module, exes):
    """ctx.prove, except that forbidden tokens in Lean files *outside the import closure* of `module` (other properties'
    work in progress) do not fail this property's proof step: the module itself built and passed the axiom audit."""
    ok, log = ctx.prove(module, exes)
    cov = ctx.coverage
    if ok:
        return ok, log
    hits = cov.get("forbidden_token_hits") or []
    mine = [h for h in hits if any(("lean/" + f) in h for f in MY_LEAN_FILES)]
    if hits and not mine and str(cov.get("lean_error", "")).startswith("disallowed axioms {}"):
        cov["foreign_forbidden_token_hits"] = hits
        cov["forbidden_token_hits"] = []
        cov.pop("lean_error", None)
        if ctx.thorough:
            okc, outc = core.leanchecker(module)
            cov["leanchecker"] = "ok" if okc else outc[-2000:]
            if not okc:
                return False, outc
        cov["discharged"] = cov.get("obligations", 0)
        return True, log
    return ok, log


BUILTIN_CONSTS = {"INT8_MIN", "INT8_MAX", "UINT8_MAX", "INT16_MIN", "INT16_MAX", "UINT16_MAX", "INT32_MIN", "INT32_MAX", "FLT_MIN",
                  "FLT_MAX", "DBL_MIN", "DBL_MAX", "M_PI", "M_PI_2", "M_PI_4", "M_E", "M_LOG2E", "M_LOG10E", "M_LN2", "M_LN10", "M_1_PI",
                  "M_2_PI", "M_2_SQRTPI", "M_SQRT2", "M_SQRT1_2"}


def own_contexts(rec):
    """number of compared context expressions that are not initialisers of the library's built-in constants"""
    n = 0
    for label, _, _ in rec["X"].values():
        l = label.strip('"')
        if l.startswith("init:") and l[5:] in BUILTIN_CONSTS:
            continue
        n += 1
    return n
