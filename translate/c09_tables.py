"""C09 translators (tie T): regenerate the Lean tables of the lexer / keyword / operator models from /repo's source text.

  lexer_rules(repo)    src/lexer.l      -> ordered rule list (literal rules + the special rules, by shape)
  keywords(repo)       src/keywords.cpp -> keyword_map rows (string, token, syntax mask)
  grammar(repo)        src/parser.y     -> %left/%right levels, binary/unary/assign productions of `Expression`,
                                           the NonTypeId production, the parenthesis production and its action
  lean_text(repo)      everything above as  lean/UtapModel/Gen/C09Tables.lean

Every translator FAILS CLOSED: a rule / row / production whose shape is not one of the recognised ones raises
TranslateError (the check then reports the tie as broken), nothing is skipped silently.  The special lexer rules
(identifier, number, float, string, comments, newlines) are hand-modelled in Lean (Model/C09Lex.lean); their action
text is compared (whitespace/comment-insensitively) with the text the model was written against.
"""
import os
import re


class TranslateError(Exception):
    pass


# ------------------------------------------------------------------------------------------------------------------
# lexer.l
# ------------------------------------------------------------------------------------------------------------------

def _strip_c_comments(s):
    s = re.sub(r"/\*.*?\*/", "", s, flags=re.S)
    s = re.sub(r"//[^\n]*", "", s)
    return s


def _norm(s):
    return re.sub(r"\s+", "", _strip_c_comments(s))


def _brace_delta(s):
    """net { } count of a line of C code, ignoring character and string literals"""
    d, i = 0, 0
    while i < len(s):
        c = s[i]
        if c in "'\"":
            j = i + 1
            while j < len(s) and s[j] != c:
                j += 2 if s[j] == "\\" else 1
            i = j + 1
            continue
        if c == "{":
            d += 1
        elif c == "}":
            d -= 1
        i += 1
    return d


def _split_rules(text):
    """Split the rules section of a flex file into (pattern, action) pairs.  A rule starts in column 0."""
    rules = []
    lines = text.split("\n")
    i = 0
    while i < len(lines):
        ln = lines[i]
        if not ln.strip():
            i += 1
            continue
        if ln[0] in " \t":
            raise TranslateError("lexer.l: unexpected indented line outside an action: %r" % ln)
        # pattern = up to first whitespace outside quotes / brackets
        j, inq, inb = 0, False, False
        while j < len(ln):
            c = ln[j]
            if inq:
                if c == "\\":
                    j += 1
                elif c == '"':
                    inq = False
            elif inb:
                if c == "\\":
                    j += 1
                elif c == "]":
                    inb = False
            elif c == '"':
                inq = True
            elif c == "[":
                inb = True
            elif c == "\\":
                j += 1
            elif c in " \t":
                break
            j += 1
        pat = ln[:j]
        rest = ln[j:]
        if pat.endswith("{") and pat.startswith("<"):
            # start-condition block  <comment>{ ... }
            body = []
            i += 1
            while i < len(lines) and lines[i].strip() != "}":
                body.append(lines[i].strip())
                i += 1
            rules.append((pat, body))
            i += 1
            continue
        action = rest
        depth = _brace_delta(action)
        while depth > 0:
            i += 1
            if i >= len(lines):
                raise TranslateError("lexer.l: unbalanced action of rule %r" % pat)
            action += "\n" + lines[i]
            depth += _brace_delta(lines[i])
        rules.append((pat, action))
        i += 1
    return rules


def _unq(lit):
    """flex quoted literal -> python string"""
    assert lit[0] == '"' and lit[-1] == '"'
    body = lit[1:-1]
    out, k = [], 0
    while k < len(body):
        if body[k] == "\\":
            k += 1
            out.append({"n": "\n", "t": "\t", "r": "\r"}.get(body[k], body[k]))
        else:
            out.append(body[k])
        k += 1
    return "".join(out)


# normalised action texts the Lean model (Model/C09Lex.lean) was written against
_IDENT_ACTION = _norm(r"""{
    const auto utap_string = std::string{utap_text};
    const auto* keyword_ptr = find_keyword(utap_string);
	if (keyword_ptr) {
        const auto& keyword = *keyword_ptr;
		auto s = keyword.syntax;
#ifndef ENABLE_PROB
		if (s & syntax_t::PROB) {
            s = syntax_t::NONE;
        }
#endif
		if (syntax & s) {
             if (keyword.token == T_CONST && (syntax & syntax_t::OLD)) {
                  return T_OLDCONST;
             }
             return keyword.token;
        }
    }
    if (utap_string.size() >= MAXLEN) {
        utap_error(ID_TOO_LONG);
    }
    if (ch->is_type(utap_text)) {
        strncpy(utap_lval.string, utap_text, MAXLEN);
        utap_lval.string[MAXLEN - 1] = '\0';
        return T_TYPENAME;
    } else {
        strncpy(utap_lval.string, utap_text, MAXLEN);
        utap_lval.string[MAXLEN - 1] = '\0';
        return T_ID;
    }
}""")
_NUM_ACTION = _norm(r"""{
    const char *s = utap_text;
    while(*s && *s == '0') s++;
    if (!*s) {
        utap_lval.number = 0;
        return T_NAT;
    }
    if (strcmp("2147483648", s) == 0) {
        return T_POS_NEG_MAX;
    }
    utap_lval.number = atoi(s);
    char check[16];
    snprintf(check,sizeof(check),"%d",utap_lval.number);
    if (strcmp(check,s) != 0) {
        yyerror("$Overflow");
        return T_ERROR;
    }
    return T_NAT;
}""")
_FLOAT_ACTION = _norm(r"""{ utap_lval.floating = atof(utap_text); return T_FLOATING; }""")
_ANY_ACTION = _norm(r"""{ utap_error("$Unknown_symbol"); return T_ERROR; }""")
_STRING_ACTION = _norm(r"""{ strncpy(utap_lval.string, utap_text, MAXLEN); utap_lval.string[MAXLEN - 1] = '\0'; return T_CHARARR; }""")
# (the same with the length guard that reports over-long literals: a diagnostic for texts beyond the token buffer, nothing else)
_STRING_ACTION_GUARDED = _norm(r"""{ if (static_cast<size_t>(utap_leng) >= MAXLEN) { utap_error(STRING_TOO_LONG); } strncpy(utap_lval.string, utap_text, MAXLEN); utap_lval.string[MAXLEN - 1] = '\0'; return T_CHARARR; }""")
_NL_ACTION = _norm(r"""{ tracker.newline(ch, yyleng); if ((syntax & syntax_t::PROPERTY) != 0) return '\n'; }""")
_CRLF_ACTION = _norm(r"""{ tracker.newline(ch, yyleng / 2); if ((syntax & syntax_t::PROPERTY) != 0) return '\n'; }""")
_CONT_ACTION = _norm(r"""{ tracker.newline(ch, 1); }""")
def _comment_block(expect_pattern):
    return [_norm(x) for x in [
        r"\n           { tracker.newline(ch, 1); }",
        r'"*/"         { BEGIN(INITIAL); }',
        r'<<EOF>>      { BEGIN(INITIAL); yyerror("$Comment_not_closed"); return 0; }',
        expect_pattern + r' { ch->handle_expect(utap_text+7); }',
        r".            /* ignore (multiline comments)*/",
    ]]


# the EXPECT rule as it is, and the repaired variant whose value stops before a closing `*/` (proposed_fixes/C09-expect-comment.diff)
_COMMENT_BLOCK = _comment_block(r'"EXPECT:"[^\t \n]*')
_COMMENT_BLOCK_FIXED = _comment_block(r'"EXPECT:"([^\t \n*]|"*"+[^\t \n*/])*')


def _old_action(tok):
    return _norm('{ if (syntax & syntax_t::OLD) { return %s; } utap_error("$Unknown_symbol"); return T_ERROR; }' % tok)


def lexer_rules(repo):
    src = open(os.path.join(repo, "src", "lexer.l")).read()
    parts = re.split(r"^%%\s*$", src, flags=re.M)
    if len(parts) != 3:
        raise TranslateError("lexer.l: expected definitions %% rules %% code")
    defs, rules_text, _ = parts
    classes = {}
    for m in re.finditer(r"^(alpha|num|idchr)\s+(\S+)\s*$", defs, re.M):
        classes[m.group(1)] = m.group(2)
    if classes != {"alpha": "[a-zA-Z_]", "num": "[0-9]+", "idchr": "[a-zA-Z0-9_$#]"}:
        raise TranslateError("lexer.l: character class definitions changed: %r" % classes)
    if "%x comment" not in defs:
        raise TranslateError("lexer.l: exclusive start condition `comment` not found")
    for opt in ("nodefault",):
        if "%option " + opt not in defs:
            raise TranslateError("lexer.l: %%option %s missing" % opt)
    out = []   # (kind, lit, tok)
    expect_fixed = []
    soft = []
    for pat, action in _split_rules(rules_text):
        if isinstance(action, list):
            blk = [_norm(x) for x in action]
            if pat != "<comment>{" or blk not in (_COMMENT_BLOCK, _COMMENT_BLOCK_FIXED):
                raise TranslateError("lexer.l: <comment> block changed: %r" % (action,))
            expect_fixed.append(blk == _COMMENT_BLOCK_FIXED)
            continue   # modelled by Lex.commentStep; the rule that opens it is the "/*" rule below
        na = _norm(action)
        m = re.fullmatch(r"\{return(T_[A-Z0-9_]+|'(?:\\.|[^\\'])');\}", na)
        msoft = re.fullmatch(r"\{if\(!\(syntax&syntax_t::PROPERTY\)&&ch->is_type\(utap_text\)\)\{strncpy\(utap_lval\.string,utap_text,MAXLEN\);"
                             r"returnT_TYPENAME;\}return('(?:\\.|[^\\'])');\}", na)
        if re.fullmatch(r'"(?:\\.|[^"\\])+"', pat) and m:
            out.append(("lit", _unq(pat), m.group(1)))
        elif re.fullmatch(r'"[A-Za-z]"', pat) and msoft and msoft.group(1) == "'%s'" % _unq(pat):
            # repaired one-letter rule (proposed_fixes/C09-typedef-one-letter.diff): T_TYPENAME if the name is a type, else the token
            out.append(("lit", _unq(pat), msoft.group(1)))
            soft.append(_unq(pat))
        elif re.fullmatch(r'"(?:\\.|[^"\\])+"', pat) and na in (_old_action("T_LEQ"), _old_action("T_GEQ")):
            out.append(("litOld", _unq(pat), "T_LEQ" if "T_LEQ" in na else "T_GEQ"))
        elif pat == r'"\\"[\t' and False:
            pass
        elif pat == '"\\\\"[\\t ]*"\\n"' and na == _CONT_ACTION:
            out.append(("cont", "", ""))
        elif pat == '"//"[^\\n]*' and na in ("", ";"):
            out.append(("lineComment", "", ""))
        elif pat == "[ \\t]+" and na == "":
            out.append(("blanks", "", ""))
        elif pat == '"/*"' and na == "{BEGIN(comment);}":
            out.append(("commentOpen", "", ""))
        elif pat == "\\n+" and na == _NL_ACTION:
            out.append(("newlines", "", ""))
        elif pat == "(\\r\\n)+" and na == _CRLF_ACTION:
            out.append(("crlf", "", ""))
        elif pat == "{alpha}{idchr}*" and na == _IDENT_ACTION:
            out.append(("ident", "", ""))
        elif pat == "{num}" and na == _NUM_ACTION:
            out.append(("num", "", ""))
        elif pat == '{num}("."{num})?([eE]("+"|"-")?{num})?' and na == _FLOAT_ACTION:
            out.append(("float", "", ""))
        elif pat == "." and na == _ANY_ACTION:
            out.append(("anyChar", "", ""))
        elif pat == '\\"[^\\"]+\\"' and na in (_STRING_ACTION, _STRING_ACTION_GUARDED):
            out.append(("string", "", ""))
        elif pat == "<<EOF>>" and na == "{return0;}":
            continue
        else:
            raise TranslateError("lexer.l: unrecognised rule %r with action %r" % (pat, action.strip()[:200]))
    kinds = [k for k, _, _ in out]
    for need in ("cont", "lineComment", "blanks", "commentOpen", "newlines", "crlf", "ident", "num", "float", "anyChar", "string"):
        if kinds.count(need) != 1:
            raise TranslateError("lexer.l: special rule %s occurs %d times" % (need, kinds.count(need)))
    lp = open(os.path.join(repo, "src", "libparser.h")).read()
    m = re.search(r"constexpr auto MAXLEN = (\d+)u;", lp)
    if not m:
        raise TranslateError("libparser.h: MAXLEN not found")
    maxlen = int(m.group(1))
    bits = {}
    m = re.search(r"enum class syntax_t : unsigned int \{(.*?)\};", lp, re.S)
    if not m:
        raise TranslateError("libparser.h: syntax_t not found")
    for row in m.group(1).split(","):
        row = row.strip()
        if not row:
            continue
        mm = re.fullmatch(r"(\w+) = (.+)", row)
        if not mm:
            raise TranslateError("libparser.h: syntax_t row %r" % row)
        name, rhs = mm.group(1), mm.group(2)
        if rhs == "0u":
            bits[name] = 0
        elif re.fullmatch(r"\(1u << (\d+)\)", rhs):
            bits[name] = 1 << int(re.fullmatch(r"\(1u << (\d+)\)", rhs).group(1))
        else:
            v = 0
            for t in rhs.split("|"):
                t = t.strip()
                if t not in bits:
                    raise TranslateError("libparser.h: syntax_t term %r" % t)
                v |= bits[t]
            bits[name] = v
    if len(expect_fixed) != 1:
        raise TranslateError("lexer.l: expected exactly one <comment> block")
    return out, maxlen, bits, expect_fixed[0], soft


# ------------------------------------------------------------------------------------------------------------------
# keywords.cpp
# ------------------------------------------------------------------------------------------------------------------

def keywords(repo, bits):
    src = open(os.path.join(repo, "src", "keywords.cpp")).read()
    m = re.search(r"keyword_map = std::unordered_map<std::string_view, const Keyword>\{(.*?)\n\s*\};", src, re.S)
    if not m:
        raise TranslateError("keywords.cpp: keyword_map not found")
    rows = []
    for ln in m.group(1).split("\n"):
        ln = ln.strip()
        if not ln:
            continue
        mm = re.fullmatch(r'\{"([A-Za-z_][A-Za-z0-9_]*)",\s*Keyword\{(T_[A-Z0-9_]+), syntax_t::([A-Z_]+)\}\},?', ln)
        if not mm:
            raise TranslateError("keywords.cpp: unrecognised row %r" % ln)
        if mm.group(3) not in bits:
            raise TranslateError("keywords.cpp: unknown syntax mask %r" % mm.group(3))
        rows.append((mm.group(1), mm.group(2), mm.group(3), bits[mm.group(3)]))
    names = [r[0] for r in rows]
    if len(set(names)) != len(names):
        raise TranslateError("keywords.cpp: duplicate keyword (unordered_map keeps the first): %r" %
                             sorted(n for n in names if names.count(n) > 1))
    if "find_keyword(std::string_view word)" not in src or "keyword_map.find(word)" not in src:
        raise TranslateError("keywords.cpp: find_keyword changed")
    return rows


# ------------------------------------------------------------------------------------------------------------------
# parser.y
# ------------------------------------------------------------------------------------------------------------------

def _production(src, name):
    m = re.search(r"^%s\s*:" % re.escape(name), src, re.M)
    if not m:
        raise TranslateError("parser.y: production %s not found" % name)
    i, depth, start = m.end(), 0, m.end()
    while i < len(src):
        c = src[i]
        if c == "'":
            i = i + 4 if src[i + 1] == "\\" else i + 3
            continue
        if c == '"':
            i = src.index('"', i + 1) + 1
            continue
        if src.startswith("/*", i):
            i = src.index("*/", i) + 2
            continue
        if c == "{":
            depth += 1
        elif c == "}":
            depth -= 1
        elif c == ";" and depth == 0:
            return src[start:i]
        i += 1
    raise TranslateError("parser.y: production %s not terminated" % name)


def _alternatives(body):
    """split a production body at top-level '|' (outside braces and quotes)"""
    alts, cur, depth, i = [], [], 0, 0
    while i < len(body):
        c = body[i]
        if c == "'" and i + 2 < len(body):
            j = i + 3 if body[i + 1] == "\\" else i + 2
            if body[j] != "'":
                raise TranslateError("parser.y: character token expected at %r" % body[i:i + 6])
            cur.append(body[i:j + 1])
            i = j + 1
            continue
        if c == "/" and body[i:i + 2] == "/*":
            j = body.index("*/", i)
            i = j + 2
            continue
        if c == "{":
            depth += 1
        elif c == "}":
            depth -= 1
        if c == "|" and depth == 0:
            alts.append("".join(cur))
            cur = []
        else:
            cur.append(c)
        i += 1
    alts.append("".join(cur))
    return [a.strip() for a in alts]


EXPR_SPECIAL_SHA256 = "f85faf34dfa9293889b4fd3819e0837fec22417590e56700f8a151073b422431"


def grammar(repo):
    src = open(os.path.join(repo, "src", "parser.y")).read()
    # precedence block
    levels = []
    for m in re.finditer(r"^%(left|right|nonassoc)\s+(.+)$", src, re.M):
        toks = m.group(2).split()
        levels.append((m.group(1), toks))
    if not levels:
        raise TranslateError("parser.y: no precedence declarations")
    expr = _alternatives(_production(src, "Expression"))
    binary, special = [], []
    paren = None
    for a in expr:
        na = re.sub(r"\s+", " ", a)
        m = re.fullmatch(r"Expression (T_[A-Z_]+|'.') Expression \{ CALL\(@1, @3, expr_binary\(([A-Z_]+)\)\); \}", na)
        if m:
            binary.append((m.group(1), m.group(2)))
            continue
        if na.startswith("'(' Expression ')'"):
            paren = na
            continue
        special.append(na)
    if paren != "'(' Expression ')'":
        # the production must have NO action: a callback (or a %prec) here changes what redundant parentheses do
        raise TranslateError("parser.y: parenthesis production is not the action-free `'(' Expression ')'`: %r" % paren)
    # the non-binary alternatives (atoms, calls, indexing, prefix/postfix, ?:, quantifiers ...) are hand-modelled in
    # Model/C09Ops.lean: any change to their shape or callbacks breaks the tie
    import hashlib
    if hashlib.sha256("\n".join(special).encode()).hexdigest() != EXPR_SPECIAL_SHA256:
        raise TranslateError("parser.y: the non-binary alternatives of `Expression` changed (%d alternatives): %r ..." % (len(special), special[:3]))
    imply = [s for s in special if s.startswith("Expression T_KW_IMPLY")]
    if imply != ["Expression T_KW_IMPLY { CALL(@1, @1, expr_unary(NOT)); } Expression { CALL(@3, @3, expr_binary(OR)); }"]:
        raise TranslateError("parser.y: imply production changed: %r" % imply)
    un = [s for s in special if s.startswith("UnaryOp Expression")]
    if un != ["UnaryOp Expression { CALL(@1, @2, expr_unary($1)); } %prec UOPERATOR"]:
        raise TranslateError("parser.y: unary production changed: %r" % un)
    unary = []
    for a in _alternatives(_production(src, "UnaryOp")):
        m = re.fullmatch(r"(T_[A-Z_]+)\s*\{ \$\$ = ([A-Z_]+); \}", a)
        if not m:
            raise TranslateError("parser.y: UnaryOp alternative %r" % a)
        unary.append((m.group(1), m.group(2)))
    assign = []
    for a in _alternatives(_production(src, "AssignOp")):
        m = re.fullmatch(r"(T_[A-Z_]+)\s*\{ \$\$ = ([A-Z_]+); \}", a)
        if not m:
            raise TranslateError("parser.y: AssignOp alternative %r" % a)
        assign.append((m.group(1), m.group(2)))
    asg = re.sub(r"\s+", " ", _production(src, "Assignment")).strip()
    if asg != "Expression AssignOp Expression { CALL(@1, @3, expr_assignment($2)); } %prec T_ASSIGNMENT":
        raise TranslateError("parser.y: Assignment production changed: %r" % asg)
    nontype = []
    for a in _alternatives(_production(src, "NonTypeId")):
        m = re.fullmatch(r"(T_[A-Z_]+|'.')\s*\{ strncpy\(\$\$, (\$1\s*|\"[A-Za-z]+\"), MAXLEN\); \}", a)
        if not m:
            raise TranslateError("parser.y: NonTypeId alternative %r" % a)
        nontype.append((m.group(1), None if m.group(2).startswith("$") else m.group(2).strip('"')))
    idp = [re.sub(r"\s+", " ", a) for a in _alternatives(_production(src, "Id"))]
    if idp != ["NonTypeId { strncpy($$, $1, MAXLEN); }", "T_TYPENAME { strncpy($$, $1, MAXLEN); }"]:
        raise TranslateError("parser.y: Id production changed: %r" % idp)
    return {"levels": levels, "binary": binary, "unary": unary, "assign": assign, "nontype": nontype, "alias_ctx": alias_contexts(src)}


ALIAS_TOKENS = ["T_KW_AND", "T_BOOL_AND", "T_KW_OR", "T_BOOL_OR", "T_KW_NOT", "T_EXCLAM"]


def alias_contexts(src):
    """every occurrence of an operator-alias token in ANY production of parser.y (not only `Expression`): for each token the sorted list
    of contexts `LHS: alternative with the occurrence replaced by @`.  A nonterminal all of whose alternatives are single action-free
    tokens (BoolOrKWAnd) is a token class: an occurrence of it counts for each of its members."""
    rules = src.split("%%")[1]
    names = re.findall(r"^([A-Za-z_][A-Za-z0-9_]*)\s*:", rules, re.M)
    prods = {}
    for n in names:
        if n in prods:
            continue
        prods[n] = [re.sub(r"\s+", " ", a).strip() for a in _alternatives(_production(rules, n))]
    classes = {n: alts for n, alts in prods.items() if alts and all(re.fullmatch(r"T_[A-Z_]+|'.'", a) for a in alts)}
    ctx = {t: [] for t in ALIAS_TOKENS}
    for n, alts in prods.items():
        if n in classes:
            continue
        for a in alts:
            syms = a.split(" ")
            for i, sym in enumerate(syms):
                members = classes.get(sym, [sym])
                for t in ALIAS_TOKENS:
                    if t in members:
                        ctx[t].append("%s: %s" % (n, " ".join(syms[:i] + ["@"] + syms[i + 1:])))
    return {t: sorted(v) for t, v in ctx.items()}


# ------------------------------------------------------------------------------------------------------------------
# Lean text
# ------------------------------------------------------------------------------------------------------------------

def _chs(s):
    return "[" + ", ".join(str(ord(c)) for c in s) + "]"


def tables(repo):
    rules, maxlen, bits, expect_fixed, soft = lexer_rules(repo)
    kws = keywords(repo, bits)
    g = grammar(repo)
    toks = []

    def tid(name):
        if name not in toks:
            toks.append(name)
        return toks.index(name)
    for name in ("T_ID", "T_TYPENAME", "T_NAT", "T_FLOATING", "T_POS_NEG_MAX", "T_CHARARR", "T_ERROR", "T_OLDCONST", "T_CONST",
                 "UOPERATOR", "'M'"):
        tid(name)
    for k, lit, tok in rules:
        if k in ("lit", "litOld"):
            tid(tok)
    for _, tok, _, _ in kws:
        tid(tok)
    for _, ts in g["levels"]:
        for t in ts:
            tid(t)
    for t, _ in g["binary"] + g["unary"] + g["assign"] + g["nontype"]:
        tid(t)
    return {"rules": rules, "maxlen": maxlen, "bits": bits, "keywords": kws, "grammar": g, "toks": toks, "expect_fixed": expect_fixed, "soft": soft}


def _ident(name):
    if name.startswith("'"):
        c = name[1:-1]
        if c.startswith("\\"):
            c = {"\\\\": "\\", "\\'": "'", "\\n": "\n"}.get(c, c[1:])
        return "C_%d" % ord(c)
    return name


def lean_text(repo):
    t = tables(repo)
    toks = t["toks"]
    kinds = []
    for _, k in t["grammar"]["binary"] + t["grammar"]["unary"] + t["grammar"]["assign"]:
        if k not in kinds:
            kinds.append(k)
    o = []
    o.append("/- GENERATED by translate/c09_tables.py from src/lexer.l, src/keywords.cpp, src/parser.y, src/libparser.h -- do not edit.")
    o.append("   Characters are code points (Nat); tokens and callback kinds are indices into `tokNames` / `kindNames`. -/")
    o.append("import UtapModel.Model.C09Base")
    o.append("namespace UtapModel.C09.Gen")
    o.append("open UtapModel.C09")
    o.append("")
    o.append("def tokNames : List String := [" + ", ".join('"%s"' % n.replace("\\", "\\\\").replace('"', '\\"') for n in toks) + "]")
    for i, n in enumerate(toks):
        o.append("def %s : TokId := %d" % (_ident(n), i))
    o.append("")
    o.append("def kindNames : List String := [" + ", ".join('"%s"' % k for k in kinds) + "]")
    for i, k in enumerate(kinds):
        o.append("def K_%s : Nat := %d" % (k, i))
    o.append("")
    o.append("def maxLen : Nat := %d" % t["maxlen"])
    o.append("/-- the EXPECT rule of the <comment> start condition is the variant that stops before a closing `*/` -/")
    o.append("def expectStopsBeforeClose : Bool := %s" % ("true" if t["expect_fixed"] else "false"))
    o.append("/-- texts of the literal rules whose action first asks `is_type` outside PROPERTY syntax (empty unless repaired) -/")
    o.append("def softLits : List (List Ch) := [%s]" % ", ".join(_chs(x) for x in t["soft"]))
    for b in ("OLD", "NEW", "PROPERTY", "GUIDING", "TIGA", "PROB"):
        if b not in t["bits"]:
            raise TranslateError("syntax_t bit %s missing" % b)
        o.append("def bit%s : Nat := %d" % (b, t["bits"][b]))
    o.append("")
    o.append("/-- the rules of the INITIAL start condition of lexer.l, in file order (flex: longest match, earliest rule on ties) -/")
    o.append("def rules : List Rule := [")
    rows = []
    for k, lit, tok in t["rules"]:
        if k == "lit":
            rows.append("  .lit %s %s  -- %r" % (_chs(lit), _ident(tok), lit))
        elif k == "litOld":
            rows.append("  .litOld %s %s  -- %r" % (_chs(lit), _ident(tok), lit))
        else:
            rows.append("  .%s" % k)
    o.append(",\n".join(r.split("  --")[0] + ("" if "  --" not in r else "") for r in rows) + "]")
    o.append("")
    o.append("/-- keyword_map of keywords.cpp: (spelling, token, syntax mask) -/")
    o.append("def keywordTable : List (List Ch × TokId × Nat) := [")
    o.append(",\n".join("  (%s, %s, %d)" % (_chs(s), _ident(tok), bitsv) for s, tok, _, bitsv in t["keywords"]) + "]")
    o.append("")
    g = t["grammar"]
    o.append("/-- %left/%right/%nonassoc lines of parser.y, lowest precedence first: (isRightAssoc, tokens) -/")
    o.append("def precLevels : List (Assoc × List TokId) := [")
    o.append(",\n".join("  (.%s, [%s])" % (a, ", ".join(_ident(x) for x in ts)) for a, ts in g["levels"]) + "]")
    o.append("")
    o.append("/-- `Expression TOK Expression { CALL(@1,@3, expr_binary(KIND)) }` -/")
    o.append("def binaryProds : List (TokId × Nat) := [" + ", ".join("(%s, K_%s)" % (_ident(a), k) for a, k in g["binary"]) + "]")
    o.append("/-- alternatives of UnaryOp (all used by `UnaryOp Expression %prec UOPERATOR` firing expr_unary) -/")
    o.append("def unaryProds : List (TokId × Nat) := [" + ", ".join("(%s, K_%s)" % (_ident(a), k) for a, k in g["unary"]) + "]")
    o.append("/-- alternatives of AssignOp (used by `Expression AssignOp Expression %prec T_ASSIGNMENT` firing expr_assignment) -/")
    o.append("def assignProds : List (TokId × Nat) := [" + ", ".join("(%s, K_%s)" % (_ident(a), k) for a, k in g["assign"]) + "]")
    o.append("/-- alternatives of NonTypeId: token ↦ the spelling it stands for (none = the token's own text, i.e. T_ID) -/")
    o.append("def nonTypeId : List (TokId × Option (List Ch)) := [" +
             ", ".join("(%s, %s)" % (_ident(a), "none" if s is None else "some " + _chs(s)) for a, s in g["nontype"]) + "]")
    o.append("/-- every occurrence of an operator-alias token in any production of parser.y: `LHS: alternative with the occurrence as @` -/")
    o.append("def aliasContexts : List (TokId × List String) := [")
    o.append(",\n".join("  (%s, [%s])" % (_ident(tk), ", ".join('"%s"' % c.replace("\\", "\\\\").replace('"', '\\"') for c in cs))
                        for tk, cs in sorted(g["alias_ctx"].items())))
    o.append("]")
    o.append("/-- `'(' Expression ')'` has no action (checked by the translator; any action there is a translation error) -/")
    o.append("def parenCallbacks : List Nat := []")
    o.append("")
    o.append("end UtapModel.C09.Gen")
    return "\n".join(o) + "\n", t


if __name__ == "__main__":
    import sys
    text, t = lean_text(sys.argv[1] if len(sys.argv) > 1 else "/repo")
    sys.stdout.write(text)
