#!/usr/bin/env python3
"""Generates the override list of harness/c01_trace.cpp from /repo/include/utap/builder.h (every pure virtual of
ParserBuilder except the position/diagnostic plumbing): `c01_trace_gen.inc`.  Each override logs the callback name,
its integral arguments and the sizes of the builder stacks before and after the call of the real DocumentBuilder method
(also when a TypeException leaves the method -- CALL catches it one level up).  Fails closed on unparsable declarations."""
import os
import re

SKIP = {"add_position", "set_position", "handle_error", "handle_warning", "is_type", "handle_expect"}
INTEGRAL = re.compile(r"^(const\s+)?(bool|int|int32_t|uint32_t|size_t|char|PREFIX|PRICETYPE|Constants::kind_t|Constants::synchronisation_t|kind_t|synchronisation_t)$")


class TranslateError(Exception):
    pass


def split_params(s):
    out, depth, cur = [], 0, ""
    for c in s:
        if c in "(<[{":
            depth += 1
        elif c in ")>]}":
            depth -= 1
        if c == "," and depth == 0:
            out.append(cur.strip())
            cur = ""
        else:
            cur += c
    if cur.strip():
        out.append(cur.strip())
    return out


def declarations(repo, include_skipped=False):
    src = open(os.path.join(repo, "include", "utap", "builder.h")).read()
    src = re.sub(r"/\*.*?\*/", " ", src, flags=re.S)
    src = re.sub(r"//[^\n]*", " ", src)
    m = re.search(r"class\s+ParserBuilder\s*\{(.*?)\n\};", src, re.S)
    if not m:
        raise TranslateError("class ParserBuilder not found in builder.h")
    body = m.group(1)
    decls = []
    for d in re.finditer(r"virtual\s+([A-Za-z_:0-9<>\s\*&]+?)\s+([A-Za-z_0-9]+)\s*\(([^;{]*)\)\s*=\s*0\s*;", body, re.S):
        ret, name, params = d.group(1).strip(), d.group(2), d.group(3)
        if name in SKIP and not include_skipped:
            continue
        ps = []
        for i, p in enumerate(split_params(" ".join(params.split()))):
            p = re.sub(r"\s*=\s*[^,]*$", "", p).strip()      # default value
            mm = re.match(r"^(.*?[\*&\s])([A-Za-z_][A-Za-z_0-9]*)$", p)
            if mm and not re.match(r"^(const|unsigned|int|bool|size_t|PREFIX|PRICETYPE|char|double)$", mm.group(2)):
                ty = mm.group(1).strip()
            else:
                ty = p
            ps.append((ty, "a%d" % i))
        decls.append((ret, name, ps))
    if len(decls) < 150:
        raise TranslateError("only %d callbacks found in builder.h" % len(decls))
    nvirt = len(re.findall(r"\bvirtual\b", body))
    if nvirt - len(decls) > len(SKIP) + 2:
        raise TranslateError("builder.h: %d virtual members, only %d parsed" % (nvirt, len(decls)))
    return decls


def inc_text(repo):
    out = []
    names = {}
    for ret, name, ps in declarations(repo):
        names[name] = names.get(name, 0) + 1
    for ret, name, ps in declarations(repo):
        if ret != "void":
            raise TranslateError("callback %s returns %s" % (name, ret))
        sig = ", ".join("%s %s" % (t, n) for t, n in ps)
        args = ", ".join(n for _, n in ps)
        logged = []
        for t, n in ps:
            if INTEGRAL.match(t):
                logged.append("(long)%s" % n)
            else:
                logged.append("NOARG")
        arr = "{%s}" % ", ".join(logged) if logged else "{}"
        out.append("void %s(%s) override { long av[] = %s; pre(\"%s\", %d, av); try { DocumentBuilder::%s(%s); } "
                   "catch (UTAP::TypeException&) { post(1); throw; } catch (...) { post(2); throw; } post(0); }"
                   % (name, sig, arr if logged else "{0}", name, len(ps), name, args))
    return "\n".join(out) + "\n"


def fwd_text(repo):
    """Forwarding decorator (composition): every ParserBuilder virtual is passed to an inner builder (used to trace the
    final class TigaPropertyBuilder); the callbacks are logged with |fragments| and |properties| before / after."""
    out = []
    for ret, name, ps in declarations(repo, include_skipped=True):
        sig = ", ".join("%s %s" % (t, n) for t, n in ps)
        args = ", ".join(n for _, n in ps)
        if name in SKIP:
            if ret == "void":
                out.append("void %s(%s) override { inner->%s(%s); }" % (name, sig, name, args))
            else:
                out.append("%s %s(%s) override { return inner->%s(%s); }" % (ret, name, sig, name, args))
            continue
        logged = ["(long)%s" % n if INTEGRAL.match(t) else "NOARG" for t, n in ps]
        arr = "{%s}" % ", ".join(logged) if logged else "{0}"
        out.append("void %s(%s) override { long av[] = %s; pre(\"%s\", %d, av); try { inner->%s(%s); } "
                   "catch (UTAP::TypeException&) { post(1); throw; } catch (...) { post(2); throw; } post(0); }"
                   % (name, sig, arr, name, len(ps), name, args))
    return "\n".join(out) + "\n"


if __name__ == "__main__":
    print(inc_text("/repo"))
