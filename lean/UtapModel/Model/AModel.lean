/- Abstract UPPAAL models (`AModel`), the abstract document (`Doc`) and the *specification* `docOf : AModel → Doc`
   of what the document built from a model has to contain (properties C04 / C05 / C20).  Core Lean only.

   Texts that the library hands to its bison grammar (declarations, parameters, expressions, select lists) are opaque:
   they are represented by *keys* (`Key`); what is modelled is which text lands on which object and in which field. -/
namespace UtapModel.AM

abbrev Key := String

inductive Cat | var | func | typedef
  deriving DecidableEq, Repr, Inhabited

/-- one declaration item (`int n;`, a function, a typedef): opaque text `key`, the name it introduces, and the callback
    lines the real builder logs while parsing it (only used when printing traces) -/
structure Decl where
  cat : Cat
  name : String
  key : Key
  trace : List String
  deriving DecidableEq, Repr, Inhabited

structure Param where
  name : String
  ref : Bool
  key : Key
  deriving DecidableEq, Repr, Inhabited

inductive LocKind | invariant | exponentialrate
  deriving DecidableEq, Repr, Inhabited

structure ALoc where
  id : String
  name : Option String
  labels : List (LocKind × Key)      -- in document order
  urgent : Bool
  committed : Bool
  deriving DecidableEq, Repr, Inhabited

inductive Dir | bang | que
  deriving DecidableEq, Repr, Inhabited

inductive ELabel
  | select (bs : List (String × Key))
  | guard (e : Key)
  | sync (e : Key) (d : Dir)
  | assign (e : Key)
  | prob (e : Key)
  deriving DecidableEq, Repr, Inhabited

structure AEdge where
  src : String                       -- id reference
  tgt : String
  ctrl : Option Bool                 -- the `controllable` attribute: absent / "true" / "false"
  labels : List ELabel               -- in document order
  deriving DecidableEq, Repr, Inhabited

structure ATempl where
  name : String
  params : List Param
  decls : List Decl
  locs : List ALoc
  bps : List String                  -- branchpoint ids
  init : Option String               -- id reference
  edges : List AEdge
  deriving DecidableEq, Repr, Inhabited

structure AInst where
  name : String
  params : List Param
  templ : String
  args : List Key
  deriving DecidableEq, Repr, Inhabited

structure AModel where
  gdecls : List Decl
  templates : List ATempl
  insts : List AInst
  procs : List (String × Bool)       -- process name, `true` when it is separated from its predecessor by `<`
  deriving DecidableEq, Repr, Inhabited

/-! ### The abstract document -/

structure BLoc where
  name : String
  inv : Option Key
  rate : Option Key
  urgent : Bool
  committed : Bool
  deriving DecidableEq, Repr, Inhabited

inductive Endpoint
  | loc (name : String)
  | bp (name : String)
  deriving DecidableEq, Repr, Inhabited

structure BEdge where
  src : Endpoint
  dst : Endpoint
  ctrl : Bool
  select : List (String × Key)
  guard : Option Key                 -- `none` = the default constant 1
  sync : Option (Key × Dir)
  assign : Option Key                -- `none` = the default constant 1
  prob : Option Key                  -- `none` = the default weight 1
  deriving DecidableEq, Repr, Inhabited

structure BTempl where
  name : String
  params : List Param
  decls : List Decl
  locs : List BLoc
  bps : List String
  init : Option String
  edges : List BEdge
  deriving DecidableEq, Repr, Inhabited

/-- `instance_t`: parameters (unbound ones first) each with the expression it is bound to (`mapping`) -/
structure BInst where
  name : String
  templ : String
  unbound : Nat
  arguments : Nat
  bparams : List (Param × Option Key)
  deriving DecidableEq, Repr, Inhabited

structure Doc where
  gdecls : List Decl := []
  templates : List BTempl := []
  instances : List BInst := []
  processes : List BInst := []
  priorities : List (String × Nat) := []
  deriving DecidableEq, Repr, Inhabited

/-! ### Specification: the document a model denotes -/

/-- the name of a location: its `<name>`, or `_<id>` when it has none (or a blank one) -/
def ALoc.effName (l : ALoc) : String :=
  match l.name with
  | some n => if n = "" then "_" ++ l.id else n
  | none => "_" ++ l.id
def bpName (id : String) : String := "_" ++ id

def lookupLabel (k : LocKind) (ls : List (LocKind × Key)) : Option Key := ls.lookup k

def locOf (l : ALoc) : BLoc :=
  { name := l.effName, inv := lookupLabel .invariant l.labels, rate := lookupLabel .exponentialrate l.labels,
    urgent := l.urgent, committed := l.committed }

/-- the node an id reference denotes inside template `t` -/
def endpointOf (t : ATempl) (ref : String) : Option Endpoint :=
  match t.locs.find? (·.id == ref) with
  | some l => some (.loc l.effName)
  | none => if t.bps.contains ref then some (.bp (bpName ref)) else none

def applyLabel (e : BEdge) : ELabel → BEdge
  | .select bs => { e with select := e.select ++ bs }
  | .guard k => { e with guard := some k }
  | .sync k d => { e with sync := some (k, d) }
  | .assign k => { e with assign := some k }
  | .prob k => { e with prob := some k }

def edge0 (s d : Endpoint) (c : Bool) : BEdge :=
  { src := s, dst := d, ctrl := c, select := [], guard := none, sync := none, assign := none, prob := none }

def ctrlOf (c : Option Bool) : Bool := c.getD true

def edgeOf (t : ATempl) (e : AEdge) : Option BEdge :=
  match endpointOf t e.src, endpointOf t e.tgt with
  | some s, some d => some (e.labels.foldl applyLabel (edge0 s d (ctrlOf e.ctrl)))
  | _, _ => none

def initOf (t : ATempl) : Option String :=
  match t.init with
  | some r => (t.locs.find? (·.id == r)).map (·.effName)
  | none => none

def templOf (t : ATempl) : BTempl :=
  { name := t.name, params := t.params, decls := t.decls, locs := t.locs.map locOf, bps := t.bps.map bpName,
    init := initOf t, edges := t.edges.filterMap (edgeOf t) }

/-- every template is a partial instance of itself -/
def instOfTempl (t : BTempl) : BInst :=
  { name := t.name, templ := t.name, unbound := t.params.length, arguments := 0, bparams := t.params.map (·, none) }

/-- bind the first parameters of `bs` to `args`, positionally -/
def bindFirst : List Key → List (Param × Option Key) → List (Param × Option Key)
  | a :: as, (p, _) :: bs => (p, some a) :: bindFirst as bs
  | _, bs => bs

def mkInst (name : String) (newParams : List Param) (old : BInst) (args : List Key) : BInst :=
  { name := name, templ := old.templ, unbound := newParams.length, arguments := args.length,
    bparams := newParams.map (·, none) ++ bindFirst args old.bparams }

/-- instances visible by name: instantiations (latest first) then templates -/
def findInst (d : Doc) (name : String) : Option BInst :=
  match d.instances.reverse.find? (·.name == name) with
  | some i => some i
  | none => (d.templates.reverse.find? (·.name == name)).map instOfTempl

def addInst (d : Doc) (i : AInst) : Doc :=
  match findInst d i.templ with
  | some old => if i.args.length = old.unbound then { d with instances := d.instances ++ [mkInst i.name i.params old i.args] } else d
  | none => d

def addProcs : Doc → Nat → List (String × Bool) → Doc
  | d, _, [] => d
  | d, prio, (n, lt) :: r =>
    let prio' := if lt then prio + 1 else prio
    match findInst d n with
    | some i => addProcs { d with processes := d.processes ++ [i], priorities := d.priorities ++ [(n, prio')] } prio' r
    | none => addProcs d prio' r

def docOf (M : AModel) : Doc :=
  let d0 : Doc := { gdecls := M.gdecls, templates := M.templates.map templOf }
  addProcs (M.insts.foldl addInst d0) 0 M.procs

/-! ### Well-formedness (decidable) -/

def ATempl.nodeIds (t : ATempl) : List String := t.locs.map (·.id) ++ t.bps
def ATempl.effNames (t : ATempl) : List String := t.locs.map (·.effName) ++ t.bps.map bpName
def ATempl.reserved (t : ATempl) : List String := t.params.map (·.name) ++ t.decls.map (·.name)

/-- the label order the reader expects: an invariant label (if any) before the rate label (if any), one of each at most -/
def labelsOrdered : List (LocKind × Key) → Bool
  | [] => true
  | [(_, _)] => true
  | [(.invariant, _), (.exponentialrate, _)] => true
  | _ => false

def ALoc.wf (l : ALoc) : Bool := labelsOrdered l.labels && !(l.urgent && l.committed)

def ATempl.wf (t : ATempl) : Bool :=
  decide t.nodeIds.Nodup && decide t.effNames.Nodup &&
  t.effNames.all (fun n => !t.reserved.contains n) &&
  t.locs.all ALoc.wf &&
  (match t.init with | some r => (t.locs.map (·.id)).contains r | none => false) &&
  t.edges.all (fun e => t.nodeIds.contains e.src && t.nodeIds.contains e.tgt)

def AModel.wf (M : AModel) : Bool := M.templates.all ATempl.wf

/-! ### Well-formedness proper, and the exception shape

`wf` above contains the clause "the invariant label precedes the rate label", which is *not* implied by "well-formed
UPPAAL XML" (the DTD allows the labels of a location in any order).  It is split here into what well-formedness really
says (`wf0`: at most one label of each kind) and the computed exception shape (`rateFirst`). -/

inductive LocShape | rateBeforeInvariant
  deriving DecidableEq, Repr

def ALoc.wf0 (l : ALoc) : Bool := decide (l.labels.map (·.1)).Nodup && !(l.urgent && l.committed)

def ALoc.shapes (l : ALoc) : List LocShape :=
  if l.labels.map (·.1) = [.exponentialrate, .invariant] then [.rateBeforeInvariant] else []

def ATempl.wf0 (t : ATempl) : Bool :=
  decide t.nodeIds.Nodup && decide t.effNames.Nodup &&
  t.effNames.all (fun n => !t.reserved.contains n) &&
  t.locs.all ALoc.wf0 &&
  (match t.init with | some r => (t.locs.map (·.id)).contains r | none => false) &&
  t.edges.all (fun e => t.nodeIds.contains e.src && t.nodeIds.contains e.tgt)

def AModel.wf0 (M : AModel) : Bool := M.templates.all ATempl.wf0

/-- the computed exception set of a model: the locations whose rate label comes before their invariant label -/
def AModel.exceptionShapes (M : AModel) : List LocShape := M.templates.flatMap fun t => t.locs.flatMap ALoc.shapes

end UtapModel.AM
