/- Line-protocol driver for the printer model (C03).  Commands (tab separated):
     C <sexp> <text>   tree (canonical surface form of a real tree) and the text the real `str()` produced for it →
                       "<good>\t<first bad triple or ->\t<model print text>\t<lex(text) = model tokens>\t<parse(model print)>"
     STR <hex>         a string value: "<text the printer writes>\t<VALUE v | NOTOKEN: what lexing and building that text gives>"
     QRY <text> <str>  a query text and the real printer's text for it (query layer, Model/Query.lean)
     B                 every (parent, operand position, child) combination of the fragment's operators whose witness tree fails
                       the computed criterion: "<parent>\t<pos>\t<child>\t<witness sexp>\t<min text>\t<model print>\t<reparse>"
-/
import UtapModel.Model.Sexp
import UtapModel.Model.PrintModel
import UtapModel.Model.StrLit
import UtapModel.Model.Query
import UtapModel.Model.QuerySmc
import UtapModel.Model.QuerySmc2
open UtapModel UtapModel.Pratt UtapModel.ExprTable UtapModel.ExprGrammar UtapModel.PrintModel

def tokOfName (n : String) : Nat := tokId n
def fnOfName (n : String) : Nat := (fnProds.findIdx? (fun x => x.1 == n)).getD 9999
def nameOfTok (t : Nat) : String := tokNames[t]?.getD "?"
def nameOfFn (k : Nat) : String := match fnProds[k]? with | some (n, _, _) => n | none => "?"

partial def toExpr : Sexp → Option Expr
  | .atom "true" => some (.atom .tru)
  | .atom "false" => some (.atom .fls)
  | .list [.atom "nat", .atom n] => n.toNat?.map (fun k => .atom (.nat k))
  | .list [.atom "intmin"] => some (.atom .intMin)
  | .list [.atom "dbl", .atom s] => some (.atom (.dbl s))
  | .list [.atom "str", .atom s] => some (.atom (.str s))
  | .list [.atom "id", .atom s] => some (.atom (.ident s))
  | .list [.atom "pre", .atom t, e] => (toExpr e).map (.pre (tokOfName t))
  | .list [.atom "post", .atom t, e] => (toExpr e).map (.post (tokOfName t))
  | .list [.atom "bin", .atom t, l, r] => do let a ← toExpr l; let b ← toExpr r; pure (.bin (tokOfName t) a b)
  | .list [.atom "quant", .atom t, .atom id, .atom ty, e] => (toExpr e).map (.quant (tokOfName t) id ty)
  | .list [.atom "dot", .atom n, e] => (toExpr e).map (.dot n)
  | .list [.atom "dotloc", e] => (toExpr e).map .dotLoc
  | .list [.atom "tern", c, a, b] => do let x ← toExpr c; let y ← toExpr a; let z ← toExpr b; pure (.tern x y z)
  | .list [.atom "index", a, i] => do let x ← toExpr a; let y ← toExpr i; pure (.index x y)
  | .list [.atom "fn", .atom n, a] => (toExpr a).map (.fn1 (fnOfName n))
  | .list [.atom "fn", .atom n, a, b] => do let x ← toExpr a; let y ← toExpr b; pure (.fn2 (fnOfName n) x y)
  | .list [.atom "fn", .atom n, a, b, c] => do
      let x ← toExpr a; let y ← toExpr b; let z ← toExpr c; pure (.fn3 (fnOfName n) x y z)
  | .list (.atom "call" :: f :: args) => do
      let g ← toExpr f
      let as ← args.mapM toExpr
      pure (.call g (as.foldr .acons .anil))
  | _ => none

partial def toSexp : Expr → String
  | .atom (.nat n) => s!"(nat {n})"
  | .atom .intMin => "(intmin)"
  | .atom (.dbl s) => s!"(dbl {s})"
  | .atom (.str s) => s!"(str {s})"
  | .atom .tru => "true"
  | .atom .fls => "false"
  | .atom .deadlock => "(id deadlock)"
  | .atom (.ident x) => s!"(id {x})"
  | .pre t x => s!"(pre {nameOfTok t} {toSexp x})"
  | .quant k id ty x => s!"(quant {nameOfTok k} {id} {ty} {toSexp x})"
  | .post t x => s!"(post {nameOfTok t} {toSexp x})"
  | .dot n x => s!"(dot {n} {toSexp x})"
  | .dotLoc x => s!"(dotloc {toSexp x})"
  | .bin t l r => s!"(bin {nameOfTok t} {toSexp l} {toSexp r})"
  | .tern c a b => s!"(tern {toSexp c} {toSexp a} {toSexp b})"
  | .index a i => s!"(index {toSexp a} {toSexp i})"
  | .fn1 k a => s!"(fn {nameOfFn k} {toSexp a})"
  | .fn2 k a b => s!"(fn {nameOfFn k} {toSexp a} {toSexp b})"
  | .fn3 k a b c => s!"(fn {nameOfFn k} {toSexp a} {toSexp b} {toSexp c})"
  | .call f args => "(call " ++ toSexp f ++ String.join ((argList args).map (fun a => " " ++ toSexp a)) ++ ")"
  | .anil => "()"
  | .acons _ _ => "()"

/-- the tree as a Lean term (for the regenerated witness theorems) -/
partial def toLean : Expr → String
  | .atom (.nat n) => s!"(.atom (.nat {n}))"
  | .atom .intMin => "(.atom .intMin)"
  | .atom (.dbl s) => s!"(.atom (.dbl \"{s}\"))"
  | .atom (.str s) => s!"(.atom (.str \"{s}\"))"
  | .atom .tru => "(.atom .tru)"
  | .atom .fls => "(.atom .fls)"
  | .atom .deadlock => "(.atom .deadlock)"
  | .atom (.ident x) => s!"(.atom (.ident \"{x}\"))"
  | .pre t x => s!"(.pre {t} {toLean x})"
  | .quant k id ty x => s!"(.quant {k} \"{id}\" \"{ty}\" {toLean x})"
  | .post t x => s!"(.post {t} {toLean x})"
  | .dot n x => s!"(.dot \"{n}\" {toLean x})"
  | .dotLoc x => s!"(.dotLoc {toLean x})"
  | .bin t l r => s!"(.bin {t} {toLean l} {toLean r})"
  | .tern c a b => s!"(.tern {toLean c} {toLean a} {toLean b})"
  | .index a i => s!"(.index {toLean a} {toLean i})"
  | .fn1 k a => s!"(.fn1 {k} {toLean a})"
  | .fn2 k a b => s!"(.fn2 {k} {toLean a} {toLean b})"
  | .fn3 k a b c => s!"(.fn3 {k} {toLean a} {toLean b} {toLean c})"
  | .call f args => s!"(.call {toLean f} {toLean args})"
  | .anil => ".anil"
  | .acons x r => s!"(.acons {toLean x} {toLean r})"

def chk (D : Data) (k : String) (i c : Nat) (x : Expr) : Option (String × Nat × String) :=
  if opOK D k i c x then none else some (k, i, kindName D x)

/-- first (parent kind, operand position, child kind) at which the criterion fails -/
partial def firstBad (D : Data) : Expr → Option (String × Nat × String)
  | .pre t x => chk D (preKind D t) 0 (D.tbl.mn (D.tbl.pp t)) x <|> firstBad D x
  | .quant k _ _ x => chk D (quantKind D k) 1 (D.tbl.mn (D.tbl.quantL k)) x <|> firstBad D x
  | .post t x => chk D (postKind D t) 0 (D.tbl.lctx (D.tbl.sp t)) x <|> firstBad D x
  | .dot _ x | .dotLoc x => chk D "DOT" 0 (D.tbl.lctx D.tbl.topL) x <|> firstBad D x
  | .bin t l r =>
    chk D (binKind D t) 0 (D.tbl.lctx (D.tbl.bp t)) l <|> chk D (binKind D t) 1 (D.tbl.mn (D.tbl.bp t)) r <|> firstBad D l <|> firstBad D r
  | .tern c a b =>
    chk D "INLINE_IF" 0 (D.tbl.lctx D.tbl.questL) c <|> chk D "INLINE_IF" 2 (D.tbl.mn D.tbl.ternL) b <|>
      firstBad D c <|> firstBad D a <|> firstBad D b
  | .index a i => chk D "ARRAY" 0 (D.tbl.lctx D.tbl.topL) a <|> firstBad D a <|> firstBad D i
  | .fn1 _ a => firstBad D a
  | .fn2 _ a b => firstBad D a <|> firstBad D b
  | .fn3 _ a b c => firstBad D a <|> firstBad D b <|> firstBad D c
  | .call f args => chk D "FUN_CALL" 0 (D.tbl.lctx D.tbl.topL) f <|> firstBad D f <|> (argList args).findSome? (firstBad D)
  | _ => none

def a (s : String) : Expr := .atom (.ident s)

/-- canonical token of a kind in the printer's spelling -/
def canonBin : List Nat :=
  (binProds.map (fun x => x.2.2)).eraseDups.filterMap (fun k =>
    match UtapModel.PrinterTable.opText.find? (fun o => o.1 == k) with
    | some (_, txt) => match literals.find? (fun l => l.1 == txt) with | some (_, tn) => some (tokId tn) | none => none
    | none => match binProds.find? (fun x => x.2.2 == k) with | some (t, _, _) => some t | none => none)

/-- all operator shapes of the fragment, as functions from operand trees -/
def shapes : List (String × Nat × (List Expr → Expr)) :=
  canonBin.map (fun t => (binKind genData t, 2, fun ops => .bin t (ops.getD 0 (a "a")) (ops.getD 1 (a "b")))) ++
  (preProds.filter (fun x => x.2.2 != "" && x.1 != tokId "T_KW_NOT")).map (fun x => (x.2.2, 1, fun ops => .pre x.1 (ops.getD 0 (a "a")))) ++
  postProds.map (fun x => (x.2.2, 1, fun ops => .post x.1 (ops.getD 0 (a "a")))) ++
  quantProds.map (fun x => (x.2.2, 2, fun ops => .quant x.1 "i" "int[0,3]" (ops.getD 1 (a "a")))) ++
  [("INLINE_IF", 3, fun ops => .tern (ops.getD 0 (a "p")) (ops.getD 1 (a "a")) (ops.getD 2 (a "b"))),
   ("ARRAY", 2, fun ops => .index (ops.getD 0 (a "arr")) (ops.getD 1 (a "i"))),
   ("DOT", 1, fun ops => .dot "f" (ops.getD 0 (a "s"))),
   ("FUN_CALL", 1, fun ops => .call (ops.getD 0 (a "f1")) (.acons (a "a") .anil))]

def dfl (pk : String) (j : Nat) : Expr :=
  if pk == "ARRAY" && j == 0 then a "arr" else if pk == "DOT" then a "s" else if pk == "FUN_CALL" then a "f1"
  else a (["a", "b", "c"].getD j "a")

def badLines : List String := Id.run do
  let mut out : List String := []
  for (pk, n, mk) in shapes do
    for i in List.range n do
      if (pk == "FORALL" || pk == "EXISTS" || pk == "SUM") && i == 0 then continue
      for (ck, _, mkc) in shapes do
        let child := mkc []
        let w := mk ((List.range n).map (fun j => if j == i then child else dfl pk j))
        if !(good genData mt false w) && wf utapT mt false w then
          let txt := toksText (lprint genData mt w)
          let re := match parseTop utapT (lprint genData mt w) with | some e => (toK genData e).str | none => "REJECT"
          out := out ++ ["\t".intercalate [pk, toString i, ck, toSexp w, toksText (render utapT mt false 0 w), txt, re, (toK genData w).str, toLean w]]
  return out

def stepLine (line : String) : List String :=
  let line := String.ofList (line.toList.reverse.dropWhile (fun c => c == '\n' || c == '\r')).reverse
  match line.splitOn "\t" with
  | ["C", s, text] =>
    match Sexp.parse s with
    | none => ["bad-sexp"]
    | some sx =>
      match toExpr sx with
      | none => ["bad-tree"]
      | some e =>
        let g := good genData mt false e
        let bad := match firstBad genData e with | some (p, i, c) => s!"{p}/{i}/{c}" | none => "-"
        let toks := lprint genData mt e
        let lexeq := match lexExpr text with | some ts => decide (ts = toks) | none => false
        let re := match parseTop utapT toks with | some e' => (toK genData e').str | none => "REJECT"
        ["\t".intercalate [toString g, bad, toksText toks, toString lexeq, re]]
  | ["QRY", text, real] =>
    -- a query text and the text the real `str()` produced for its tree →
    -- "<kind tree>\t<wf>\t<model print text>\t<lex(real str) = model tokens>\t<parse(model print) = the tree>"   |   REJECT
    match lexQuery text with
    | none => ["REJECT lex"]
    | some ts =>
      match UtapModel.Query.parseQ ts with
      | none =>
        -- the statistical forms (Model/QuerySmc.lean)
        match UtapModel.QuerySmc.parseS ts with
        | none =>
          -- hypothesis tests, comparisons, filtered simulations (Model/QuerySmc2.lean)
          match UtapModel.QuerySmc.parseX ts with
          | none => ["REJECT parse"]
          | some q =>
            let toks := UtapModel.QuerySmc.xprint q
            let lexeq := match lexQuery real with | some ts' => decide (ts' = toks) | none => false
            let re := decide (UtapModel.QuerySmc.parseX toks = some q)
            ["\t".intercalate [(UtapModel.QuerySmc.xToK q).str, toString q.wf, UtapModel.Query.toksTextQ toks, toString lexeq, toString re]]
        | some q =>
          let toks := UtapModel.QuerySmc.sprint q
          let lexeq := match lexQuery real with | some ts' => decide (ts' = toks) | none => false
          let re := decide (UtapModel.QuerySmc.parseS toks = some q)
          ["\t".intercalate [(UtapModel.QuerySmc.sToK q).str, toString q.wf, UtapModel.Query.toksTextQ toks, toString lexeq, toString re]]
      | some q =>
        let toks := UtapModel.Query.qprint q
        let lexeq := match lexQuery real with | some ts' => decide (ts' = toks) | none => false
        let re := decide (UtapModel.Query.parseQ toks = some q)
        ["\t".intercalate [(UtapModel.Query.qToK q).str, toString q.wf, UtapModel.Query.toksTextQ toks, toString lexeq, toString re]]
  | ["B"] => badLines ++ ["END"]
  | ["STR", hex] =>
    -- a string value (hex of its code points' bytes, ASCII only): the text the printer writes for it and what comes back
    let hv (c : Char) : Nat := if c.isDigit then c.toNat - 48 else c.toLower.toNat - 87
    let rec bytes : List Char → List Char
      | a :: b :: r => Char.ofNat (hv a * 16 + hv b) :: bytes r
      | _ => []
    let v := bytes hex.toList
    let q := UtapModel.StrLit.quote v
    let back := match UtapModel.StrLit.roundTrip v [] with
      | some (v', []) => "VALUE " ++ String.ofList v'
      | some (v', r) => "VALUE " ++ String.ofList v' ++ " REST " ++ String.ofList r
      | none => "NOTOKEN"
    [String.ofList q ++ "\t" ++ back]
  | _ => ["bad-op"]

partial def loop (h : IO.FS.Stream) (out : IO.FS.Stream) : IO Unit := do
  let line ← h.getLine
  if line.isEmpty then return ()
  for l in stepLine line do out.putStrLn l
  loop h out

def main : IO Unit := do
  let out ← IO.getStdout
  loop (← IO.getStdin) out
