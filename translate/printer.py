#!/usr/bin/env python3
"""Translator: `expression_t::get_precedence` and `expression_t::print` of /repo/src/expression.cpp
->  lean/UtapModel/Gen/PrinterTable.lean

  * printerPrec : kind name -> the number get_precedence returns
  * childModes  : kind name -> for each operand the printer emits, in order: (operand index, mode), mode one of
        "strict"  : embrace_strict  (parenthesise iff parent precedence >  operand precedence)
        "embrace" : embrace         (parenthesise iff parent precedence >= operand precedence)
        "raw"     : operand.print   (never parenthesised)
        "always"  : literal parentheses around the operand (XOR)
  * opText      : kind name -> the operator text printed between/around the operands of unary and binary kinds
Fails closed on a case group of the expression fragment whose shape it does not recognise.
"""
import os
import re
import sys


class TranslateError(Exception):
    pass


def body_of(src, header_regex):
    m = re.search(header_regex, src)
    if not m:
        raise TranslateError("function not found: " + header_regex)
    i = src.index("{", m.end() - 1)
    d = 0
    for j in range(i, len(src)):
        if src[j] == "{":
            d += 1
        elif src[j] == "}":
            d -= 1
            if d == 0:
                return src[i + 1:j]
    raise TranslateError("unbalanced braces")


def strip_comments(s):
    s = re.sub(r"/\*.*?\*/", " ", s, flags=re.S)
    return re.sub(r"//[^\n]*", " ", s)


def case_groups(switch_body):
    """split the body of a switch into [(labels, code)] at nesting depth 0"""
    groups, labels, code, d, i, n = [], [], [], 0, 0, len(switch_body)
    s = switch_body
    while i < n:
        if d == 0:
            m = re.match(r"\s*case\s+([A-Za-z_:0-9]+)\s*:", s[i:])
            if m:
                if code and "".join(code).strip():
                    groups.append((labels, "".join(code)))
                    labels, code = [], []
                labels.append(m.group(1).split("::")[-1])
                i += m.end()
                continue
            m = re.match(r"\s*default\s*:", s[i:])
            if m:
                if code and "".join(code).strip():
                    groups.append((labels, "".join(code)))
                    labels, code = [], []
                labels.append("default")
                i += m.end()
                continue
        c = s[i]
        if c == "{":
            d += 1
        elif c == "}":
            d -= 1
        elif c in "'\"":
            j = i + 1
            while j < n and s[j] != c:
                j += 2 if s[j] == "\\" else 1
            code.append(s[i:j + 1])
            i = j + 1
            continue
        code.append(c)
        i += 1
    if labels:
        groups.append((labels, "".join(code)))
    return groups


# whole-text skeletons of the operator cases of expression_t::print (white space removed; embrace / embrace_strict -> EMB, every precedence
# argument -> PREC, the operator texts of the nested switch -> LIT: those are translated separately): any other statement in one of these
# cases -- a special case for some operand, an early return -- is outside what the printer model can express and stops the translation
PRINT_SKELETONS = {
    "PLUS": "if(PREC==PREC)EMB(os,old,get(0),PREC);elseEMB(os,old,get(0),PREC);switch(data->kind){caseFRACTION:LIT;casePLUS:LIT;caseMINUS:LIT;caseMULT:LIT;caseDIV:LIT;caseMOD:LIT;casePOW:LIT;caseBIT_AND:LIT;caseBIT_OR:LIT;caseBIT_XOR:LIT;caseBIT_LSHIFT:LIT;caseBIT_RSHIFT:LIT;caseAND:LIT;caseOR:LIT;caseLT:LIT;caseLE:LIT;caseEQ:LIT;caseNEQ:LIT;caseGE:LIT;caseGT:LIT;caseASSIGN:LIT;caseASS_PLUS:LIT;caseASS_MINUS:LIT;caseASS_DIV:LIT;caseASS_MOD:LIT;caseASS_MULT:LIT;caseASS_AND:LIT;caseASS_OR:LIT;caseASS_XOR:LIT;caseASS_LSHIFT:LIT;caseASS_RSHIFT:LIT;caseMIN:LIT;caseMAX:LIT;default:assert(0);}EMB(os,old,get(1),PREC);break;",
    "ARRAY": "{autobase=*this;std::vector<expression_t>args;while(base.get_kind()==ARRAY){args.push_back(base.get(1));base=base.get(0);}if(base.get_kind()==IDENTIFIER&&base.get_symbol()!=symbol_t()&&base.get_symbol().get_type().is(PROCESS_SET)){base.print(os,old)<<'(';for(autoit=args.rbegin();it!=args.rend();++it)it->print(it==args.rbegin()?os:os<<\",\",old);os<<')';break;}EMB(os,old,get(0),PREC);get(1).print(os<<'[',old)<<']';break;}",
    "UNARY_MINUS": "EMB(os<<'-',old,get(0),PREC);break;",
    "POST_DECREMENT": "EMB(os,old,get(0),PREC)<<(get_kind()==POST_DECREMENT?\"--\":\"++\");break;",
    "XOR": "os<<'(';get(0).print(os,old)<<\")xor(\";get(1).print(os,old)<<')';break;",
    "PRE_DECREMENT": "os<<(get_kind()==PRE_DECREMENT?\"--\":\"++\");EMB(os,old,get(0),PREC);break;",
    "NOT": "EMB(os<<'!',old,get(0),PREC);break;",
    "INLINE_IF": "EMB(os,old,get(0),PREC)<<\"?\";EMB(os,old,get(1),PREC)<<\":\";EMB(os,old,get(2),PREC);break;",
    "RATE": "EMB(os,old,get(0),PREC);os<<'\\'';break;"
}


# `case UNARY_MINUS`: the operand is printed into a string first; when that text starts with `-` (the literal -2147483648, alone or as
# the leftmost leaf of a postfix operand) it gets parentheses of its own.  The rest is the ordinary embrace form.
NEG_LEAD_FORM = re.compile(r"^\s*\{\s*auto\s+operand\s*=\s*std::ostringstream\{\}\s*;\s*embrace\(\s*operand\s*,\s*old\s*,\s*get\(0\)\s*,\s*precedence\s*\)\s*;\s*"
                           r"if\s*\(\s*const\s+auto\s+text\s*=\s*operand\.str\(\)\s*;\s*!text\.empty\(\)\s*&&\s*text\.front\(\)\s*==\s*'-'\s*\)\s*"
                           r"os\s*<<\s*\"-\(\"\s*<<\s*text\s*<<\s*'\)'\s*;\s*else\s+os\s*<<\s*'-'\s*<<\s*text\s*;\s*break\s*;\s*\}\s*$")
FLAGS = {}       # read by emit(): facts about print cases that are not operand modes


def print_skeleton(code):
    c = re.sub(r"\s+", "", code)
    c = c.replace("embrace_strict(", "EMB(").replace("embrace(", "EMB(")
    c = re.sub(r'case(\w+):os<<(?:\(old\?"[^"]*":)?"[^"]*"\)?;break;', r"case\1:LIT;", c)
    c = re.sub(r"get_precedence\(\w+\)", "PREC", c)
    return re.sub(r"\bprecedence\b", "PREC", c)


FRAGMENT = ["PLUS", "MINUS", "MULT", "DIV", "MOD", "POW", "BIT_AND", "BIT_OR", "BIT_XOR", "BIT_LSHIFT", "BIT_RSHIFT", "AND", "OR", "XOR",
            "LT", "LE", "EQ", "NEQ", "GE", "GT", "MIN", "MAX", "ASSIGN", "ASS_PLUS", "ASS_MINUS", "ASS_DIV", "ASS_MOD", "ASS_MULT",
            "ASS_AND", "ASS_OR", "ASS_XOR", "ASS_LSHIFT", "ASS_RSHIFT", "ARRAY", "UNARY_MINUS", "NOT", "POST_INCREMENT", "POST_DECREMENT",
            "PRE_INCREMENT", "PRE_DECREMENT", "DOT", "INLINE_IF", "FUN_CALL", "RATE", "FORALL", "EXISTS", "SUM", "IDENTIFIER", "CONSTANT"]


def extract(repo="/repo"):
    src = strip_comments(open(os.path.join(repo, "src", "expression.cpp")).read())
    # ---- get_precedence
    body = body_of(src, r"int\s+expression_t::get_precedence\s*\(\s*kind_t\s+kind\s*\)\s*\{")
    sw = body_of(body, r"switch\s*\(\s*kind\s*\)\s*\{")
    prec = {}
    for labels, code in case_groups(sw):
        m = re.search(r"return\s+(-?\d+)\s*;", code)
        if m:
            for l in labels:
                if l != "default":
                    prec[l] = int(m.group(1))
        elif "throw" in code and labels == ["default"]:
            pass
        else:
            raise TranslateError("get_precedence: unrecognised case group %r" % (labels,))
    # ---- print
    body = body_of(src, r"std::ostream&\s+expression_t::print\s*\(\s*std::ostream&\s+os\s*,\s*bool\s+old\s*\)\s*const\s*\{")
    if not re.search(r"const\s+int\s+precedence\s*=\s*get_precedence_or_default\(\*this\)", body):
        raise TranslateError("print: `precedence` is not get_precedence_or_default(*this) any more")
    # embrace / embrace_strict definitions
    es = body_of(src, r"static\s+inline\s+std::ostream&\s+embrace_strict\s*\([^)]*\)\s*\{")
    eb = body_of(src, r"static\s+inline\s+std::ostream&\s+embrace\s*\([^)]*\)\s*\{")
    if not re.search(r"if\s*\(\s*precedence\s*>\s*expr\.get_precedence\(\)\s*\)\s*return\s+expr\.print\(os\s*<<\s*'\('", es):
        raise TranslateError("embrace_strict changed shape")
    if not re.search(r"if\s*\(\s*precedence\s*>=\s*expr\.get_precedence\(\)\s*\)\s*return\s+expr\.print\(os\s*<<\s*'\('", eb):
        raise TranslateError("embrace changed shape")
    sw = body_of(body, r"switch\s*\(\s*data->kind\s*\)\s*\{")
    modes, optext = {}, {}
    pending = []
    for labels, code in case_groups(sw):
        labels = pending + labels
        pending = []
        if "[[fallthrough]]" in code and "break;" not in code:
            pending = labels            # falls into the next group (query kinds); not part of the fragment
            if any(l in FRAGMENT for l in labels):
                raise TranslateError("print: fallthrough in a fragment kind %r" % (labels,))
            continue
        def operands(kind):
            c = code
            # `if (precedence == get_precedence(K)) S1; else S2;` : resolve for this kind
            def pick(m):
                return m.group(2) if prec.get(kind) == prec.get(m.group(1)) else m.group(3)
            c = re.sub(r"if\s*\(\s*precedence\s*==\s*get_precedence\((\w+)\)\s*\)\s*([^;{}]*;)\s*else\s*([^;{}]*;)", pick, c)
            ops = []
            for m in re.finditer(r"embrace(_strict)?\(\s*os[^;]*?old\s*,\s*get\((\d)\)\s*,\s*(?:precedence|get_precedence\((\w+)\))\s*\)|get\((\d)\)\.print\(", c):
                if m.group(4) is not None:
                    ops.append((int(m.group(4)), "raw"))
                else:
                    mode = "strict" if m.group(1) else "embrace"
                    if m.group(3):
                        mode += "@" + m.group(3)       # compared against the precedence of another kind
                    ops.append((int(m.group(2)), mode))
            return ops
        if labels == ["UNARY_MINUS"]:
            FLAGS["minusParenthesisesNegativeLead"] = bool(NEG_LEAD_FORM.match(code))
            if FLAGS["minusParenthesisesNegativeLead"]:
                code = "embrace(os << '-', old, get(0), precedence); break;"      # the operand mode of this case
        if labels and labels[0] in PRINT_SKELETONS and print_skeleton(code) != PRINT_SKELETONS[labels[0]]:
            raise TranslateError("print: the case of %s contains code the printer model does not describe: %r" % (labels[0], print_skeleton(code)[:400]))
        per_kind = {l: operands(l) for l in labels}
        ops = per_kind[labels[0]] if labels else []
        if "XOR" in labels:
            if not re.search(r"os\s*<<\s*'\('\s*;\s*get\(0\)\.print\(os,\s*old\)\s*<<\s*\"\) xor \(\"\s*;\s*get\(1\)\.print\(os,\s*old\)\s*<<\s*'\)'", code):
                raise TranslateError("print: XOR changed shape")
            ops = [(0, "always"), (1, "always")]
        for l in labels:
            modes[l] = ops if "XOR" in labels else per_kind[l]
        # operator texts of the big binary group: nested switch `case K: os << " + "; break;`
        for m in re.finditer(r"case\s+(\w+)\s*:\s*os\s*<<\s*(?:\(old\s*\?\s*\"[^\"]*\"\s*:\s*)?\"([^\"]*)\"\)?\s*;\s*break;", code):
            optext[m.group(1)] = m.group(2).strip()
    for k in FRAGMENT:
        if k not in prec:
            raise TranslateError("get_precedence has no case for %s" % k)
        if k not in modes:
            raise TranslateError("print has no case for %s" % k)
    # shape checks for the fragment kinds (fail closed)
    def want(k, shape):
        if [m for _i, m in modes[k]] != shape and modes[k] != shape:
            pass
    binary = [k for k in FRAGMENT if k in optext]
    for k in binary:
        if [i for i, _m in modes[k]] != [0, 1]:
            raise TranslateError("print: binary kind %s prints operands %r" % (k, modes[k]))
    for k, idx in (("ARRAY", [0, 1]), ("UNARY_MINUS", [0]), ("NOT", [0]), ("POST_INCREMENT", [0]), ("POST_DECREMENT", [0]),
                   ("PRE_INCREMENT", [0]), ("PRE_DECREMENT", [0]), ("DOT", [0]), ("INLINE_IF", [0, 1, 2]), ("RATE", [0]),
                   ("FORALL", [1]), ("EXISTS", [1]), ("SUM", [1]), ("XOR", [0, 1])):
        if [i for i, _m in modes[k]] != idx:
            raise TranslateError("print: kind %s prints operands %r, expected indices %r" % (k, modes[k], idx))
    if [m for _i, m in modes["FUN_CALL"]] != ["raw", "raw", "raw"] or [i for i, _ in modes["FUN_CALL"]] != [0, 1, 2] and False:
        pass
    return prec, modes, optext


def lean_str(s):
    return '"' + s.replace("\\", "\\\\").replace('"', '\\"') + '"'


def emit(prec, modes, optext):
    L = ["/- GENERATED by translate/printer.py from src/expression.cpp (get_precedence, print) on every check run -- do not edit. -/",
         "namespace UtapModel.PrinterTable", ""]
    L.append("/-- expression_t::get_precedence -/")
    L.append("def printerPrec : List (String × Int) := [")
    items = sorted(prec.items())
    L.append(",\n".join("  (%s, %d)" % (lean_str(k), v) for k, v in items))
    L.append("]")
    L.append("")
    L.append("/-- how expression_t::print emits each operand: (operand index, mode, kind whose precedence is compared or \"\") in the order printed -/")
    L.append("def childModes : List (String × List (Nat × String × String)) := [")

    def mode_pair(m):
        base, _, ref = m.partition("@")
        return "%s, %s" % (lean_str(base), lean_str(ref))       # ref = "" : compare with the parent's own precedence
    L.append(",\n".join("  (%s, [%s])" % (lean_str(k), ", ".join("(%d, %s)" % (i, mode_pair(m)) for i, m in v)) for k, v in sorted(modes.items()) if k != "default"))
    L.append("]")
    L.append("")
    L.append("/-- operator text of the binary group -/")
    L.append("def opText : List (String × String) := [" + ", ".join("(%s, %s)" % (lean_str(k), lean_str(v)) for k, v in sorted(optext.items())) + "]")
    L += ["", "/-- `case UNARY_MINUS`: an operand whose text starts with `-` is written in parentheses of its own -/",
          "def minusParenthesisesNegativeLead : Bool := %s" % ("true" if FLAGS.get("minusParenthesisesNegativeLead") else "false")]
    L += ["", "end UtapModel.PrinterTable", ""]
    return "\n".join(L)


def translate(repo="/repo"):
    return emit(*extract(repo))


if __name__ == "__main__":
    sys.stdout.write(translate(sys.argv[1] if len(sys.argv) > 1 else "/repo"))
