/- Declarative side of properties C11 / C13: what it *means* for an expression to be able to write (read) a variable,
   independent of how libutap computes it, and the completeness predicate on the generated configuration under which
   the model of Model/Effect.lean is proved sound.  Core Lean only. -/
import UtapModel.Model.Effect
namespace UtapModel.Effect
open UtapModel

/-! ### the language: which kinds assign, which expression forms are lvalues of which variables -/

def assignKinds : List Kind :=
  [.kASSIGN, .kASS_PLUS, .kASS_MINUS, .kASS_DIV, .kASS_MOD, .kASS_MULT, .kASS_AND, .kASS_OR, .kASS_XOR, .kASS_LSHIFT, .kASS_RSHIFT]
def preIncDecKinds : List Kind := [.kPRE_INCREMENT, .kPRE_DECREMENT]
def incDecKinds : List Kind := [.kPRE_INCREMENT, .kPRE_DECREMENT, .kPOST_INCREMENT, .kPOST_DECREMENT]
def writingKinds : List Kind := assignKinds ++ incDecKinds

/-- `RootOf e s`: the lvalue `e` may denote (a part of) variable `s`
    (identifier; field; array element; either branch of `?:`; right operand of `,`; the target of an assignment or
    pre-increment used as an lvalue) -/
inductive RootOf : Expr → Sym → Prop where
  | ident (s : Sym) (subs : List Expr) : RootOf (.node .kIDENTIFIER s subs) s
  | dot {a : Expr} {s x : Sym} {r : List Expr} : RootOf a s → RootOf (.node .kDOT x (a :: r)) s
  | array {a : Expr} {s x : Sym} {r : List Expr} : RootOf a s → RootOf (.node .kARRAY x (a :: r)) s
  | ifThen {c a : Expr} {s x : Sym} {r : List Expr} : RootOf a s → RootOf (.node .kINLINE_IF x (c :: a :: r)) s
  | ifElse {c a b : Expr} {s x : Sym} {r : List Expr} : RootOf b s → RootOf (.node .kINLINE_IF x (c :: a :: b :: r)) s
  | comma {a b : Expr} {s x : Sym} {r : List Expr} : RootOf b s → RootOf (.node .kCOMMA x (a :: b :: r)) s
  | assign {k : Kind} {l : Expr} {s x : Sym} {r : List Expr} : k ∈ assignKinds → RootOf l s → RootOf (.node k x (l :: r)) s
  | preIncDec {k : Kind} {a : Expr} {s x : Sym} {r : List Expr} : k ∈ preIncDecKinds → RootOf a s → RootOf (.node k x (a :: r)) s

/-- `CalleeIs dot c f`: the callee expression `c` of a call names function `f`: an identifier, or -- with `dot` -- the
    member `P.f` of a process (functions of the process' template, callable from queries).  The Boolean selects the
    spec with (`true`, full) or without (`false`) process-dot calls. -/
inductive CalleeIs (dot : Bool) : Expr → Sym → Prop where
  | ident (f : Sym) (subs : List Expr) : CalleeIs dot (.node .kIDENTIFIER f subs) f
  | processDot (f : Sym) (subs : List Expr) : dot = true → f ≠ 0 → CalleeIs dot (.node .kDOT f subs) f

/-- `Writes dot P e s`: evaluating `e` in program `P` may write variable `s`:
    * `direct`  an assignment / increment / decrement whose target may denote `s`;
    * `sub`     a sub-expression may;
    * `callBody` a call of `f`, and some expression of `f`'s body -- in any statement form, local initialisers included --
                may write `s`, which is neither a local nor a parameter of `f` (so: through any chain of calls);
    * `callRef` a call of `f` handing the lvalue `a` to a non-constant reference parameter `p` that `f`'s body may write
                (directly or by handing `p` on). -/
inductive Writes (dot : Bool) (P : List FunDecl) : Expr → Sym → Prop where
  | direct {k : Kind} {l : Expr} {s x : Sym} {r : List Expr} :
      k ∈ writingKinds → RootOf l s → Writes dot P (.node k x (l :: r)) s
  | sub {k : Kind} {x s : Sym} {subs : List Expr} {e : Expr} :
      e ∈ subs → Writes dot P e s → Writes dot P (.node k x subs) s
  | callBody {k : Kind} {x f s : Sym} {c : Expr} {args : List Expr} {fd : FunDecl} {b : Expr} :
      k ∈ callKinds → CalleeIs dot c f → fd ∈ P → fd.name = f → b ∈ exprsOf fd.body → Writes dot P b s →
      s ∉ fd.locals → s ∉ fd.params → Writes dot P (.node k x (c :: args)) s
  | callRef {k : Kind} {x f s p : Sym} {c : Expr} {args : List Expr} {fd : FunDecl} {a b : Expr} :
      k ∈ callKinds → CalleeIs dot c f → fd ∈ P → fd.name = f → (a, p, true) ∈ args.zip (fd.params.zip fd.refNonConst) →
      b ∈ exprsOf fd.body → Writes dot P b p → RootOf a s → Writes dot P (.node k x (c :: args)) s

/-- the expression can modify some variable (`dot = true`: calls `P.f()` of process functions included) -/
def MayWrite (dot : Bool) (P : List FunDecl) (e : Expr) : Prop := ∃ s, Writes dot P e s

/-! ### the write-free twin: no assignment / increment anywhere, only calls of functions that change nothing and take
    no non-constant reference parameter -/

/-- an analysed function that changes nothing and has no non-constant reference parameter (or no function at all) -/
def entryPure : Option FunInfo → Bool
  | none => true
  | some fi => fi.changes.isEmpty && fi.refNonConst.all (fun r => !r)

mutual
def pureExpr (env : Env) : Expr → Bool
  | .node k _ subs =>
    !writingKinds.contains k &&
    (if callKinds.contains k then
       match subs with
       | f :: _ => entryPure (env.find (getSymbol f)) && entryPure (env.find (dotSym f))
       | [] => true
     else true) && pureExprL env subs
def pureExprL (env : Env) : List Expr → Bool
  | [] => true
  | e :: es => pureExpr env e && pureExprL env es
end

/-! ### completeness of a configuration: every case the language needs is present in the tables read off the source -/

def VisitFlags.Complete (v : VisitFlags) : Prop :=
  v.exprE = true ∧ v.assertE = true ∧ v.forInit = true ∧ v.forCond = true ∧ v.forStep = true ∧ v.forBody = true ∧
  v.iterBody = true ∧ v.whileCond = true ∧ v.whileBody = true ∧ v.doCond = true ∧ v.doBody = true ∧
  v.blockInits = true ∧ v.blockStats = true ∧ v.switchCond = true ∧ v.switchInits = true ∧ v.switchStats = true ∧
  v.caseCond = true ∧ v.caseInits = true ∧ v.caseStats = true ∧ v.defaultInits = true ∧ v.defaultStats = true ∧
  v.ifCond = true ∧ v.ifThen = true ∧ v.ifElse = true ∧ v.returnE = true

instance (v : VisitFlags) : Decidable v.Complete := by unfold VisitFlags.Complete; infer_instance

/-- what the soundness proof of the *write* analysis needs of the generated tables -/
def Cfg.WritesComplete (c : Cfg) : Prop :=
  c.writesRecurses = true ∧ c.callAddsChanges = true ∧ c.callAddsRefArgs = true ∧ c.collectsChanges = true ∧
  c.visit.Complete ∧
  (∀ k ∈ writingKinds, c.writeLhsKinds.contains k = true) ∧
  (∀ k ∈ callKinds, c.writeCallKinds.contains k = true ∧ c.writeLhsKinds.contains k = false) ∧
  (c.getSymbolsIdx .kDOT).contains 0 = true ∧ (c.getSymbolsIdx .kARRAY).contains 0 = true ∧
  (c.getSymbolsIdx .kINLINE_IF).contains 1 = true ∧ (c.getSymbolsIdx .kINLINE_IF).contains 2 = true ∧
  (c.getSymbolsIdx .kCOMMA).contains 1 = true ∧
  (∀ k ∈ assignKinds, (c.getSymbolsIdx k).contains 0 = true) ∧
  (∀ k ∈ preIncDecKinds, (c.getSymbolsIdx k).contains 0 = true)

instance (c : Cfg) : Decidable c.WritesComplete := by unfold Cfg.WritesComplete; infer_instance

/-- nothing but the language's writing kinds and call kinds contributes to the write set (needed for the twin) -/
def Cfg.WritesExact (c : Cfg) : Prop :=
  (∀ k ∈ c.writeLhsKinds, writingKinds.contains k = true) ∧ (∀ k ∈ c.writeCallKinds, callKinds.contains k = true)

instance (c : Cfg) : Decidable c.WritesExact := by unfold Cfg.WritesExact; infer_instance

/-- the environment assigns to every function of `P` the sets computed from its own body under that same environment -/
def Consistent (cfg : Cfg) (env : Env) (P : List FunDecl) : Prop :=
  ∀ fd ∈ P, env.find fd.name = some (funInfo cfg env fd)

/-! ### the side-effect-free contexts of the type checker (src/typechecker.cpp) as a decision table -/

/-- the contexts named by property C11 -/
inductive Context where
  | guard | invariant | sync | probability | selectDomain | varInit | localInit | arraySize | rangeBound
  | instArg | quantBody | assertion | query
deriving DecidableEq, Repr

def Context.all : List Context :=
  [.guard, .invariant, .sync, .probability, .selectDomain, .varInit, .localInit, .arraySize, .rangeBound, .instArg,
   .quantBody, .assertion, .query]

/-- contexts whose check is `changes_any_variable()` with its own diagnostic -/
def Context.site : Context → Option Site
  | .guard => some .guard
  | .invariant => some .invariant
  | .sync => some .synchronisation
  | .probability => some .probability
  | .varInit => some .initialiser
  | .localInit => some .initialiser
  | .instArg => some .argument
  | .quantBody => some .expression
  | .assertion => some .assertion
  | .query => some .property
  | .selectDomain => none
  | .arraySize => none
  | .rangeBound => none

/-- contexts that (also) demand compile-time computability -/
def Context.needsCtc : Context → Bool
  | .selectDomain | .varInit | .arraySize | .rangeBound => true
  | _ => false

/-- Verdict of the type checker for an expression placed in context `c`, given the outcome of the checks that precede
    the side-effect test at that site (`typedOk`: `checkExpression` succeeded and the expression has the type the context
    wants), mirroring the `if … else if …` chains of visitLocation / visitEdge / visitVariable / visitBlockStatement /
    visitInstance / checkType / visitProperty / the quantifier cases of checkExpression.  `true` = some diagnostic. -/
def Context.rejects (cfg : Cfg) (c : Context) (typedOk computable changes : Bool) : Bool :=
  !typedOk ||
  (c.needsCtc && cfg.siteCount .notComputable > 0 && !computable) ||
  (match c.site with
   | some s => cfg.siteCount s > 0 && changes
   | none => false)

/-- every check site the contexts rely on is present in the source -/
def Cfg.SitesComplete (c : Cfg) : Prop :=
  c.unrecognisedSites = 0 ∧ c.siteCount .notComputable ≥ 12 ∧
  c.siteCount .guard ≥ 1 ∧ c.siteCount .invariant ≥ 1 ∧ c.siteCount .synchronisation ≥ 1 ∧ c.siteCount .probability ≥ 1 ∧
  c.siteCount .initialiser ≥ 2 ∧ c.siteCount .argument ≥ 1 ∧ c.siteCount .expression ≥ 4 ∧ c.siteCount .assertion ≥ 1 ∧
  c.siteCount .property ≥ 6 ∧ c.siteCount .index ≥ 6 ∧ c.siteCount .message ≥ 1 ∧ c.siteCount .condition ≥ 1

instance (c : Cfg) : Decidable c.SitesComplete := by unfold Cfg.SitesComplete; infer_instance


/-! ### external calls -/

mutual
/-- no node is a call kind of the write analysis that the read analysis does not treat as a call (external calls) -/
def extFree (cfg : Cfg) : Expr → Bool
  | .node k _ subs => (!cfg.writeCallKinds.contains k || cfg.readCallKinds.contains k) && extFreeL cfg subs
def extFreeL (cfg : Cfg) : List Expr → Bool
  | [] => true
  | e :: es => extFree cfg e && extFreeL cfg es
end

/-- all bodies free of external calls -/
def bodiesExtFree (cfg : Cfg) (P : List FunDecl) : Bool := P.all (fun fd => extFreeL cfg (exprsOf fd.body))

/-! ### property C13: what a value depends on -/

/-- `Reads P e s`: evaluating `e` in program `P` may read symbol `s`: an identifier occurring anywhere in `e`, or --
    through a call of `f` -- anywhere in `f`'s body (every statement form, local initialisers included, any chain of
    calls), unless it is a local or a parameter of `f` (a parameter's value comes from the argument, which is a
    sub-expression of the call). -/
inductive Reads (P : List FunDecl) : Expr → Sym → Prop where
  | ident (s : Sym) (subs : List Expr) : Reads P (.node .kIDENTIFIER s subs) s
  | sub {k : Kind} {x s : Sym} {subs : List Expr} {e : Expr} : e ∈ subs → Reads P e s → Reads P (.node k x subs) s
  | callBody {x f s : Sym} {fsubs args : List Expr} {fd : FunDecl} {b : Expr} :
      fd ∈ P → fd.name = f → b ∈ exprsOf fd.body → Reads P b s → s ∉ fd.locals → s ∉ fd.params →
      Reads P (.node .kFUN_CALL x (.node .kIDENTIFIER f fsubs :: args)) s
  -- (compile-time contexts cannot mention processes, so `P.f()` callees do not occur in C13's contexts)

/-- `DependsOn P D e s`: the value of `e` depends on `s` -- read directly or through function bodies, or through the
    initialiser of a declared variable it reads, transitively. -/
inductive DependsOn (P : List FunDecl) (D : List VarDecl) : Expr → Sym → Prop where
  | reads {e : Expr} {s : Sym} : Reads P e s → DependsOn P D e s
  | viaInit {e : Expr} {k s : Sym} {d : VarDecl} : Reads P e k → d ∈ D → d.sym = k → DependsOn P D d.init s → DependsOn P D e s

/-- what the soundness proof of the *read* analysis needs of the generated tables -/
def Cfg.ReadsComplete (c : Cfg) : Prop :=
  c.callAddsDepends = true ∧ c.collectsDepends = true ∧ c.visit.Complete ∧ c.readCallKinds.contains .kFUN_CALL = true

instance (c : Cfg) : Decidable c.ReadsComplete := by unfold Cfg.ReadsComplete; infer_instance

mutual
/-- some node of the expression is a call of one of the random-number builtins -/
def containsRandom (cfg : Cfg) : Expr → Bool
  | .node k _ subs => cfg.randomKinds.contains k || containsRandomL cfg subs
def containsRandomL (cfg : Cfg) : List Expr → Bool
  | [] => false
  | e :: es => containsRandom cfg e || containsRandomL cfg es
end

/-- `BuilderDep D e s`: `s` occurs in `e`, or in the initialiser of a variable `e` depends on, transitively
    ("used directly or indirectly in an array declaration") -/
inductive BuilderDep (D : List VarDecl) : Expr → Sym → Prop where
  | direct {e : Expr} {s : Sym} : Reads [] e s → BuilderDep D e s
  | viaInit {e : Expr} {k s : Sym} {d : VarDecl} : BuilderDep D e k → d ∈ D → d.sym = k → Reads [] d.init s → BuilderDep D e s

/-- TypeChecker::visitInstance, `$Incompatible_argument`: verdict for one argument given the parameter's mode -/
def argRejects (cfg : Cfg) (ref constant computable uniqueRef : Bool) : Bool :=
  (cfg.argValueNeedsCtc && !ref && !computable) || (ref && !constant && !uniqueRef) ||
  (cfg.argConstRefNeedsCtc && ref && constant && !computable)

/-- Shapes at which the write analysis of the current source misses a write (computed; empty = none) -/
def c11Exceptions (cfg : Cfg) : List String :=
  if !cfg.writeCallResolvesDot then ["call-through-process-dot"] else []

/-- Shapes at which the analysis of the current source lets a non-constant value through (computed from the
    generated configuration; empty = none).  Each is confirmed against the real library by the check. -/
def c13Exceptions (cfg : Cfg) : List String :=
  (if cfg.ctcCollectsRandom && !cfg.readsPropagatesRandom then ["random:nested-operand"] else []) ++
  (if cfg.ctcCollectsRandom && !cfg.dependsCollectsRandom then ["random:via-function-body"] else []) ++
  (if !cfg.ctcCollectsRandom then ["random:anywhere"] else []) ++
  (if !cfg.depsFollowFunctions then ["free-param:array-size-via-function"] else [])

end UtapModel.Effect
