/- Driver for C16: prints the exception shapes computed from the generated grammar table and the builder model. -/
import UtapModel.Model.C16
import UtapModel.Model.SyncUsed
open UtapModel.C16

partial def loop (h : IO.FS.Stream) (out : IO.FS.Stream) : IO Unit := do
  let line ← h.getLine
  if line.isEmpty then return ()
  let w := line.trimAscii.toString
  if w == "exceptions" then
    for s in exceptionShapes do out.putStrLn s!"SHAPE {s}"
    out.putStrLn s!"NONTERMINALS {labelNonterminals.length}"
  else if w == "effects" then
    for p in ["expr_forall_begin", "expr_forall_end", "proc_edge_begin", "proc_edge_end", "block_begin", "expr_binary"] do
      out.putStrLn s!"{p} {frameEffect p}"
  else if w.startsWith "sync " then
    -- `sync b q c ..`: the synchronisation labels of a document in visiting order -> for each, whether the CSP/IO mix is reported on it
    let ks := ((w.drop 5).toString.splitOn " ").filterMap (fun x =>
      if x == "b" then some UtapModel.SyncUsed.SK.bang else if x == "q" then some .que else if x == "c" then some .csp else none)
    let ds := UtapModel.SyncUsed.diags UtapModel.SyncUsedTbl.trans 0 ks
    out.putStrLn ("SYNC " ++ String.ofList (ds.map (fun b => if b then '1' else '0')))
  else out.putStrLn "bad-op"
  loop h out

def main : IO Unit := do loop (← IO.getStdin) (← IO.getStdout)
