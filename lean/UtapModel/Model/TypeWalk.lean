/- Which expressions that sit inside a TYPE reach the checks of the type checker (properties C11 and C13).
   Array sizes, range bounds and scalar-set sizes are not operands of any expression: they hang off the type of a variable,
   parameter, typedef or binder.  They are tested (side-effect free, compile-time computable) only if
     * `TypeChecker::checkType` walks the type tree down to them (through typedef names, prefixes, every array dimension and
       every field of a record),
     * `checkType` is called on the type in the first place: by `visitVariable`, by the select / iteration / block cases and
       by the quantifier cases of `checkExpression` for the type of the binder,
     * `Document::accept` finds the variable: it classifies a frame symbol by `type_t::strip_array()`.
   The tables (`WalkCfg`) are generated from the current source by translate/effects.py (Gen/EffectGen.lean: `genWalk`); the
   functions below are the model, parameterised by the tables.  Core Lean only. -/
import UtapModel.Gen.Kinds
namespace UtapModel.TypeWalk
open UtapModel

/-- what one case of the switch of `checkType` does with the children of the type -/
inductive Action where
  /-- `checkType(type[0], ..)`: typedef names, prefixes, references -/
  | child0
  /-- RANGE: which of the two bounds go through `checkExpression` and `isCompileTimeComputable` -/
  | bounds (lo hi : Bool)
  /-- ARRAY: `checkType(size)` / `checkType(type[0], ..)` -/
  | sizeElem (size elem : Bool)
  /-- RECORD: `checkType(type.get_sub(i), ..)` for every field -/
  | fields
  | nothing
deriving DecidableEq, Repr

structure WalkCfg where
  /-- one row per case label of the switch of `TypeChecker::checkType` (`default` does nothing with children) -/
  checkType : List (Kind × Action)
  /-- every call `checkType(t)` elsewhere in src/typechecker.cpp: (member function, case labels of `checkExpression`, `t`) -/
  sites : List (String × String × String)
  /-- the frame walk of `Document::accept`: kinds of `strip_array()` of the symbol's type for which `visitVariable` is called -/
  variableBaseKinds : List Kind
deriving Repr

def WalkCfg.action (c : WalkCfg) (k : Kind) : Action :=
  match c.checkType.find? (fun p => p.1 == k) with
  | some p => p.2
  | none => .nothing

/-- A type as far as the walk is concerned.  Expressions are named by numbers. -/
inductive WTy where
  /-- INT, BOOL, DOUBLE, CLOCK, CHANNEL, SCALAR, … : no expression inside -/
  | leaf (k : Kind)
  /-- LABEL (a typedef name), the prefixes (CONSTANT, SYSTEM_META, URGENT, BROADCAST, COMMITTED, HYBRID) and REF: one child -/
  | wrap (k : Kind) (t : WTy)
  /-- RANGE with its bound expressions (the base type is INT or SCALAR) -/
  | range (lo hi : Nat)
  /-- ARRAY: the size -- itself a type, `int[0, n-1]` or a scalar set -- and the element type -/
  | array (size elem : WTy)
  | record (fields : List WTy)
deriving Repr, Inhabited

/-- the kinds `wrap` stands for: what the builder puts around a type (type.cpp: `create_prefix`, `create_label`, REF) -/
def wrapKinds : List Kind :=
  [.kLABEL, .kCONSTANT, .kSYSTEM_META, .kURGENT, .kBROADCAST, .kCOMMITTED, .kHYBRID, .kREF]

mutual
/-- specification: every expression that occurs in the type, at any depth -/
def WTy.exprs : WTy → List Nat
  | .leaf _ => []
  | .wrap _ t => t.exprs
  | .range lo hi => [lo, hi]
  | .array s e => s.exprs ++ e.exprs
  | .record fs => exprsL fs
def exprsL : List WTy → List Nat
  | [] => []
  | t :: ts => t.exprs ++ exprsL ts
end

mutual
/-- the type is one the builder can make: only the listed kinds wrap -/
def WTy.wellKinded : WTy → Bool
  | .leaf _ => true
  | .wrap k t => wrapKinds.contains k && t.wellKinded
  | .range _ _ => true
  | .array s e => s.wellKinded && e.wellKinded
  | .record fs => wellKindedL fs
def wellKindedL : List WTy → Bool
  | [] => true
  | t :: ts => t.wellKinded && wellKindedL ts
end

mutual
/-- `TypeChecker::checkType`: the expressions it hands to `checkExpression` + `isCompileTimeComputable` -/
def visits (c : WalkCfg) : WTy → List Nat
  | .leaf _ => []
  | .wrap k t => if c.action k = .child0 then visits c t else []
  | .range lo hi =>
    match c.action .kRANGE with
    | .bounds l h => (if l then [lo] else []) ++ (if h then [hi] else [])
    | _ => []
  | .array s e =>
    match c.action .kARRAY with
    | .sizeElem a b => (if a then visits c s else []) ++ (if b then visits c e else [])
    | _ => []
  | .record fs => if c.action .kRECORD = .fields then visitsL c fs else []
def visitsL (c : WalkCfg) : List WTy → List Nat
  | [] => []
  | t :: ts => visits c t ++ visitsL c ts
end

/-- the table does what the walk needs: every wrapping kind passes its child on, both bounds of a range are tested, an array
    hands on its size and its element type, a record all its fields -/
def WalkCfg.Complete (c : WalkCfg) : Prop :=
  (∀ k ∈ wrapKinds, c.action k = .child0) ∧ c.action .kRANGE = .bounds true true ∧
  c.action .kARRAY = .sizeElem true true ∧ c.action .kRECORD = .fields

instance (c : WalkCfg) : Decidable c.Complete := by unfold WalkCfg.Complete; infer_instance

/-! ### `type_t::strip` / `type_t::strip_array` (the source text of strip_array is pinned by the translator) -/

/-- `strip()`: drop typedef names, prefixes and references from the top (`stripped k` = the kinds `strip` removes) -/
def strip (stripped : Kind → Bool) : WTy → WTy
  | .wrap k t => if stripped k then strip stripped t else .wrap k t
  | t => t

/-- `strip_array()`: `strip()`, and while the result is an array: its element type, `strip()` again -/
def stripArray (stripped : Kind → Bool) : WTy → WTy
  | .wrap k t => if stripped k then stripArray stripped t else .wrap k t
  | .array _ e => stripArray stripped e
  | t => t

/-- is the type an array below whatever `strip` removes (`type_t::is_array`) -/
def isArrayType (stripped : Kind → Bool) : WTy → Bool
  | .wrap k t => stripped k && isArrayType stripped t
  | .array _ _ => true
  | _ => false

/-! ### where `checkType` has to be called, and for which base kinds a variable has to be visited (specification) -/

/-- the calls the property's contexts rest on: the type of a variable, of a select binder, of an iteration binder, of the
    symbols of a block (function parameters and locals), and of the binder of each quantifier -/
def requiredSites : List (String × String × String) :=
  [("visitVariable", "", "variable.uid.get_type()"), ("visitEdge", "", "select[i].get_type()"),
   ("visitIterationStatement", "", "type"), ("visitBlockStatement", "", "symbol.get_type()"),
   ("checkExpression", "FORALL", "expr[0].get_symbol().get_type()"),
   ("checkExpression", "EXISTS", "expr[0].get_symbol().get_type()"),
   ("checkExpression", "SUM", "expr[0].get_symbol().get_type()")]

/-- base types a declared variable can have -/
def variableKinds : List Kind := [.kINT, .kBOOL, .kDOUBLE, .kSTRING, .kCLOCK, .kCHANNEL, .kSCALAR, .kRECORD]

end UtapModel.TypeWalk
