/-
What range.h uses of a floating-point element type, as an abstract structure: a linear order with greatest and least
element (the infinities), `nexttoward(·, +inf)` / `nexttoward(·, -inf)` as `nx` / `px`, the largest and the lowest finite
value, and the two elements `0 < 1` that range.h uses to build an empty range.
Assumed of `double` (IEEE 754, NaN excluded, -0.0 and +0.0 identified): exactly the fields below.
(Uses Mathlib's order classes; not linked into any driver.)
-/
import Mathlib.Order.BoundedOrder.Basic
import Mathlib.Order.Defs.LinearOrder

namespace UtapModel

class FloatLike (α : Type) extends LinearOrder α, BoundedOrder α, Zero α, One α where
  nx : α → α
  px : α → α
  fmax : α
  flowest : α
  zero_lt_one' : (0 : α) < 1
  /-- nothing lies strictly between `x` and `nx x` -/
  lt_iff_nx_le : ∀ x y : α, x < ⊤ → (x < y ↔ nx x ≤ y)
  /-- nothing lies strictly between `px y` and `y` -/
  lt_iff_le_px : ∀ x y : α, ⊥ < y → (x < y ↔ x ≤ px y)
  /-- the only value above the largest finite one is +infinity -/
  fmax_lt_iff : ∀ x : α, fmax < x ↔ x = ⊤
  /-- the only value below the lowest finite one is -infinity -/
  lt_flowest_iff : ∀ x : α, x < flowest ↔ x = ⊥

end UtapModel
