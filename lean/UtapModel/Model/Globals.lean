/-
M-GLOBALS — the process-global state behind the parsing entry points (property C15).

`parser.y` keeps `ch`, `syntax`, `syntax_token`, `rootTransId`, `types` at file scope; bison keeps `yylloc`; flex keeps its
start condition; `UTAP::tracker` never resets its position.  `enter` is the per-call initialisation of the static
`parse_XTA` / `parseProperty` (recognised statement by statement by `translate/pos_tables.py`, tables in
`Gen/ParseGlobals.lean`); `lexBlock` is what the scanner then does to the tracker, the document's index and `yylloc`.

Core Lean only.
-/
import UtapModel.Model.Loc
import UtapModel.Gen.ParseGlobals

namespace UtapModel.Globals
open UtapModel.Pos UtapModel.LexLines UtapModel.Loc

structure Globals where
  ch : Nat                 -- identity of the current builder; 0 = NULL
  syntaxMode : String      -- NEW_GUIDING / OLD_GUIDING / PROPERTY
  syntaxToken : String     -- pending start token; "" = 0
  rootTransId : String
  types : Nat
  yyStart : Mode           -- flex start condition
  yylloc : Range           -- bison's location variable (also the slot below the first symbol of the next parse)
  tracker : Tracker
  deriving Repr, DecidableEq, Inhabited

structure Call where
  builder : Nat
  newxta : Bool
  part : String            -- enumerator of xta_part_t
  xpath : String
  property : Bool          -- parseProperty instead of parse_XTA
  deriving Repr, DecidableEq, Inhabited

/-- `setStartToken(part, newxta)`: `none` when the `switch` has no case for the part (syntax_token keeps its value) -/
def startToken (part : String) (newxta : Bool) : Option String :=
  match ParseGlobalsGen.startTokens.find? (·.1 == part) with
  | some (_, n, o) => some (if newxta then n else o)
  | none => none

/-- the statements of static `parse_XTA` / `parseProperty` before `utap_parse()` -/
def enter (yyllocInit : Bool) (g : Globals) (c : Call) : Globals :=
  let part := if c.property then "S_PROPERTY" else c.part
  let newxta := if c.property then false else c.newxta
  let g := { g with syntaxMode := if c.property then "PROPERTY" else if c.newxta then "NEW_GUIDING" else "OLD_GUIDING" }
  let g := { g with syntaxToken := (startToken part newxta).getD g.syntaxToken }
  let g := { g with ch := c.builder }
  let g := { g with tracker := g.tracker.setPath c.xpath }
  if yyllocInit then { g with yylloc := { start := g.tracker.position, stop := g.tracker.position } } else g

/-- `yylloc` after scanning: YY_USER_ACTION sets it for every lexeme; `<<EOF>>` rules do not run YY_USER_ACTION -/
def yyllocAfter (before : Range) (pos : Nat) (ls : List Lexeme) : Range :=
  ((tokenRanges pos ls).getLast?).getD before

/-- location bison attaches to a syntax error at the end of the input: the `yylloc` of the last lexeme scanned —
    or, when the text has no lexeme at all, whatever `yylloc` held when the call began -/
def eofErrorRange (g : Globals) (ls : List Lexeme) : Range := yyllocAfter g.yylloc g.tracker.position ls

/-! ### rootTransId and types: the events of a transition list / an array declarator -/

inductive Access where
  | write
  | read
  deriving Repr, DecidableEq

/-- `TransitionOpt`: the short form `-> T {…}` reads `rootTransId` (twice: proc_edge_begin, proc_edge_end),
    a full `Transition` writes it in its final action -/
inductive TransOpt where
  | short
  | full
  deriving Repr, DecidableEq

/-- `TransitionList : Transition | TransitionList ',' TransitionOpt` -/
def transListAccesses (rest : List TransOpt) : List Access :=
  Access.write :: rest.flatMap fun o => match o with
    | .short => [Access.read, Access.read]
    | .full => [Access.write]

/-- `ArrayDecl : { types = 0; } ArrayDecl2`, every `ArrayDecl2` alternative reads/updates `types` -/
def arrayDeclAccesses (dims : Nat) : List Access := Access.write :: List.replicate dims Access.read

/-- every read is preceded by a write in the same list -/
def WrittenFirst : List Access → Prop
  | [] => True
  | a :: _ => a = Access.write

end UtapModel.Globals
