/- The printer model's output is an admissible rendering whenever the computed criterion `good` holds. -/
import UtapModel.Lemmas.PrattRender
import UtapModel.Model.PrintModel

namespace UtapModel.PrintModel
open UtapModel.Pratt UtapModel.ExprTable

variable (D : Data) (mt : Nat)

/-- an operand that is parenthesised by the printer, or allowed bare by the grammar, is rendered admissibly -/
theorem subR {k : String} {i c : Nat} {x : Expr} {ts : List Tok}
    (hx : ∀ ctx, bareOK D.tbl ctx x = true → R D.tbl mt false ctx x ts)
    (h0 : bareOK D.tbl 0 x = true)
    (hop : opOK D k i c x = true) : R D.tbl mt false c x (wrap (pparen D k i x) ts) := by
  unfold wrap
  by_cases hp : pparen D k i x = true
  · simp only [hp, if_true]
    exact R.paren (hx 0 h0)
  · simp only [hp]
    simp only [opOK, Bool.or_eq_true] at hop
    rcases hop with hop | hop
    · exact absurd hop hp
    · exact hx c hop

/-- same, for operand positions where the grammar accepts anything (context 0) -/
theorem subR0 {k : String} {i : Nat} {x : Expr} {ts : List Tok}
    (hx : ∀ ctx, bareOK D.tbl ctx x = true → R D.tbl mt false ctx x ts)
    (h0 : bareOK D.tbl 0 x = true) : R D.tbl mt false 0 x (wrap (pparen D k i x) ts) := by
  unfold wrap
  split
  · exact R.paren (hx 0 h0)
  · exact hx 0 h0

/-- parentheses of its own around an operand that is already rendered admissibly keep it admissible (the `-(-2147483648)` case) -/
theorem subRx {k : String} {i c : Nat} {x : Expr} {ts : List Tok} (extra : List Tok → Bool)
    (hx : ∀ ctx, bareOK D.tbl ctx x = true → R D.tbl mt false ctx x ts)
    (h0 : bareOK D.tbl 0 x = true)
    (hop : opOK D k i c x = true) :
    R D.tbl mt false c x (wrap (extra (wrap (pparen D k i x) ts)) (wrap (pparen D k i x) ts)) := by
  have hin : ∀ c', opOK D k i c' x = true → R D.tbl mt false c' x (wrap (pparen D k i x) ts) := fun c' h => subR D mt hx h0 h
  cases hE : extra (wrap (pparen D k i x) ts) with
  | false => simpa [wrap] using hin c hop
  | true =>
    simp only [wrap, if_true]
    -- inside the new parentheses the context is 0, where every operand may stand
    have h00 : opOK D k i 0 x = true := by simp [opOK, h0]
    have := hin 0 h00
    simp only [wrap] at this
    exact R.paren this

theorem bareOK_zero (T : Tbl) (x : Expr) : bareOK T 0 x = true := by
  unfold bareOK; split <;> simp

theorem lprint_acons_nil (x : Expr) : lprint D mt (.acons x .anil) = lprint D mt x := by simp only [lprint]
theorem lprint_acons_cons (x rest : Expr) (h : rest ≠ .anil) :
    lprint D mt (.acons x rest) = lprint D mt x ++ [.comma] ++ lprint D mt rest := by
  cases rest <;> first | exact absurd rfl h | simp only [lprint]

theorem lprint_R : ∀ (e : Expr),
    (good D mt false e = true → ∀ ctx, bareOK D.tbl ctx e = true → R D.tbl mt false ctx e (lprint D mt e)) ∧
    (good D mt true e = true → R D.tbl mt true 0 e (lprint D mt e)) := by
  intro e
  induction e with
  | atom a =>
    refine ⟨fun h ctx _ => ?_, fun h => by simp [good] at h⟩
    by_cases ha : a = .intMin
    · subst ha
      simp only [good, if_true, Bool.and_eq_true] at h
      simp only [lprint, atomToks]
      exact R.intMin h.1 h.2
    · have : atomToks mt a = [.atom a] := by cases a <;> first | rfl | exact absurd rfl ha
      simp only [lprint, this]
      exact R.atom ha
  | pre t x ih =>
    refine ⟨fun h ctx hb => ?_, fun h => by simp [good] at h⟩
    simp only [good, Bool.and_eq_true, Bool.not_eq_true'] at h
    simp only [bareOK, lvlOf, decide_eq_true_eq] at hb
    simp only [lprint]
    exact R.pre h.1.1.1 h.1.1.2 hb (subRx D mt (negLead D mt t) (ih.1 h.2) (bareOK_zero _ _) h.1.2)
  | quant k id ty x ih =>
    refine ⟨fun h ctx hb => ?_, fun h => by simp [good] at h⟩
    simp only [good, Bool.and_eq_true] at h
    simp only [bareOK, lvlOf, decide_eq_true_eq] at hb
    simp only [lprint]
    exact R.quant hb (subR D mt (ih.1 h.2) (bareOK_zero _ _) h.1)
  | post t x ih =>
    refine ⟨fun h ctx hb => ?_, fun h => by simp [good] at h⟩
    simp only [good, Bool.and_eq_true, Bool.not_eq_true'] at h
    simp only [bareOK, lvlOf, decide_eq_true_eq] at hb
    simp only [lprint]
    exact R.post h.1.1.1 h.1.1.2 hb (subR D mt (ih.1 h.2) (bareOK_zero _ _) h.1.2)
  | dot n x ih =>
    refine ⟨fun h ctx hb => ?_, fun h => by simp [good] at h⟩
    simp only [good, Bool.and_eq_true] at h
    simp only [bareOK, lvlOf, decide_eq_true_eq] at hb
    simp only [lprint]
    exact R.dot hb (subR D mt (ih.1 h.2) (bareOK_zero _ _) h.1)
  | dotLoc x ih =>
    refine ⟨fun h ctx hb => ?_, fun h => by simp [good] at h⟩
    simp only [good, Bool.and_eq_true] at h
    simp only [bareOK, lvlOf, decide_eq_true_eq] at hb
    simp only [lprint]
    exact R.dotLoc hb (subR D mt (ih.1 h.2) (bareOK_zero _ _) h.1)
  | bin t l r ihl ihr =>
    refine ⟨fun h ctx hb => ?_, fun h => by simp [good] at h⟩
    simp only [good, Bool.and_eq_true, Bool.not_eq_true'] at h
    simp only [bareOK, lvlOf, decide_eq_true_eq] at hb
    simp only [lprint]
    obtain ⟨⟨⟨⟨⟨⟨h1, h2⟩, h3⟩, h4⟩, h5⟩, h6⟩, h7⟩ := h
    exact R.bin h1 h2 h3 hb (subR D mt (ihl.1 h6) (bareOK_zero _ _) h4) (subR D mt (ihr.1 h7) (bareOK_zero _ _) h5)
  | tern c a b ihc iha ihb =>
    refine ⟨fun h ctx hb => ?_, fun h => by simp [good] at h⟩
    simp only [good, Bool.and_eq_true] at h
    simp only [bareOK, lvlOf, decide_eq_true_eq] at hb
    simp only [lprint]
    obtain ⟨⟨⟨⟨h1, h2⟩, h3⟩, h4⟩, h5⟩ := h
    exact R.tern hb (subR D mt (ihc.1 h3) (bareOK_zero _ _) h1) (subR0 D mt (iha.1 h4) (bareOK_zero _ _))
      (subR D mt (ihb.1 h5) (bareOK_zero _ _) h2)
  | index a i iha ihi =>
    refine ⟨fun h ctx hb => ?_, fun h => by simp [good] at h⟩
    simp only [good, Bool.and_eq_true] at h
    simp only [bareOK, lvlOf, decide_eq_true_eq] at hb
    simp only [lprint]
    exact R.index hb (subR D mt (iha.1 h.1.2) (bareOK_zero _ _) h.1.1) (subR0 D mt (ihi.1 h.2) (bareOK_zero _ _))
  | fn1 k a iha =>
    refine ⟨fun h ctx _ => ?_, fun h => by simp [good] at h⟩
    simp only [good] at h
    simp only [lprint]
    exact R.fn1 (iha.1 h 0 (bareOK_zero _ _))
  | fn2 k a b iha ihb =>
    refine ⟨fun h ctx _ => ?_, fun h => by simp [good] at h⟩
    simp only [good, Bool.and_eq_true] at h
    simp only [lprint]
    exact R.fn2 (iha.1 h.1 0 (bareOK_zero _ _)) (ihb.1 h.2 0 (bareOK_zero _ _))
  | fn3 k a b c iha ihb ihc =>
    refine ⟨fun h ctx _ => ?_, fun h => by simp [good] at h⟩
    simp only [good, Bool.and_eq_true] at h
    simp only [lprint]
    exact R.fn3 (iha.1 h.1.1 0 (bareOK_zero _ _)) (ihb.1 h.1.2 0 (bareOK_zero _ _)) (ihc.1 h.2 0 (bareOK_zero _ _))
  | call f args ihf iha =>
    refine ⟨fun h ctx hb => ?_, fun h => by simp [good] at h⟩
    simp only [good, Bool.and_eq_true] at h
    simp only [bareOK, lvlOf, decide_eq_true_eq] at hb
    simp only [lprint]
    exact R.call hb (subR D mt (ihf.1 h.1.2) (bareOK_zero _ _) h.1.1) (iha.2 h.2)
  | anil =>
    refine ⟨fun h => by simp [good] at h, fun _ => ?_⟩
    simp only [lprint]
    exact R.anil
  | acons x rest ihx ihr =>
    refine ⟨fun h => by simp [good] at h, fun h => ?_⟩
    simp only [good, Bool.and_eq_true] at h
    by_cases hr : rest = .anil
    · subst hr
      rw [lprint_acons_nil]
      exact R.aone (ihx.1 h.1 0 (bareOK_zero _ _))
    · rw [lprint_acons_cons D mt x rest hr]
      exact R.acons (ihx.1 h.1 0 (bareOK_zero _ _)) (ihr.2 h.2) hr

/-- **Printing and re-parsing reproduces the tree** for every tree that meets the computed criterion. -/
theorem print_parse (hT : D.tbl.ternL ≤ D.tbl.questL) (e : Expr) (h : good D mt false e = true) :
    parseTop D.tbl (lprint D mt e) = some e :=
  roundtrip_R D.tbl mt hT ((lprint_R D mt e).1 h 0 (bareOK_zero _ _))

end UtapModel.PrintModel
