/- Line-protocol driver of C04: reads abstract models (format of checks/c04_model.py `lean_lines`, each introduced by
   `model <id>` and closed by `end`) and prints what the model of the XML reader + document builder predicts:
   the callback trace of `readXml (renderXml M)` and the canonical dump of the built document.  The C++ harness
   `harness/c04.cpp` answers the rendered XML text with the real trace and dump. -/
import UtapModel.Model.AModelIO
import UtapModel.Gen.RateDecompCfg
open UtapModel.AM

/-- an invariant in prefix notation: `A l r` | `I <0|1> n` | `R <0|1> n` | `Q n body` (Model/RateDecomp.lean) -/
partial def parseWR : List String → Option (UtapModel.RateDecomp.WR × List String)
  | "A" :: r => do
    let (a, r1) ← parseWR r
    let (b, r2) ← parseWR r1
    pure (.and a b, r2)
  | "I" :: s :: n :: r => do pure (.inv (s == "1") (← n.toNat?), r)
  | "R" :: c :: n :: r => do pure (.rate (c == "1") (← n.toNat?), r)
  | "Q" :: n :: r => do
    let (b, r1) ← parseWR r
    pure (.all b (← n.toNat?), r1)
  | _ => none

def report (id : String) (M : AModel) : List String :=
  let calls := readXml (renderXml M)
  let s := build calls
  [s!"BEGIN {id}", s!"WF {b01 M.wf}", s!"SPEC-EQ {b01 (decide (s.doc = docOf M))}", s!"ERRS {s.errs.length}",
   s!"FRAGS {s.frags.length}"] ++
  (traceLines {} calls).map ("TRACE " ++ ·) ++ (docLines s.doc) ++ [s!"END {id}"]

partial def loop (h out : IO.FS.Stream) (id : String) (ps : PS) : IO Unit := do
  let line ← h.getLine
  if line.isEmpty then return ()
  let ws := (line.trimAscii.toString.splitOn " ").filter (· ≠ "")
  match ws with
  | "ratedec" :: i :: rest =>
    -- what `TypeChecker::visitLocation` stores for this invariant, with the decomposer as read from the current source
    match parseWR rest with
    | some (e, []) => out.putStrLn s!"RATEDEC {i} {(UtapModel.RateDecomp.stored UtapModel.RateDecompCfg.cfg e).line}"
    | _ => out.putStrLn s!"RATEDEC {i} bad-op"
    loop h out id ps
  | ["model", i] => loop h out i {}
  | ["end"] =>
    for l in report id ps.m do out.putStrLn l
    loop h out id {}
  | _ => loop h out id (feed ps ws)

def main : IO Unit := do
  loop (← IO.getStdin) (← IO.getStdout) "?" {}
