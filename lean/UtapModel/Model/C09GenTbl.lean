/-
C09 — the precedence table of the current parser.y (generated `Gen.precLevels`) as a `Pratt.Tbl`, and the embedding of
a token stream into the tokens of the small precedence-climbing parser (used by the driver to tie that parser to the
real one by correspondence).  Core Lean only.
-/
import UtapModel.Model.C09Pratt
import UtapModel.Model.C09Ops
import UtapModel.Gen.C09Tables
namespace UtapModel.C09

def levelNo (t : TokId) : Nat := ((levelOf Gen.precLevels t).map (·.1)).getD 0
def levelRight (i : Nat) : Bool :=
  match Gen.precLevels[i - 1]? with
  | some (.right, _) => true
  | _ => false

/-- binary operators carry their own token's level; every prefix operator of `UnaryOp` is reduced by the rule
    `UnaryOp Expression %prec UOPERATOR`, i.e. at the level of the pseudo-token UOPERATOR -/
def genTbl : Pratt.Tbl :=
  { bp := levelNo, rassoc := fun o => levelRight (levelNo o),
    plevel := fun _ => levelNo Gen.UOPERATOR, prassoc := fun _ => levelRight (levelNo Gen.UOPERATOR) }

def genTables : Tables :=
  { levels := Gen.precLevels, binary := Gen.binaryProds, unary := Gen.unaryProds, assign := Gen.assignProds,
    nonTypeId := Gen.nonTypeId, kindNames := Gen.kindNames, tokNames := Gen.tokNames }

/-- tokens of the atom / prefix / binary / parenthesis fragment as `PTok`s, with the callbacks of the atoms -/
def toPToks (toks : List Tok) : Option (List Pratt.PTok × List String) :=
  let rec go (ts : List Tok) (expectOperand : Bool) (acc : List Pratt.PTok) (atoms : List String) :
      Option (List Pratt.PTok × List String) :=
    match ts with
    | [] => if expectOperand then none else some (acc.reverse, atoms)
    | t :: rest =>
      match tokInfo genTables t with
      | none => none
      | some i =>
        if expectOperand then
          match i.atom with
          | some c => go rest false (.atom atoms.length :: acc) (atoms ++ [c])
          | none =>
            if i.punct == .lp then go rest true (.lp :: acc) atoms
            else match t with
              | .lit tk => if (lookup Gen.unaryProds tk).isSome then go rest true (.pre tk :: acc) atoms else none
              | _ => none
        else
          if i.punct == .rp then go rest false (.rp :: acc) atoms
          else match t with
            | .lit tk => if (lookup Gen.binaryProds tk).isSome then go rest true (.op tk :: acc) atoms else none
            | _ => none
  go toks true [] []

/-- callback trace of the small parser on a token stream of its fragment -/
def prattTrace (toks : List Tok) : Option (List String) :=
  match toPToks toks with
  | none => none
  | some (pts, atoms) =>
    match Pratt.parseE genTbl (2 * pts.length + 2) 0 pts with
    | some (v, []) =>
      some (v.map fun e =>
        match e with
        | .at k => (atoms[k]?).getD "?"
        | .bi o => "expr_binary " ++ genTables.kind ((lookup Gen.binaryProds o).getD 1000)
        | .un p => "expr_unary " ++ genTables.kind ((lookup Gen.unaryProds p).getD 1000))
    | _ => none

end UtapModel.C09
