/- Line-protocol driver for property C10 (formula trees).  One request per line:
     f <formula in prefix notation>   ->  k=<kind|none> g=<0|1> i=<0|1> convex=<0|1> clockfree=<0|1> wf=<0|1> noexc=<0|1>
     exceptions                       ->  the computed exception set `leafExceptions`, e.g.  NEQ/CLOCK/CLOCK LT/...   (or `none`)
   `harness/c10.cpp` places the same formulas as guard and as invariant in real XML models. -/
import UtapModel.Model.Formula
open UtapModel.Types UtapModel.TypeClauses UtapModel.Formula

def bit (b : Bool) : String := if b then "1" else "0"

def stepLine (line : String) : String :=
  let ws := (line.trimAscii.toString.splitOn " ").filter (· ≠ "")
  match ws with
  | "f" :: rest =>
    match parseForm (rest.length + 1) rest with
    | some (f, []) =>
      let k := match classify f with
        | some k => k.name
        | none => "none"
      s!"k={k} g={bit (acceptsAsGuard f)} i={bit (acceptsAsInvariant f)} convex={bit (Convex f)} clockfree={bit (ClockFree f)} wf={bit (WF f)} noexc={bit (noExcLeaf f)}"
    | _ => "bad-op"
  | ["exceptions"] =>
    match leafExceptions with
    | [] => "none"
    | es => " ".intercalate (es.map fun (o, l, r) => s!"{o.name}/{l.name}/{r.name}")
  | _ => "bad-op"

partial def loop (h : IO.FS.Stream) (out : IO.FS.Stream) : IO Unit := do
  let line ← h.getLine
  if line.isEmpty then return ()
  out.putStrLn (stepLine line)
  loop h out

def main : IO Unit := do
  let out ← IO.getStdout
  loop (← IO.getStdin) out
