/- Helper lemmas for the invariant decomposition (Props/C04Rate.lean): the state after `decompose pinned`, in closed form. -/
import UtapModel.Model.RateDecomp

namespace UtapModel.RateDecomp

/-- the conjuncts that are kept: every leaf of the conjunction spine except the cost rates, by name, in order -/
def kept (e : WR) : List Conj := ((spine e).filter (fun l => !isCost l)).map (fun l => Conj.sub (name l))

def lastCost : List Nat → Option Nat → Option Nat
  | [], c => c
  | n :: r, _ => lastCost r (some n)

theorem lastCost_append (a b : List Nat) (c : Option Nat) : lastCost (a ++ b) c = lastCost b (lastCost a c) := by
  induction a generalizing c with
  | nil => rfl
  | cons x r ih => simp [lastCost, ih]

theorem kept_and (a b : WR) : kept (.and a b) = kept a ++ kept b := by
  simp [kept, spine, List.filter_append]

/-- **closed form**: what `RateDecomposer::decompose` leaves behind, for every expression, from every state, inside or outside a
    quantifier -/
theorem decompose_closed (e : WR) (inforall : Bool) (a : Acc) :
    decompose pinned e inforall a =
      { conj := a.conj ++ (if inforall then [] else kept e),
        cost := lastCost (costs e) a.cost,
        costCount := a.costCount + (costs e).length,
        clockRates := a.clockRates || hasClockRate e,
        strict := a.strict || hasStrict e } := by
  induction e generalizing inforall a with
  | inv s n =>
    cases s <;> cases inforall <;> simp [decompose, pinned, kept, spine, isCost, name, costs, lastCost, hasClockRate, hasStrict]
  | and x y ihx ihy =>
    have h1 : pinned.andLeftPasses = true := rfl
    have h2 : pinned.andRightPasses = true := rfl
    simp only [decompose, h1, h2, if_true]
    rw [ihx, ihy]
    cases inforall <;>
      simp [kept_and, costs, lastCost_append, hasClockRate, hasStrict, Nat.add_assoc, Bool.or_assoc, List.append_assoc]
  | rate c n =>
    cases c <;> cases inforall <;> simp [decompose, pinned, kept, spine, isCost, name, costs, lastCost, hasClockRate, hasStrict]
  | all b n ih =>
    have h1 : pinned.allBodyInForall = true := rfl
    have h2 : pinned.allRecordsWhole = true := rfl
    have h3 : pinned.allGuarded = true := rfl
    simp only [decompose, h1, h2, h3, if_true]
    rw [ih]
    cases inforall <;> simp [kept, spine, isCost, name, costs, hasClockRate, hasStrict]

/-- what `visitLocation` stores, in closed form -/
theorem stored_pinned (e : WR) :
    stored pinned e = { conj := .one :: kept e, cost := lastCost (costs e) none, costCount := (costs e).length,
                        clockRates := hasClockRate e, strict := hasStrict e } := by
  have h : init pinned = { conj := [.one], cost := none, costCount := 0, clockRates := false, strict := false } := rfl
  unfold stored
  rw [decompose_closed, h]
  simp

end UtapModel.RateDecomp
