// C14 / C10 harness (expression level): the real TypeChecker behind a line protocol.
//   c14 <declarations.xta>     ops on stdin, one canonical line per op on stdout
// ops
//   X <scope> <expression text>
//        parse the expression in <scope> ("-" = global scope, otherwise the name of a template: its parameters and
//        local declarations are visible), run TypeChecker::checkExpression on it and print
//        ok=<0|1> nerr=<n> root=<type> kids=<type>;<type>;...   msgs=<msg>|<msg>
//        (root = type of the expression after checking, kids = types of its direct operands, in order;
//         for FUN_CALL the kids are function, arg1, ...; lv=<bits> is TypeChecker::isModifiableLValue of each operand;
//         one-parameter calls add pe=<E(arg,param)><E(param,arg)><E(arg,unwrapped param)><E(unwrapped param,arg)>)
//   Q <scopeA> <exprA> ## <scopeB> <exprB>
//        both expressions are checked, then the public static TypeChecker::areEquivalent is called on their types and on
//        the same types wrapped in REF / CONSTANT on either side:
//        e=<E(A,B)><E(B,A)><E(&A,B)><E(A,&B)><E(const A,B)><E(A,const B)><E(&A,&B)><E(B,&A)> a=<type> b=<type>
//   Y - <query text>
//        the text is parsed and checked as a query of the document by a fresh TigaPropertyBuilder (parseProperty ->
//        TypeChecker::visitProperty -> typeProperty), the way a verifier does; queries have acceptance rules of their own
//        (nesting, observations of `{..} control:`) that no expression of a model reaches:
//        q ok=<0|1> nprop=<n> nerr=<n> exc=<what of the exception, if any> msgs=<msg>|<msg>
// Types are printed with vh::tsexp (S-expression, kind names from the generated kinds.inc).
#include <algorithm>
#include <cassert>
#include <cstdint>
#include <cstring>
#include <deque>
#include <fstream>
#include <iostream>
#include <list>
#include <map>
#include <memory>
#include <optional>
#include <set>
#include <sstream>
#include <stack>
#include <string>
#include <variant>
#include <vector>
// isModifiableLValue is a private member of TypeChecker: the harness needs the library's own answer, not a re-implementation
#define private public
#define protected public
#include "utap/typechecker.h"
#undef private
#undef protected
#include "common.hpp"

using namespace vh;

static Document* doc;
static TypeChecker* tc;

static frame_t scopeOf(const std::string& name, bool& found)
{
    found = true;
    if (name == "-") return frame_t();
    for (auto& t : doc->get_templates())
        if (t.uid.get_name() == name) return t.frame;
    found = false;
    return frame_t();
}

struct Checked
{
    bool parsed = false, ok = false;
    size_t nerr = 0;
    expression_t e;
    std::string msgs;
};

static Checked check(const std::string& scope, const std::string& text)
{
    Checked c;
    bool found;
    frame_t f = scopeOf(scope, found);
    if (!found) return c;
    doc->clear_errors();
    doc->clear_warnings();
    try {
        c.e = parseExpr(*doc, text, true, f);
    } catch (std::exception& ex) {
        c.msgs = std::string("parse-exception:") + ex.what();
        return c;
    }
    if (c.e.empty() || doc->has_errors()) {
        for (auto& e : doc->get_errors()) c.msgs += e.msg + "|";
        c.msgs = "parse-error:" + c.msgs;
        return c;
    }
    c.parsed = true;
    try {
        c.ok = tc->checkExpression(c.e);
    } catch (std::exception& ex) {
        c.msgs = std::string("check-exception:") + ex.what() + "|";
        c.ok = false;
    }
    c.nerr = doc->get_errors().size();
    for (auto& e : doc->get_errors()) c.msgs += e.msg + "|";
    return c;
}

int main(int argc, char** argv)
{
    if (argc < 2) {
        std::cerr << "usage: c14 <declarations.xta>\n";
        return 2;
    }
    std::ios::sync_with_stdio(false);
    Document d;
    doc = &d;
    std::string text = slurp(argv[1]);
    int rc = parse_XTA(text.c_str(), doc, true);
    if (d.has_errors()) {
        std::cout << "DECL-ERRORS rc=" << rc << "\n";
        dumpDiags(std::cout, d);
        return 3;
    }
    TypeChecker checker(d);
    tc = &checker;
    d.accept(checker);
    if (d.has_errors()) {
        std::cout << "DECL-TYPE-ERRORS\n";
        dumpDiags(std::cout, d);
        return 3;
    }
    std::cout << "READY\n";
    std::string line;
    while (std::getline(std::cin, line)) {
        if (line.empty()) {
            std::cout << "bad-op\n";
            continue;
        }
        std::istringstream is(line);
        std::string op, scope;
        is >> op >> scope;
        std::string rest;
        std::getline(is, rest);
        if (op == "X") {
            Checked c = check(scope, rest);
            if (!c.parsed) {
                std::cout << "noparse " << c.msgs << "\n";
                continue;
            }
            std::cout << "ok=" << (c.ok ? 1 : 0) << " nerr=" << c.nerr << " kind=" << kindName(c.e.get_kind())
                      << " root=" << tsexp(c.e.get_type()) << " kids=";
            std::string lv;
            for (size_t i = 0; i < c.e.get_size(); ++i) {
                std::cout << (i ? ";" : "") << tsexp(c.e[i].get_type());
                lv += tc->isModifiableLValue(c.e[i]) ? '1' : '0';
            }
            std::cout << " lv=" << lv;
            if (c.e.get_kind() == FUN_CALL && c.e.get_size() == 2 && c.e[0].get_type().size() == 2) {
                // one-parameter call: areEquivalent between the argument's type and the parameter's type, with and
                // without the parameter's leading REF / CONSTANT wrappers, in both argument orders
                type_t P = c.e[0].get_type()[1], A = c.e[1].get_type(), U = P;
                while (U.get_kind() == REF || U.get_kind() == CONSTANT) U = U[0];
                std::string bits;
                auto E = [&](type_t x, type_t y) { bits += TypeChecker::areEquivalent(x, y) ? '1' : '0'; };
                E(A, P);
                E(P, A);
                E(A, U);
                E(U, A);
                std::cout << " pe=" << bits;
            }
            std::cout << " msgs=" << c.msgs << "\n";
        } else if (op == "Q") {
            auto pos = rest.find("##");
            if (pos == std::string::npos) {
                std::cout << "bad-op\n";
                continue;
            }
            std::string ea = rest.substr(0, pos);
            std::istringstream is2(rest.substr(pos + 2));
            std::string scopeB, eb;
            is2 >> scopeB;
            std::getline(is2, eb);
            Checked a = check(scope, ea);
            Checked b = check(scopeB, eb);
            if (!a.parsed || !b.parsed || !a.ok || !b.ok) {
                std::cout << "noparse " << a.msgs << " / " << b.msgs << "\n";
                continue;
            }
            type_t A = a.e.get_type(), B = b.e.get_type();
            type_t rA = A.create_prefix(REF), rB = B.create_prefix(REF);
            type_t cA = A.create_prefix(CONSTANT), cB = B.create_prefix(CONSTANT);
            std::string bits;
            auto E = [&](type_t x, type_t y) { bits += TypeChecker::areEquivalent(x, y) ? '1' : '0'; };
            E(A, B);
            E(B, A);
            E(rA, B);
            E(A, rB);
            E(cA, B);
            E(A, cB);
            E(rA, rB);
            E(B, rA);
            std::cout << "e=" << bits << " a=" << tsexp(A) << " b=" << tsexp(B) << "\n";
        } else if (op == "Y") {
            doc->clear_errors();
            doc->clear_warnings();
            TigaPropertyBuilder pb(*doc);
            std::string exc, msgs;
            try {
                parseProperty(rest.c_str(), &pb);
            } catch (std::exception& ex) {
                exc = ex.what();
            }
            for (auto& e : doc->get_errors()) msgs += e.msg + "|";
            size_t nprop = pb.getProperties().size();
            bool ok = exc.empty() && !doc->has_errors() && nprop > 0;
            std::cout << "q ok=" << (ok ? 1 : 0) << " nprop=" << nprop << " nerr=" << doc->get_errors().size() << " exc=" << quote(exc)
                      << " msgs=" << msgs << "\n";
        } else {
            std::cout << "bad-op\n";
        }
    }
    return 0;
}
