"""C17 -- analysis methods are reported as supported only when the model permits them (DESIGN.md section 4, C17).

 1 translate   src/featurechecker.cpp (+ uses_fp of expression.cpp) -> lean/UtapModel/Gen/FeatureCfg.lean   (tie T:
               case labels of visitGuard / uses_fp and the structural decisions of the visitors, matched fail-closed)
 2 prove       UtapModel.Props.C17: for EVERY configuration and EVERY abstract document, a reported "supported" implies
               the declarative Spec unless the document contains a placement the configured checker does not inspect;
               never-instantiated templates and declaration order do not matter; negation on a witness per placement
 3 correspond  generated XML models -> real parse_XML_buffer + get_supported_methods()  vs  Lean model on the abstract
               document extracted from the real Document (harness/c17.cpp)                              (tie C)
 4 search      direct oracle: Spec computed by the generator from what it wrote (independent of harness and model)
               vs the real verdict, on random models and on enumerated placements (a restricting conjunct at every position among
               benign conjuncts of every form; a floating-point value below an int / bool typed operator in every role; a clock
               comparison inside the rate operand of a rate equation; clock arrays of several dimensions; every order of names x
               separators of the system line: directed_models);
               metamorphic runs (declaration order, never-instantiated templates);
               every placement of the computed exception set is replayed on the real library with a directed witness
"""
import json
import os
import sys
from xml.sax.saxutils import escape

from vlib import core

sys.path.insert(0, os.path.join(core.VERIF, "translate"))
import feature  # noqa: E402
import kinds as kinds_tr  # noqa: E402

GEN = os.path.join(core.LEAN_DIR, "UtapModel", "Gen", "FeatureCfg.lean")
MODULE = "UtapModel.Props.C17"

# ------------------------------------------------------------------------------------------------
# model description -> XML
# ------------------------------------------------------------------------------------------------
GLOBALS = "clock x, y; hybrid clock h; double d, e; int i, j; bool b; clock xs[2]; const double K = 1.5; const int N = 2;"


def xml_of(m):
    """m = {"gdecl": [str], "templates": [{"name","decl":[str],"locs":[(id,[conjuncts])],"edges":[(src,dst,[guard conjuncts],[updates])]}],
            "system": str}"""
    s = ['<?xml version="1.0" encoding="utf-8"?>', "<nta>", "<declaration>%s</declaration>" % escape(" ".join(m["gdecl"]))]
    for ti, t in enumerate(m["templates"]):
        s.append("<template><name>%s</name>" % t["name"])
        if t.get("param"):
            s.append("<parameter>%s</parameter>" % escape(t["param"]))
        s.append("<declaration>%s</declaration>" % escape(" ".join(t["decl"])))
        for lid, inv in t["locs"]:
            lab = '<label kind="invariant">%s</label>' % escape(inv) if inv else ""
            s.append('<location id="id%d_%s"><name>%s</name>%s</location>' % (ti, lid, lid, lab))
        s.append('<init ref="id%d_%s"/>' % (ti, t["init"]))
        for src, dst, g, a in t["edges"]:
            s.append('<transition><source ref="id%d_%s"/><target ref="id%d_%s"/>%s%s</transition>' % (
                ti, src, ti, dst, '<label kind="guard">%s</label>' % escape(g) if g else "",
                '<label kind="assignment">%s</label>' % escape(a) if a else ""))
        s.append("</template>")
    s.append("<system>%s</system></nta>" % escape(m["system"]))
    return "\n".join(s)


# ------------------------------------------------------------------------------------------------
# atoms: (text, set of Spec violations it constitutes)   violations: "cmp", "rate", "assign", "init", "chan", "dyn", "prio"
# ------------------------------------------------------------------------------------------------
REL = ["<", "<=", "==", "!=", ">=", ">"]
CLOCKS = ["x", "y", "xs[0]", "xs[1]", "h"]
FPS = ["1.5", "d", "K", "2.5", "d + 0.5", "2 * 1.5", "e"]
# a floating-point value below an operator whose own type is int or bool: the operand of the comparison / the assigned value is
# integer-typed, the floating-point value it is computed from sits one or more levels further down
FPS_BELOW_INT = ["fint(d)", "i + fint(d)", "2 * fint(K)", "fint(2.5) + 1", "(d < 0.5 ? 1 : 2)", "fint(d + 0.5) - j"]
ASSIGN_BELOW_INT = ["i = fint(d)", "b = d < 0.5", "i = 1 + fint(random(10))", "x = i + fint(2.5)", "j = fint(K) * 2", "i = (d < e ? 1 : 0)",
                    "b = d == e", "y = fint(d)", "xs[1] = 2 * fint(K)", "b = !(d > 1.0)", "j = i + fint(1.5)"]
# a clock-rate equation is no comparison, but its rate operand is an expression like any other and may contain one
RATE_WITH_CMP = ["(%s ? 0 : 1)", "(%s ? 1 : 0)", "(%s && i == 0 ? 0 : 1)", "1 - (%s ? 0 : 1)", "(b ? 1 : (%s ? 0 : 1))"]
BENIGN_GUARD = ["i == 0", "x < 3", "x >= 1", "b", "j != 1", "x - y < 2", "y <= N", "i < j", "x > 0", "!b", "true"]
BENIGN_INV = ["x <= 5", "i == 0", "y < 7", "x' == 1", "y' == 0", "h' == 3", "x' == i", "0 == y'", "h' == 2.5", "x - y <= 3", "b",
              # quantified conjuncts (a quantifier extends to the end of the label, hence the parentheses): the type checker takes an
              # invariant apart conjunct by conjunct and enters a quantified rate condition on the way; what follows it still counts
              "(forall (k : int[0,1]) xs[k]' == 0)", "(forall (k : int[0,1]) xs[k]' == 1)", "(forall (k : int[0,1]) xs[k] <= 7)"]
BENIGN_UPD = ["i = 1", "x = 0", "h = 2.0", "b = true", "j = i + 1", "y = N", "i++", "h = d", "xs[0] = 0", "j = 0"]


def flip(op):
    return {"<": ">", "<=": ">=", "==": "==", "!=": "!=", ">=": "<=", ">": "<"}[op]


def cmp_atom(r, ops=REL):
    c, f, op = r.choice(CLOCKS), r.choice(FPS + FPS_BELOW_INT), r.choice(ops)
    return ("%s %s %s" % (c, op, f)) if r.random() < 0.6 else ("%s %s %s" % (f, flip(op), c))


def rate_cmp_atom(r):
    """a rate equation (rate 0 / 1, nothing to object to) whose rate operand compares a clock with a floating-point value"""
    c = r.choice(CLOCKS)
    rate = r.choice(RATE_WITH_CMP) % cmp_atom(r, ["<", "<=", ">=", ">"])
    return ("%s' == %s" % (c, rate)) if r.random() < 0.6 else ("%s == %s'" % (rate, c))


def inv_cmp_atom(r):
    if r.random() < 0.25:
        return rate_cmp_atom(r)
    # invariants must be upper bounds to be accepted
    c, f, op = r.choice(CLOCKS), r.choice(FPS + FPS_BELOW_INT), r.choice(["<", "<="])
    return ("%s %s %s" % (c, op, f)) if r.random() < 0.6 else ("%s %s %s" % (f, flip(op), c))


def rate_atom(r):
    c = r.choice(["x", "y", "xs[0]", "xs[1]"])
    v = r.choice(["2", "3", "7", "2.5", "0.5", "3.0", "-1" if False else "5"])
    return ("%s' == %s" % (c, v)) if r.random() < 0.6 else ("%s == %s'" % (v, c))


def assign_atom(r):
    if r.random() < 0.35:
        return r.choice(ASSIGN_BELOW_INT)
    return r.choice(["x = 2.0", "d = 2.5", "d = d + 1.0", "x = d", "e = K * 2.0", "y = 0.5", "xs[1] = 1.5", "d = h * 1.0",
                     "x = h * 2.0", "e = h + d", "d = sqrt(2.0)", "x = K"])


def clock_array_init(r, name):
    """declaration of a clock array of two or three dimensions (written out, or through typedefs of the row / of the whole array) with one
    floating-point value somewhere in the initialiser: the clocks of an array are clocks however many dimensions lie above them"""
    dims = r.choice([[2, 2], [2, 2], [1, 2], [2, 3], [2, 2, 2], [2, 1, 2]])
    total = 1
    for n in dims:
        total *= n
    vals = [str(r.choice([0, 1, 2, 5])) for _ in range(total)]
    vals[r.randrange(total)] = r.choice(["1.5", "0.5", "K", "2.5", "fint(2.5)"])

    def nest(vs, ds):
        if len(ds) == 1:
            return "{" + ", ".join(vs) + "}"
        step = len(vs) // ds[0]
        return "{" + ", ".join(nest(vs[k * step:(k + 1) * step], ds[1:]) for k in range(ds[0])) + "}"
    init = nest(vals, dims)
    sub = lambda ds: "".join("[%d]" % n for n in ds)  # noqa: E731
    form = r.choice(["direct", "row", "whole", "scalar"])
    if form == "direct":
        return "clock %s%s = %s;" % (name, sub(dims), init)
    if form == "row":
        return "typedef clock %s_row_t%s; %s_row_t %s%s = %s;" % (name, sub(dims[-1:]), name, name, sub(dims[:-1]), init)
    if form == "whole":
        return "typedef clock %s_row_t%s; typedef %s_row_t %s_all_t%s; %s_all_t %s = %s;" % (
            name, sub(dims[-1:]), name, name, sub(dims[:-1]), name, name, init)
    return "typedef clock %s_ck_t; %s_ck_t %s%s = %s;" % (name, name, name, sub(dims), init)


def conj(r, atoms):
    """random parenthesisation of a conjunction"""
    if len(atoms) == 1:
        return atoms[0]
    k = r.randint(1, len(atoms) - 1)
    a, b = conj(r, atoms[:k]), conj(r, atoms[k:])
    if len(atoms[k:]) > 1 or r.random() < 0.3:
        b = "(" + b + ")"
    if r.random() < 0.2:
        a = "(" + a + ")"
    return a + " && " + b


def gen_template(r, name, want):
    """want: set of violation kinds to place in this template. returns (template dict, placed violations)"""
    placed = set()
    decl = []
    if r.random() < 0.3:
        decl.append(r.choice(["int li;", "clock lc;", "clock lc = 2;", "bool lb;", "broadcast chan lbc;", "double ld = 0.5;"]))
    if "init" in want:
        decl.append(r.choice(["clock lc2 = 2.5;", "clock lc2 = K;", "clock lca[2] = {1.5, 2.5};", "clock lc2 = d + 1.0;",
                              "clock lca[2] = {1, 0.5};"]) if r.random() < 0.6 else clock_array_init(r, "lcm"))
        placed.add("init")
    if "chan" in want:
        decl.append(r.choice(["chan lch;", "chan lcha[2];", "urgent chan luc;", "chan lchb[2][2];"]))
        placed.add("chan")
    r.shuffle(decl)
    nloc = r.randint(1, 3)
    locs = []
    inv_slots = []
    for li in range(nloc):
        n = r.choice([0, 0, 1, 2, 3])
        atoms = [r.choice(BENIGN_INV) for _ in range(n)]
        locs.append(["L%d" % li, atoms])
    if "cmpinv" in want:
        l = r.choice(locs)
        l[1].insert(r.randint(0, len(l[1])), inv_cmp_atom(r))
        placed.add("cmp")
    if "rate" in want:
        l = r.choice(locs)
        l[1].insert(r.randint(0, len(l[1])), rate_atom(r))
        placed.add("rate")
    nedge = r.randint(0 if not (want & {"cmp", "assign"}) else 1, 3)
    edges = []
    for _ in range(nedge):
        g = [r.choice(BENIGN_GUARD) for _ in range(r.choice([0, 1, 1, 2, 3]))]
        u = [r.choice(BENIGN_UPD) for _ in range(r.choice([0, 1, 2, 3]))]
        edges.append([r.choice(locs)[0], r.choice(locs)[0], g, u])
    if "cmp" in want:
        e = r.choice(edges)
        e[2].insert(r.randint(0, len(e[2])), cmp_atom(r))
        placed.add("cmp")
    if "assign" in want:
        e = r.choice(edges)
        e[3].insert(r.randint(0, len(e[3])), assign_atom(r))
        placed.add("assign")
    t = {"name": name, "decl": decl, "init": locs[0][0],
         "locs": [(l[0], conj(r, l[1]) if l[1] else "") for l in locs],
         "edges": [(e[0], e[1], conj(r, e[2]) if e[2] else "", ", ".join(e[3])) for e in edges]}
    r.shuffle(t["locs"])
    r.shuffle(t["edges"])
    return t, placed


SYM_FEATS = ["cmp", "cmpinv", "rate", "assign", "init"]


def gen_model(r):
    """returns (model dict, truth) ; truth = the restricting features present where the statement counts them"""
    truth = {"sym": set(), "chan": False, "prio": False, "dyn": False}
    gdecl = [GLOBALS]
    extra = []
    roll = r.random()
    if roll < 0.12:
        extra.append(r.choice(["clock gc = 2.5;", "clock gca[2] = {0.5, 1};", "clock gc = K;", "clock gcb[2] = {1.5, 2.5};"])
                     if r.random() < 0.6 else clock_array_init(r, "gcm"))
        truth["sym"].add("init")
    if r.random() < 0.25:
        extra.append(r.choice(["broadcast chan ga;", "broadcast chan gb[2];", "urgent broadcast chan gu;", "typedef chan ct_t;",
                               "clock gok = 2;", "int gi = 3;", "double gd = 1.5;", "hybrid clock gh;"]))
    if r.random() < 0.15:
        extra.append(r.choice(["chan gc1;", "chan gc2[2];", "urgent chan gc3;", "typedef chan cht_t; cht_t gc4;", "chan gc5[2][3];",
                               "typedef chan cha_t[2]; cha_t gc6;"]))
        truth["chan"] = True
    if r.random() < 0.08:
        extra.append("dynamic Dyn(int k);")
        truth["dyn"] = True
    chan_prio = r.random() < 0.06
    if chan_prio:
        # every form of a channel priority declaration counts: several levels, one level, one channel, an array element, `default`
        extra.append("broadcast chan pa, pb, pc[2]; " + r.choice(["chan priority pa < pb;", "chan priority pa;", "chan priority pa, pb;",
                                                                  "chan priority pc[1], pa;", "chan priority default < pa;", "chan priority pb < default;"]))
        truth["prio"] = True
    r.shuffle(extra)
    gdecl += extra
    nt = r.randint(1, 3)
    templates, inst = [], []
    for k in range(nt):
        want = set()
        if r.random() < 0.45:
            want.add(r.choice(SYM_FEATS))
            if r.random() < 0.2:
                want.add(r.choice(SYM_FEATS))
        if r.random() < 0.12:
            want.add("chan")
        t, placed = gen_template(r, "T%d" % k, want)
        is_inst = (k == 0) or r.random() < 0.6
        templates.append(t)
        inst.append(is_inst)
        if is_inst:
            truth["sym"] |= placed - {"chan"}
            if "chan" in placed:
                truth["chan"] = True
    names = []
    sysdecl = []
    for k, t in enumerate(templates):
        if not inst[k]:
            if r.random() < 0.3:
                sysdecl.append("U%d = %s();" % (k, t["name"]))  # declared instance that is not part of the system
            continue
        if r.random() < 0.4:
            # a template with a parameter is "instantiated" however it reaches the system line: as a process set with the parameter
            # left free, fully bound, through a partial instance that leaves a parameter free, or in two steps
            t["param"] = "const int[0,1] tp%d" % k
            form = r.choice(["set", "bound", "partial", "two-step"])
            if form == "set":
                names.append(t["name"])
            elif form == "bound":
                sysdecl.append("P%d = %s(1);" % (k, t["name"]))
                names.append("P%d" % k)
            elif form == "partial":
                sysdecl.append("Q%d(const int[0,1] qi%d) = %s(qi%d);" % (k, k, t["name"], k))
                names.append("Q%d" % k)
            else:
                sysdecl.append("Q%d(const int[0,1] qi%d) = %s(qi%d); R%d = Q%d(0);" % (k, k, t["name"], k, k, k))
                names.append("R%d" % k)
        elif r.random() < 0.5:
            sysdecl.append("P%d = %s();" % (k, t["name"]))
            names.append("P%d" % k)
        else:
            names.append(t["name"])
    r.shuffle(names)
    seps = [", "] * (len(names) - 1)
    if len(names) > 1 and r.random() < 0.08:
        # one `<` anywhere on the system line is a priority order, whatever the other separators and the names are
        seps = [r.choice([", ", " < "]) for _ in seps]
        if " < " not in seps:
            seps[r.randrange(len(seps))] = " < "
        truth["prio"] = True
    system = " ".join(sysdecl) + " system " + names[0] + "".join(sp + nm for sp, nm in zip(seps, names[1:])) + ";"
    order = list(range(nt))
    r.shuffle(order)
    m = {"gdecl": gdecl, "templates": [templates[k] for k in order], "system": system}
    return m, truth


def spec_of(truth):
    sym = not truth["sym"] and not truth["dyn"]
    sto = not truth["chan"] and not truth["prio"]
    con = not truth["prio"]
    return sym, sto, con


def permuted(r, m):
    """same model, declarations in another order (templates, independent global declarations, locations, edges, local declarations)"""
    g = m["gdecl"][:1] + r.sample(m["gdecl"][1:], len(m["gdecl"]) - 1)
    ts = []
    for t in r.sample(m["templates"], len(m["templates"])):
        t2 = dict(t)
        t2["locs"] = r.sample(t["locs"], len(t["locs"]))
        t2["edges"] = r.sample(t["edges"], len(t["edges"]))
        t2["decl"] = r.sample(t["decl"], len(t["decl"]))
        ts.append(t2)
    return {"gdecl": g, "templates": ts, "system": m["system"]}


def with_unused(r, m, k):
    """same model plus a never-instantiated template full of restricting features"""
    t, _ = gen_template(r, "Unused%d" % k, set(r.sample(SYM_FEATS + ["chan"], r.randint(1, 4))))
    ts = list(m["templates"])
    ts.insert(r.randint(0, len(ts)), t)
    return {"gdecl": m["gdecl"], "templates": ts, "system": m["system"]}


# ------------------------------------------------------------------------------------------------
# directed witnesses: one per placement (shape key) -- replayed on the real library
# ------------------------------------------------------------------------------------------------
def tmpl(inv="", guard="", upd="", decl=()):
    return {"name": "P", "decl": list(decl), "init": "L0", "locs": [("L0", inv), ("L1", "")], "edges": [("L0", "L1", guard, upd)]}


def one(t=None, gdecl=(), system="system P;"):
    return {"gdecl": [GLOBALS] + list(gdecl), "templates": [t or tmpl()], "system": system}


def witnesses():
    """key -> list of (model, which verdict must be false by the statement)"""
    W = {}
    opname = {"<": "LT", "<=": "LE", "==": "EQ", "!=": "NEQ", ">=": "GE", ">": "GT"}
    for op, kn in opname.items():
        W["cmp:guard/root/" + kn] = [(one(tmpl(guard="x %s 1.5" % op)), "sym"), (one(tmpl(guard="1.5 %s x" % op)), "sym")]
        W["cmp:guard/nested/" + kn] = [(one(tmpl(guard="x %s 1.5 && i == 0" % op)), "sym"),
                                       (one(tmpl(guard="i == 0 && d %s x" % op)), "sym")]
        W["cmp:invariant/nested/" + kn] = [(one(tmpl(inv="x %s 1.5" % op)), "sym"), (one(tmpl(inv="i == 0 && 1.5 %s x" % op)), "sym")]
        W["cmp:invariant/root/" + kn] = []   # an XML invariant label is always parsed as `1 && <label>`: no root position
    W["assign:plain"] = [(one(tmpl(upd="x = 2.0")), "sym"), (one(tmpl(upd="i = 1, d = 2.5, b = true")), "sym")]
    W["assign:plain"] += [(one(tmpl(upd="i = fint(d)")), "sym"), (one(tmpl(upd="j = 0, b = d < 0.5")), "sym")]
    W["cmp:guard/root/GE"].append((one(tmpl(guard="x >= i + fint(d)")), "sym"))
    W["cmp:invariant/nested/LE"] += [(one(tmpl(inv="x <= 2 * fint(d)")), "sym"), (one(tmpl(inv="x' == (2.5 >= y ? 0 : 1)")), "sym")]
    W["cmp:invariant/nested/GT"].append((one(tmpl(inv="(y > 2.5 ? 0 : 1) == x'")), "sym"))
    W["assign:hybrid-in-value"] = [(one(tmpl(upd="d = h * 1.0")), "sym"), (one(tmpl(upd="i = 1, x = h * 2.0")), "sym")]
    W["init:clock"] = [(one(gdecl=["clock c = 2.5;"]), "sym"), (one(tmpl(decl=["clock c = 2.5;"])), "sym")]
    W["init:clock-array"] = [(one(gdecl=["clock ca[2] = {1.5, 2.5};"]), "sym"), (one(tmpl(decl=["clock ca[2] = {1, 0.5};"])), "sym"),
                             (one(gdecl=["clock cm[2][2] = {{1, 1}, {1.5, 1}};"]), "sym"),
                             (one(tmpl(decl=["typedef clock row_t[2]; row_t cm[2] = {{1, 0.5}, {1, 1}};"])), "sym")]
    W["rate:int/conjunct"] = [(one(tmpl(inv="x' == 2")), "sym"), (one(tmpl(inv="x <= 5 && 3 == x'")), "sym")]
    W["rate:int/non-conjunct"] = [(one(tmpl(inv="forall (k : int[0,1]) xs[k]' == 2")), "sym")]
    W["rate:double/conjunct"] = [(one(tmpl(inv="x' == 2.5")), "sym"), (one(tmpl(inv="x <= 5 && 0.5 == x'")), "sym")]
    W["rate:double/non-conjunct"] = [(one(tmpl(inv="forall (k : int[0,1]) xs[k]' == 2.5")), "sym")]
    W["chan:global/scalar"] = [(one(gdecl=["chan c;"]), "sto"), (one(gdecl=["urgent chan c;"]), "sto")]
    W["chan:global/array"] = [(one(gdecl=["chan c[2];"]), "sto"), (one(gdecl=["chan c[2][2];"]), "sto")]
    W["chan:local/scalar"] = [(one(tmpl(decl=["chan c;"])), "sto")]
    W["chan:local/array"] = [(one(tmpl(decl=["chan c[2];"])), "sto")]
    return W


def directed_models(r, thorough):
    """models with a known Spec that are judged like the random ones (-> [(model, truth)]): the statement quantifies over placements
    ("any conjunct position", "the order of declarations does not affect the verdict"), so the placements are enumerated, not sampled.
      * a restricting invariant conjunct at every position among benign conjuncts of every form (bounds, rates 0 / 1, hybrid rates,
        quantified bounds and quantified rate conditions): each conjunct is judged on its own, whatever stands before or after it
      * system lines: every order of the process names x every choice of `,` and `<` between them (names in and against alphabetical
        order, the process of the other priority level first, in the middle, last)"""
    import itertools

    def truth(sym=(), prio=False):
        return {"sym": set(sym), "chan": False, "prio": prio, "dyn": False}
    out = []
    restricting = [("x' == 2", "rate"), ("3 == y'", "rate"), ("xs[1]' == 2.5", "rate"), ("x <= 1.5", "cmp"), ("y < K", "cmp")]
    benign = ["x <= 5", "y' == 0", "h' == 3", "i == 0", "(forall (k : int[0,1]) xs[k]' == 0)", "(forall (k : int[0,1]) xs[k]' == 1)",
              "(forall (k : int[0,1]) xs[k] <= 7)"]
    for atom, feat in restricting:
        for nb in benign:
            for atoms in ([atom, nb], [nb, atom], [nb, atom, "y < 7"], ["y < 7", nb, atom], [nb, "y < 7", atom]):
                out.append((one(tmpl(inv=conj(r, atoms) if thorough else " && ".join(atoms))), truth([feat])))
    # * a floating-point value below an integer- or boolean-typed operator, in every role the statement names: the value of an update at
    #   every position of the update list, the operand of a clock comparison in a guard / an invariant, either way round
    for k, upd in enumerate(ASSIGN_BELOW_INT):
        for ups in ([upd], ["j = 0", upd], [upd, "x = 0"], ["i++", upd, "b = true"]) if thorough else ([upd], [["j = 0", upd], [upd, "x = 0"]][k % 2]):
            out.append((one(tmpl(upd=", ".join(ups))), truth(["assign"])))
    for k, f in enumerate(FPS_BELOW_INT):
        for c in CLOCKS if thorough else [CLOCKS[k % len(CLOCKS)], "x"]:
            for op in ("<", "<=", ">=", ">", "=="):
                if not thorough and op in ("<", ">"):
                    continue
                for g in ("%s %s %s" % (c, op, f), "i == 0 && %s %s %s" % (f, flip(op), c)):
                    out.append((one(tmpl(guard=g)), truth(["cmp"])))
            for op in ("<", "<="):
                for g in ("%s %s %s" % (c, op, f), "%s %s %s && y < 7" % (f, flip(op), c)):
                    out.append((one(tmpl(inv=g)), truth(["cmp"])))
    # * a clock comparison with a floating-point value inside the rate operand of a rate equation, either way round, alone and among
    #   other conjuncts: the equation itself sets a rate of 0 or 1 (or a hybrid clock's), the comparison below it still is one
    for k, shape in enumerate(RATE_WITH_CMP):
        for j, cmp_ in enumerate(["y > 2.5", "d <= y", "xs[1] < K", "y >= 2 * 1.5", "h > 1.5"] if thorough else ["y > 2.5", "d <= y", "xs[1] < K"]):
            rate = shape % cmp_
            for c in ("x", "xs[0]", "h") if thorough else (["x", "xs[0]", "h"][(k + j) % 3],):
                for atoms in (["%s' == %s" % (c, rate)], ["%s == %s'" % (rate, c)], ["y <= 7", "%s == %s'" % (rate, c)],
                              ["%s' == %s" % (c, rate), "i == 0"]):
                    out.append((one(tmpl(inv=" && ".join(atoms))), truth(["cmp"])))
    # * clock arrays of two and three dimensions (written out or through typedefs) with one floating-point value in the initialiser,
    #   declared globally or in the instantiated template; and the same declarations with integers only, which restrict nothing
    for k in range(60 if thorough else 16):
        d = clock_array_init(r, "cm")
        out.append((one(gdecl=[d]) if k % 2 else one(tmpl(decl=[d])), truth(["init"])))
    for d in ("clock cm[2][2] = {{1, 2}, {0, 1}};", "typedef clock cm_row_t[2]; cm_row_t cm[2] = {{1, 1}, {5, 1}};"):
        out += [(one(gdecl=[d]), truth()), (one(tmpl(decl=[d])), truth())]
    for np_ in (2, 3, 4):
        pool = r.sample(["A", "Ctl", "Gate", "M", "Train", "Z", "a", "m0", "z9", "_p"], np_)
        decl = " ".join("%s = P();" % nm for nm in sorted(pool, key=lambda _: r.random()))
        lines = [(perm, seps) for perm in itertools.permutations(pool) for seps in itertools.product([", ", " < "], repeat=np_ - 1)]
        if np_ == 4 and not thorough:
            lines = r.sample(lines, 40)
        for perm, seps in lines:
            system = "%s system %s%s;" % (decl, perm[0], "".join(sp + nm for sp, nm in zip(seps, perm[1:])))
            out.append((one(system=system), truth(prio=" < " in seps)))
    return out


# ------------------------------------------------------------------------------------------------
def run_models(ctx, exe, models):
    """-> list of dict(sym,sto,con,nerr,exc,abs) from the real library"""
    text = "".join("M " + xml_of(m).encode().hex() + "\n" for m in models)
    rc, out, err, dt = core.run_exe(exe, [], stdin_text=text, timeout=900)
    res = []
    for l in out.split("\n"):
        if l.startswith("R "):
            p = l.split(" ", 6)
            res.append({"sym": p[1] == "1", "sto": p[2] == "1", "con": p[3] == "1", "nerr": int(p[4]), "exc": p[5], "abs": p[6]})
    return rc, res, err


def run_lean(lines):
    rc, out, err, dt = core.run_exe(core.lean_exe("drv_c17"), [], stdin_text="\n".join(lines) + "\n", timeout=900)
    return rc, out.split("\n"), err


def parse_lean(l):
    # V s t c T th S s t c K keys U keys
    p = l.split(" ")
    if len(p) < 13 or p[0] != "V":
        return None
    return {"sym": p[1] == "1", "sto": p[2] == "1", "con": p[3] == "1", "throws": p[5] == "1",
            "spec": (p[7] == "1", p[8] == "1", p[9] == "1"),
            "keys": [k for k in p[11].split(",") if k], "und": [k for k in p[13].split(",") if k] if len(p) > 13 else []}


def run(ctx):
    cov = ctx.coverage
    r = ctx.rng
    b = core.build_repo("asan")
    exe = core.build_harness(b, "c17", ["c17.cpp"])
    # 1 translate -------------------------------------------------------------------------------
    tie_ok, tie_err = True, ""
    try:
        g, f, fl = feature.read(core.REPO)
        core.write_if_changed(GEN, feature.lean_text(g, f, fl, [n for n, _ in kinds_tr.kinds(core.REPO)]))
        cov["translated"] = {"guardKinds": g, "fpKinds": len(f), "flags": fl}
    except feature.TranslateError as ex:
        tie_ok, tie_err = False, str(ex)
        ctx.log("translator failed:", tie_err[:300])
        g, f, fl = feature.fallback(core.REPO)   # defined baseline: the configuration of the pinned commit
        known = [n for n, _ in kinds_tr.kinds(core.REPO)]
        core.write_if_changed(GEN, feature.lean_text(g, [k for k in f if k in known], fl, known))
        cov["translated"] = {"fallback": "pinned-commit configuration", "error": tie_err[:500]}
    # 2 prove -----------------------------------------------------------------------------------
    ok, log = ctx.prove(MODULE, ["drv_c17"])
    broken = []
    if not ok:
        broken = core.failing_theorems(log)
        ctx.log("proof broken:", broken or log[-1500:])
    have_drv = os.path.exists(core.lean_exe("drv_c17")) and (ok or core.lake_build(["drv_c17"])[0])
    # 3+4 generated models ------------------------------------------------------------------------
    nrand = 700 if not ctx.thorough else 12000
    base = [gen_model(r) for _ in range(nrand)]
    base += directed_models(r, ctx.thorough)
    n = len(base)
    models = [m for m, _ in base]
    truths = [t for _, t in base]
    nperm = n // 3
    perm_of = r.sample(range(n), nperm)
    unused_of = r.sample(range(n), nperm)
    variants = [permuted(r, models[k]) for k in perm_of] + [with_unused(r, models[k], j) for j, k in enumerate(unused_of)]
    var_src = perm_of + unused_of
    var_kind = ["order"] * nperm + ["uninstantiated"] * nperm
    W = witnesses()
    wit_list = [(key, m, which) for key, ws in sorted(W.items()) for m, which in ws]
    allm = models + variants + [m for _, m, _ in wit_list]
    rc, res, err = run_models(ctx, exe, allm)
    if rc != 0 or len(res) != len(allm):
        bad = allm[len(res)] if len(res) < len(allm) else None
        ctx.finding("impl:crash", "harness died rc=%s after %d of %d models" % (rc, len(res), len(allm)),
                    {"stderr": err[-3000:], "model_xml": xml_of(bad) if bad else None})
        return
    lean = [None] * len(allm)
    exc_keys, all_keys = [], []
    if have_drv:
        rc2, lout, lerr = run_lean(["EXC", "ALL"] + ["D " + x["abs"] for x in res])
        exc_keys = [k for k in lout[0][4:].split(",") if k] if lout and lout[0].startswith("EXC") else []
        all_keys = [k for k in lout[1][4:].split(",") if k] if len(lout) > 1 and lout[1].startswith("ALL") else []
        lean = [parse_lean(l) for l in lout[2:2 + len(allm)]]
        lean += [None] * (len(allm) - len(lean))
    cov["exception_set"] = exc_keys
    # --- classify the random models
    accepted = dis_verdict = dis_spec = 0
    viol = []          # (index, which) the real library reports `which` although the statement forbids it
    feat_hist, shape_hist = {}, {}
    for k in range(n):
        x, t = res[k], truths[k]
        if x["nerr"] > 0:
            continue
        accepted += 1
        spec = spec_of(t)
        for ft in sorted(t["sym"]) + [z for z in ("chan", "prio", "dyn") if t[z]]:
            feat_hist[ft] = feat_hist.get(ft, 0) + 1
        lv = lean[k]
        if lv is not None:
            for kk in lv["keys"]:
                shape_hist[kk] = shape_hist.get(kk, 0) + 1
            if (lv["sym"], lv["sto"], lv["con"]) != (x["sym"], x["sto"], x["con"]) or lv["throws"] != (x["exc"] != "none"):
                dis_verdict += 1
                if dis_verdict <= 3:
                    ctx.log("verdict disagreement model vs library:", xml_of(models[k])[:600], lv, x["sym"], x["sto"], x["con"], x["exc"])
                    cov.setdefault("disagreement_samples", []).append({"xml": xml_of(models[k]), "lean": lv, "impl": [x["sym"], x["sto"], x["con"], x["exc"]]})
            if lv["spec"] != spec:
                dis_spec += 1
                if dis_spec <= 3:
                    ctx.log("spec disagreement Lean(dump) vs generator:", xml_of(models[k])[:900], lv["spec"], spec)
                    cov.setdefault("spec_disagreement_samples", []).append({"xml": xml_of(models[k]), "lean_spec": lv["spec"], "generator_spec": spec})
        for name, rep, sp in (("symbolic", x["sym"], spec[0]), ("stochastic", x["sto"], spec[1]), ("concrete", x["con"], spec[2])):
            if rep and not sp:
                viol.append((k, name))
    # --- witnesses: which placements of the computed exception set are real on the library
    confirmed, unwitnessed, detected_ok = {}, [], []
    off = n + len(variants)
    for j, (key, m, which) in enumerate(wit_list):
        x = res[off + j]
        lv = lean[off + j]
        if x["nerr"] > 0:
            continue
        rep = {"sym": x["sym"], "sto": x["sto"]}[which]
        if lv is not None and key not in lv["keys"]:
            ctx.notes.append("witness for %s does not contain that placement according to the model: %s" % (key, lv["keys"]))
            continue
        if rep:
            confirmed.setdefault(key, []).append((m, x))
        else:
            detected_ok.append(key)
    for key in exc_keys:
        if key in confirmed:
            m, x = confirmed[key][0]
            what = "reported %s although the model %s" % (
                "stochastic" if key.startswith("chan") else "symbolic", describe(key))
            if x["exc"] != "none":
                what += " (FeatureChecker throws %s; the document keeps its default verdict)" % x["exc"]
            ctx.finding(key, what, {"entry": "parse_XML_buffer + Document::get_supported_methods", "xml": xml_of(m),
                                    "observed": {"symbolic": x["sym"], "stochastic": x["sto"], "concrete": x["con"], "exception": x["exc"]},
                                    "required": "not supported (property C17)"})
        else:
            unwitnessed.append(key)
    for key in confirmed:
        if key not in exc_keys and have_drv and ok and tie_ok:
            # the theorem says this placement is inspected, the library says otherwise: model and library differ
            m, x = confirmed[key][0]
            ctx.finding(key, "placement %s is outside the computed exception set but the real library reports support" % key,
                        {"xml": xml_of(m), "observed": x})
    # --- random violations must be explained by placements of the exception set
    unexplained = 0
    for k, name in viol:
        lv = lean[k]
        # a placement explains the verdict it restricts: channels stochastic analysis, everything else symbolic analysis
        und = [key for key in (lv["und"] if lv else []) if key.startswith("chan") == (name == "stochastic") and name != "concrete"]
        x = res[k]
        if und:
            for key in und:
                if key not in confirmed:
                    ctx.finding(key, "reported %s although the model %s" % (name, describe(key)),
                                {"xml": xml_of(models[k]), "observed": {"symbolic": x["sym"], "stochastic": x["sto"], "concrete": x["con"]}})
        else:
            unexplained += 1
            ctx.finding("unexplained:" + name, "reported %s although the statement forbids it, and no uninspected placement explains it" % name,
                        {"xml": xml_of(models[k]), "truth": {kk: sorted(v) if isinstance(v, set) else v for kk, v in truths[k].items()},
                         "observed": {"symbolic": x["sym"], "stochastic": x["sto"], "concrete": x["con"], "exception": x["exc"]}})
    # --- metamorphic: order of declarations, never-instantiated templates
    meta_cases = meta_fail = 0
    for j, k in enumerate(var_src):
        a, bb = res[k], res[n + j]
        if a["nerr"] > 0 or bb["nerr"] > 0:
            continue
        if a["exc"] != "none" or bb["exc"] != "none":
            continue   # the throwing placement is reported separately (rate:double/conjunct)
        meta_cases += 1
        if (a["sym"], a["sto"], a["con"]) != (bb["sym"], bb["sto"], bb["con"]):
            meta_fail += 1
            ctx.finding(var_kind[j] + ":verdict-changes", "the verdict changes with %s" % (
                "the order of declarations" if var_kind[j] == "order" else "a template that is never instantiated"),
                {"xml_a": xml_of(models[k]), "xml_b": xml_of(variants[j]),
                 "verdict_a": [a["sym"], a["sto"], a["con"]], "verdict_b": [bb["sym"], bb["sto"], bb["con"]]})
    # --- broken proof / tie without a failing input
    searched = "oracle on %d accepted generated models + %d metamorphic pairs + %d directed witnesses" % (accepted, meta_cases, len(wit_list))
    new_input = bool(ctx.violations)
    if not tie_ok and not new_input:
        ctx.proof_broken("translate/feature.py", tie_err, searched)
    if not ok and not new_input:
        for path, thm, msg in (broken or [("?", "lake build", log[-300:])]):
            ctx.proof_broken(thm, msg + "\n" + log[-2000:], searched)
    if have_drv and tie_ok and (dis_verdict or dis_spec) and not new_input:
        if dis_verdict:
            ctx.proof_broken("correspondence:featurechecker", "model and library disagree on %d of %d accepted models; first: %s" % (
                dis_verdict, accepted, json.dumps(cov.get("disagreement_samples", [])[:1])[:1500]), searched)
        if dis_spec:
            ctx.proof_broken("correspondence:spec", "Spec on the extracted document and Spec by construction disagree on %d models; first: %s" % (
                dis_spec, json.dumps(cov.get("spec_disagreement_samples", [])[:1])[:1500]), searched)
    cov.update({
        "evaluations": len(allm), "generated_models": n, "random_models": nrand, "directed_placement_models": n - nrand, "accepted_models": accepted,
        "correspondence_cases": accepted if have_drv else 0, "correspondence_disagreements": dis_verdict,
        "spec_cross_check_disagreements": dis_spec,
        "oracle_violations_in_random_models": len(viol), "oracle_violations_unexplained": unexplained,
        "metamorphic_pairs": meta_cases, "metamorphic_failures": meta_fail,
        "directed_witnesses": len(wit_list), "placements_confirmed_on_library": sorted(confirmed),
        "placements_in_exception_set_without_accepted_witness": unwitnessed,
        "placements_inspected": sorted(set(detected_ok)),
        "distinct_nontrivial": len({xml_of(m) for k, m in enumerate(models) if res[k]["nerr"] == 0 and (truths[k]["sym"] or truths[k]["chan"] or truths[k]["prio"] or truths[k]["dyn"])}),
        "distribution": {"features_by_construction": feat_hist, "placements_seen_by_model": shape_hist,
                         "verdicts": {"symbolic": sum(1 for x in res[:n] if x["sym"]), "stochastic": sum(1 for x in res[:n] if x["sto"]),
                                      "concrete": sum(1 for x in res[:n] if x["con"])}},
        "rule": "reported.symbolic -> SpecSymbolic, reported.stochastic -> SpecStochastic, reported.concrete -> SpecConcrete; "
                "verdict invariant under declaration order and never-instantiated templates",
        "samples": [{"xml": xml_of(models[k]), "impl": [res[k]["sym"], res[k]["sto"], res[k]["con"]], "model": lean[k]} for k in (0, n // 2, n - 1)],
    })
    ctx.assumptions += [
        "the abstract document (kinds, is(DOUBLE)/is(HYBRID)/is_clock() flags, frames) is extracted from the real Document by harness/c17.cpp; "
        "the Lean Spec is cross-checked against the Spec the generator knows by construction",
        "'a floating-point value' is read as an operand that is one or is computed from one (some sub-expression of it has floating-point "
        "type): i = fint(d), x >= i + fint(d), x' == (y > 2.5 ? 0 : 1) count; the generator's Spec and the Lean Spec (hasFp) agree on it",
        "functions called from updates are not inspected for floating-point assignments (neither by the checker nor by the Spec)",
        "a rate is 'other than 0 or 1' only when it is a literal; rates given by expressions (x' == 1+1, x' == -1, x' == v) are not judged",
        "models are XML (parse_XML_buffer); an invariant label is always parsed as `1 && label`, so the root placement of an invariant is not reachable",
    ]


def describe(key):
    d = {"cmp": "compares a clock with a floating-point value (%s)", "assign": "assigns a non-hybrid clock or variable from a floating-point value (%s)",
         "init": "initialises a clock with a floating-point value (%s)", "rate": "sets a non-hybrid clock rate other than 0 or 1 (%s)",
         "chan": "declares a channel that is not broadcast (%s)"}
    fam, _, rest = key.partition(":")
    return d.get(fam, "%s") % rest


def replay(ctx, path):
    rj = json.load(open(path))
    print(json.dumps({k: v for k, v in rj.items() if k != "replay"}, indent=1))
    rp = rj.get("replay", {})
    xmls = [rp[k] for k in ("xml", "xml_a", "xml_b") if k in rp]
    if not xmls:
        print(json.dumps(rp, indent=1)[:3000])
        return 1
    b = core.build_repo("asan")
    exe = core.build_harness(b, "c17", ["c17.cpp"])
    text = "".join("M " + x.encode().hex() + "\n" for x in xmls)
    rc, out, err, _ = core.run_exe(exe, ["-v"], stdin_text=text)
    for x in xmls:
        print(x)
    print(out[-6000:])
    print(err[-2000:])
    return 1
