"""C04 -- the document built from an XML model mirrors the XML's structure exactly (DESIGN.md section 4, C04).

 1 prove       UtapModel.Props.C04: for every well-formed abstract model M (unbounded sizes)
               doc (build (readXml (renderXml M))) = docOf M  (+ counts, positional arguments, exception-shape witness)
 2 correspond  seeded generator of abstract models -> XML *text* (whitespace, attribute order, comments, CDATA, character
               references, unknown elements, nails ... varied) -> real parse_XML_buffer with a logging DocumentBuilder
               (callback trace) and through the public entry point (canonical dump);  the Lean driver drv_c04 prints the
               predicted trace and dump for the same abstract model;  both are diffed (tie C).
 3 oracle      the dump of the real document against the specification docOf M is exactly the property:
               a difference is a VIOLATION with the XML text as replay (shrunk by deleting templates/edges/labels/...).
 4 witnesses   exception shapes (rate label before invariant label; comment before a closing tag) replayed on the
               real reader and reported through known_findings.d/C04.json.
"""
import base64
import json
import os
import random
import time

from vlib import core
from checks import c04_model as m
from checks import c04_rate
from translate import ratedecomp

MODULE = "UtapModel.Props.C04"
RMODULE = "UtapModel.Props.C04Rate"
HDR = ("WF", "SPEC-EQ", "ERRS", "FRAGS")

RATE_FIRST_XML = """<nta><declaration>clock x;</declaration>
<template><name>T</name><declaration></declaration>
<location id="id0"><name>L0</name><label kind="exponentialrate">7</label><label kind="invariant">x &lt;= 5</label></location>
<init ref="id0"/></template>
<system>system T;</system></nta>"""

INV_FIRST_XML = RATE_FIRST_XML.replace('<label kind="exponentialrate">7</label><label kind="invariant">x &lt;= 5</label>',
                                       '<label kind="invariant">x &lt;= 5</label><label kind="exponentialrate">7</label>')

COMMENT_XML = """<nta><declaration>clock x;</declaration>
<template><name>T</name><location id="id0"><name>L0</name></location><init ref="id0"/></template>
<system>system T;</system>
<!-- a comment between the system element and the end of the document -->
</nta>"""


def lean_split(lines):
    hdr = [l for l in lines if l.split(" ")[0] in HDR]
    tr = [l[6:] for l in lines if l.startswith("TRACE ")]
    doc = [l for l in lines if not l.startswith("TRACE ") and l.split(" ")[0] not in HDR]
    return hdr, tr, doc


class Runner:
    def __init__(self, ctx, variant="asan"):
        self.ctx = ctx
        self.b = core.build_repo(variant)
        self.exe = core.build_harness(self.b, "c04", ["c04.cpp"])
        self.drv = core.lean_exe("drv_c04")
        blocks, crashed = m.run_batches(self.exe, [], [("ref", m.frame("xml", "ref", m.REF_XML))], nproc=1)
        self.norm = m.Normalizer(blocks["ref"])

    def compare(self, cases):
        """cases: {cid: (M, xml_text)} -> {cid: result dict} for the cases that disagree"""
        frames, lean, keys = [], [], {}
        for cid, (M, xml) in cases.items():
            frames.append((cid, m.frame("xml", cid, xml)))
            keys[cid] = m.Keys()
            lean += ["model " + cid] + m.lean_lines(M, keys[cid])
        blocks, crashed = m.run_batches(self.exe, [], frames)
        rc, lblocks, lerr = m.run_lean(self.drv, lean)
        bad = {}
        self.last_rest = {}
        for cid, (M, xml) in cases.items():
            real = blocks.get(cid, ["<<NO-OUTPUT>>"])
            tr, doc, rest = self.norm.normalize(real, keys[cid])
            self.last_rest[cid] = rest
            tr = [l[6:] for l in tr]
            hdr, ltr, ldoc = lean_split(lblocks.get(cid, []))
            res = {}
            if cid in crashed:
                res["crash"] = crashed[cid]
            if any(l.startswith(("EXCEPTION", "TRACE-EXCEPTION", "TRACED-DOCUMENT-DIFFERS", "<<")) for l in rest):
                res["anomaly"] = [l for l in rest if l.startswith(("EXCEPTION", "TRACE-EXCEPTION", "TRACED-DOCUMENT-DIFFERS", "<<"))][:3]
            d_doc = m.first_diff(doc, ldoc)
            d_tr = m.first_diff(tr, ltr)
            if d_doc:
                res["doc"] = {"line": d_doc[0], "library": d_doc[1], "specification": d_doc[2]}
            if d_tr:
                res["trace"] = {"line": d_tr[0], "library": d_tr[1], "model": d_tr[2]}
            if hdr[:2] != ["WF 1", "SPEC-EQ 1"]:
                res["lean"] = hdr
            if res:
                res["real_doc"] = doc
                res["spec_doc"] = ldoc
                bad[cid] = res
        return bad


ATTRS = ("params", "isTA", "init", "nr", "urgent", "committed", "inv", "exprate", "costrate", "control", "select", "guard", "sync",
         "assign", "prob", "templ", "unbound", "arguments", "mapping")


def diff_field(a, b):
    """which attribute of a dump line differs (attributes are `name=value`, a value may contain blanks)"""
    x, y = a.split(" "), b.split(" ")
    cur = "name"
    for i in range(max(len(x), len(y))):
        p = x[i] if i < len(x) else None
        q = y[i] if i < len(y) else None
        for t in (p, q):
            if t and "=" in t and t.split("=")[0] in ATTRS:
                cur = t.split("=")[0]
                break
        if p in ("->",):
            cur = "target"
        if p != q:
            if cur == "name" and len(x) > 2 and x[0] == "" and x[2] == "edge":
                cur = "source"
            return cur
    return "structure"


def classify(res):
    """shape key of a disagreement (never a seed or a counter)"""
    if "crash" in res:
        return "crash:parse_XML_buffer"
    if "anomaly" in res:
        return "exception:parse_XML_buffer"
    if "doc" in res:
        lib, spec = res["doc"]["library"], res["doc"]["specification"]
        kind = lambda l: (l.strip().split(" ") or ["line"])[0] or "line"
        if kind(lib) != kind(spec) or lib == "<missing>" or spec == "<missing>":
            return "doc:%s/structure" % (kind(spec) if lib == "<missing>" else kind(lib))
        what = kind(lib)
        field = diff_field(lib, spec)
        if what == "edge" and field in ("nr", "name"):
            a, b = lib.split(" "), spec.split(" ")
            field = "source" if (len(a) > 3 and len(b) > 3 and a[3] == b[3]) else "structure"
        return "doc:%s/%s" % (what, field)
    if "trace" in res:
        return "trace:" + (res["trace"]["library"].split(" ")[0] if res["trace"]["library"] else "missing")
    return "model:wf-or-spec"


def run(ctx):
    cov = ctx.coverage
    t0 = time.time()
    m.regen_tables(ctx)      # on failure (reported as a broken tie) go on with the tables of the last good run: the oracle below finds the input
    rate_tie = None
    try:
        rtext, rcfg = ratedecomp.translate(core.REPO)
        core.write_if_changed(os.path.join(core.VERIF, "lean", "UtapModel", "Gen", "RateDecompCfg.lean"), rtext)
        cov["invariant_decomposition_translated"] = rcfg
    except ratedecomp.TranslateError as ex:
        rate_tie = str(ex)      # the Gen file of the last good run stays; the stage below compares the library with it
        ctx.log("translate/ratedecomp.py failed:", rate_tie)
    ok, log = ctx.prove([MODULE, RMODULE], ["drv_c04"])
    broken = []
    if not ok:
        broken = core.failing_theorems(log)
        ctx.log("proof broken:", broken or log[-1500:])
        if not os.path.exists(core.lean_exe("drv_c04")):
            for path, thm, msg in (broken or [("?", "lake build", log[-300:])]):
                ctx.proof_broken(thm, msg + "\n" + log[-2000:], "nothing could be run")
            return
    cov["prove_s"] = round(time.time() - t0, 1)
    R = Runner(ctx)
    # -- corpus of earlier minimised disagreements ------------------------------------------------------------
    n = 2500 if not ctx.thorough else 40000
    cases, stats = {}, {"templates": 0, "locations": 0, "branchpoints": 0, "edges": 0, "insts": 0, "procs": 0}
    shapes = set()
    for i in range(n):
        r = random.Random(ctx.rng.getrandbits(48))
        g = m.Gen(r, size=(1.0 if i % 7 else 2.5) if not ctx.thorough else (1.0 if i % 4 else 3.0))
        M = g.model()
        xml = m.XmlText(random.Random(r.getrandbits(48)) if i % 5 else None).render(M)
        cases["c%d" % i] = (M, xml)
        for k, v in m.model_stats(M).items():
            stats[k] += v
        shapes.add(json.dumps([[len(t["locs"]), len(t["bps"]), len(t["edges"]), len(t["params"])] for t in M["templates"]] +
                              [len(M["insts"]), len(M["procs"])]))
    t1 = time.time()
    bad = {}
    ids = list(cases)
    step = 4000
    rest_all = {}
    for k in range(0, len(ids), step):
        part = {c: cases[c] for c in ids[k:k + step]}
        bad.update(R.compare(part))
        rest_all.update(R.last_rest)
    cov["correspondence_s"] = round(time.time() - t1, 1)
    accepted = sum(1 for c in rest_all.values() if any(l.startswith("VERDICT errors=0") for l in c))
    cov.update({"correspondence_cases": len(cases), "correspondence_disagreements": len(bad), "evaluations": len(cases),
                "distinct_nontrivial": len(shapes), "accepted_by_typechecker": accepted,
                "distribution": stats,
                "rule": "canonical dump of the Document built by the real parse_XML_buffer == docLines (docOf M) printed by drv_c04, "
                        "and logged ParserBuilder callback trace (with the expression stack at consuming calls) == traceLines (readXml (renderXml M))",
                "text_layer_variations": "whitespace, attribute order + GUI attributes, quotes, comments between elements, CDATA, "
                                         "character references, unknown elements, nails, empty <name/>, empty labels, comment labels, "
                                         "instantiations in <instantiation> or <system>, <queries>"})
    sample_ids = ids[:1] + ids[len(ids) // 2: len(ids) // 2 + 1]
    cov["samples"] = [{"model": m.model_stats(cases[c][0]), "xml_bytes": len(cases[c][1])} for c in sample_ids]
    # -- disagreements: shrink, classify, report ---------------------------------------------------------------
    reported = 0
    for cid, res in list(bad.items())[:6]:
        M, xml = cases[cid]
        key = classify(res)

        def still(N, key=key):
            b = R.compare({"s": (N, m.XmlText(None).render(N))})
            return "s" in b and classify(b["s"]) == key
        try:
            if still(M):
                M2 = m.shrink(M, still, budget=80 if not ctx.thorough else 300)
                xml2 = m.XmlText(None).render(M2)
                res2 = R.compare({"s": (M2, xml2)}).get("s", res)
                M, xml, res = M2, xml2, res2
        except Exception as ex:  # shrinking is best effort
            ctx.log("shrink failed:", ex)
        replay = {"entry": "parse_XML_buffer(buf, Document*, newxta=true)", "xml_b64": base64.b64encode(xml.encode()).decode(),
                  "xml": xml, "model": M, "observed_vs_required": {k: v for k, v in res.items() if k in ("doc", "trace", "anomaly", "crash", "lean")},
                  "library_dump": res.get("real_doc"), "required_dump": res.get("spec_doc")}
        if "doc" in res or "crash" in res or "anomaly" in res:
            ctx.finding(key, "document built from the XML differs from the model it renders: %s" % json.dumps(res.get("doc") or res.get("anomaly") or "crash"), replay)
        else:
            ctx.proof_broken("correspondence:" + key, json.dumps({k: v for k, v in res.items() if k in ("trace", "lean")}),
                             "the built document still equals the specification on all %d models" % len(cases))
        reported += 1
    # -- the invariant as the type checker stores it (Props/C04Rate.lean) ------------------------------------------------------------
    rst, rout = c04_rate.run(ctx, R.exe, core.lean_exe("drv_c04"))
    cov["invariant_decomposition"] = rst
    rate_found = False
    seen_keys = set()
    for kind, key, what, rep in rout:
        if kind == "finding" and key not in seen_keys:
            seen_keys.add(key)
            ctx.finding(key, what, rep)
            rate_found = True
    mach = [x for x in rout if x[0] == "machinery"]
    if mach:
        ctx.proof_broken("correspondence:invariant-decomposition/generator", mach[0][2], "a generated invariant was rejected by the library")
    mdl = [x for x in rout if x[0] == "model"]
    if mdl and not rate_found:
        # the library and the model of the decomposer differ while the property holds on every generated invariant
        ctx.proof_broken("correspondence:invariant-decomposition", mdl[0][2], "the stored invariants still mirror the source on all %d generated invariants" % rst["compared"])
    if rate_tie and not rate_found and not mdl:
        ctx.proof_broken("translate/ratedecomp.py", rate_tie, "the stored invariants still mirror the source on all %d generated invariants" % rst["compared"])
    # -- decoys: elements the abstract model does not describe must leave everything it does describe untouched -----------------
    # a dynamic template WITH parameters (declared by `dynamic D(..);`, defined before the first ordinary template): its parameters
    # belong to it alone
    dec_ids = ids[::max(1, len(ids) // (200 if not ctx.thorough else 2000))]
    frames = []
    for c in dec_ids:
        xml = cases[c][1]
        if "</declaration>" not in xml or "<template" not in xml:
            continue
        de = xml.index("</declaration>")
        x2 = xml[:de] + "\ndynamic DynW(const int dw1, const bool dw2);" + xml[de:]
        ft = x2.index("<template")
        x2 = (x2[:ft] + '<template><name>DynW</name><parameter>const int dw1, const bool dw2</parameter><location id="dynw0"><name>DW0</name>'
              '</location><init ref="dynw0"/></template>\n' + x2[ft:])
        frames += [(c + "/plain", m.frame("xml", c + "/plain", xml)), (c + "/decoy", m.frame("xml", c + "/decoy", x2))]
    dblocks, dcrashed = m.run_batches(R.exe, [], frames)
    ndec = 0
    for c in dec_ids:
        a, b_ = dblocks.get(c + "/plain"), dblocks.get(c + "/decoy")
        if a is None or b_ is None:
            continue
        ndec += 1
        da = [l for l in a if not l.startswith(("TRACE", "VERDICT", "BEGIN", "END"))]
        db = [l for l in b_ if not l.startswith(("TRACE", "VERDICT", "BEGIN", "END"))]
        if da != db:
            diff = [(x, y) for x, y in zip(da, db) if x != y][:2] or [("(%d lines)" % len(da), "(%d lines)" % len(db))]
            ctx.finding("doc:decoy/dynamic-template-parameters", "a dynamic template with parameters in front of the other templates changes them: %r" % (diff,),
                        {"entry": "parse_XML_buffer(buf, Document*, newxta=true)", "xml": [f for k, f in frames if k == c + "/decoy"][0][-6000:],
                         "plain_dump": da[:60], "decoy_dump": db[:60]})
            break
    cov["decoy_pairs"] = ndec
    # -- exception shapes / witnesses ------------------------------------------------------------------------
    probes = {"rate_first": RATE_FIRST_XML, "inv_first": INV_FIRST_XML, "comment": COMMENT_XML}
    blocks, crashed = m.run_batches(R.exe, [], [(k, m.frame("xml", k, v)) for k, v in probes.items()], nproc=1)

    def locline(b):
        return [l.strip() for l in b if l.strip().startswith("location L0")]
    rf, inf = locline(blocks.get("rate_first", [])), locline(blocks.get("inv_first", []))
    want = "inv=(AND (CONSTANT int 1) (LE (IDENTIFIER x) (CONSTANT int 5))) exprate=(CONSTANT int 7)"
    cov["witness_rate_first"] = rf
    if not inf or want not in inf[0]:
        ctx.finding("doc:location/inv", "invariant label followed by exponentialrate label is not stored as (invariant, rate): %r" % inf,
                    {"xml": INV_FIRST_XML, "observed": inf, "required": want})
    if not rf or want not in rf[0]:
        ctx.finding("labels:exponentialrate-before-invariant",
                    "a location whose exponentialrate label precedes its invariant label gets the two swapped "
                    "(proc_location pops 'the rate' from the top of the expression stack): " + (rf[0] if rf else "no location"),
                    {"xml": RATE_FIRST_XML, "observed": rf, "required": want, "lean_witness": "C04_witness_rate_before_invariant"})
    cb = blocks.get("comment", [])
    if "comment" in crashed or any(l.startswith("EXCEPTION") for l in cb):
        ctx.finding("text:comment-before-closing-tag",
                    "a comment between </system> and </nta> (or after the last <query>) makes parse_XML_buffer throw "
                    "'unexpected end': XMLReader::end() skips whitespace but not comments: " +
                    "; ".join(l for l in cb if l.startswith("EXCEPTION")),
                    {"xml": COMMENT_XML, "observed": [l for l in cb if l.startswith(("EXCEPTION", "VERDICT"))],
                     "required": "no exception; static analysis runs (VERDICT with a supported-methods answer)"})
    if not ok and not [v for v in ctx.violations if not v[3]]:
        # a theorem / the tie broke and neither the oracle nor the witnesses produced a failing input
        for path, thm, msg in (broken or [("?", "lake build", log[-300:])]):
            ctx.proof_broken(thm, msg + "\n" + log[-2000:], "oracle on %d generated models of the real library: no failing input" % len(cases))
    ctx.assumptions += [
        "texts handed to the bison grammar (declarations, parameters, expressions, select lists) are opaque keys in the model: "
        "C04 proves which text lands on which object and field, not how it is parsed (C02)",
        "the XML text layer (libxml2) is below the model; its variations are tested (correspondence), not proved",
        "well-formedness M.wf: ids unique per template, references resolve in the same template, names of locations/branchpoints "
        "distinct from each other and from parameters/local declarations, invariant label before rate label, not urgent+committed",
        "LSC templates and queries are not modelled",
    ]


def replay(ctx, path):
    """re-run the stored input on the library built from the current tree and compare again; exit 1 while it still fails"""
    r = json.load(open(path))
    rep = r.get("replay", {})
    xml = rep.get("xml")
    if xml is None:
        print(json.dumps(r, indent=1)[:4000])
        return 1
    if "model" in rep and os.path.exists(core.lean_exe("drv_c04")):
        R = Runner(ctx)
        bad = R.compare({"replay": (rep["model"], xml)})
        if "replay" not in bad:
            print("replay: the document built from this XML now equals the model it renders")
            return 0
        res = bad["replay"]
        print("replay: still failing, key", classify(res))
        print(json.dumps({k: v for k, v in res.items() if k in ("doc", "trace", "anomaly", "crash", "lean")}, indent=1))
        print("--- library (key level) ---")
        print("\n".join(res.get("real_doc", [])))
        print("--- required (key level) ---")
        print("\n".join(res.get("spec_doc", [])))
        return 1
    # witnesses of the exception shapes: show what the library does with the text
    b = core.build_repo("asan")
    exe = core.build_harness(b, "c04", ["c04.cpp"])
    blocks, crashed = m.run_batches(exe, [], [("replay", m.frame("xml", "replay", xml))], nproc=1)
    out = [l for l in blocks.get("replay", []) if not l.startswith("TRACE decl_var") and not l.startswith("  var ")]
    print("\n".join(out))
    print("--- required ---")
    print(json.dumps(rep.get("required"), indent=1))
    req = rep.get("required")
    if isinstance(req, str) and any(req in l for l in out):
        return 0
    return 1
