/- Every symbol the write analysis reports is also reported by the read analysis (used by C11 for the contexts that
   only test compile-time computability: select domain, array size, range bound). -/
import UtapModel.Lemmas.Effect
namespace UtapModel.Effect
open UtapModel

/-- in every computed entry the write set is contained in the read set -/
def EnvSub (env : Env) : Prop := ∀ f fi, env.find f = some fi → ∀ s ∈ fi.changes, s ∈ fi.depends

mutual
theorem getSymbols_sub_reads {cfg : Cfg} {env : Env} {s : Sym} :
    ∀ (e : Expr) (rnd : Bool), s ∈ getSymbols cfg e → s ∈ collectReads cfg env rnd e
  | .node k x subs, rnd, h => by
    unfold getSymbols at h
    unfold collectReads
    by_cases hk : k = Kind.kIDENTIFIER
    · simp only [hk, if_true, List.mem_singleton] at h
      simp [hk, h]
    · simp only [hk, if_false] at h
      exact List.mem_append.mpr (Or.inl (getSymbolsSel_sub_reads subs _ _ _ h))
theorem getSymbolsSel_sub_reads {cfg : Cfg} {env : Env} {s : Sym} :
    ∀ (subs : List Expr) (idxs : List Nat) (i : Nat) (rnd : Bool), s ∈ getSymbolsSel cfg idxs i subs → s ∈ collectReadsL cfg env rnd subs
  | [], _, _, _, h => by simp [getSymbolsSel] at h
  | e :: es, idxs, i, rnd, h => by
    simp only [getSymbolsSel, List.mem_append] at h
    simp only [collectReadsL, List.mem_append]
    rcases h with h | h
    · by_cases hc : idxs.contains i = true
      · rw [if_pos hc] at h; exact Or.inl (getSymbols_sub_reads e rnd h)
      · rw [if_neg hc] at h; cases h
    · exact Or.inr (getSymbolsSel_sub_reads es idxs (i + 1) rnd h)
end

theorem refArgs_sub_reads {cfg : Cfg} {env : Env} {s : Sym} (rnd : Bool) :
    ∀ (flags : List Bool) (args : List Expr), s ∈ refArgSymbols cfg flags args → s ∈ collectReadsL cfg env rnd args
  | [], _, h => by simp [refArgSymbols] at h
  | _ :: _, [], h => by simp [refArgSymbols] at h
  | f :: fs, a :: as, h => by
    simp only [refArgSymbols, List.mem_append] at h
    simp only [collectReadsL, List.mem_append]
    rcases h with h | h
    · cases f with
      | false => simp at h
      | true => simp only [if_true] at h; exact Or.inl (getSymbols_sub_reads a rnd h)
    · exact Or.inr (refArgs_sub_reads rnd fs as h)

theorem ident_not_writing : Kind.kIDENTIFIER ∉ writingKinds := by decide
theorem ident_not_call : Kind.kIDENTIFIER ∉ callKinds := by decide

mutual
theorem writes_sub_reads {cfg : Cfg} (hx : cfg.WritesExact) (hd : cfg.callAddsDepends = true ∧ cfg.writeCallResolvesDot = cfg.readCallResolvesDot)
    {env : Env} (hs : EnvSub env) {s : Sym} :
    ∀ (e : Expr) (rnd : Bool), extFree cfg e = true → s ∈ collectWrites cfg env e → s ∈ collectReads cfg env rnd e
  | .node k x subs, rnd, hf, h => by
    unfold extFree at hf
    simp only [Bool.and_eq_true, Bool.or_eq_true, Bool.not_eq_true'] at hf
    obtain ⟨hkf, hsf⟩ := hf
    unfold collectWrites at h
    simp only [List.mem_append] at h
    unfold collectReads
    simp only [List.mem_append]
    rcases h with h | h
    · by_cases hr : cfg.writesRecurses = true
      · rw [if_pos hr] at h; exact Or.inl (writesL_sub_reads hx hd hs subs _ hsf h)
      · rw [if_neg hr] at h; cases h
    · by_cases hl : cfg.writeLhsKinds.contains k = true
      · rw [if_pos hl] at h
        cases subs with
        | nil => cases h
        | cons a r =>
          simp only at h
          left
          simp only [collectReadsL, List.mem_append]
          exact Or.inl (getSymbols_sub_reads a _ h)
      · rw [if_neg hl] at h
        by_cases hc : cfg.writeCallKinds.contains k = true
        · rw [if_pos hc] at h
          have hrc : cfg.readCallKinds.contains k = true := by
            rcases hkf with h1 | h1
            · rw [hc] at h1; cases h1
            · exact h1
          have hne : k ≠ Kind.kIDENTIFIER := by
            intro he
            have := hx.2 k (List.contains_iff_mem.mp hc)
            rw [he] at this
            exact ident_not_call (List.contains_iff_mem.mp this)
          cases subs with
          | nil => cases h
          | cons f args =>
            simp only at h
            cases hfind : env.find (calleeSym cfg.writeCallResolvesDot f) with
            | none => rw [hfind] at h; cases h
            | some fi =>
              rw [hfind] at h
              have hfind' : env.find (calleeSym cfg.readCallResolvesDot f) = some fi := hd.2 ▸ hfind
              simp only [List.mem_append] at h
              rcases h with h | h
              · by_cases hac : cfg.callAddsChanges = true
                · rw [if_pos hac] at h
                  right
                  simp only [hne, if_false, hrc, if_true, hfind', hd.1]
                  exact hs _ _ hfind s h
                · rw [if_neg hac] at h; cases h
              · by_cases har : cfg.callAddsRefArgs = true
                · rw [if_pos har] at h
                  left
                  simp only [collectReadsL, List.mem_append]
                  exact Or.inr (refArgs_sub_reads _ _ _ h)
                · rw [if_neg har] at h; cases h
        · rw [if_neg hc] at h; cases h
theorem writesL_sub_reads {cfg : Cfg} (hx : cfg.WritesExact) (hd : cfg.callAddsDepends = true ∧ cfg.writeCallResolvesDot = cfg.readCallResolvesDot)
    {env : Env} (hs : EnvSub env) {s : Sym} :
    ∀ (es : List Expr) (rnd : Bool), extFreeL cfg es = true → s ∈ collectWritesL cfg env es → s ∈ collectReadsL cfg env rnd es
  | [], _, _, h => by simp [collectWritesL] at h
  | e :: es, rnd, hf, h => by
    unfold extFreeL at hf
    simp only [Bool.and_eq_true] at hf
    simp only [collectWritesL, List.mem_append] at h
    simp only [collectReadsL, List.mem_append]
    rcases h with h | h
    · exact Or.inl (writes_sub_reads hx hd hs e rnd hf.1 h)
    · exact Or.inr (writesL_sub_reads hx hd hs es rnd hf.2 h)
end


/-! ### monotonicity of the statement visitor, and the invariant `changes ⊆ depends` of the computed environment -/

theorem flatE_mono {X1 X2 : Expr → List Sym} {s : Sym} :
    ∀ (es : List Expr), (∀ b ∈ es, s ∈ X1 b → s ∈ X2 b) → s ∈ flatE X1 es → s ∈ flatE X2 es
  | [], _, h => by simp [flatE] at h
  | e :: es, hm, h => by
    simp only [flatE, List.mem_append] at h ⊢
    rcases h with h | h
    · exact Or.inl (hm e (List.mem_cons_self ..) h)
    · exact Or.inr (flatE_mono es (fun b hb => hm b (List.mem_cons_of_mem _ hb)) h)

mutual
theorem collectStmt_mono {v : VisitFlags} {X1 X2 : Expr → List Sym} {s : Sym} :
    ∀ (st : Stmt), (∀ b ∈ exprsOf st, s ∈ X1 b → s ∈ X2 b) → s ∈ collectStmt v X1 st → s ∈ collectStmt v X2 st
  | .empty, _, h => by simp [collectStmt] at h
  | .breakS, _, h => by simp [collectStmt] at h
  | .continueS, _, h => by simp [collectStmt] at h
  | .exprS e, hm, h => by
    simp only [collectStmt, List.mem_ite_nil_right] at h ⊢
    exact ⟨h.1, hm e (by simp [exprsOf]) h.2⟩
  | .assertS e, hm, h => by
    simp only [collectStmt, List.mem_ite_nil_right] at h ⊢
    exact ⟨h.1, hm e (by simp [exprsOf]) h.2⟩
  | .forS i c t body, hm, h => by
    simp only [collectStmt, List.mem_append, List.mem_ite_nil_right] at h ⊢
    rcases h with ((h | h) | h) | h
    · exact Or.inl (Or.inl (Or.inl ⟨h.1, hm i (by simp [exprsOf]) h.2⟩))
    · exact Or.inl (Or.inl (Or.inr ⟨h.1, hm c (by simp [exprsOf]) h.2⟩))
    · exact Or.inl (Or.inr ⟨h.1, hm t (by simp [exprsOf]) h.2⟩)
    · exact Or.inr ⟨h.1, collectStmt_mono body (fun b hb => hm b (by simp [exprsOf, hb])) h.2⟩
  | .iterS _ body, hm, h => by
    simp only [collectStmt, List.mem_ite_nil_right] at h ⊢
    exact ⟨h.1, collectStmt_mono body (fun b hb => hm b (by simp [exprsOf, hb])) h.2⟩
  | .whileS c body, hm, h => by
    simp only [collectStmt, List.mem_append, List.mem_ite_nil_right] at h ⊢
    rcases h with h | h
    · exact Or.inl ⟨h.1, hm c (by simp [exprsOf]) h.2⟩
    · exact Or.inr ⟨h.1, collectStmt_mono body (fun b hb => hm b (by simp [exprsOf, hb])) h.2⟩
  | .doWhileS body c, hm, h => by
    simp only [collectStmt, List.mem_append, List.mem_ite_nil_right] at h ⊢
    rcases h with h | h
    · exact Or.inl ⟨h.1, hm c (by simp [exprsOf]) h.2⟩
    · exact Or.inr ⟨h.1, collectStmt_mono body (fun b hb => hm b (by simp [exprsOf, hb])) h.2⟩
  | .block inits stats, hm, h => by
    simp only [collectStmt, List.mem_append, List.mem_ite_nil_right] at h ⊢
    rcases h with h | h
    · exact Or.inl ⟨h.1, flatE_mono inits (fun b hb => hm b (by simp [exprsOf, hb])) h.2⟩
    · exact Or.inr ⟨h.1, collectStmtL_mono stats (fun b hb => hm b (by simp [exprsOf, hb])) h.2⟩
  | .switchS c inits stats, hm, h => by
    simp only [collectStmt, List.mem_append, List.mem_ite_nil_right] at h ⊢
    rcases h with (h | h) | h
    · exact Or.inl (Or.inl ⟨h.1, hm c (by simp [exprsOf]) h.2⟩)
    · exact Or.inl (Or.inr ⟨h.1, flatE_mono inits (fun b hb => hm b (by simp [exprsOf, hb])) h.2⟩)
    · exact Or.inr ⟨h.1, collectStmtL_mono stats (fun b hb => hm b (by simp [exprsOf, hb])) h.2⟩
  | .caseS c inits stats, hm, h => by
    simp only [collectStmt, List.mem_append, List.mem_ite_nil_right] at h ⊢
    rcases h with (h | h) | h
    · exact Or.inl (Or.inl ⟨h.1, hm c (by simp [exprsOf]) h.2⟩)
    · exact Or.inl (Or.inr ⟨h.1, flatE_mono inits (fun b hb => hm b (by simp [exprsOf, hb])) h.2⟩)
    · exact Or.inr ⟨h.1, collectStmtL_mono stats (fun b hb => hm b (by simp [exprsOf, hb])) h.2⟩
  | .defaultS inits stats, hm, h => by
    simp only [collectStmt, List.mem_append, List.mem_ite_nil_right] at h ⊢
    rcases h with h | h
    · exact Or.inl ⟨h.1, flatE_mono inits (fun b hb => hm b (by simp [exprsOf, hb])) h.2⟩
    · exact Or.inr ⟨h.1, collectStmtL_mono stats (fun b hb => hm b (by simp [exprsOf, hb])) h.2⟩
  | .ifS c t e, hm, h => by
    simp only [collectStmt, List.mem_append, List.mem_ite_nil_right] at h ⊢
    rcases h with (h | h) | h
    · exact Or.inl (Or.inl ⟨h.1, hm c (by simp [exprsOf]) h.2⟩)
    · exact Or.inl (Or.inr ⟨h.1, collectStmt_mono t (fun b hb => hm b (by simp [exprsOf, hb])) h.2⟩)
    · exact Or.inr ⟨h.1, collectStmt_mono e (fun b hb => hm b (by simp [exprsOf, hb])) h.2⟩
  | .returnS e, hm, h => by
    simp only [collectStmt, List.mem_ite_nil_right] at h ⊢
    exact ⟨h.1, hm e (by simp [exprsOf]) h.2⟩
theorem collectStmtL_mono {v : VisitFlags} {X1 X2 : Expr → List Sym} {s : Sym} :
    ∀ (sts : List Stmt), (∀ b ∈ exprsOfL sts, s ∈ X1 b → s ∈ X2 b) → s ∈ collectStmtL v X1 sts → s ∈ collectStmtL v X2 sts
  | [], _, h => by simp [collectStmtL] at h
  | st :: rest, hm, h => by
    simp only [collectStmtL, List.mem_append] at h ⊢
    rcases h with h | h
    · exact Or.inl (collectStmt_mono st (fun b hb => hm b (by simp [exprsOfL, hb])) h)
    · exact Or.inr (collectStmtL_mono rest (fun b hb => hm b (by simp [exprsOfL, hb])) h)
end

theorem erase_mono {xs ys drop : List Sym} {s : Sym} (h : s ∈ xs → s ∈ ys) : s ∈ erase xs drop → s ∈ erase ys drop := by
  unfold erase
  simp only [List.mem_filter]
  exact fun ⟨h1, h2⟩ => ⟨h h1, h2⟩

theorem mem_erase_left {xs drop : List Sym} {s : Sym} (h : s ∈ erase xs drop) : s ∈ xs := by
  unfold erase at h
  exact (List.mem_filter.mp h).1

/-- the erase loops of visitFunction treat `changes` and `depends` alike -/
def Cfg.EraseAlike (c : Cfg) : Prop :=
  c.collectsDepends = true ∧ (c.callAddsDepends = true ∧ c.writeCallResolvesDot = c.readCallResolvesDot) ∧
  (c.erasesLocalDepends = true → c.erasesLocalChanges = true) ∧ (c.erasesParamDepends = true → c.erasesParamChanges = true)

instance (c : Cfg) : Decidable c.EraseAlike := by unfold Cfg.EraseAlike; infer_instance

theorem funInfo_sub {cfg : Cfg} (hx : cfg.WritesExact) (he : cfg.EraseAlike) {env : Env} (hs : EnvSub env) (fd : FunDecl)
    (hf : extFreeL cfg (exprsOf fd.body) = true) : ∀ s ∈ (funInfo cfg env fd).changes, s ∈ (funInfo cfg env fd).depends := by
  obtain ⟨hcd, had, hl, hp⟩ := he
  have hfree : ∀ b ∈ exprsOf fd.body, extFree cfg b = true := by
    intro b hb
    have : ∀ (es : List Expr), extFreeL cfg es = true → ∀ b ∈ es, extFree cfg b = true := by
      intro es
      induction es with
      | nil => intro _ b hb; cases hb
      | cons a as ih =>
        intro h b hb
        unfold extFreeL at h
        simp only [Bool.and_eq_true] at h
        rcases List.mem_cons.mp hb with rfl | hb'
        · exact h.1
        · exact ih h.2 b hb'
    exact this _ hf b hb
  intro s h
  -- unfold both sides into the nested optional erases
  have hbase : s ∈ (if cfg.collectsChanges = true then collectStmt cfg.visit (collectWrites cfg env) fd.body else []) →
      s ∈ (if cfg.collectsDepends = true then collectStmt cfg.visit (collectReads cfg env cfg.dependsCollectsRandom) fd.body else []) := by
    intro h0
    rw [if_pos hcd]
    by_cases hc : cfg.collectsChanges = true
    · rw [if_pos hc] at h0
      exact collectStmt_mono fd.body (fun b hb hw => writes_sub_reads hx had hs b _ (hfree b hb) hw) h0
    · rw [if_neg hc] at h0; cases h0
  simp only [funInfo] at h ⊢
  -- params layer
  by_cases hpd : cfg.erasesParamDepends = true
  · have hpc := hp hpd
    rw [if_pos hpc] at h
    rw [if_pos hpd]
    refine erase_mono ?_ h
    intro h1
    by_cases hld : cfg.erasesLocalDepends = true
    · have hlc := hl hld
      rw [if_pos hlc] at h1
      rw [if_pos hld]
      exact erase_mono hbase h1
    · rw [if_neg hld]
      by_cases hlc : cfg.erasesLocalChanges = true
      · rw [if_pos hlc] at h1; exact hbase (mem_erase_left h1)
      · rw [if_neg hlc] at h1; exact hbase h1
  · rw [if_neg hpd]
    have h1 : s ∈ (if cfg.erasesLocalChanges = true then
        erase (if cfg.collectsChanges = true then collectStmt cfg.visit (collectWrites cfg env) fd.body else []) fd.locals
        else (if cfg.collectsChanges = true then collectStmt cfg.visit (collectWrites cfg env) fd.body else [])) := by
      by_cases hpc : cfg.erasesParamChanges = true
      · rw [if_pos hpc] at h; exact mem_erase_left h
      · rw [if_neg hpc] at h; exact h
    by_cases hld : cfg.erasesLocalDepends = true
    · have hlc := hl hld
      rw [if_pos hlc] at h1
      rw [if_pos hld]
      exact erase_mono hbase h1
    · rw [if_neg hld]
      by_cases hlc : cfg.erasesLocalChanges = true
      · rw [if_pos hlc] at h1; exact hbase (mem_erase_left h1)
      · rw [if_neg hlc] at h1; exact hbase h1

theorem find_append_singleton_cases (env : Env) (g f : Sym) (i fi : FunInfo) (h : Env.find (env ++ [(g, i)]) f = some fi) :
    env.find f = some fi ∨ fi = i := by
  induction env with
  | nil =>
    simp only [List.nil_append, Env.find] at h
    split at h
    · right; exact (Option.some.inj h).symm
    · cases h
  | cons a as ih =>
    obtain ⟨g', i'⟩ := a
    simp only [List.cons_append, Env.find] at h ⊢
    split
    · rename_i heq; rw [if_pos heq] at h; exact Or.inl h
    · rename_i hne; rw [if_neg hne] at h; exact ih h

theorem analyseFrom_envSub {cfg : Cfg} (hx : cfg.WritesExact) (he : cfg.EraseAlike) :
    ∀ (P : List FunDecl) (env : Env), EnvSub env → bodiesExtFree cfg P = true → EnvSub (analyseFrom cfg env P)
  | [], env, hs, _ => hs
  | fd :: rest, env, hs, hb => by
    unfold bodiesExtFree at hb
    simp only [List.all_cons, Bool.and_eq_true] at hb
    simp only [analyseFrom]
    apply analyseFrom_envSub hx he rest _ _ hb.2
    intro f fi hfind
    rcases find_append_singleton_cases env fd.name f _ fi hfind with h | h
    · exact hs f fi h
    · subst h; exact funInfo_sub hx he hs fd hb.1

theorem analyse_envSub {cfg : Cfg} (hx : cfg.WritesExact) (he : cfg.EraseAlike) (P : List FunDecl)
    (hb : bodiesExtFree cfg P = true) : EnvSub (analyse cfg P) :=
  analyseFrom_envSub hx he P [] (fun f fi h => by simp [Env.find] at h) hb


/-! ### locals and parameters are erased: a function that writes nothing else changes nothing -/

theorem erase_eq_nil_of_all_mem {xs drop : List Sym} (h : ∀ s ∈ xs, s ∈ drop) : erase xs drop = [] := by
  unfold erase
  apply List.filter_eq_nil_iff.mpr
  intro s hs
  simp [h s hs]

theorem funInfo_changes_nil {cfg : Cfg} (hl : cfg.erasesLocalChanges = true) (hp : cfg.erasesParamChanges = true) (env : Env)
    (fd : FunDecl) (h : ∀ s ∈ collectStmt cfg.visit (collectWrites cfg env) fd.body, s ∈ fd.locals ∨ s ∈ fd.params) :
    (funInfo cfg env fd).changes = [] := by
  simp only [funInfo, hl, hp, if_true]
  apply erase_eq_nil_of_all_mem
  intro s hs
  have h1 := mem_erase_left hs
  have hnl : s ∉ fd.locals := by
    unfold erase at hs
    have := (List.mem_filter.mp hs).2
    simpa using this
  by_cases hc : cfg.collectsChanges = true
  · rw [if_pos hc] at h1
    rcases h s h1 with h2 | h2
    · exact absurd h2 hnl
    · exact h2
  · rw [if_neg hc] at h1; cases h1

end UtapModel.Effect
