/-
String literals at the text level (C03): what `expression_t::print` writes for a string constant, what the lexer rule
`\"[^\"]+\"` of lexer.l takes back, and what `ExpressionBuilder::make_constant(const std::string&)` stores.

  print     `os << std::quoted(value)`            : `"` + value with `"` and `\` each preceded by `\` + `"`
  lexer     `\"[^\"]+\"`                          : a quote, one or more characters that are not a quote, a quote
  builder   `is >> std::quoted(newstring)`        : drops the first `"`, then copies up to the next unescaped `"`, a `\` makes the
                                                    following character literal

Core Lean only (the driver links this file).
-/
namespace UtapModel.StrLit

def dq : Char := '"'
def bs : Char := '\\'

/-- `std::quoted(s)` on output (delimiter `"`, escape `\`) -/
def escape : List Char → List Char
  | [] => []
  | c :: r => if c == dq || c == bs then bs :: c :: escape r else c :: escape r

def quote (s : List Char) : List Char := dq :: (escape s ++ [dq])

/-- characters up to the first quote -/
def spanNoQuote : List Char → List Char × List Char
  | [] => ([], [])
  | c :: r => if c == dq then ([], c :: r) else let (a, b) := spanNoQuote r; (c :: a, b)

/-- the lexer rule `\"[^\"]+\"` at the start of `t`: the token text and the rest of the input -/
def lexStr (t : List Char) : Option (List Char × List Char) :=
  match t with
  | c :: r =>
    if c == dq then
      match spanNoQuote r with
      | (body, c2 :: rest) => if body.isEmpty then none else (if c2 == dq then some (dq :: (body ++ [dq]), rest) else none)
      | (_, []) => none
    else none
  | [] => none

/-- `std::quoted` on input, after the opening delimiter: copy up to the closing delimiter, `\x` gives `x` -/
def unescape : List Char → List Char
  | [] => []
  | c :: r =>
    if c == dq then []
    else if c == bs then
      match r with
      | d :: r' => d :: unescape r'
      | [] => []
    else c :: unescape r

/-- `make_constant`: the stored value of a token that starts with a quote -/
def unquote (tok : List Char) : List Char :=
  match tok with
  | c :: r => if c == dq then unescape r else tok
  | [] => []

/-- print, lex, build: the value that comes back, and what is left of the input -/
def roundTrip (s rest : List Char) : Option (List Char × List Char) :=
  (lexStr (quote s ++ rest)).map (fun p => (unquote p.1, p.2))

end UtapModel.StrLit
