"""Shared machinery of the /verif checks (see DESIGN.md section 2.2).

Everything here is deterministic given VERIF_SEED.  Nothing is kept under /tmp, /repo or /verif except
evidence/ and replays/; build output goes to CACHE (rebuilt when missing or stale).
"""
import fcntl
import hashlib
import json
import os
import random
import re
import shutil
import subprocess
import sys
import time
from concurrent.futures import ThreadPoolExecutor

VERIF = os.path.dirname(os.path.dirname(os.path.abspath(__file__)))
REPO = os.environ.get("VERIF_REPO", "/repo")
CACHE = os.environ.get("VERIF_CACHE", "/var/tmp/utap-verif-cache")
LEAN_DIR = os.path.join(VERIF, "lean")
GUARD = "UTAP_VERIF"
NCPU = os.cpu_count() or 4

ALLOWED_AXIOMS = {"propext", "Quot.sound", "Classical.choice"}
FORBIDDEN = re.compile(r"\b(sorry|admit|native_decide|bv_decide|implemented_by|unsafe)\b|^\s*axiom\s|maxHeartbeats\s+0\b",
                       re.M)

TRUSTED_BASE = [
    "Lean 4.33.0 kernel (type checking of every theorem; leanchecker re-check in the thorough tier)",
    "axioms allowed: propext, Quot.sound, Classical.choice (audited with #print axioms on every theorem each run)",
    "no native_decide / bv_decide / sorry / admit / axiom declarations (grep with comments stripped each run)",
    "the Python translators and the C++ correspondence harness are trusted to report honestly",
]


def sh(cmd, **kw):
    kw.setdefault("stdout", subprocess.PIPE)
    kw.setdefault("stderr", subprocess.STDOUT)
    kw.setdefault("text", True)
    return subprocess.run(cmd, **kw)


class Lock:
    def __init__(self, name):
        os.makedirs(CACHE, exist_ok=True)
        self.path = os.path.join(CACHE, name + ".lock")

    def __enter__(self):
        self.f = open(self.path, "w")
        fcntl.flock(self.f, fcntl.LOCK_EX)
        return self

    def __exit__(self, *a):
        fcntl.flock(self.f, fcntl.LOCK_UN)
        self.f.close()


# ------------------------------------------------------------------------------------------------
# building /repo's working tree
# ------------------------------------------------------------------------------------------------

VARIANTS = {
    # name: (compile flags, link flags)
    "asan": (["-O1", "-g", "-fno-omit-frame-pointer", "-fsanitize=address,undefined",
              "-fno-sanitize-recover=all", "-D_GLIBCXX_ASSERTIONS", "-DNDEBUG"],
             ["-fsanitize=address,undefined"]),
    "plain": (["-O2", "-g", "-DNDEBUG"], []),
}


def repo_source_files():
    out = []
    for sub in ("src", "include"):
        for root, _, files in os.walk(os.path.join(REPO, sub)):
            for f in sorted(files):
                out.append(os.path.join(root, f))
    return sorted(out)


def repo_hash(extra=""):
    h = hashlib.sha256()
    for p in repo_source_files():
        h.update(p.encode())
        with open(p, "rb") as fh:
            h.update(fh.read())
    h.update(extra.encode())
    return h.hexdigest()[:16]


class Build:
    def __init__(self, variant, d):
        self.variant = variant
        self.dir = d
        self.lib = os.path.join(d, "libUTAP.a")
        self.cflags = ["-std=c++17", "-D" + GUARD, "-I" + os.path.join(REPO, "include"), "-I" + os.path.join(REPO, "src"),
                       "-I" + os.path.join(d, "include"), "-isystem", "/usr/include/libxml2"] + VARIANTS[variant][0]
        self.ldflags = VARIANTS[variant][1] + [self.lib, "-lxml2", "-ldl"]


def build_repo(variant="asan", log=None):
    """Build libUTAP.a from /repo's *current working tree* (hooks on).  Returns Build or raises BuildError."""
    flags = VARIANTS[variant]
    key = repo_hash(variant + repr(flags))
    d = os.path.join(CACHE, "build-%s-%s" % (variant, key))
    b = Build(variant, d)
    with Lock("build-" + variant):
        if os.path.exists(os.path.join(d, "OK")):
            os.utime(os.path.join(d, "OK"))
            return b
        # drop stale builds of this variant (disk is limited) -- but only those nobody has touched for a while: another check may be
        # running against them right now (checks of one tree share a build; a tree that changes under a running check gets a new one)
        os.makedirs(CACHE, exist_ok=True)
        for name in os.listdir(CACHE):
            path = os.path.join(CACHE, name)
            if name.startswith("build-%s-" % variant) and name != os.path.basename(d) and _idle(os.path.join(path, "OK")):
                shutil.rmtree(path, ignore_errors=True)
            if name.startswith("harness-") and os.path.isdir(path):
                # harness binaries of older builds
                st = os.path.join(path, "BUILDKEY")
                try:
                    if open(st).read().strip().startswith(variant + ":") and open(st).read().strip() != variant + ":" + key and _idle(st):
                        shutil.rmtree(path, ignore_errors=True)
                except OSError:
                    pass
        shutil.rmtree(d, ignore_errors=True)
        os.makedirs(os.path.join(d, "include", "utap"), exist_ok=True)
        t0 = time.time()
        r = sh(["flex", "--outfile=" + os.path.join(d, "lexer.cc"), "-Putap_", os.path.join(REPO, "src", "lexer.l")])
        if r.returncode:
            raise BuildError("flex failed:\n" + r.stdout)
        r = sh(["bison", "-putap_", "-bparser", os.path.join(REPO, "src", "parser.y"),
                "--output=" + os.path.join(d, "parser.cpp"), "--defines=" + os.path.join(d, "include", "parser.hpp")])
        if r.returncode:
            raise BuildError("bison failed:\n" + r.stdout)
        srcs = sorted(os.path.join(REPO, "src", f) for f in os.listdir(os.path.join(REPO, "src")) if f.endswith(".cpp"))
        srcs.append(os.path.join(d, "parser.cpp"))
        objs = []

        def cc(src):
            obj = os.path.join(d, os.path.basename(src) + ".o")
            r = sh(["g++", "-c", src, "-o", obj, "-I" + d, "-Wno-error", "-w", "-fPIC"] + b.cflags)
            return obj, r

        with ThreadPoolExecutor(NCPU) as ex:
            for obj, r in ex.map(cc, srcs):
                if r.returncode:
                    raise BuildError("compile failed:\n" + r.stdout[-4000:])
                objs.append(obj)
        r = sh(["ar", "rcs", b.lib] + objs)
        if r.returncode:
            raise BuildError("ar failed:\n" + r.stdout)
        for o in objs:
            os.remove(o)
        open(os.path.join(d, "OK"), "w").write("%s built in %.1fs\n" % (key, time.time() - t0))
    return b


class BuildError(Exception):
    pass


STALE_AFTER_S = 2 * 3600


def _idle(marker):
    """the cache entry with this marker file has not been used for STALE_AFTER_S (markers are touched on every use)"""
    try:
        return time.time() - os.path.getmtime(marker) > STALE_AFTER_S
    except OSError:
        return True


def header_build(variant="plain"):
    """For harnesses that only include headers of /repo (no libUTAP.a needed)."""
    b = Build(variant, os.path.join(CACHE, "hdr-" + variant + "-" + repo_hash("hdr")[:12]))
    b.cflags = [f for f in b.cflags if not f.startswith("-I" + CACHE)]
    b.ldflags = VARIANTS[variant][1]
    os.makedirs(CACHE, exist_ok=True)
    return b


def write_if_changed(path, text):
    if not os.path.exists(path) or open(path).read() != text:
        os.makedirs(os.path.dirname(path), exist_ok=True)
        tmp = path + ".tmp%d" % os.getpid()
        open(tmp, "w").write(text)
        os.replace(tmp, path)
        return True
    return False


def regen_kinds():
    """translate/kinds.py: enum kind_t -> harness include + lean/UtapModel/Gen/Kinds.lean (every run)."""
    sys.path.insert(0, os.path.join(VERIF, "translate"))
    import kinds as K
    ks = K.kinds(REPO)
    d = os.path.join(CACHE, "geninc")
    write_if_changed(os.path.join(d, "kinds.inc"), K.inc_text(ks))
    write_if_changed(os.path.join(LEAN_DIR, "UtapModel", "Gen", "Kinds.lean"), K.lean_text(ks))
    return d, ks


def build_harness(b, name, sources, extra_flags=()):
    """Compile harness/<sources> against build b; cached by content hash."""
    h = hashlib.sha256()
    incdir, _ = regen_kinds()
    extra_flags = list(extra_flags) + ["-I" + incdir]
    h.update(open(os.path.join(incdir, "kinds.inc"), "rb").read())
    paths = [os.path.join(VERIF, "harness", s) for s in sources]
    hdrs = [os.path.join(VERIF, "harness", f) for f in sorted(os.listdir(os.path.join(VERIF, "harness")))
            if f.endswith((".h", ".hpp"))]
    for p in paths + hdrs:
        h.update(open(p, "rb").read())
    h.update(repr(extra_flags).encode())
    h.update(os.path.basename(b.dir).encode())
    d = os.path.join(CACHE, "harness-%s-%s" % (name, h.hexdigest()[:12]))
    exe = os.path.join(d, name)
    with Lock("harness-" + name):
        if os.path.exists(exe):
            try:
                os.utime(os.path.join(d, "BUILDKEY"))
            except OSError:
                pass
            return exe
        for n in os.listdir(CACHE):
            if n.startswith("harness-%s-" % name) and _idle(os.path.join(CACHE, n, "BUILDKEY")):
                shutil.rmtree(os.path.join(CACHE, n), ignore_errors=True)
        os.makedirs(d, exist_ok=True)
        open(os.path.join(d, "BUILDKEY"), "w").write(b.variant + ":" + os.path.basename(b.dir).split("-")[-1])
        r = sh(["g++", "-o", exe, "-w", "-I" + os.path.join(VERIF, "harness")] + paths + list(extra_flags) + b.cflags + b.ldflags)
        if r.returncode:
            shutil.rmtree(d, ignore_errors=True)
            raise BuildError("harness %s failed to compile against the current tree:\n%s" % (name, r.stdout[-6000:]))
    return exe


SAN_ENV = {"ASAN_OPTIONS": "detect_leaks=0:abort_on_error=0:allocator_may_return_null=1:detect_stack_use_after_return=0",
           "UBSAN_OPTIONS": "print_stacktrace=1:halt_on_error=1"}


def run_exe(exe, args=(), stdin_text=None, timeout=600, env=None):
    e = dict(os.environ)
    e.update(SAN_ENV)
    if env:
        e.update(env)
    t0 = time.time()
    try:
        r = subprocess.run([exe] + list(args), input=stdin_text, stdout=subprocess.PIPE, stderr=subprocess.PIPE, text=True,
                           timeout=timeout, env=e, errors="replace")
        return r.returncode, r.stdout, r.stderr, time.time() - t0
    except subprocess.TimeoutExpired as ex:
        out = ex.stdout.decode(errors="replace") if isinstance(ex.stdout, bytes) else (ex.stdout or "")
        err = ex.stderr.decode(errors="replace") if isinstance(ex.stderr, bytes) else (ex.stderr or "")
        return -999, out, err, time.time() - t0


# ------------------------------------------------------------------------------------------------
# Lean side
# ------------------------------------------------------------------------------------------------

def strip_lean_comments(src):
    out = []
    i, n, depth = 0, len(src), 0
    while i < n:
        if src.startswith("/-", i):
            depth += 1
            i += 2
        elif depth and src.startswith("-/", i):
            depth -= 1
            i += 2
        elif depth:
            if src[i] == "\n":
                out.append("\n")
            i += 1
        elif src.startswith("--", i):
            while i < n and src[i] != "\n":
                i += 1
        elif src[i] == '"':
            j = i + 1
            while j < n and src[j] != '"':
                j += 2 if src[j] == "\\" else 1
            out.append('""')
            i = j + 1
        else:
            out.append(src[i])
            i += 1
    return "".join(out)


def lean_files():
    out = []
    for root, dirs, files in os.walk(LEAN_DIR):
        dirs[:] = [x for x in dirs if x != ".lake"]
        for f in files:
            if f.endswith(".lean"):
                out.append(os.path.join(root, f))
    return sorted(out)


def import_closure(modules):
    """project files reachable from the given modules through `import UtapModel…` lines"""
    seen, todo = [], list(modules)
    while todo:
        m = todo.pop()
        path = os.path.join(LEAN_DIR, *m.split(".")) + ".lean"
        if path in seen or not os.path.exists(path):
            continue
        seen.append(path)
        for mm in re.finditer(r"^\s*(?:public\s+)?import\s+(UtapModel[\w.]*)", strip_lean_comments(open(path).read()), re.M):
            todo.append(mm.group(1))
    return sorted(seen)


def forbidden_scan(modules=None):
    """forbidden tokens (sorry, axiom, native_decide, …) in the files a proof depends on (all project files if modules is None)"""
    hits = []
    for p in (import_closure(modules) if modules else lean_files()):
        src = strip_lean_comments(open(p).read())
        for m in FORBIDDEN.finditer(src):
            line = src.count("\n", 0, m.start()) + 1
            hits.append("%s:%d: %s" % (os.path.relpath(p, VERIF), line, m.group(0).strip()))
    return hits


def lake_build(targets, timeout=3000):
    with Lock("lake"):
        r = sh(["lake", "build"] + list(targets), cwd=LEAN_DIR, timeout=timeout)
    return r.returncode == 0, r.stdout


def theorems_of(module):
    """Names (fully qualified) of the theorems declared in a Lean module of the project."""
    path = os.path.join(LEAN_DIR, *module.split(".")) + ".lean"
    src = strip_lean_comments(open(path).read())
    ns, names = [], []
    for line in src.split("\n"):
        m = re.match(r"\s*namespace\s+(\S+)", line)
        if m:
            ns.append(m.group(1))
            continue
        m = re.match(r"\s*end\s+(\S+)", line)
        if m and ns and ns[-1] == m.group(1):
            ns.pop()
            continue
        m = re.match(r"\s*(?:@\[[^\]]*\]\s*)?(?:private\s+|protected\s+)?theorem\s+([^\s:({\[]+)", line)
        if m:
            names.append(".".join(ns + [m.group(1)]))
    return names


def axiom_audit(module):
    """#print axioms on every theorem of `module`. Returns {theorem: [axioms]} ; raises on failure."""
    names = theorems_of(module)
    if not names:
        return {}
    src = "import %s\n" % module + "".join("#print axioms %s\n" % n for n in names)
    d = os.path.join(CACHE, "audit")
    os.makedirs(d, exist_ok=True)
    f = os.path.join(d, module.replace(".", "_") + "_%d.lean" % os.getpid())
    open(f, "w").write(src)
    try:
        r = sh(["lake", "env", "lean", f], cwd=LEAN_DIR, timeout=900)
    finally:
        os.remove(f)
    res = {}
    text = r.stdout
    for m in re.finditer(r"'([^']+)' depends on axioms: \[([^\]]*)\]", text, re.S):
        res[m.group(1)] = [a.strip() for a in m.group(2).replace("\n", " ").split(",") if a.strip()]
    for m in re.finditer(r"'([^']+)' does not depend on any axioms", text):
        res[m.group(1)] = []
    missing = [n for n in names if n not in res]
    if r.returncode != 0 or missing:
        raise RuntimeError("axiom audit of %s failed (missing %s):\n%s" % (module, missing, text[-3000:]))
    return res


def failing_theorems(log):
    """Map `error: path:line:col` entries of a lake log to the enclosing theorem/def of that file."""
    out = []
    for m in re.finditer(r"error: (\S+?\.lean):(\d+):(\d+): ([^\n]*)", log):
        path, line = os.path.join(LEAN_DIR, m.group(1)), int(m.group(2))
        name = "?"
        try:
            src = open(path).read().split("\n")
            for i in range(min(line, len(src)) - 1, -1, -1):
                mm = re.match(r"\s*(?:@\[[^\]]*\]\s*)?(?:private\s+)?(theorem|def|lemma|example|instance)\s+([^\s:({\[]+)?", src[i])
                if mm:
                    name = mm.group(2) or mm.group(1)
                    break
        except OSError:
            pass
        item = (m.group(1), name, m.group(4)[:200])
        if item[:2] not in [x[:2] for x in out]:
            out.append(item)
    return out


def lean_exe(name):
    return os.path.join(LEAN_DIR, ".lake", "build", "bin", name)


def leanchecker(module):
    r = sh(["lake", "env", "leanchecker", module], cwd=LEAN_DIR, timeout=3000)
    return r.returncode == 0, r.stdout


# ------------------------------------------------------------------------------------------------
# findings, evidence, verdict
# ------------------------------------------------------------------------------------------------

def load_known():
    p = os.path.join(VERIF, "KNOWN_FINDINGS.json")
    out = []
    if os.path.exists(p):
        out += json.load(open(p))["findings"]
    d = os.path.join(VERIF, "known_findings.d")
    if os.path.isdir(d):
        for f in sorted(os.listdir(d)):
            if f.endswith(".json"):
                out += json.load(open(os.path.join(d, f)))["findings"]
    return out


class Ctx:
    def __init__(self, pid, tier, seed):
        self.pid = pid
        self.tier = tier
        self.seed = seed
        self.rng = random.Random(seed * 1000003 + int(pid[1:]))
        self.t0 = time.time()
        self.violations = []      # (key, what, replay_path, no_input)
        self.known = []
        self.notes = []
        self.coverage = {}
        self.assumptions = []
        self.known_db = [k for k in load_known() if k["property"] == pid]
        os.makedirs(os.path.join(VERIF, "replays"), exist_ok=True)
        os.makedirs(os.path.join(VERIF, "evidence"), exist_ok=True)

    @property
    def thorough(self):
        return self.tier == "thorough"

    def log(self, *a):
        print("[%s %6.1fs]" % (self.pid, time.time() - self.t0), *a, flush=True)

    # -- findings -------------------------------------------------------------------------------
    def finding(self, key, what, replay, no_input=False):
        """A deviation from the property with identity `key`.  Known (status=known) -> KNOWN-FINDING line;
        anything else -> VIOLATION.  `replay` is a JSON-able object written to replays/."""
        for k in self.known_db:
            if k["key"] == key and k.get("status") == "known":
                if key not in [x[0] for x in self.known]:
                    self.known.append((key, what))
                return
        if key in [v[0] for v in self.violations]:
            return
        safe = re.sub(r"[^A-Za-z0-9_.-]+", "_", key)[:60] + "-" + hashlib.md5(key.encode()).hexdigest()[:6]
        path = os.path.join(VERIF, "replays", "%s-%s.json" % (self.pid, safe))
        obj = {"property": self.pid, "key": key, "what": what, "seed": self.seed, "tier": self.tier,
               "no_failing_input_found": bool(no_input), "replay": replay}
        json.dump(obj, open(path, "w"), indent=1, default=str)
        self.violations.append((key, what, path, no_input))

    def proof_broken(self, name, text, searched):
        """A theorem / translation / correspondence no longer checks and no failing input was found."""
        self.finding("unproved:" + name, "%s no longer checks; searched: %s" % (name, searched),
                     {"theorem_or_correspondence": name, "error": text[-4000:], "searched": searched}, no_input=True)

    # -- Lean -----------------------------------------------------------------------------------
    def prove(self, module, exes=()):
        """lake build of the property module(s) (+ driver exes), forbidden-token scan of their import closure, axiom audit of
        every theorem.  `module` is a module name or a list of them.  Fills the proof keys of coverage.  Returns (ok, log)."""
        modules = [module] if isinstance(module, str) else list(module)
        hits = forbidden_scan(modules)
        ok, out = lake_build(modules + list(exes))
        cov = self.coverage
        cov["checker_cmd"] = "cd lean && lake build %s && lake env lean <#print axioms on every theorem>" % " ".join(modules)
        if self.thorough:
            cov["checker_cmd"] += " && lake env leanchecker <module>"
        cov["trusted_base"] = list(TRUSTED_BASE)
        names = [n for m in modules for n in theorems_of(m)]
        cov["obligations"] = len(names)
        cov["theorems"] = names
        cov["discharged"] = 0
        cov["forbidden_token_hits"] = hits
        if not ok:
            cov["lean_error"] = out[-3000:]
            return False, out
        ax = {}
        try:
            for m in modules:
                ax.update(axiom_audit(m))
        except Exception as ex:  # noqa
            cov["lean_error"] = str(ex)[-3000:]
            return False, str(ex)
        bad = {n: a for n, a in ax.items() if set(a) - ALLOWED_AXIOMS}
        cov["axioms"] = {n: a for n, a in ax.items()}
        if bad or hits:
            cov["lean_error"] = "disallowed axioms %r / forbidden tokens %r" % (bad, hits)
            return False, cov["lean_error"]
        if self.thorough:
            for m in modules:
                okc, outc = leanchecker(m)
                cov["leanchecker"] = "ok" if okc else outc[-2000:]
                if not okc:
                    return False, outc
        cov["discharged"] = len(names)
        return True, out

    # -- end ------------------------------------------------------------------------------------
    def finish(self, level="proof"):
        ev = {
            "property_id": self.pid, "tier": self.tier, "seed": self.seed, "level": level,
            "coverage": self.coverage, "assumptions": self.assumptions,
            "wall_s": round(time.time() - self.t0, 2), "violations": len(self.violations),
            "known_findings_matched": [k for k, _ in self.known], "notes": self.notes,
        }
        json.dump(ev, open(os.path.join(VERIF, "evidence", self.pid + ".json"), "w"), indent=1, default=str)
        for key, what in self.known:
            print("KNOWN-FINDING: property=%s %s: %s" % (self.pid, key, what))
        concrete = [v for v in self.violations if not v[3]]
        for key, what, path, no_input in self.violations:
            if no_input and concrete:
                # a broken theorem / tie whose failing input was found: the VIOLATION line is the one that carries the input
                print("BROKEN (explained by the failing input reported below/above): %s -- %s" % (key, path))
                continue
            print("VIOLATION property=%s replay=%s%s" % (self.pid, path, " no-failing-input-found" if no_input else ""))
            print("  key: %s" % key)
            print("  what: " + what[:1500].replace("\n", " "))
        if self.violations:
            return 1
        print("[%s] OK tier=%s seed=%d wall=%.1fs" % (self.pid, self.tier, self.seed, time.time() - self.t0))
        return 0
