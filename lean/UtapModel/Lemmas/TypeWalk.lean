/- Helper lemmas for Model/TypeWalk.lean (properties C11, C13): the walk of `checkType` reaches every expression of a type,
   `strip_array` reaches the base type.  General in the configuration; the instances for the generated tables are in
   Props/C11.lean and Props/C13.lean. -/
import UtapModel.Model.TypeWalk
namespace UtapModel.TypeWalk
open UtapModel

theorem mem_wrapKinds_of_contains {k : Kind} (h : wrapKinds.contains k = true) : k ∈ wrapKinds := by
  simpa using h

mutual
/-- For every complete table: every expression anywhere in a (builder-made) type is handed to the checks. -/
theorem visits_complete (c : WalkCfg) (hc : c.Complete) : ∀ t : WTy, t.wellKinded = true → ∀ x ∈ t.exprs, x ∈ visits c t
  | .leaf _, _, x, hx => by simp [WTy.exprs] at hx
  | .wrap k t, hw, x, hx => by
    simp only [WTy.wellKinded, Bool.and_eq_true] at hw
    have hk := hc.1 k (mem_wrapKinds_of_contains hw.1)
    simp only [visits, hk, if_true]
    exact visits_complete c hc t hw.2 x (by simpa [WTy.exprs] using hx)
  | .range lo hi, _, x, hx => by
    simp only [visits, hc.2.1]
    simpa [WTy.exprs] using hx
  | .array s e, hw, x, hx => by
    simp only [WTy.wellKinded, Bool.and_eq_true] at hw
    simp only [visits, hc.2.2.1, if_true, List.mem_append]
    simp only [WTy.exprs, List.mem_append] at hx
    rcases hx with hx | hx
    · exact Or.inl (visits_complete c hc s hw.1 x hx)
    · exact Or.inr (visits_complete c hc e hw.2 x hx)
  | .record fs, hw, x, hx => by
    simp only [visits, hc.2.2.2, if_true]
    exact visitsL_complete c hc fs (by simpa [WTy.wellKinded] using hw) x (by simpa [WTy.exprs] using hx)
theorem visitsL_complete (c : WalkCfg) (hc : c.Complete) : ∀ ts : List WTy, wellKindedL ts = true → ∀ x ∈ exprsL ts, x ∈ visitsL c ts
  | [], _, x, hx => by simp [exprsL] at hx
  | t :: ts, hw, x, hx => by
    simp only [wellKindedL, Bool.and_eq_true] at hw
    simp only [visitsL, List.mem_append]
    simp only [exprsL, List.mem_append] at hx
    rcases hx with hx | hx
    · exact Or.inl (visits_complete c hc t hw.1 x hx)
    · exact Or.inr (visitsL_complete c hc ts hw.2 x hx)
end

/-- `strip_array` never stops at an array: typedef names and prefixes BETWEEN two array levels are stripped as well. -/
theorem stripArray_not_array (sk : Kind → Bool) : ∀ t : WTy, isArrayType sk (stripArray sk t) = false
  | .leaf _ => by simp [stripArray, isArrayType]
  | .range _ _ => by simp [stripArray, isArrayType]
  | .record _ => by simp [stripArray, isArrayType]
  | .array _ e => by simpa [stripArray] using stripArray_not_array sk e
  | .wrap k t => by
    by_cases h : sk k = true
    · simpa [stripArray, h] using stripArray_not_array sk t
    · simp [stripArray, h, isArrayType]

/-- … and what it returns is not wrapped in anything `strip` removes: it is the base type itself. -/
theorem stripArray_stripped (sk : Kind → Bool) : ∀ t : WTy, strip sk (stripArray sk t) = stripArray sk t
  | .leaf _ => by simp [stripArray, strip]
  | .range _ _ => by simp [stripArray, strip]
  | .record _ => by simp [stripArray, strip]
  | .array _ e => by simpa [stripArray] using stripArray_stripped sk e
  | .wrap k t => by
    by_cases h : sk k = true
    · simpa [stripArray, h] using stripArray_stripped sk t
    · simp [stripArray, h, strip]

end UtapModel.TypeWalk
