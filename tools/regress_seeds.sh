#!/bin/bash
# Replay every saved seeded change against the CURRENT checks (quick tier, no demo / unit-test rebuild): each must be reported.
#   tools/regress_seeds.sh [jobs]         -> one line per seed: <seed> caught|TIE-ONLY|MISSED <first key> (TIE-ONLY: reported, but only as a
#                                            broken theorem / translator / correspondence without a failing input); exit 1 if any is missed
J=${1:-6}
cd "$(dirname "$0")/.."
ls -d seeded/C*-* | sort -V | while read d; do grep -q '"retired"' $d/meta.json || echo $d; done | xargs -P "$J" -I{} sh -c '
  d={}; id=$(basename $d); P=${id%%-*}; CHK=$P
  CHK=$(python3 tools/seed_check.py $d)
  NODEMO=1 tools/mt.sh rg-$id $d $CHK > /var/tmp/mt/rg-$id.log 2>&1
  if grep "^VIOLATION" /var/tmp/mt/rg-$id.log | grep -qv "no-failing-input-found"; then echo "$id caught $(grep -m1 "  key:" /var/tmp/mt/rg-$id.log)";
  elif grep -q "^VIOLATION" /var/tmp/mt/rg-$id.log; then echo "$id TIE-ONLY $(grep -m1 "  key:" /var/tmp/mt/rg-$id.log)"; else echo "$id MISSED"; fi
  git -C /repo worktree remove --force /var/tmp/mt/rg-$id/wt >/dev/null 2>&1; rm -rf /var/tmp/mt/rg-$id
' | sort -V | tee /var/tmp/mt/regress.summary
! grep -q MISSED /var/tmp/mt/regress.summary
