/- Frame-, edge- and document-level lemmas for Props/C17.lean. Core Lean only. -/
import UtapModel.Lemmas.Feature

namespace UtapModel.Feature

theorem visitLocation_none (cfg : Cfg) (inv : FExpr) (h : visitLocation cfg inv = none) : rateScan cfg inv = none := by
  unfold visitLocation at h
  by_cases he : inv.isEmpty = true
  · simp [he] at h
  · simp only [he, Bool.false_eq_true, if_false] at h
    match hx : rateScan cfg inv with
    | none => rfl
    | some r => simp [hx] at h

/-- a throwing frame contains a floating-point literal rate, which an unrepaired checker does not inspect -/
theorem frame_throw_shape (cfg : Cfg) (loc : Bool) (fr : List FSym) (h : frameThrows cfg fr = true) :
    ∃ s, s ∈ fr.flatMap (symShapes loc) ∧ detects cfg s = false := by
  simp only [frameThrows, List.any_eq_true] at h
  obtain ⟨sym, hmem, hn⟩ := h
  cases sym with
  | var f init => simp [symLost] at hn
  | tdef f => simp [symLost] at hn
  | other f => simp [symLost] at hn
  | loc f inv =>
    simp only [symLost, Option.isNone_iff_eq_none] at hn
    obtain ⟨pe, hpe, hd, hh⟩ := rateScan_none cfg true true inv (visitLocation_none cfg inv hn)
    refine ⟨.rateDbl pe.1.conj, ?_, by simp [detects, hh]⟩
    simp only [List.mem_flatMap]
    refine ⟨.loc f inv, hmem, ?_⟩
    simp only [symShapes, rateShapes, List.mem_append, List.mem_filterMap]
    exact Or.inr (Or.inr ⟨pe, hpe, by simp [hd]⟩)

theorem symLost_of_frame (cfg : Cfg) (fr : List FSym) (s : FSym) (hs : s ∈ fr) (hnt : frameThrows cfg fr = false)
    (hl : frameLost cfg fr = false) : symLost cfg s = some false := by
  have h1 : symLost cfg s ≠ none := by
    simp only [frameThrows, List.any_eq_false] at hnt
    simpa using hnt s hs
  have h2 : (symLost cfg s == some true) = false := by
    simp only [frameLost, List.any_eq_false] at hl
    simpa using hl s hs
  match hx : symLost cfg s with
  | none => exact absurd hx h1
  | some true => simp [hx] at h2
  | some false => rfl

theorem visitLocation_true_of_guard (cfg : Cfg) (inv : FExpr) (hne : inv.isEmpty = false) (hc : cfg.invariantCompared = true)
    (hg : visitGuard cfg inv = true) : visitLocation cfg inv ≠ some false := by
  unfold visitLocation
  simp only [hne, Bool.false_eq_true, if_false]
  match rateScan cfg inv with
  | none => simp
  | some r => simp [hc, hg]

theorem visitLocation_true_of_rate (cfg : Cfg) (inv : FExpr) (hne : inv.isEmpty = false)
    (hr : rateScan cfg inv ≠ some false) : visitLocation cfg inv ≠ some false := by
  unfold visitLocation
  simp only [hne, Bool.false_eq_true, if_false]
  match hx : rateScan cfg inv with
  | none => simp
  | some true => simp
  | some false => exact absurd hx hr

/-- a frame the checker went through without losing `symbolic` satisfies the declarative conditions, provided every
    placement in it is one the configuration inspects -/
theorem frame_ok (cfg : Cfg) (loc : Bool) (fr : List FSym) (hnt : frameThrows cfg fr = false) (hl : frameLost cfg fr = false)
    (hs : ∀ s ∈ fr.flatMap (symShapes loc), detects cfg s = true) : ∀ s ∈ fr, initOk s = true ∧ invOk s = true := by
  intro sym hmem
  have hsome := symLost_of_frame cfg fr sym hmem hnt hl
  have hshape : ∀ s ∈ symShapes loc sym, detects cfg s = true := fun s h =>
    hs s (List.mem_flatMap.mpr ⟨sym, hmem, h⟩)
  cases sym with
  | tdef f => simp [initOk, invOk]
  | other f => simp [initOk, invOk]
  | var f init =>
    refine ⟨?_, by simp [invOk]⟩
    simp only [initOk, Bool.not_eq_true']
    refine Bool.eq_false_iff.mpr (fun hi => ?_)
    have hd := hshape (.init (!f.clkD)) (by simp [symShapes, hi])
    have := visitVariable_of_initFp cfg f init hi hd
    simp [symLost, this] at hsome
  | loc f inv =>
    refine ⟨by simp [initOk], ?_⟩
    simp only [invOk, List.all_eq_true, Bool.and_eq_true, Bool.not_eq_true']
    intro pe hpe
    have hne := walk_nonempty true true inv pe hpe
    simp only [symLost] at hsome
    refine ⟨?_, ?_⟩
    · refine Bool.eq_false_iff.mpr (fun hc => ?_)
      have hd := hshape (.cmp .inv pe.1.root (opOf pe.2)) (by
        simp only [symShapes, cmpShapes, List.mem_append, List.mem_filterMap]
        exact Or.inl ⟨pe, hpe, by simp [hc]⟩)
      have : cfg.invariantCompared = true ∧ cfg.guardKinds.contains (opOf pe.2) = true ∧
          (pe.1.root = true ∨ cfg.guardRecursive = true) := by
        cases hroot : pe.1.root <;> simp [hroot, detects] at hd ⊢ <;> simp [hd]
      have hg := visitGuard_of_cmp cfg inv pe hpe hc this.2.1 this.2.2
      exact visitLocation_true_of_guard cfg inv hne this.1 hg hsome
    · refine Bool.eq_false_iff.mpr (fun hb => ?_)
      have hconj : pe.1.conj = true ∧ (isDblRate pe.2 = false ∨ cfg.rateDoubleHandled = true) := by
        by_cases hdr : isDblRate pe.2 = true
        · have hd := hshape (.rateDbl pe.1.conj) (by
            simp only [symShapes, rateShapes, List.mem_append, List.mem_filterMap]
            exact Or.inr (Or.inr ⟨pe, hpe, by simp [hdr]⟩))
          simp only [detects, Bool.and_eq_true] at hd
          exact ⟨hd.2, Or.inr hd.1⟩
        · have hdr' : isDblRate pe.2 = false := by simpa using hdr
          have hd := hshape (.rateInt pe.1.conj) (by
            simp only [symShapes, rateShapes, List.mem_append, List.mem_filterMap]
            exact Or.inr (Or.inl ⟨pe, hpe, by simp [hb, hdr']⟩))
          simp only [detects] at hd
          exact ⟨hd, Or.inl hdr'⟩
      have hat := rateAt_of_badRate cfg pe.2 hb hconj.2
      have hr := rateScan_of_conj cfg true inv pe hpe hconj.1 hat
      exact visitLocation_true_of_rate cfg inv hne hr hsome

theorem edge_ok (cfg : Cfg) (e : Edge) (hl : edgeLost cfg e = false) (hs : ∀ s ∈ edgeShapes e, detects cfg s = true) :
    guardOk e = true ∧ updateOk e = true := by
  simp only [edgeLost, Bool.or_eq_false_iff] at hl
  refine ⟨?_, ?_⟩
  · simp only [guardOk, List.all_eq_true, Bool.not_eq_true']
    intro pe hpe
    refine Bool.eq_false_iff.mpr (fun hc => ?_)
    have hd := hs (.cmp .guard pe.1.root (opOf pe.2)) (by
      simp only [edgeShapes, cmpShapes, List.mem_append, List.mem_filterMap]
      exact Or.inl ⟨pe, hpe, by simp [hc]⟩)
    have : cfg.guardKinds.contains (opOf pe.2) = true ∧ (pe.1.root = true ∨ cfg.guardRecursive = true) := by
      cases hroot : pe.1.root <;> simp [hroot, detects] at hd ⊢ <;> simp [hd]
    have hg := visitGuard_of_cmp cfg e.guard pe hpe hc this.1 this.2
    rw [hl.2] at hg; cases hg
  · simp only [updateOk, List.all_eq_true, Bool.not_eq_true']
    intro a ha
    refine Bool.eq_false_iff.mpr (fun hc => ?_)
    have hd := hs (.assign (usesHybrid a)) (by
      simp only [edgeShapes, assignShapes, List.mem_append, List.mem_filterMap]
      exact Or.inr ⟨a, ha, by simp [hc]⟩)
    have h1 := visitAssignment_of_assignFp cfg a hc hd
    have h2 := visitAssignment_of_elem cfg e.assign a ha h1
    rw [hl.1] at h2; cases h2

theorem chan_ok (cfg : Cfg) (loc : Bool) (fr : List FSym) (hv : visitFrame cfg fr = false)
    (hs : ∀ s ∈ fr.flatMap (symShapes loc), detects cfg s = true) : ∀ s ∈ fr, badChan s = false := by
  intro sym hmem
  refine Bool.eq_false_iff.mpr (fun hb => ?_)
  cases sym with
  | tdef f => simp [badChan] at hb
  | other f => simp [badChan] at hb
  | loc f inv => simp [badChan] at hb
  | var f init =>
    have hd := hs (.chan loc (!(f.chD && !f.bcD))) (List.mem_flatMap.mpr ⟨.var f init, hmem, by simp [symShapes, hb]⟩)
    simp only [visitFrame, List.any_eq_false] at hv
    have hnh := hv _ hmem
    simp only [badChan, Bool.and_eq_true, Bool.not_eq_true'] at hb
    simp only [detects, Bool.and_eq_true, Bool.or_eq_true, Bool.not_eq_true', Bool.not_not] at hd
    by_cases ht : cfg.chanThroughArrays = true
    · simp [chanHit, ht, FSym.flags, hb.1.1, hb.1.2, hb.2] at hnh
    · rcases hd.2 with h2 | h2
      · simp [chanHit, ht, FSym.flags, h2.1, h2.2] at hnh
      · exact absurd h2 ht

/-- the checker does not throw on a document whose placements are all inspected -/
theorem not_throws (cfg : Cfg) (m : Doc) (hs : ∀ s ∈ shapesOf m, detects cfg s = true) : throws cfg m = false := by
  refine Bool.eq_false_iff.mpr (fun ht => ?_)
  simp only [throws, anyVisited, Bool.or_eq_true, List.any_eq_true, Bool.and_eq_true] at ht
  rcases ht with ht | ⟨t, htm, hti, htt⟩
  · obtain ⟨s, hmem, hd⟩ := frame_throw_shape cfg false m.gframe ht
    have := hs s (by simp only [shapesOf, List.mem_append]; exact Or.inl hmem)
    rw [this] at hd; cases hd
  · obtain ⟨s, hmem, hd⟩ := frame_throw_shape cfg true t.frame htt
    have := hs s (by
      simp only [shapesOf, List.mem_append, List.mem_flatMap]
      refine Or.inr ⟨t, htm, ?_⟩
      simp only [hti, if_true, templShapes, List.mem_append]
      exact Or.inl hmem)
    rw [this] at hd; cases hd

theorem reported_eq (cfg : Cfg) (m : Doc) (h : throws cfg m = false) :
    reported cfg m =
      { symbolic := !(m.dyn || frameLost cfg m.gframe || anyVisited m (templLost cfg))
        stochastic := !(m.prio || visitFrame cfg m.gframe
                          || (cfg.chanLocalFrames && anyVisited m (fun t => visitFrame cfg t.frame)))
        concrete := !m.prio } := by
  simp [reported, check, h]

end UtapModel.Feature

namespace UtapModel.Feature

/-! ### order of declarations -/

/-- element-wise relation between two lists of the same length -/
inductive Pointwise {α : Type} (R : α → α → Prop) : List α → List α → Prop where
  | nil : Pointwise R [] []
  | cons {a b : α} {l l' : List α} : R a b → Pointwise R l l' → Pointwise R (a :: l) (b :: l')

theorem any_pointwise {α : Type} {R : α → α → Prop} (f : α → Bool) (hf : ∀ a b, R a b → f a = f b) :
    ∀ {l l' : List α}, Pointwise R l l' → l.any f = l'.any f
  | _, _, .nil => rfl
  | _, _, .cons hab h => by simp [List.any_cons, hf _ _ hab, any_pointwise f hf h]

/-- the same template up to the order of its declarations (frame entries, edges) -/
def Templ.Equiv (t t' : Templ) : Prop := t.inst = t'.inst ∧ t.frame.Perm t'.frame ∧ t.edges.Perm t'.edges

theorem anyVisited_congr (m m' : Doc) (f : Templ → Bool) (hf : ∀ a b, Templ.Equiv a b → f a = f b)
    (ht : ∃ l, m.templs.Perm l ∧ Pointwise Templ.Equiv l m'.templs) : anyVisited m f = anyVisited m' f := by
  obtain ⟨l, hp, hw⟩ := ht
  unfold anyVisited
  rw [hp.any_eq]
  exact any_pointwise _ (fun a b hab => by rw [hab.1, hf a b hab]) hw

theorem shapes_in_all (c : Ctx) (r : Bool) (k : Kind) (hk : relKinds.contains k = true) : Shape.cmp c r k ∈ allShapes := by
  have : k ∈ relKinds := by simpa using hk
  simp only [relKinds, List.mem_cons, List.not_mem_nil, or_false] at this
  rcases this with rfl | rfl | rfl | rfl | rfl | rfl <;> cases c <;> cases r <;> decide

theorem opOf_rel (e : FExpr) (h : isCmpClockFp e = true) : relKinds.contains (opOf e) = true := by
  match e, h with
  | .node k f v [a, b], h =>
    simp only [isCmpClockFp, Bool.and_eq_true] at h
    exact h.1.1.1

theorem symShapes_in_all (loc : Bool) (sym : FSym) (s : Shape) (h : s ∈ symShapes loc sym) : s ∈ allShapes := by
  cases sym with
  | tdef f => simp [symShapes] at h
  | other f => simp [symShapes] at h
  | var f init =>
    simp only [symShapes, List.mem_append] at h
    rcases h with h | h
    · split at h
      · simp only [List.mem_singleton] at h; subst h; cases f.clkD <;> decide
      · simp at h
    · split at h
      · simp only [List.mem_singleton] at h; subst h
        cases loc <;> cases (f.chD && !f.bcD) <;> decide
      · simp at h
  | loc f inv =>
    simp only [symShapes, cmpShapes, rateShapes, List.mem_append, List.mem_filterMap] at h
    rcases h with ⟨pe, _, h⟩ | ⟨pe, _, h⟩ | ⟨pe, _, h⟩
    · split at h
      · rename_i hc
        simp only [Option.some.injEq] at h; subst h
        exact shapes_in_all _ _ _ (opOf_rel pe.2 hc)
      · simp at h
    · split at h
      · simp only [Option.some.injEq] at h; subst h; cases pe.1.conj <;> decide
      · simp at h
    · split at h
      · simp only [Option.some.injEq] at h; subst h; cases pe.1.conj <;> decide
      · simp at h

theorem edgeShapes_in_all (e : Edge) (s : Shape) (h : s ∈ edgeShapes e) : s ∈ allShapes := by
  simp only [edgeShapes, cmpShapes, assignShapes, List.mem_append, List.mem_filterMap] at h
  rcases h with ⟨pe, _, h⟩ | ⟨a, _, h⟩
  · split at h
    · rename_i hc
      simp only [Option.some.injEq] at h; subst h
      exact shapes_in_all _ _ _ (opOf_rel pe.2 hc)
    · simp at h
  · split at h
    · simp only [Option.some.injEq] at h; subst h; cases usesHybrid a <;> decide
    · simp at h

/-- every placement `shapesOf` can report is one of the enumerated placements -/
theorem shapesOf_in_all (m : Doc) (s : Shape) (h : s ∈ shapesOf m) : s ∈ allShapes := by
  simp only [shapesOf, List.mem_append, List.mem_flatMap] at h
  rcases h with ⟨sym, _, h⟩ | ⟨t, _, h⟩
  · exact symShapes_in_all _ sym s h
  · split at h
    · simp only [templShapes, List.mem_append, List.mem_flatMap] at h
      rcases h with ⟨sym, _, h⟩ | ⟨e, _, h⟩
      · exact symShapes_in_all _ sym s h
      · exact edgeShapes_in_all e s h
    · simp at h

end UtapModel.Feature
