"""C15 -- a parse result depends only on its input, not on earlier parses in the process (DESIGN.md section 4, C15).

 1 translate   parser.y (per-call initialisation of parse_XTA / parseProperty, utap_lex, setStartToken, the accesses of the
               file-scope variables rootTransId / types, the list productions that order them) -> Gen/ParseGlobals.lean;
               lexer.l, libparser.h, position.cpp -> the generated tables shared with C06
 2 prove       UtapModel.Props.C15: translation invariance of the position machinery below 2^32, no exception below
               2^32, start condition restored, per-call reinitialisation, written-before-read of rootTransId / types;
               witnesses for the exception shapes (wrap at 2^32, stale yylloc on empty input)
 3 correspond  sequences of calls in ONE process  vs  each call first in a freshly forked process; canonical result
               (return value, exception class, diagnostics with path/line/column, document dump, supported methods);
               UTAP::tracker.position is seeded near 2^31 and 2^32; the Lean driver predicts wrap-around behaviour;
               the working directory changes between calls (it is part of the input of a call that imports a library by a
               relative name: both runs of the call are made in the same directory)
"""
import hashlib
import json
import os
import re
import shutil
import subprocess
import sys

from vlib import core

sys.path.insert(0, os.path.join(core.VERIF, "translate"))
import pos_tables  # noqa: E402

sys.path.insert(0, os.path.join(core.VERIF, "checks"))
import c06_models as M  # noqa: E402

MODULE = "UtapModel.Props.C15"
GEN_PARSE_GLOBALS = os.path.join(core.LEAN_DIR, "UtapModel", "Gen", "ParseGlobals.lean")
W = 1 << 32


def hexs(b):
    if isinstance(b, str):
        b = b.encode("utf-8", "surrogateescape")
    return b.hex()


# ---------------------------------------------------------------------------------------------------------------------
# the pool of calls
# ---------------------------------------------------------------------------------------------------------------------

XTA_GOOD = [
    "int x; clock c; chan a;\nprocess P() { state S0 { c <= 5 }, S1; init S0; trans S0 -> S1 { guard c >= 1; sync a!; assign x = 1; }, S1 -> S0 { sync a?; }; }\nsystem P;",
    "const int N = 2; typedef int[0,N-1] id_t; int v[N];\nprocess Q(id_t i) { clock y; state A, B; init A; trans A -> B { guard y > 2 && v[i] == 0; assign v[i] = 1, y = 0; }, -> A { assign v[i] = 0; }; }\nsystem Q;",
    "/* header\n comment */\nbroadcast chan b; int n = 3;\nprocess R() { state L { n > 0 }; init L; trans L -> L { sync b!; assign n = n - 1; }; }\nR1 = R();\nsystem R1;",
]
XTA_OLD = ["int x; clock c;\nprocess P { state S0 { c <= 5 }, S1; init S0; trans S0 -> S1 { guard c >= 1; assign x := 1; }; }\nsystem P;"]
XTA_ERRNO = [   # accepted or rejected, these make strtod / strtol / atof set errno = ERANGE: the next call must not see it
    "const double EPS = 1e-400; int n = 7;\nprocess P() { state S0; init S0; }\nsystem P;",
    "double big = 1e400; int n = 12345;\nprocess P() { state S0; init S0; }\nsystem P;",
    "int huge = 99999999999999999999; int n = 3;\nprocess P() { state S0; init S0; }\nsystem P;",
    "int m = 2147483648;\nprocess P() { state S0; init S0; }\nsystem P;",
]
XTA_BAD = [
    "int x; clock c;\nprocess P() { state S0, S1; init S0; trans S0 -> S1 { guard c >= zz; }; }\nsystem P;",
    "int x = ;\nprocess P() { state S0; init S0; }\nsystem P;",
    "int x;\nprocess P() { state S0; init S0; trans S0 -> S9 { }; }\nsystem P;",
    "int x; /* never closed\nprocess P() { state S0; init S0; }\nsystem P;",
    "int x;\nprocess P() { state S0; init S0; }\nsystem P, Q;",
    "@ $ `",
    "int f() { return 1 }\nprocess P() { state S0; init S0; }\nsystem P;",
    "process P() { state A, B; init A; trans A -> B { guard (1; }, -> A { assign x = 1; }; }\nsystem P;",
]
BLOCKS = [  # (part, text)
    (1, "int a = 1;\nbool b;\n"), (1, "int a = zz;\n"), (1, "int a; /* open"), (1, ""), (1, "\n\n"), (1, "// only a comment"),
    (1, "typedef struct { int u; } s_t; s_t s;"), (1, "int f(int x) { return x + ; }"), (1, "const string q = \"two\nlines\"; int z = zz;"),
    (12, "1 + 2 * 3"), (12, "1 +"), (12, ""), (12, "(1"), (12, "a ? b : c"), (13, "1, 2, 3"), (13, ""),
    (5, "int a, bool &b"), (5, ""), (5, "int a,"), (9, "x >= 1"), (9, ""), (9, "/* c */"), (6, "x <= 5"), (11, ""), (11, "/* open"),
    (3, "P1 = P(1);"), (3, ""), (4, "system A, B;"), (4, ""), (2, "clock x; int i;"), (10, "c!"), (10, ""),
    (15, "process P() { state A; init A; }"), (0, "int x; process P() { state A; init A; } system P;"), (0, ""),
]
THROWING = [(1, "int a = 424242;"), (1, "int a = 1;\nint b = 2 + 424242 * 3;\nint c;"), (12, "1 + (2 * 424242)"), (13, "1, 424242, 3"),
            (1, "int f() { /* c\n */ return 424242; }"), (0, "int x = 424242; process P() { state A; init A; } system P;")]
QUERIES = ["A[] not deadlock", "E<> P.B", "A[] v <= 1", "E<> x > 5 && P.A", "A[] (", "", "E<> zz", "P.A --> P.B", "A[] v <= 1 /* open", "sup: v", "\n\n"]


def xml_pool():
    seeds = M.seeds()
    pool = []
    for mi, m in enumerate(seeds):
        pool.append(("xml-good", M.render(m)))
        blocks = M.blocks_of(m)
        # a few faulted variants per seed
        for bi in range(0, len(blocks), max(1, len(blocks) // 6)):
            blk = blocks[bi]
            toks = M.tokenize(blk.text)
            for kind in ("undeclared", "stray-token", "unterminated-comment", "unbalanced-bracket"):
                for i in (0, len(toks) // 2):
                    for t2, _ in M.faults_at(blk, blk.text, toks, i, kind)[:1]:
                        pool.append(("xml-fault", M.render(m, {blk.key: t2})))
        pool.append(("xml-layout", M.render(m, {b.key: M.relayout(b.text, "comments", mi, b.kind) for b in blocks})))
    good = M.render(seeds[0])
    pool.append(("xml-missing-ref", good.replace('<source ref="id3"/>', '<source ref="nope"/>', 1)))
    pool.append(("xml-truncated", good[:len(good) // 2]))
    pool.append(("xml-truncated-in-text", good[:good.index("</declaration>") - 10]))
    pool.append(("xml-no-nta", "<?xml version=\"1.0\"?>\n<foo><bar/></foo>\n"))
    pool.append(("xml-garbage", "this is not xml"))
    pool.append(("xml-no-system", good.replace("<system>system Train, Gate;</system>", "")))
    pool.append(("xml-empty-system", good.replace("<system>system Train, Gate;</system>", "<system> </system>")))
    pool.append(("xml-bad-nesting", good.replace("</template>", "", 1)))
    pool.append(("xml-label-nokind", good.replace('<label kind="guard">', "<label>", 1)))
    for name in ("simpleSystem.xml", "lsc_example.xml", "if_statement.xml", "dynamic.xml"):
        p = os.path.join(core.REPO, "test", "models", name)
        if os.path.exists(p):
            pool.append(("xml-repo", open(p, encoding="utf-8", errors="replace").read()))
    return pool


def call_pool():
    pool = []
    for tag, x in xml_pool():
        pool.append({"tag": tag, "kind": "XML", "a": 1, "b": 0, "input": x})
    for t in XTA_GOOD:
        pool.append({"tag": "xta-good", "kind": "XTA", "a": 1, "b": 0, "input": t})
    for t in XTA_ERRNO:
        pool.append({"tag": "xta-errno", "kind": "XTA", "a": 1, "b": 0, "input": t})
    for t in XTA_OLD:
        pool.append({"tag": "xta-old", "kind": "XTA", "a": 0, "b": 0, "input": t})
    for t in XTA_BAD:
        pool.append({"tag": "xta-bad", "kind": "XTA", "a": 1, "b": 0, "input": t})
    for part, t in BLOCKS:
        pool.append({"tag": "block" if t else "block-empty", "kind": "BLK", "a": 1, "b": part, "input": t})
    for part, t in BLOCKS[::4]:
        pool.append({"tag": "block-old", "kind": "BLK", "a": 0, "b": part, "input": t})
    for part, t in THROWING:
        pool.append({"tag": "throwing", "kind": "THR", "a": 1, "b": part, "input": t})
    for q in QUERIES:
        pool.append({"tag": "query" if q else "query-empty", "kind": "QRY", "a": 0, "b": 0, "input": q})
    # identifiers beyond the lexer's length limit: reported, and whatever the token carries must not come from an earlier call
    longid = "a" * 4100
    pool.append({"tag": "long-ident", "kind": "BLK", "a": 1, "b": 12, "input": longid + " + 1"})
    pool.append({"tag": "long-ident", "kind": "XTA", "a": 1, "b": 0, "input": "int x = %s;\nprocess P() { state S; init S; }\nsystem P;" % longid})
    pool.append({"tag": "long-ident", "kind": "QRY", "a": 0, "b": 0, "input": "E<> %s > 0" % longid})
    pool.append({"tag": "long-ident", "kind": "BLK", "a": 1, "b": 1, "input": "int b%s; int c = b%s;" % (longid, longid)})
    # the FILE* / file-name entry points (flex reads through its own buffer instead of a scanned string)
    for t in XTA_GOOD[:2] + XTA_BAD[:4]:
        pool.append({"tag": "xta-file", "kind": "TFI", "a": 1, "b": 0, "input": t})
    for tag, x in xml_pool()[::9]:
        pool.append({"tag": "xml-file", "kind": "XFI", "a": 1, "b": 0, "input": x})
    for q in QUERIES[:5]:
        pool.append({"tag": "query-file", "kind": "QFI", "a": 0, "b": 0, "input": q})
    return pool


# ---------------------------------------------------------------------------------------------------------------------
# the working directory is input too: `import "<relative name>" { ... };` is resolved against the directory the process is in
# WHEN THE CALL IS MADE.  Three directories: `lib` holds the libraries, `twin` holds another library under the same name
# (it lacks the imported function), `plain` holds none.  A call made in one of them must give what it gives first in a fresh
# process started in that directory -- wherever the process was when it parsed something earlier.
# ---------------------------------------------------------------------------------------------------------------------
EXT_SOURCES = {
    "lib": {"libc15ext.so": "int c15_twice(int v) { return 2 * v; }\ndouble c15_half(double v) { return v / 2; }\n",
            "sub/libc15sub.so": "int c15_sub(int v) { return v - 1; }\n"},
    "twin": {"libc15ext.so": "int c15_other(int v) { return v; }\n"},
    "plain": {},
}
EXT = {}        # directory name -> absolute path, filled by prepare_ext()
IMPORT_DECLS = [
    'import "libc15ext.so" { int c15_twice(int v); };',
    'import "libc15ext" { int c15_twice(int v); half = double c15_half(double v); };',      # the library adds the extension itself
    'import "./libc15ext.so" { int c15_twice(int v); };',
    'import "sub/libc15sub.so" int c15_sub(int v);',
    'import "libc15none.so" { int nothing(int v); };',                                       # in none of the directories
]


def prepare_ext():
    """builds the three directories once per cache (they are named by the hash of their sources)"""
    h = hashlib.sha256(json.dumps(EXT_SOURCES, sort_keys=True).encode()).hexdigest()[:12]
    root = os.path.join(core.CACHE, "c15-ext-" + h)
    if not os.path.exists(os.path.join(root, "done")):
        tmp = "%s.tmp%d" % (root, os.getpid())
        shutil.rmtree(tmp, ignore_errors=True)
        for d, libs in EXT_SOURCES.items():
            os.makedirs(os.path.join(tmp, d))
            for rel, src in libs.items():
                out = os.path.join(tmp, d, rel)
                os.makedirs(os.path.dirname(out), exist_ok=True)
                csrc = out + ".c"
                open(csrc, "w").write(src)
                subprocess.run(["gcc", "-shared", "-fPIC", "-o", out, csrc], check=True, stdout=subprocess.PIPE, stderr=subprocess.PIPE)
                os.remove(csrc)
        open(os.path.join(tmp, "done"), "w").write("ok\n")
        try:
            os.rename(tmp, root)
        except OSError:
            shutil.rmtree(tmp, ignore_errors=True)      # another run was faster
    EXT.clear()
    EXT.update({d: os.path.join(root, d) for d in EXT_SOURCES})
    return root


def import_pool():
    pool = []
    tail = "\nint y = 1;\nprocess P() { state S0; init S0; }\nsystem P;"
    for decl in IMPORT_DECLS:
        xml = ('<?xml version="1.0" encoding="utf-8"?>\n<nta>\n<declaration>%s\nint y = 1;</declaration>\n<template><name>Q</name>'
               '<location id="id0"><name>L0</name></location><init ref="id0"/></template>\n<system>system Q;</system>\n</nta>\n'
               % decl.replace("&", "&amp;").replace("<", "&lt;"))
        pool += [{"tag": "import", "kind": "XTA", "a": 1, "b": 0, "input": decl + tail},
                 {"tag": "import", "kind": "XML", "a": 1, "b": 0, "input": xml},
                 {"tag": "import", "kind": "BLK", "a": 1, "b": 1, "input": decl + " int y;"},
                 {"tag": "import", "kind": "TFI", "a": 1, "b": 0, "input": decl + tail},
                 {"tag": "import", "kind": "XFI", "a": 1, "b": 0, "input": xml}]
    return pool


def gen_cwd_sequences(ctx, pool):
    """every import call is made in each of the three directories, before and after a call of any other kind made somewhere else"""
    r = ctx.rng
    others = [c for c in pool if c["kind"] in ("XML", "XTA", "BLK", "QRY", "TFI", "XFI") and c["tag"] not in ("xml-fault",)]
    seqs = []
    for c in import_pool():
        for _ in range(1 if not ctx.thorough else 6):
            warm = r.choice(others)
            # (1) the process has parsed something in another directory before it comes to the directory of the model
            seqs.append({"class": "cwd", "items": [{"cwd": "plain"}, warm, {"cwd": "lib"}, c, {"cwd": "plain"}, c, {"cwd": "twin"}, c,
                                                    {"cwd": "lib"}, c]})
            # (2) the first call of the process is made in the directory of the model, the later ones elsewhere
            seqs.append({"class": "cwd", "items": [{"cwd": "lib"}, c, {"cwd": "twin"}, warm, c, {"cwd": "plain"}, c]})
    return seqs


# a clean text that reads every piece of parser/lexer state an aborted or exception-ended parse could leave behind: array
# declarators after a type-indexed dimension (`types`), chained transitions (`rootTransId`), comments (flex start condition)
PROBE = ("const int N = 3; typedef int[0,N-1] id_t;\nint buf[N], head, tail; int grid[id_t][2]; /* c */ clock z;\n"
         "process P(id_t i) { state A, B, C; init A; trans A -> B { guard z > 1 && buf[i] == head; assign buf[i] = 1, z = 0; }, "
         "-> C { assign tail = 2; }, B -> A { }, -> C { }; }\nsystem P;")
ABORT_TEXTS = [
    "typedef int[0,3] id_t;\nint m[id_t][3]; int k[2][id_t]; /* note */ int w;",
    "process Q() { state A, B, C; init A; trans A -> B { guard 1 > 0; }, -> C { assign w = 1; }, B -> C { }; } // end\nsystem Q;",
    "int f(int a[2], int b) { int loc[3]; for (i : int[0,2]) { loc[i] = a[0] /* c */ + b; } return loc[0]; }",
    "struct { int u[2]; int v; } s = { {1, 2}, 3 }; const string q = \"str\"; int x = (1 ? 2 : 3);",
]
DIAG_TEXTS = [  # two diagnostics whose ranges have four distinct boundaries; swept across 2^31-1 and 2^32-1
    "int x; clock c;\nprocess P() { state S0, S1; init S0;\n trans S0 -> S1 { guard c >= zz; assign x = yy + 1; }; }\nsystem P;",
]


def gen_state_sequences(ctx):
    """families aimed at state that survives a call: (1) a parse that ends at EVERY point of a text (end of input inside a
    production, with a recording builder, a builder that rethrows the first diagnostic, and the PrettyPrinter), followed by the
    probe; (2) a text with diagnostics placed at every offset relative to 2^31-1 (INT_MAX doubles as `unknown position`)."""
    r = ctx.rng
    seqs = []
    probe = {"tag": "probe", "kind": "XTA", "a": 1, "b": 0, "input": PROBE}
    for t in XTA_ERRNO:
        for kind in ("XTA", "BLK"):
            seqs.append({"class": "errno", "items": [{"tag": "xta-errno", "kind": kind, "a": 1, "b": 0, "input": t}, probe,
                                                     {"tag": "query", "kind": "QRY", "a": 0, "b": 0, "input": "A[] v <= 1"}]})
    for t in ABORT_TEXTS:
        cuts = list(range(1, len(t) + 1))
        if not ctx.thorough:
            cuts = sorted(r.sample(cuts, 24))
        for cut in cuts:
            for kind, part in (("BLK", 0), ("EHT", 0), ("PPR", 0)):
                seqs.append({"class": "aborted", "items": [{"tag": "aborted-" + kind, "kind": kind, "a": 1, "b": part, "input": t[:cut]}, probe]})
    for t in DIAG_TEXTS:
        ks = list(range(0, len(t) + 3))       # every placement: the boundary values are few and specific
        for k in ks:
            # parsed as a block the text starts exactly at the seeded counter (no built-in declarations in front of it)
            seqs.append({"class": "sweep-2^31", "items": [{"seed": (1 << 31) - 1 - k}, {"tag": "sweep", "kind": "BLK", "a": 1, "b": 0, "input": t}]})
        if ctx.thorough:
            # the whole-document entry point parses the built-in declarations first (about 2300 characters)
            for k in range(0, len(t) + 2600):
                seqs.append({"class": "sweep-2^31", "items": [{"seed": (1 << 31) - 1 - k}, {"tag": "sweep", "kind": "XTA", "a": 1, "b": 0, "input": t}]})
    return seqs


def script_of(seq):
    out = []
    for item in seq:
        if "seed" in item:
            out.append("SEED %d\n" % item["seed"])
        elif "cwd" in item:
            out.append("CWD %s\n" % hexs(EXT[item["cwd"]]))
        else:
            out.append("CALL %s %d %d %s\n" % (item["kind"], item["a"], item["b"], hexs(item["input"])))
    return "".join(out)


def gen_sequences(ctx, pool):
    r = ctx.rng
    seqs = []
    n = 2000 if not ctx.thorough else 30000
    by_tag = {}
    for c in pool:
        by_tag.setdefault(c["tag"], []).append(c)
    tags = sorted(by_tag)
    for i in range(n):
        k = r.randint(2, 8)
        # the kind of call first (so that the many faulted XML variants do not crowd out the rest), then the input
        calls = [r.choice(by_tag[r.choice(tags)]) for _ in range(k)]
        cls = i % 4
        seq = {"class": ["plain", "plain", "near-2^31", "near-2^32"][cls], "items": []}
        if cls == 2:
            # the counter crosses 2^31 (INT_MAX doubles as "unknown position") somewhere inside the sequence
            at = r.randint(0, k - 1)
            for j, c in enumerate(calls):
                if j == at:
                    seq["items"].append({"seed": (1 << 31) - 1 - r.choice([0, 1, 2, 5, 17, 60, 300, 2000])})
                seq["items"].append(c)
        elif cls == 3:
            at = r.randint(0, k - 1)
            for j, c in enumerate(calls):
                if j == at:
                    seq["items"].append({"seed": W - 1 - r.choice([0, 1, 2, 5, 17, 60, 300, 2000, 40000])})
                seq["items"].append(c)
        else:
            seq["items"] = calls
        seqs.append(seq)
    return seqs


# fixed witnesses of the known exception shapes (always run, also used by replay)
def witness_sequences(pool):
    good_xml = [c for c in pool if c["tag"] == "xml-good"][0]
    return [
        {"class": "witness:wrap", "items": [{"seed": W - 6},
                                           {"tag": "block", "kind": "BLK", "a": 1, "b": 1, "input": "int a; /* c\n\n\n\n\n\n\n\n */ int b;"},
                                           {"tag": "block", "kind": "BLK", "a": 1, "b": 1, "input": "int c = zz;\n"}]},
        {"class": "witness:wrap-xml", "items": [{"seed": W - 500}, good_xml, good_xml]},
        {"class": "witness:empty-input", "items": [{"tag": "block", "kind": "BLK", "a": 1, "b": 1, "input": "int a;\nint b;\n"},
                                                  {"tag": "block-empty", "kind": "BLK", "a": 1, "b": 5, "input": ""}]},
    ]


TIMEOUT = 60          # seconds per sequence and mode; a sequence normally takes a few milliseconds
HANGS = {"n": 0}


def strip(r):
    return {k: v for k, v in r.items() if k not in ("what", "pos0", "pos1")}


def run_pair(exe, seq):
    script = script_of(seq["items"])
    env = {"C15_TMPDIR": core.CACHE}
    if HANGS["n"] >= 3:
        # the library hangs on these inputs (seen three times already): do not wait for every remaining sequence
        return (-999, "", "skipped after repeated timeouts"), (-999, "", "skipped after repeated timeouts")
    rc1, out1, err1, _ = core.run_exe(exe, ["seq"], stdin_text=script, timeout=TIMEOUT, env=env)
    rc2, out2, err2, _ = core.run_exe(exe, ["fresh"], stdin_text=script, timeout=TIMEOUT, env=env)
    if rc1 in (-999, -14) or rc2 in (-999, -14):
        HANGS["n"] += 1
    return (rc1, out1, err1), (rc2, out2, err2)


def diag_shape(r):
    return [(d[0], d[1], d[2]) for d in r.get("diags", [])]


WRAP_TEXTS = ["int a;\nint b;\n/* c\n */ int c;\n", "/* one\n two\n three */\nclock x;\n", "int f(int v) {\n  return v + 1;\n}\n\n\nint g;\n",
              "// line\n// line\nconst int K = 3;\r\nint z[K];\r\n", "int a; /* open\n\n\n"]


def run_interleaved(ctx, exe, stats):
    """a query against document A must give the same result whether or not other documents were parsed after A was built"""
    seeds = M.seeds()
    docs = [M.render(m) for m in seeds]
    small = ('<?xml version="1.0" encoding="utf-8"?><nta><declaration>int k;</declaration><template><name>S</name><location id="id0"/>'
             '<init ref="id0"/></template><system>system S;</system></nta>')
    qs = ["A[] not deadlock", "E<> zz9 > 0", "A[] forall (i : int[0,1]) true", "E<> len > (", "E<> 1 +"]
    n, bad = 0, 0
    for ai, A in enumerate(docs):
        for B in [small] + [d for bi, d in enumerate(docs) if bi != ai][:2]:
            for q in qs:
                items = [{"kind": "QXD", "a": k, "b": 0, "input": A + "\x01" + B + "\x01" + q} for k in (0, 1, 2)]
                rc, out, err, _ = core.run_exe(exe, ["fresh"], stdin_text=script_of(items), timeout=TIMEOUT, env={"C15_TMPDIR": core.CACHE})
                lines = [l for l in out.split("\n") if l.startswith("{")]
                n += 1
                try:
                    rs = [strip(json.loads(l)) for l in lines]
                except Exception:
                    rs = []
                if rc != 0 or len(rs) != 3 or rs[0] != rs[1] or rs[0] != rs[2]:
                    bad += 1
                    if bad == 1:
                        why = "the process died (rc=%s)" % rc if (rc != 0 or len(rs) != 3) else \
                            "exception %r / diagnostics %r instead of %r / %r" % (rs[1].get("exc") or rs[2].get("exc"), diag_shape(rs[1])[:2], rs[0].get("exc"), diag_shape(rs[0])[:2])
                        ctx.finding("history:query-after-another-document", "the query %r against a document gives another result once a second document "
                                    "has been parsed in between: %s" % (q, why),
                                    {"entry": "parse_XML_buffer(A); [parse_XML_buffer(B) into another Document;] parseProperty(query) against A  (harness c15 kind QXD)",
                                     "script": script_of(items), "results": lines[:3], "stderr": err[-1500:]})
    stats["interleaved_document_cases"] = n
    stats["interleaved_document_differences"] = bad


def run_sequences(ctx, exe, seqs):
    import concurrent.futures as cf
    with cf.ThreadPoolExecutor(max(2, core.NCPU // 2)) as ex:
        return list(zip(seqs, ex.map(lambda s: run_pair(exe, s), seqs)))


def analyse(ctx, results, stats):
    """compare every call of every sequence with its fresh twin; classify the differences by shape"""
    seen = {}
    for seq, ((rc1, out1, err1), (rc2, out2, err2)) in results:
        calls = [it for it in seq["items"] if "seed" not in it and "cwd" not in it]
        l1 = [l for l in out1.split("\n") if l.strip()]
        l2 = [l for l in out2.split("\n") if l.strip()]
        wrapped = False      # the counter has wrapped (or the wrap exception has been thrown) earlier in this process
        for i, c in enumerate(calls):
            stats["calls"] += 1
            stats["by_tag"][c["tag"]] = stats["by_tag"].get(c["tag"], 0) + 1
            a = json.loads(l1[i]) if i < len(l1) else {"crashed": True, "rc": rc1, "stderr": err1[-1500:]}
            b = json.loads(l2[i]) if i < len(l2) else {"crashed": True, "rc": rc2, "stderr": err2[-1500:]}
            for x in (a, b):
                if x.get("crashed") and x.get("status") == 14:
                    x["rc"] = -14          # the forked child was ended by SIGALRM
            if b.get("exc"):
                stats["exceptions"][b["exc"]] = stats["exceptions"].get(b["exc"], 0) + 1
            if b.get("diags"):
                stats["calls_with_diagnostics"] += 1
            wraps_here = ("pos0" in a and a["pos1"] < a["pos0"]) or ("monotonically" in a.get("what", ""))
            if a.get("pos0", 0) < (1 << 31) <= a.get("pos1", 0):
                stats["calls_crossing_2^31"] += 1
            if wraps_here:
                stats["calls_crossing_2^32"] += 1
            same = strip(a) == strip(b)
            if not same:
                stats["differences"] += 1
                fields = [k for k in sorted(set(strip(a)) | set(strip(b))) if strip(a).get(k) != strip(b).get(k)]
                replay = {"sequence": seq, "call": i, "in_sequence": a, "fresh": b, "fields": fields}
                if (a.get("crashed") and a.get("rc") in (-999, -14)) or (b.get("crashed") and b.get("rc") in (-999, -14)):
                    key = "hang:%s" % c["tag"]
                elif a.get("crashed") or b.get("crashed"):
                    key = "crash:%s" % c["tag"]
                elif wraps_here:
                    key = "history:position>=2^32"
                elif wrapped:
                    key = "history:position>=2^32"       # after-effects in the same process (flex left in `comment`, stale buffer)
                    replay["note"] = "after-effect of an earlier wrap in this process"
                elif c["input"] == "" and c["kind"] in ("BLK", "THR") and fields == ["diags"] and diag_shape(a) == diag_shape(b):
                    key = "history:empty-input-location"
                else:
                    key = "history:%s:%s:%s" % (seq["class"].split(":")[0], c["tag"], "+".join(fields))
                seen.setdefault(key, 0)
                seen[key] += 1
                what = "call %d (%s, %s) gives a different result in the sequence than first in a fresh process: differs in %s" % (
                    i, c["kind"], c["tag"], fields)
                if key == "history:position>=2^32":
                    what = ("the 32-bit position counter wraps: position_index_t::add throws std::logic_error / later calls misbehave; "
                            "call %d (%s) differs from the fresh run in %s" % (i, c["tag"], fields))
                if key == "history:empty-input-location":
                    what = ("syntax error of an empty text is located at the previous parse's last token (stale yylloc): in sequence %s, fresh %s"
                            % (a["diags"], b["diags"]))
                ctx.finding(key, what, replay)
            wrapped = wrapped or wraps_here
    return seen


def run(ctx):
    cov = ctx.coverage
    tie_error = None
    try:
        cov["translated"] = pos_tables.generate_all(core.REPO, core.LEAN_DIR, core.write_if_changed)
        info = pos_tables.parse_globals(core.REPO)
        core.write_if_changed(GEN_PARSE_GLOBALS, pos_tables.parse_globals_lean(info))
        if info["missing_parts"]:
            tie_error = "setStartToken does not assign syntax_token for %r" % info["missing_parts"]
        cov["translated"]["start_tokens"] = len(info["parts"])
        cov["translated"]["global_accesses"] = len(info["accesses"])
        cov["translated"]["yylloc_initialised_per_call"] = info["yylloc_init"]
    except pos_tables.TranslateError as ex:
        tie_error = str(ex)
        ctx.log("translator failed:", ex)
    bp = core.build_repo("plain")
    exe = core.build_harness(bp, "c15p", ["c15.cpp"])
    ba = core.build_repo("asan")
    exe_asan = core.build_harness(ba, "c15", ["c15.cpp"])
    ok, log = ctx.prove(MODULE, ["drv_c15"])
    if not ok:
        ctx.log("proof broken:", core.failing_theorems(log) or log[-1500:])
        for path, thm, msg in (core.failing_theorems(log) or [("?", "lake build", log[-300:])]):
            ctx.proof_broken(thm, msg + "\n" + log[-1500:], "call sequences of this run")
    if tie_error:
        ctx.proof_broken("translate/pos_tables.py", tie_error, "call sequences of this run")
    pool = call_pool()
    stats = {"calls": 0, "differences": 0, "by_tag": {}, "exceptions": {}, "calls_with_diagnostics": 0, "calls_crossing_2^31": 0,
             "calls_crossing_2^32": 0}
    wit = witness_sequences(pool)
    prepare_ext()
    state_seqs, random_seqs = gen_state_sequences(ctx), gen_sequences(ctx, pool)
    cwd_seqs = gen_cwd_sequences(ctx, pool)
    seqs = wit + state_seqs + cwd_seqs + random_seqs
    results = run_sequences(ctx, exe, seqs)
    seen = analyse(ctx, results, stats)
    run_interleaved(ctx, exe, stats)
    # a seeded sample under the sanitizers (fork is slow there)
    sample = wit + cwd_seqs[:(6 if not ctx.thorough else 60)] + gen_sequences(ctx, pool)[:(40 if not ctx.thorough else 400)]
    stats_a = {"calls": 0, "differences": 0, "by_tag": {}, "exceptions": {}, "calls_with_diagnostics": 0, "calls_crossing_2^31": 0,
               "calls_crossing_2^32": 0}
    analyse(ctx, run_sequences(ctx, exe_asan, sample), stats_a)
    cov["asan_sample_calls"] = stats_a["calls"]
    # --- model vs library ---------------------------------------------------------------------------------------------------
    drv = core.lean_exe("drv_c15")
    dis = 0
    if os.path.exists(drv):
        rc, out, _, _ = core.run_exe(drv, [], stdin_text="E\n")
        computed = [x for x in out.strip().split(",") if x]
        cov["computed_exception_shapes"] = computed
        for shape in computed:
            if shape not in seen:
                dis += 1
                ctx.proof_broken("correspondence:" + shape, "the model computes the exception shape %s but its witness sequence shows no difference "
                                 "on the real library" % shape, "witness sequences")
        # wrap prediction: a block parse started p0 characters before 2^32
        cases = []
        for t in WRAP_TEXTS:
            for back in list(range(0, len(t) + 3)) + [len(t) + 40, 100000]:
                cases.append((W - 1 - back if back < W else 0, t))
        wseqs = [{"class": "wrap-prediction", "items": [{"seed": p0}, {"tag": "block", "kind": "BLK", "a": 1, "b": 1, "input": t}]} for p0, t in cases]
        wres = run_sequences(ctx, exe, wseqs)
        rc, out, _, _ = core.run_exe(drv, [], stdin_text="".join("W %d %s\n" % (p0, hexs(t)) for p0, t in cases))
        pred = out.split("\n")
        for k, ((p0, t), (seq, ((rc1, out1, err1), _))) in enumerate(zip(cases, wres)):
            try:
                a = json.loads(out1.split("\n")[0])
            except Exception:
                a = {"exc": "crashed"}
            real = "throws" if (a.get("exc") == "std::logic_error" and "monotonically" in a.get("what", "")) else ("ok" if not a.get("exc") else a["exc"])
            model = pred[k].split()[0] if k < len(pred) and pred[k] else "?"
            if real != model:
                dis += 1
                if dis <= 2:
                    ctx.proof_broken("correspondence:wrap-prediction", "block parse from counter %d of %r: library %s, model %s" % (p0, t, real, pred[k] if k < len(pred) else "?"),
                                     "wrap prediction cases")
        cov["wrap_prediction_cases"] = len(cases)
    cov["sequences"] = len(seqs)
    cov["correspondence_cases"] = stats["calls"] + cov.get("wrap_prediction_cases", 0)
    cov["correspondence_disagreements"] = dis
    cov["evaluations"] = stats["calls"] * 2 + stats_a["calls"] * 2 + cov.get("wrap_prediction_cases", 0)
    cov["distinct_nontrivial"] = stats["calls_with_diagnostics"]
    cov["distribution"] = stats
    cov["difference_shapes"] = seen
    cov["rule"] = ("result of call i inside a sequence (one process) == result of the same call run first in a freshly forked process: return value, "
                   "exception class, diagnostics (message, path, line:column of both ends), canonical document dump, supported-methods verdict")
    cov["samples"] = [{"class": s["class"], "calls": [("SEED", c["seed"]) if "seed" in c else ("CWD", c["cwd"]) if "cwd" in c else (c.get("tag"), c.get("kind"))
                                                      for c in s["items"]]}
                      for s in seqs[:2] + seqs[-2:]]
    ctx.assumptions += [
        "the scanner and parser themselves (flex/bison tables) are deterministic functions of the text and of the modelled globals",
        "C15_shift speaks about settled positions of honest lexemes (see C06); string literals with newlines shift lines identically in both runs",
        "exception *classes* are compared, not what() (XMLReaderError carries errno text by design)",
        "libxml2's own global state is not modelled; it is exercised by the XML calls of the sequences",
    ]


def replay(ctx, path):
    r = json.load(open(path))
    rep = r.get("replay", {})
    print(json.dumps({k: v for k, v in r.items() if k != "replay"}, indent=1))
    if not isinstance(rep, dict) or "sequence" not in rep:
        print(json.dumps(rep, indent=1)[:5000])
        return 1
    bp = core.build_repo("plain")
    exe = core.build_harness(bp, "c15p", ["c15.cpp"])
    prepare_ext()
    (rc1, out1, err1), (rc2, out2, err2) = run_pair(exe, rep["sequence"])
    l1, l2 = [l for l in out1.split("\n") if l.strip()], [l for l in out2.split("\n") if l.strip()]
    bad = 0
    for i, (x, y) in enumerate(zip(l1, l2)):
        a, b = strip(json.loads(x)), strip(json.loads(y))
        if a != b:
            bad += 1
            print("call %d differs:\n  in sequence: %s\n  fresh      : %s" % (i, json.dumps(a)[:1500], json.dumps(b)[:1500]))
    if len(l1) != len(l2):
        bad += 1
        print("different number of results: %d vs %d\n%s" % (len(l1), len(l2), (err1 + err2)[-2000:]))
    return 1 if bad else 0
