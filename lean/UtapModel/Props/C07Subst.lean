/-
C07 / C19 — substitution of the instantiation arguments into the type of a process member (`P.x` in a query).

Model: Model/TypeSubst.lean (`expression_t::subst`, `type_t::subst`, the double loop of `ExpressionBuilder::expr_dot` over the process's
mapping); translate/typesubst.py matches the three C++ texts and regenerates how many rounds the loop makes (Gen/TypeSubstCfg.lean).

What is proved:
 * C19: substituting a symbol by itself is the identity; a substitution replaces exactly the identifier occurrences of the symbol (which
   symbols occur afterwards; nothing changes where the symbol does not occur) -- for expressions and through types.
 * C07: in the type of `P.x` no parameter of any instantiation step is left, whatever the order in which the mapping is stored (it is a
   std::map ordered by symbol address) and however many steps of partial instantiation lie between the template and the process -- the
   arguments of the steps depend on each other without a cycle, which is all that is used.  For a single-step instantiation with closed
   arguments the order of the mapping does not matter at all.
 * the repetition cannot be dropped: one round in an unlucky order leaves a parameter behind (witness; this was the defect repaired by
   c2a3e96).
-/
import UtapModel.Lemmas.TypeSubst

namespace UtapModel.C07Subst
open UtapModel.TypeSubst UtapModel.TypeSubstCfg

/-- **tie T**: the bodies of `expression_t::subst` and `type_t::subst` are the texts the model was written from, and `expr_dot` makes one
    round per mapping entry -/
theorem C07_subst_cfg : substSkeletonsMatch = true ∧ roundsPerMappingEntry = true := by decide

/-! ### C19: substitution laws -/

/-- substituting a symbol by itself is the identity (expressions and types) -/
theorem C19_subst_self (s : Nat) (e : E) (t : T) : substE s (.id s) e = e ∧ substT s (.id s) t = t :=
  ⟨substE_self s e, substT_self s t⟩

/-- **exactly the occurrences of the symbol are replaced**: afterwards `x` occurs iff it occurred (and is not the symbol) or the symbol
    occurred and `x` occurs in the argument; where the symbol does not occur nothing changes -/
theorem C19_subst_exact (x s : Nat) (a e : E) (t : T) :
    occE x (substE s a e) = ((x != s && occE x e) || (occE s e && occE x a)) ∧
    occT x (substT s a t) = ((x != s && occT x t) || (occT s t && occE x a)) ∧
    (occE s e = false → substE s a e = e) ∧ (occT s t = false → substT s a t = t) :=
  ⟨occE_subst x s a e, occT_subst x s a t, substE_notocc s a e, substT_notocc s a t⟩

/-- substitution through a type is substitution in every expression the type carries, the structure kept (`embed` is injective on structure) -/
theorem C19_subst_type_structure (s : Nat) (a : E) (t : T) : embed (substT s a t) = substE s a (embed t) := embed_subst s a t

/-- independent substitutions commute -/
theorem C19_subst_commute (s1 s2 : Nat) (e1 e2 : E) (t : T) (hne : s1 ≠ s2) (h1 : occE s1 e2 = false) (h2 : occE s2 e1 = false) :
    substT s1 e1 (substT s2 e2 t) = substT s2 e2 (substT s1 e1 t) := substT_comm s1 s2 e1 e2 t hne h1 h2

/-! ### C07: the type of `P.x` -/

/-- **no parameter is left in the type of `P.x`**: for a mapping whose arguments depend on each other without a cycle (`r` ranks the
    parameters; an argument mentions only parameters of smaller rank) and whose ranks are below the number of entries, after `expr_dot`'s
    rounds no mapped symbol occurs -- in ANY order of the mapping's entries, for any type -/
theorem C07_member_type_closed (m : List (Nat × E)) (r : Nat → Nat) (hac : Acyclic m r) (hr : ∀ x, isKey m x = true → r x < m.length)
    (t : T) (x : Nat) (hx : isKey m x = true) : occT x (dotType m t) = false := by
  have hB : Below m r (0 + m.length) t := fun y hy _ => by simpa using hr y hy
  have h0 := passes_lower hac m.length 0 t hB
  have hcfg : dotType m t = passes m m.length t := by
    simp only [dotType, dotTypeCfg, C07_subst_cfg.2, if_true]
  cases ho : occT x (dotType m t) with
  | false => rfl
  | true =>
    rw [hcfg] at ho
    exact absurd (h0 x hx ho) (Nat.not_lt_zero _)

/-- the same, for the expressions inside: the embedding of the result mentions no parameter -/
theorem C07_member_type_closed_tree (m : List (Nat × E)) (r : Nat → Nat) (hac : Acyclic m r) (hr : ∀ x, isKey m x = true → r x < m.length)
    (t : T) (x : Nat) (hx : isKey m x = true) : occE x (embed (dotType m t)) = false := by
  rw [occ_embed]; exact C07_member_type_closed m r hac hr t x hx

/-- **single-step instantiation (closed arguments): the order of the mapping is irrelevant** and one round already gives the result -/
theorem C07_member_type_order_irrelevant (m m' : List (Nat × E)) (hp : m.Perm m') (hnd : (m.map (·.1)).Nodup)
    (hcl : ∀ p ∈ m, ∀ q ∈ m, occE q.1 p.2 = false) (t : T) : dotType m t = dotType m' t := by
  -- after one round no mapped symbol occurs (closed arguments have rank 0), so every further round is the identity
  have key : ∀ (l : List (Nat × E)), l.Perm m → ∀ k, passes l (k + 1) t = pass m t := by
    intro l hl k
    have hl' : ∀ p ∈ l, ∀ q ∈ l, occE q.1 p.2 = false := fun p hp q hq => hcl p (hl.mem_iff.1 hp) q (hl.mem_iff.1 hq)
    have hndl : (l.map (·.1)).Nodup := ((hl.map (·.1)).nodup_iff).2 hnd
    have hac : Acyclic l (fun _ => 0) := by
      intro p hp y hy ho
      obtain ⟨q, hq, rfl⟩ := List.mem_map.1 ((isKey_iff l y).1 hy)
      rw [hl' p hp q hq] at ho; cases ho
    have h1 : Below l (fun _ => 0) 0 (pass l t) := pass_lowers hac (fun _ _ _ => Nat.zero_lt_one)
    have hst : ∀ y, isKey l y = true → occT y (pass l t) = false := by
      intro y hy
      cases ho : occT y (pass l t) with
      | false => rfl
      | true => exact absurd (h1 y hy ho) (Nat.not_lt_zero _)
    simp only [passes, passes_stable l k (pass l t) hst]
    exact pass_perm hl hndl hl' t
  have hlen : m'.length = m.length := hp.length_eq.symm
  cases hm : m.length with
  | zero =>
    have : m = [] := List.length_eq_zero_iff.1 hm
    subst this
    have : m' = [] := hp.nil_eq.symm ▸ rfl
    subst this; rfl
  | succ k =>
    simp only [dotType, dotTypeCfg, C07_subst_cfg.2, if_true, hlen, hm]
    rw [key m (List.Perm.refl m) k, key m' hp.symm k]

/-! ### witnesses -/

/-- `Q(m) = T(m, 4); R = Q(6);` : template parameters p = 1, q = 2, the parameter m = 3 of Q;  `int[0,p] yd; int[0,q] ye;` -/
private def rangeTo (s : Nat) : T := .withExpr (.withExpr (.child (.prim "RANGE") "" (.prim "INT")) (.atom "0")) (.id s)
private def chainMap : List (Nat × E) := [(3, .atom "6"), (1, .id 3), (2, .atom "4")]      -- m before p: the unlucky order
private def chainRank : Nat → Nat := fun x => if x = 1 then 1 else 0

theorem C07_chain_acyclic : Acyclic chainMap chainRank := by
  intro p hp x hk ho
  simp only [chainMap, List.mem_cons, List.mem_nil_iff, or_false] at hp
  rcases hp with rfl | rfl | rfl
  · simp [occE] at ho
  · simp only [occE, beq_iff_eq] at ho; subst ho; decide
  · simp [occE] at ho

/-- the hypotheses of `C07_member_type_closed` are met by the two-step chain -/
example : ∀ x, isKey chainMap x = true → occT x (dotType chainMap (rangeTo 1)) = false :=
  fun x hx => C07_member_type_closed chainMap chainRank C07_chain_acyclic (by
    intro y hy; simp only [chainRank, chainMap, List.length_cons, List.length_nil]; split <;> omega) (rangeTo 1) x hx

/-- and the result is the type with the argument of the OUTER step: `int[0,6]` -/
theorem C07_chain_result : dotType chainMap (rangeTo 1) = .withExpr (.withExpr (.child (.prim "RANGE") "" (.prim "INT")) (.atom "0")) (.atom "6") := by
  decide +kernel

/-- **the repetition cannot be dropped**: one round in this order leaves the parameter m of the intermediate instance in the type
    (the behaviour before the repair c2a3e96) -/
theorem C07_one_round_witness : occT 3 (dotTypeCfg false chainMap (rangeTo 1)) = true := by decide +kernel

end UtapModel.C07Subst
