/-
M-HEAP — expression trees with node identities, and `expression_t`'s clone / clone_deeper (3 overloads) / subst / equal /
get_size mirrored from src/expression.cpp (property C19).  Core Lean only.

A node is `node id attr children`; `id` is the identity of the C++ node object (`expression_t::data`, a shared_ptr):
two occurrences of the same `id` are the same object (sharing), a fresh `id` is a freshly allocated object.  Every
operation that allocates takes the next unused identity `n` and returns the new next one, in the order the C++ allocates
(`expression_t{kind, pos}` for the root before the children are visited).
`arityOf` (Gen/Arity.lean) is regenerated from the `switch` in `expression_t::get_size` on every run.
-/
import UtapModel.Gen.Kinds
import UtapModel.Gen.Arity

namespace UtapModel.Heap
open UtapModel

/-- the node's `std::variant<int32_t, synchronisation_t, double, StringIndex> value` -/
inductive Val where
  | int (v : Int)
  | sync (v : Nat)
  | dbl (bits : Nat)      -- IEEE-754 bit pattern
  | str (idx : Nat)
deriving DecidableEq, Repr, Inhabited

/-- what `expression_t::print` asks of a constant's type -/
inductive Ty where
  | bool | int | double | string | other
deriving DecidableEq, Repr, Inhabited

structure Attr where
  kind : Kind
  val : Val
  sym : Option Nat        -- identity of the `symbol_t` (`none` = the null symbol)
  ty : Ty
deriving DecidableEq, Repr, Inhabited

inductive HExpr where
  | null                                   -- the empty expression (`data == nullptr`)
  | node (id : Nat) (a : Attr) (sub : List HExpr)
deriving Repr, Inhabited

/-! ### IEEE `==` on bit patterns (what `a == b` does inside ValueTypeEquality for the `double` alternative) -/

def isNaN (b : Nat) : Bool := (b / 2 ^ 52) % 2 ^ 11 == 2047 && b % 2 ^ 52 != 0
def isZero (b : Nat) : Bool := b % 2 ^ 63 == 0
def dblEq (a b : Nat) : Bool := !isNaN a && !isNaN b && (a == b || (isZero a && isZero b))

/-- `std::visit(ValueTypeEquality{}, v1, v2)`: same alternative and `==` -/
def valEq : Val → Val → Bool
  | .int a, .int b => a == b
  | .sync a, .sync b => a == b
  | .dbl a, .dbl b => dblEq a b
  | .str a, .str b => a == b
  | _, _ => false

/-! ### get_size -/

def sizeOfAttr (a : Attr) : Nat :=
  match arityOf a.kind with
  | .fixed n => n
  | .counted => (match a.val with | .int v => v.toNat | _ => 0)
  | .unlisted => 0

def getSize : HExpr → Nat
  | .null => 0
  | .node _ a _ => sizeOfAttr a

def HExpr.id? : HExpr → Option Nat
  | .null => none
  | .node i _ _ => some i

/-! ### equal -/

/-- the test `get_size() != e.get_size() || kind != e.kind || !visit(ValueTypeEquality, value, e.value) || symbol != e.symbol` -/
def attrDiff (a b : Attr) : Bool :=
  sizeOfAttr a != sizeOfAttr b || a.kind != b.kind || !valEq a.val b.val || a.sym != b.sym

mutual
/-- `expression_t::equal`.  (`null` against a childless node dereferences a null pointer in the C++; parsed trees contain no
    empty sub-expressions, the model answers `false` there.) -/
def equal : HExpr → HExpr → Bool
  | .null, .null => true
  | .null, .node .. => false
  | .node .., .null => false
  | .node i a s, .node j b t =>
    if i == j then true
    else if attrDiff a b then false
    else equalL (sizeOfAttr a) s t
/-- the loop `for (i = 0; i < get_size(); i++) if (!sub[i].equal(e[i])) return false;` -/
def equalL : Nat → List HExpr → List HExpr → Bool
  | 0, _, _ => true
  | _ + 1, [], _ => false          -- reading past the end of `sub` (undefined behaviour in the C++)
  | n + 1, x :: xs, ys =>
    match ys with
    | [] => false
    | y :: ys' => equal x y && equalL n xs ys'
end

/-! ### clone, clone_deeper (3 overloads) -/

/-- `clone()`: a new root object, the same child objects -/
def clone (n : Nat) : HExpr → HExpr × Nat
  | .null => (.null, n)        -- (the C++ dereferences null here; never called on an empty expression)
  | .node _ a sub => (.node n a sub, n + 1)

mutual
/-- the three `clone_deeper` overloads copy every node; they differ in what happens to the symbol:
    `g = id` (plain), `g s = if s = from then to else s` (from, to), `g = resolve by name in the frame(s)` -/
def cloneDeeperWith (g : Option Nat → Option Nat) (n : Nat) : HExpr → HExpr × Nat
  | .null => (.null, n)
  | .node _ a sub =>
    let r := cloneDeeperWithL g (n + 1) sub
    (.node n { a with sym := g a.sym } r.1, r.2)
def cloneDeeperWithL (g : Option Nat → Option Nat) (n : Nat) : List HExpr → List HExpr × Nat
  | [] => ([], n)
  | e :: es =>
    let r1 := cloneDeeperWith g n e
    let r2 := cloneDeeperWithL g r1.2 es
    (r1.1 :: r2.1, r2.2)
end

def cloneDeeper (n : Nat) (e : HExpr) : HExpr × Nat := cloneDeeperWith id n e
def cloneDeeperSym (src dst : Option Nat) (n : Nat) (e : HExpr) : HExpr × Nat :=
  cloneDeeperWith (fun s => if s == src then dst else s) n e
/-- `resolve` = lookup of the symbol's name in `frame`, then in `select`; failure leaves the null symbol -/
def cloneDeeperFrame (resolve : Nat → Option Nat) (n : Nat) (e : HExpr) : HExpr × Nat :=
  cloneDeeperWith (fun s => match s with | none => none | some x => resolve x) n e

/-! ### subst -/

def isIdentOf (s : Nat) (a : Attr) : Bool := a.kind == .kIDENTIFIER && a.sym == some s

mutual
def subst (s : Nat) (r : HExpr) (n : Nat) : HExpr → HExpr × Nat
  | .null => (.null, n)
  | .node i a sub =>
    if isIdentOf s a then (r, n)
    else if sizeOfAttr a == 0 then (.node i a sub, n)
    else
      let q := substL s r (n + 1) (sizeOfAttr a) sub     -- `e = clone()` allocates first
      (.node n a q.1, q.2)
/-- `for (i = 0; i < get_size(); i++) e[i] = e[i].subst(symbol, expr);` — children beyond get_size() stay as they are -/
def substL (s : Nat) (r : HExpr) (n : Nat) : Nat → List HExpr → List HExpr × Nat
  | 0, es => (es, n)
  | _ + 1, [] => ([], n)
  | k + 1, e :: es =>
    let r1 := subst s r n e
    let r2 := substL s r r1.2 k es
    (r1.1 :: r2.1, r2.2)
end

/-! ### declarative counterparts (written from the statement, independent of get_size) -/

mutual
/-- all sub-trees of a tree (the tree itself first; empty sub-expressions included), pre-order -/
def subtrees : HExpr → List HExpr
  | .null => [.null]
  | .node i a sub => .node i a sub :: subtreesL sub
def subtreesL : List HExpr → List HExpr
  | [] => []
  | e :: es => subtrees e ++ subtreesL es
end

mutual
def ids : HExpr → List Nat
  | .null => []
  | .node i _ sub => i :: idsL sub
def idsL : List HExpr → List Nat
  | [] => []
  | e :: es => ids e ++ idsL es
end

mutual
/-- "replaces exactly the identifier occurrences of that symbol" -/
def substSpec (s : Nat) (r : HExpr) : HExpr → HExpr
  | .null => .null
  | .node i a sub => if isIdentOf s a then r else .node i a (substSpecL s r sub)
def substSpecL (s : Nat) (r : HExpr) : List HExpr → List HExpr
  | [] => []
  | e :: es => substSpec s r e :: substSpecL s r es
end

mutual
/-- the same tree up to node identities -/
def same : HExpr → HExpr → Bool
  | .null, .null => true
  | .node _ a s, .node _ b t => a == b && sameL s t
  | _, _ => false
def sameL : List HExpr → List HExpr → Bool
  | [], [] => true
  | x :: xs, ys => (match ys with | [] => false | y :: ys' => same x y && sameL xs ys')
  | [], _ :: _ => false
end

mutual
/-- a later in-place change of the node object `k` (assignment to a child slot, `set_type`, …) as every tree sees it -/
def mutate (k : Nat) (f : Attr → List HExpr → Attr × List HExpr) : HExpr → HExpr
  | .null => .null
  | .node i a sub => if i == k then .node i (f a sub).1 (f a sub).2 else .node i a (mutateL k f sub)
def mutateL (k : Nat) (f : Attr → List HExpr → Attr × List HExpr) : List HExpr → List HExpr
  | [] => []
  | e :: es => mutate k f e :: mutateL k f es
end

mutual
/-- the number of children `get_size()` reports equals the number that exist, at every node -/
def wellBuilt : HExpr → Bool
  | .null => true
  | .node _ a sub => sizeOfAttr a == sub.length && wellBuiltL sub
def wellBuiltL : List HExpr → Bool
  | [] => true
  | e :: es => wellBuilt e && wellBuiltL es
end

mutual
def noNaN : HExpr → Bool
  | .null => true
  | .node _ a sub => (match a.val with | .dbl b => !isNaN b | _ => true) && noNaNL sub
def noNaNL : List HExpr → Bool
  | [] => true
  | e :: es => noNaN e && noNaNL es
end

mutual
/-- the tree obtained by rebuilding the path to a node (fresh copies of the ancestors, as `clone()` + child assignment does)
    and putting `new` in its place -/
def replaceAt (new : HExpr) : List Nat → Nat → HExpr → HExpr × Nat
  | [], n, _ => (new, n)
  | _ :: _, n, .null => (.null, n)
  | p :: ps, n, .node _ a sub =>
    let r := replaceAtL new p ps (n + 1) sub
    (.node n a r.1, r.2)
def replaceAtL (new : HExpr) : Nat → List Nat → Nat → List HExpr → List HExpr × Nat
  | _, _, n, [] => ([], n)
  | 0, ps, n, e :: es => let r := replaceAt new ps n e; (r.1 :: es, r.2)
  | p + 1, ps, n, e :: es => let r := replaceAtL new p ps n es; (e :: r.1, r.2)
end

def subAt : List Nat → HExpr → HExpr
  | [], e => e
  | _ :: _, .null => .null
  | p :: ps, .node _ _ sub => subAt ps (sub.getD p .null)

/-! ### the arity with which the parser's builders construct each kind (src/ExpressionBuilder.cpp, StatementBuilder.cpp:
     create_unary / create_binary / create_ternary / create_nary / create_dot / create_sync, and the query builders) -/

def builtArity : Kind → Option Arity
  | .kPLUS | .kMINUS | .kMULT | .kDIV | .kMOD | .kBIT_AND | .kBIT_OR | .kBIT_XOR | .kBIT_LSHIFT | .kBIT_RSHIFT
  | .kAND | .kOR | .kXOR | .kPOW | .kMIN | .kMAX | .kLT | .kLE | .kEQ | .kNEQ | .kGE | .kGT | .kFRACTION
  | .kASSIGN | .kASS_PLUS | .kASS_MINUS | .kASS_DIV | .kASS_MOD | .kASS_MULT | .kASS_AND | .kASS_OR | .kASS_XOR
  | .kASS_LSHIFT | .kASS_RSHIFT | .kARRAY | .kCOMMA | .kFORALL | .kEXISTS | .kSUM
  | .kFMOD_F | .kFMAX_F | .kFMIN_F | .kFDIM_F | .kPOW_F | .kHYPOT_F | .kATAN2_F | .kLDEXP_F | .kNEXT_AFTER_F | .kCOPY_SIGN_F
  | .kRANDOM_ARCSINE_F | .kRANDOM_BETA_F | .kRANDOM_GAMMA_F | .kRANDOM_NORMAL_F | .kRANDOM_WEIBULL_F
  | .kLEADS_TO | .kA_UNTIL | .kA_WEAK_UNTIL | .kA_BUCHI | .kSCENARIO2 | .kSUP_VAR | .kINF_VAR | .kBOUNDS_VAR
  | .kPO_CONTROL | .kSAVE_STRAT | .kCONTROL_TOPT_DEF1 | .kMITL_DISJ | .kMITL_CONJ | .kDYNAMIC_EVAL => some (.fixed 2)
  | .kNOT | .kUNARY_MINUS | .kDOT | .kSYNC | .kPRE_INCREMENT | .kPOST_INCREMENT | .kPRE_DECREMENT | .kPOST_DECREMENT | .kRATE
  | .kABS_F | .kFABS_F | .kEXP_F | .kEXP2_F | .kEXPM1_F | .kLN_F | .kLOG_F | .kLOG10_F | .kLOG2_F | .kLOG1P_F | .kSQRT_F | .kCBRT_F
  | .kSIN_F | .kCOS_F | .kTAN_F | .kASIN_F | .kACOS_F | .kATAN_F | .kSINH_F | .kCOSH_F | .kTANH_F | .kASINH_F | .kACOSH_F | .kATANH_F
  | .kERF_F | .kERFC_F | .kTGAMMA_F | .kLGAMMA_F | .kCEIL_F | .kFLOOR_F | .kTRUNC_F | .kROUND_F | .kFINT_F | .kILOGB_F | .kLOGB_F
  | .kFP_CLASSIFY_F | .kIS_FINITE_F | .kIS_INF_F | .kIS_NAN_F | .kIS_NORMAL_F | .kSIGNBIT_F | .kIS_UNORDERED_F | .kRANDOM_F
  | .kRANDOM_POISSON_F | .kEF | .kEG | .kAF | .kAG | .kCONTROL | .kEF_CONTROL | .kCONTROL_TOPT_DEF2 | .kPMAX | .kSCENARIO
  | .kMITL_FORMULA | .kMITL_ATOM | .kMITL_NEXT | .kNUMOF => some (.fixed 1)
  | .kIDENTIFIER | .kCONSTANT | .kDEADLOCK | .kEXIT => some (.fixed 0)
  | .kINLINE_IF | .kFMA_F | .kRANDOM_TRI_F | .kLOAD_STRAT | .kCONTROL_TOPT | .kSMC_CONTROL
  | .kEXISTS_DYNAMIC | .kFORALL_DYNAMIC | .kSUM_DYNAMIC | .kMITL_EXISTS | .kMITL_FORALL | .kFOREACH_DYNAMIC => some (.fixed 3)
  | .kMITL_UNTIL | .kMITL_RELEASE => some (.fixed 4)
  | .kPROBA_BOX | .kPROBA_DIAMOND | .kPROBA_MIN_BOX | .kPROBA_MIN_DIAMOND | .kPROBA_EXP => some (.fixed 5)
  | .kMIN_EXP | .kMAX_EXP => some (.fixed 7)
  | .kPROBA_CMP => some (.fixed 8)
  | .kFUN_CALL | .kFUN_CALL_EXT | .kLIST | .kSIMULATE | .kSIMULATEREACH | .kSPAWN => some .counted
  | _ => none      -- type kinds, BOX / DIAMOND (passed as values) and VAR_INDEX (only `create_var_index`, which no builder calls)

/-- what get_size must answer for a node the builders made: the arity it was built with -/
def builtSize (a : Attr) (children : Nat) : Bool :=
  match builtArity a.kind with
  | some (.fixed n) => n == children
  | some .counted => a.val == .int children
  | _ => false

mutual
/-- a tree as the parser's builders make it -/
def parseBuilt : HExpr → Bool
  | .null => false
  | .node _ a sub => builtSize a sub.length && parseBuiltL sub
def parseBuiltL : List HExpr → Bool
  | [] => true
  | e :: es => parseBuilt e && parseBuiltL es
end

/-! ### printing, as far as equality is concerned (`expression_t::print`) -/

/-- DOT: member index, n-ary nodes: count, SYNC: direction -/
def valText : Val → String
  | .int v => toString v
  | .sync v => s!"sync{v}"
  | _ => ""

/-- the text a node contributes besides its children: constants by *type* then value, identifiers by symbol, … -/
def payload (symName : Nat → String) (fmtDouble : Nat → String) (a : Attr) : String :=
  if a.kind == .kCONSTANT || a.kind == .kVAR_INDEX then
    match a.ty, a.val with
    | .double, .dbl b => fmtDouble b
    | .string, .str i => s!"str{i}"
    | .int, .int v => toString v
    | _, .int v => if v != 0 then "true" else "false"
    | _, _ => "?"
  else if a.kind == .kIDENTIFIER then (match a.sym with | some s => symName s | none => "")
  else valText a.val

mutual
/-- any printer that lays out a node from its kind, its payload and the texts of its children -/
def text (symName : Nat → String) (fmtDouble : Nat → String) (lay : Kind → String → List String → String) : HExpr → String
  | .null => ""
  | .node _ a sub => lay a.kind (payload symName fmtDouble a) (textL symName fmtDouble lay sub)
def textL (symName : Nat → String) (fmtDouble : Nat → String) (lay : Kind → String → List String → String) : List HExpr → List String
  | [] => []
  | e :: es => text symName fmtDouble lay e :: textL symName fmtDouble lay es
end

mutual
/-- corresponding constants have the same type class and (floating point) the same bit pattern -/
def constCompat : HExpr → HExpr → Bool
  | .node _ a s, .node _ b t =>
    ((!(a.kind == .kCONSTANT || a.kind == .kVAR_INDEX)) || (a.ty == b.ty && a.val == b.val)) && constCompatL s t
  | _, _ => true
def constCompatL : List HExpr → List HExpr → Bool
  | x :: xs, ys => (match ys with | [] => true | y :: ys' => constCompat x y && constCompatL xs ys')
  | [], _ => true
end

end UtapModel.Heap
