/- M-EFFECT: executable model of libutap's side-effect / dependency analysis (properties C11 and C13).

   Mirrors, parameterised by the generated record `Cfg` (Gen/EffectGen.lean, translate/effects.py):
     expression_t::get_symbol / get_symbols            src/expression.cpp:640-723
     expression_t::collect_possible_writes / _reads    src/expression.cpp:1733-1834
     ExpressionVisitor over the statement classes      src/statement.cpp:262-345, include/utap/statement.h
     TypeChecker::visitFunction (changes / depends)    src/typechecker.cpp:1229-1248
     changes_any_variable, isCompileTimeComputable, CompileTimeComputableValues   src/typechecker.cpp:186-208, 323-340
   Sets are lists (compared as sets by the driver).  Core Lean only, total, structurally recursive (so that `decide`
   evaluates the model in the kernel). -/
import UtapModel.Model.EffectCfg
namespace UtapModel.Effect
open UtapModel

/-- A symbol (`symbol_t`), identified by a number; `0` is the null symbol `symbol_t()`. -/
abbrev Sym := Nat

/-- `expression_t`: kind, symbol (meaningful for IDENTIFIER only), children. -/
inductive Expr where
  | node (k : Kind) (sym : Sym) (subs : List Expr)
deriving Repr, Inhabited

/-- the empty expression (`expression_t::empty()`); every collector returns nothing on it -/
def Expr.nil : Expr := .node .kUNKNOWN 0 []

def Expr.kind : Expr → Kind
  | .node k _ _ => k
def Expr.subs : Expr → List Expr
  | .node _ _ s => s

/-- Statements (`include/utap/statement.h`).  `inits` = initialisers of the block frame's variables, in frame order. -/
inductive Stmt where
  | empty
  | breakS
  | continueS
  | exprS (e : Expr)
  | assertS (e : Expr)
  | forS (init cond step : Expr) (body : Stmt)
  | iterS (sym : Sym) (body : Stmt)
  | whileS (cond : Expr) (body : Stmt)
  | doWhileS (body : Stmt) (cond : Expr)
  | block (inits : List Expr) (stats : List Stmt)
  | switchS (cond : Expr) (inits : List Expr) (stats : List Stmt)
  | caseS (cond : Expr) (inits : List Expr) (stats : List Stmt)
  | defaultS (inits : List Expr) (stats : List Stmt)
  | ifS (cond : Expr) (thenS : Stmt) (elseS : Stmt)      -- no else branch = `.empty`
  | returnS (value : Expr)                                 -- `return;` = `Expr.nil`
deriving Repr, Inhabited

/-- `function_t` as far as the analysis looks at it. -/
structure FunDecl where
  name : Sym
  /-- the first `fun.uid.get_type().size() - 1` symbols of the body frame -/
  params : List Sym
  /-- per parameter: `type[i].is(REF) && !type[i].is_constant()` -/
  refNonConst : List Bool
  /-- `fun.variables` (every variable declared anywhere in the body, iteration variables included) -/
  locals : List Sym
  body : Stmt
deriving Repr, Inhabited

/-- the computed part of a `function_t` -/
structure FunInfo where
  changes : List Sym
  depends : List Sym
  refNonConst : List Bool
deriving Repr, Inhabited

/-- function symbols whose `changes` / `depends` have been computed so far (declaration order) -/
abbrev Env := List (Sym × FunInfo)

def Env.find (env : Env) (f : Sym) : Option FunInfo :=
  match env with
  | [] => none
  | (g, i) :: rest => if g = f then some i else Env.find rest f

/-! ### expression_t::get_symbol (hand-modelled: src/expression.cpp:640-679) -/

def symFirstChildKinds : List Kind :=
  [.kDOT, .kARRAY, .kPRE_INCREMENT, .kPRE_DECREMENT, .kASSIGN, .kASS_PLUS, .kASS_MINUS, .kASS_DIV, .kASS_MOD, .kASS_MULT,
   .kASS_AND, .kASS_OR, .kASS_XOR, .kASS_LSHIFT, .kASS_RSHIFT, .kSYNC, .kFUN_CALL, .kFUN_CALL_EXT, .kSCENARIO]
def symSecondChildKinds : List Kind := [.kINLINE_IF, .kCOMMA]

def getSymbol : Expr → Sym
  | .node k s subs =>
    if k = .kIDENTIFIER then s
    else if symFirstChildKinds.contains k then
      match subs with
      | a :: _ => getSymbol a
      | [] => 0
    else if symSecondChildKinds.contains k then
      match subs with
      | _ :: b :: _ => getSymbol b
      | _ => 0
    else 0

/-- the member symbol carried by a `P.x` node on a process (0 = none) -/
def dotSym : Expr → Sym
  | .node k s _ => if k = .kDOT then s else 0

/-- which function a call node calls: `get(0).get_symbol()`, or -- when the source resolves `P.f` callees
    (`called_function_symbol`) -- the member symbol of a process-dot callee -/
def calleeSym (resolvesDot : Bool) (f : Expr) : Sym :=
  if resolvesDot && dotSym f != 0 then dotSym f else getSymbol f

/-! ### expression_t::get_symbols (table generated) -/

mutual
def getSymbols (cfg : Cfg) : Expr → List Sym
  | .node k s subs =>
    if k = .kIDENTIFIER then [s] else getSymbolsSel cfg (cfg.getSymbolsIdx k) 0 subs
/-- children whose position is listed in the table row -/
def getSymbolsSel (cfg : Cfg) (idxs : List Nat) (i : Nat) : List Expr → List Sym
  | [] => []
  | e :: es => (if idxs.contains i then getSymbols cfg e else []) ++ getSymbolsSel cfg idxs (i + 1) es
end

/-- arguments bound to non-constant reference parameters: `get(i).get_symbols` for `1 ≤ i < min(get_size(), type.size())` -/
def refArgSymbols (cfg : Cfg) : List Bool → List Expr → List Sym
  | r :: rs, a :: as => (if r then getSymbols cfg a else []) ++ refArgSymbols cfg rs as
  | _, _ => []

/-! ### expression_t::collect_possible_writes -/

mutual
def collectWrites (cfg : Cfg) (env : Env) : Expr → List Sym
  | .node k _ subs =>
    (if cfg.writesRecurses then collectWritesL cfg env subs else []) ++
    (if cfg.writeLhsKinds.contains k then
       match subs with
       | a :: _ => getSymbols cfg a
       | [] => []
     else if cfg.writeCallKinds.contains k then
       match subs with
       | f :: args =>
         match env.find (calleeSym cfg.writeCallResolvesDot f) with
         | some fi => (if cfg.callAddsChanges then fi.changes else []) ++
                      (if cfg.callAddsRefArgs then refArgSymbols cfg fi.refNonConst args else [])
         | none => []
       | [] => []
     else [])
def collectWritesL (cfg : Cfg) (env : Env) : List Expr → List Sym
  | [] => []
  | e :: es => collectWrites cfg env e ++ collectWritesL cfg env es
end

/-- `expression_t::changes_any_variable` -/
def changesAny (cfg : Cfg) (env : Env) (e : Expr) : Bool := !(collectWrites cfg env e).isEmpty

/-! ### expression_t::collect_possible_reads -/

mutual
def collectReads (cfg : Cfg) (env : Env) (rnd : Bool) : Expr → List Sym
  | .node k s subs =>
    collectReadsL cfg env (cfg.readsPropagatesRandom && rnd) subs ++
    (if k = .kIDENTIFIER then [s]
     else if cfg.readCallKinds.contains k then
       match subs with
       | f :: _ =>
         match env.find (calleeSym cfg.readCallResolvesDot f) with
         | some fi => if cfg.callAddsDepends then fi.depends else []
         | none => []
       | [] => []
     else if rnd && cfg.randomKinds.contains k then [0]
     else [])
def collectReadsL (cfg : Cfg) (env : Env) (rnd : Bool) : List Expr → List Sym
  | [] => []
  | e :: es => collectReads cfg env rnd e ++ collectReadsL cfg env rnd es
end

/-! ### ExpressionVisitor: which expressions of a statement reach `visitExpression` -/

def flatE (X : Expr → List Sym) : List Expr → List Sym
  | [] => []
  | e :: es => X e ++ flatE X es

mutual
def collectStmt (v : VisitFlags) (X : Expr → List Sym) : Stmt → List Sym
  | .empty => []
  | .breakS => []
  | .continueS => []
  | .exprS e => if v.exprE then X e else []
  | .assertS e => if v.assertE then X e else []
  | .forS i c s b =>
    (if v.forInit then X i else []) ++ (if v.forCond then X c else []) ++ (if v.forStep then X s else []) ++
    (if v.forBody then collectStmt v X b else [])
  | .iterS _ b => if v.iterBody then collectStmt v X b else []
  | .whileS c b => (if v.whileCond then X c else []) ++ (if v.whileBody then collectStmt v X b else [])
  | .doWhileS b c => (if v.doCond then X c else []) ++ (if v.doBody then collectStmt v X b else [])
  | .block inits stats => (if v.blockInits then flatE X inits else []) ++ (if v.blockStats then collectStmtL v X stats else [])
  | .switchS c inits stats =>
    (if v.switchCond then X c else []) ++ (if v.switchInits then flatE X inits else []) ++
    (if v.switchStats then collectStmtL v X stats else [])
  | .caseS c inits stats =>
    (if v.caseCond then X c else []) ++ (if v.caseInits then flatE X inits else []) ++
    (if v.caseStats then collectStmtL v X stats else [])
  | .defaultS inits stats => (if v.defaultInits then flatE X inits else []) ++ (if v.defaultStats then collectStmtL v X stats else [])
  | .ifS c t e =>
    (if v.ifCond then X c else []) ++ (if v.ifThen then collectStmt v X t else []) ++ (if v.ifElse then collectStmt v X e else [])
  | .returnS e => if v.returnE then X e else []
def collectStmtL (v : VisitFlags) (X : Expr → List Sym) : List Stmt → List Sym
  | [] => []
  | s :: ss => collectStmt v X s ++ collectStmtL v X ss
end

/-! ### TypeChecker::visitFunction: `changes` / `depends` with locals and parameters erased -/

def erase (xs : List Sym) (drop : List Sym) : List Sym := xs.filter (fun s => !drop.contains s)

def funInfo (cfg : Cfg) (env : Env) (fd : FunDecl) : FunInfo :=
  let ch := if cfg.collectsChanges then collectStmt cfg.visit (collectWrites cfg env) fd.body else []
  let ch := if cfg.erasesLocalChanges then erase ch fd.locals else ch
  let ch := if cfg.erasesParamChanges then erase ch fd.params else ch
  let dp := if cfg.collectsDepends then collectStmt cfg.visit (collectReads cfg env cfg.dependsCollectsRandom) fd.body else []
  let dp := if cfg.erasesLocalDepends then erase dp fd.locals else dp
  let dp := if cfg.erasesParamDepends then erase dp fd.params else dp
  { changes := ch, depends := dp, refNonConst := fd.refNonConst }

/-- the type checker visits the functions in declaration order; a call sees the sets computed so far -/
def analyseFrom (cfg : Cfg) (env : Env) : List FunDecl → Env
  | [] => env
  | fd :: rest => analyseFrom cfg (env ++ [(fd.name, funInfo cfg env fd)]) rest

def analyse (cfg : Cfg) (P : List FunDecl) : Env := analyseFrom cfg [] P

/-! ### compile-time computability -/

/-- what `CompileTimeComputableValues` and `isCompileTimeComputable` look at in a symbol -/
structure SymInfo where
  /-- `s.get_type().is_function() || is_function_external()` -/
  isFunction : Bool
  /-- member of `CompileTimeComputableValues::variables`: global / template-level variable with a constant type, template
      parameter that is constant, not a reference and not a double, or a quantifier binder (`add_symbol`) -/
  ctc : Bool
deriving Repr, Inhabited

abbrev SymTab := List (Sym × SymInfo)

def SymTab.find (t : SymTab) (s : Sym) : Option SymInfo :=
  match t with
  | [] => none
  | (g, i) :: rest => if g = s then some i else SymTab.find rest s

def symOk (tab : SymTab) (s : Sym) : Bool :=
  s != 0 && (match tab.find s with
             | some i => i.isFunction || i.ctc
             | none => false)

/-- `TypeChecker::isCompileTimeComputable` -/
def isCTC (cfg : Cfg) (env : Env) (tab : SymTab) (e : Expr) : Bool :=
  (collectReads cfg env cfg.ctcCollectsRandom e).all (symOk tab)

/-! ### the declared-before-use discipline of the builder (callee symbols resolve to earlier functions only) -/

/-- the kinds that are function calls in the language -/
def callKinds : List Kind := [.kFUN_CALL, .kFUN_CALL_EXT]

mutual
/-- symbols used in callee position of a call node -/
def calleeSyms : Expr → List Sym
  | .node k _ subs =>
    (if callKinds.contains k then
       match subs with
       | f :: _ => [getSymbol f, dotSym f]
       | [] => []
     else []) ++ calleeSymsL subs
def calleeSymsL : List Expr → List Sym
  | [] => []
  | e :: es => calleeSyms e ++ calleeSymsL es
end

mutual
/-- every expression occurring in a statement, in any statement form, local initialisers included -/
def exprsOf : Stmt → List Expr
  | .empty => []
  | .breakS => []
  | .continueS => []
  | .exprS e => [e]
  | .assertS e => [e]
  | .forS i c s b => i :: c :: s :: exprsOf b
  | .iterS _ b => exprsOf b
  | .whileS c b => c :: exprsOf b
  | .doWhileS b c => c :: exprsOf b
  | .block inits stats => inits ++ exprsOfL stats
  | .switchS c inits stats => c :: (inits ++ exprsOfL stats)
  | .caseS c inits stats => c :: (inits ++ exprsOfL stats)
  | .defaultS inits stats => inits ++ exprsOfL stats
  | .ifS c t e => c :: (exprsOf t ++ exprsOf e)
  | .returnS e => [e]
def exprsOfL : List Stmt → List Expr
  | [] => []
  | s :: ss => exprsOf s ++ exprsOfL ss
end

def calleesOfFun (fd : FunDecl) : List Sym := calleeSymsL (exprsOf fd.body)

/-- names are distinct and no body calls itself or a function declared later
    (`$Recursion_is_not_allowed`, and an identifier resolves only to a preceding declaration) -/
def declaredBeforeUse : List FunDecl → Bool
  | [] => true
  | fd :: rest =>
    let later := fd.name :: rest.map (·.name)
    !(rest.map (·.name)).contains fd.name && (calleesOfFun fd).all (fun c => !later.contains c) && declaredBeforeUse rest


/-! ### `restricted`: symbols an array size (or scalar-set size) depends on, as the *builder* computes them
    (StatementBuilder::collectDependencies, src/StatementBuilder.cpp:50-71: a work list over the identifiers read and,
    for variables, the identifiers read by their initialisers; function bodies are not looked into, and at that time no
    `depends` set has been computed yet, which is why the environment below is empty) -/

/-- a global or template-level variable with its initialiser -/
structure VarDecl where
  sym : Sym
  init : Expr
deriving Repr, Inhabited

/-- identifiers read by the initialisers of the variable(s) named `s` -/
def initReads (cfg : Cfg) (D : List VarDecl) (s : Sym) : List Sym :=
  match D with
  | [] => []
  | d :: rest => (if d.sym = s then collectReads cfg [] false d.init else []) ++ initReads cfg rest s

/-- the work-list loop; `none` = fuel exhausted (never observed: fuel is the number of symbols + work items) -/
def closeDeps (cfg : Cfg) (D : List VarDecl) : Nat → List Sym → List Sym → Option (List Sym)
  | 0, [], deps => some deps
  | 0, _ :: _, _ => none
  | _ + 1, [], deps => some deps
  | fuel + 1, s :: work, deps =>
    if deps.contains s then closeDeps cfg D fuel work deps
    else closeDeps cfg D fuel (work ++ initReads cfg D s) (s :: deps)

/-- `collectDependencies(restricted, e)` starting from an already collected set -/
def collectDependencies (cfg : Cfg) (D : List VarDecl) (fuel : Nat) (restricted : List Sym) (e : Expr) : Option (List Sym) :=
  closeDeps cfg D fuel (collectReads cfg [] false e) restricted

/-- TypeChecker::visitProcess: no unbound parameter may be restricted -/
def processOk (unbound restricted : List Sym) : Bool := unbound.all (fun p => !restricted.contains p)

end UtapModel.Effect
