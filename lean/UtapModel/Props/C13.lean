/- Property C13 -- sizes, bounds, initialisers and value arguments must be compile-time computable.

   Model: Model/Effect.lean (`collectReads`, per-function `depends`, `isCTC`, `closeDeps` / `collectDependencies`,
   `processOk`), parameterised by the generated configuration `EffectGen.genCfg` (translate/effects.py).
   Spec: Model/EffectSpec.lean (`Reads`, `DependsOn`, `BuilderDep`, `containsRandom`, `c13Exceptions`).

   Exception set (DESIGN.md section 2.4): `c13Exceptions genCfg` is *computed* from the generated configuration.  The
   variable-dependence theorems below are full strength.  What the current source lets through concerns only
   (a) the random-number builtins below the root of an expression / inside function bodies and (b) array sizes that
   reach a free process parameter through a function body; for each there is a theorem that holds once the
   corresponding flag of the configuration is set, and a witness that is accepted today. -/
import UtapModel.Lemmas.Effect
import UtapModel.Lemmas.TypeWalk
import UtapModel.Gen.EffectGen
namespace UtapModel.C13
open UtapModel UtapModel.Effect UtapModel.EffectGen UtapModel.TypeWalk

/-! ## today's tables -/

/-- collect_possible_reads inserts every identifier, recurses into all children, adds the callee's `depends` for
    FUN_CALL; visitFunction collects `depends` with the visitor that reaches every expression of every statement class. -/
theorem C13_tables_complete : genCfg.ReadsComplete := by decide

theorem C13_calls_exact : genCfg.CallsExact := by decide

/-! ## an accepted compile-time context depends on constants only -/

/-- General form.  `tab` classifies symbols as the type checker does (`symOk` = function symbol, or member of
    CompileTimeComputableValues: constant global / template-level variable, constant non-reference non-double template
    parameter, quantifier binder).  If `e` passes `isCompileTimeComputable`, every symbol its value can read -- directly or
    through the body of a called function, any statement form, any chain of calls -- is such a symbol. -/
theorem C13_reads_general (cfg : Cfg) (hc : cfg.ReadsComplete) (hx : cfg.CallsExact) (P : List FunDecl)
    (hd : declaredBeforeUse P = true) (tab : SymTab) (e : Expr) (he : isCTC cfg (analyse cfg P) tab e = true)
    (s : Sym) (h : Reads P e s) : symOk tab s = true :=
  symOk_of_isCTC he (reads_sound hc (analyse_consistent hx P hd) h _)

/-- C13 (variables, full strength): in a model all of whose global / template-level initialisers were accepted
    (`visitVariable` demands `isCompileTimeComputable` of every initialiser), the value of an accepted compile-time
    context `e` (array size, range bound, scalar-set size, initialiser, value / const-reference argument) does not depend on
    any symbol that is not a compile-time constant or a function: not directly, not through the body of a function (any
    depth), not through the initialiser of a constant it uses (any depth). -/
theorem C13_sound (P : List FunDecl) (hd : declaredBeforeUse P = true) (tab : SymTab) (D : List VarDecl)
    (hacc : ∀ d ∈ D, isCTC genCfg (analyse genCfg P) tab d.init = true)
    (e : Expr) (he : isCTC genCfg (analyse genCfg P) tab e = true) (s : Sym) (h : DependsOn P D e s) : symOk tab s = true := by
  induction h with
  | reads hr => exact C13_reads_general genCfg C13_tables_complete C13_calls_exact P hd tab _ he _ hr
  | viaInit _ hdm _ _ ih => exact ih (hacc _ hdm)

/-- contrapositive, as the property states it: a context that depends on a non-constant variable is rejected -/
theorem C13_rejects (P : List FunDecl) (hd : declaredBeforeUse P = true) (tab : SymTab) (D : List VarDecl)
    (hacc : ∀ d ∈ D, isCTC genCfg (analyse genCfg P) tab d.init = true)
    (e : Expr) (s : Sym) (h : DependsOn P D e s) (hs : symOk tab s = false) : isCTC genCfg (analyse genCfg P) tab e = false := by
  cases he : isCTC genCfg (analyse genCfg P) tab e with
  | false => rfl
  | true => rw [C13_sound P hd tab D hacc e he s h] at hs; cases hs

/-- per function: a non-local symbol read anywhere in the body is in `function_t::depends` -/
theorem C13_function_depends (P : List FunDecl) (hd : declaredBeforeUse P = true) (fd : FunDecl) (hfd : fd ∈ P) (b : Expr)
    (hb : b ∈ exprsOf fd.body) (s : Sym) (h : Reads P b s) (hl : s ∉ fd.locals) (hp : s ∉ fd.params) :
    ∃ fi, (analyse genCfg P).find fd.name = some fi ∧ s ∈ fi.depends := by
  have hcons := analyse_consistent C13_calls_exact (cfg := genCfg) P hd
  exact ⟨_, hcons fd hfd, mem_funInfo_depends C13_tables_complete hb (reads_sound C13_tables_complete hcons h _) hl hp⟩

/-! ### the hypotheses are satisfiable -/

/-- symbols: 1 = `w` (mutable global), 2 = `C` (constant), 3 = `rd` (reads `w` in a while condition), 4 = `g` (calls `rd`),
    5 = `K` (constant initialised with `g()` -- rejected), 6 = `pure` (reads `C`) -/
def demoId (s : Sym) : Expr := .node .kIDENTIFIER s []
def demoCall (f : Sym) : Expr := .node .kFUN_CALL 0 [demoId f]
def demoRd : FunDecl := { name := 3, params := [], refNonConst := [], locals := [],
                          body := .block [] [.whileS (demoId 1) .empty, .returnS (.node .kCONSTANT 0 [])] }
def demoG : FunDecl := { name := 4, params := [], refNonConst := [], locals := [], body := .block [] [.returnS (demoCall 3)] }
def demoPure : FunDecl := { name := 6, params := [], refNonConst := [], locals := [], body := .block [] [.returnS (demoId 2)] }
def demoP : List FunDecl := [demoRd, demoG, demoPure]
def demoTab : SymTab := [(1, ⟨false, false⟩), (2, ⟨false, true⟩), (3, ⟨true, false⟩), (4, ⟨true, false⟩), (5, ⟨false, true⟩), (6, ⟨true, false⟩)]

example : declaredBeforeUse demoP = true := by decide
/-- `int a[pure()]` is accepted … -/
example : isCTC genCfg (analyse genCfg demoP) demoTab (demoCall 6) = true := by decide
/-- … `int a[g()]` depends on `w` through two function bodies and is rejected -/
example : DependsOn demoP [] (demoCall 4) 1 :=
  .reads (.callBody (fd := demoG) (b := demoCall 3) (by simp [demoP]) rfl (by simp [demoG, exprsOf, exprsOfL])
    (.callBody (fd := demoRd) (b := demoId 1) (by simp [demoP]) rfl (by simp [demoRd, exprsOf, exprsOfL])
      (.ident 1 []) (by decide) (by decide)) (by decide) (by decide))
example : isCTC genCfg (analyse genCfg demoP) demoTab (demoCall 4) = false := by decide
/-- a constant `K = g()` is itself rejected, so no accepted size can smuggle `w` in through `K` -/
example : isCTC genCfg (analyse genCfg demoP) demoTab (demoCall 4) = false ∧ DependsOn demoP [⟨5, demoCall 4⟩] (demoId 5) 1 :=
  ⟨by decide, .viaInit (d := ⟨5, demoCall 4⟩) (.ident 5 []) (by simp) rfl
    (.reads (.callBody (fd := demoG) (b := demoCall 3) (by simp [demoP]) rfl (by simp [demoG, exprsOf, exprsOfL])
      (.callBody (fd := demoRd) (b := demoId 1) (by simp [demoP]) rfl (by simp [demoRd, exprsOf, exprsOfL])
        (.ident 1 []) (by decide) (by decide)) (by decide) (by decide)))⟩

/-! ## random-number builtins (exception set) -/

/-- Holds once `collect_possible_reads` hands `collectRandom` down to the children: an expression containing a call of a
    random builtin anywhere is not compile-time computable.  (Full statement; for the current source the premise
    `readsPropagatesRandom = true` is false, see the witness below and `c13Exceptions`.) -/
theorem C13_random_partial (cfg : Cfg) (hp : cfg.readsPropagatesRandom = true) (hr : cfg.ctcCollectsRandom = true)
    (hi : cfg.randomKinds.contains .kIDENTIFIER = false) (hcall : ∀ k ∈ cfg.randomKinds, cfg.readCallKinds.contains k = false)
    (env : Env) (tab : SymTab) (e : Expr) (h : containsRandom cfg e = true) : isCTC cfg env tab e = false := by
  have hm : (0 : Sym) ∈ collectReads cfg env true e := random_in_reads hp hi hcall e h
  cases hc : isCTC cfg env tab e with
  | false => rfl
  | true =>
    have := symOk_of_isCTC hc (hr ▸ hm)
    simp [symOk] at this

/-- what does hold today: a random builtin at the *root* of the expression is rejected -/
theorem C13_random_root (env : Env) (tab : SymTab) (k : Kind) (hk : k ∈ genCfg.randomKinds) (x : Sym) (subs : List Expr) :
    isCTC genCfg env tab (.node k x subs) = false := by
  have hkc : genCfg.randomKinds.contains k = true := List.contains_iff_mem.mpr hk
  have h0 : (0 : Sym) ∈ collectReads genCfg env genCfg.ctcCollectsRandom (.node k x subs) := by
    have hne : k ≠ Kind.kIDENTIFIER := (by decide : ∀ k ∈ genCfg.randomKinds, k ≠ Kind.kIDENTIFIER) k hk
    have hnc : ¬ k ∈ genCfg.readCallKinds := (by decide : ∀ k ∈ genCfg.randomKinds, ¬ k ∈ genCfg.readCallKinds) k hk
    unfold collectReads
    simp only [List.mem_append]
    right
    have hr : genCfg.ctcCollectsRandom = true := by decide
    simp [hne, hnc, hk, hr]
  cases hc : isCTC genCfg env tab (.node k x subs) with
  | false => rfl
  | true =>
    have := symOk_of_isCTC hc h0
    simp [symOk] at this

/-- witness of `random:nested-operand`: `1.0 + random(1.0)` passes `isCompileTimeComputable` whenever the flag is not
    handed down (true of the current source; vacuous after the one-line repair) -/
def witnessRandomNested : Expr := .node .kPLUS 0 [.node .kCONSTANT 0 [], .node .kRANDOM_F 0 [.node .kCONSTANT 0 []]]
theorem C13_witness_random_nested :
    genCfg.readsPropagatesRandom = false → containsRandom genCfg witnessRandomNested = true ∧ isCTC genCfg [] [] witnessRandomNested = true := by
  decide

/-- witness of `random:via-function-body`: `rf()` with `double rf() { return random(1.0); }` -/
def witnessRandomFun : List FunDecl :=
  [{ name := 1, params := [], refNonConst := [], locals := [], body := .block [] [.returnS (.node .kRANDOM_F 0 [.node .kCONSTANT 0 []])] }]
theorem C13_witness_random_function :
    genCfg.dependsCollectsRandom = false →
    isCTC genCfg (analyse genCfg witnessRandomFun) [(1, ⟨true, false⟩)] (.node .kFUN_CALL 0 [.node .kIDENTIFIER 1 []]) = true := by
  decide

/-! ## free process parameters and array sizes -/

/-- Everything an array size (scalar-set size) depends on *directly or through initialisers of variables* is put into
    `restricted` by the builder's closure (whenever the work-list loop ends, i.e. returns `some`). -/
theorem C13_restricted_complete (D : List VarDecl) (fuel : Nat) (size : Expr) (R : List Sym)
    (h : collectDependencies genCfg D fuel [] size = some R) (p : Sym) (hp : BuilderDep D size p) : p ∈ R :=
  builderDep_in_closure C13_tables_complete h hp

/-- C13, free parameters (partial: dependence through initialisers, typedefs and operators; *not* through function
    bodies, see `C13_witness_free_param_function`): a process accepted by `visitProcess` has no unbound parameter that
    an array size of its template depends on.
    Full statement (not provable for the current source): the same with `BuilderDep` extended by the `callBody` rule of
    `Reads`, i.e. dependence through the bodies of called functions. -/
theorem C13_free_param_partial (D : List VarDecl) (fuel : Nat) (size : Expr) (R restricted unbound : List Sym)
    (h : collectDependencies genCfg D fuel [] size = some R) (hsub : ∀ s ∈ R, s ∈ restricted)
    (hok : processOk unbound restricted = true) (p : Sym) (hp : p ∈ unbound) : ¬ BuilderDep D size p := by
  intro hdep
  have hr : p ∈ restricted := hsub p (C13_restricted_complete D fuel size R h p hdep)
  unfold processOk at hok
  have := List.all_eq_true.mp hok p hp
  rw [List.contains_iff_mem.mpr hr] at this
  cases this

/-- satisfiable: `const int M = N; int a[M + 1];` with free parameter `N` (symbol 1; `M` = 2): `N` is restricted, the
    process is rejected -/
example : collectDependencies genCfg [⟨2, .node .kIDENTIFIER 1 []⟩] 10 []
    (.node .kPLUS 0 [.node .kIDENTIFIER 2 [], .node .kCONSTANT 0 []]) = some [1, 2] := by decide
example : processOk [1] [1, 2] = false := by decide

/-- witness of `free-param:array-size-via-function`: `int f() { return N; }  int a[f()];` -- the closure of the size
    expression `f()` contains `f` (symbol 3) only, never the parameter `N` (symbol 1) it reads, so the free parameter
    passes `visitProcess`, although the size does read `N` through the body of `f`. -/
def witnessFreeParamFun : List FunDecl :=
  [{ name := 3, params := [], refNonConst := [], locals := [], body := .block [] [.returnS (.node .kIDENTIFIER 1 [])] }]
theorem C13_witness_free_param_function :
    genCfg.depsFollowFunctions = false →
    collectDependencies genCfg [] 10 [] (.node .kFUN_CALL 0 [.node .kIDENTIFIER 3 []]) = some [3] ∧ processOk [1] [3] = true := by
  decide
example : Reads witnessFreeParamFun (.node .kFUN_CALL 0 [.node .kIDENTIFIER 3 []]) 1 :=
  .callBody (fd := witnessFreeParamFun[0]) (b := .node .kIDENTIFIER 1 []) (by simp [witnessFreeParamFun]) rfl
    (by simp [witnessFreeParamFun, exprsOf, exprsOfL]) (.ident 1 []) (by decide) (by decide)

/-! ## the contexts -/

/-- array size, range bound, scalar-set size, select domain, global / template-level initialiser: not computable ⇒ rejected
    (whatever the other tests of the site say) -/
theorem C13_contexts : ∀ c ∈ Context.all, c.needsCtc = true → ∀ typedOk changes : Bool,
    c.rejects genCfg typedOk false changes = true := by decide

/-- an argument bound to a by-value parameter or to a constant reference parameter is rejected unless computable;
    a non-constant reference parameter takes any unique lvalue -/
theorem C13_argument : ∀ ref constant uniqueRef : Bool, (ref = false ∨ constant = true) →
    argRejects genCfg ref constant false uniqueRef = true := by decide
theorem C13_argument_twin : ∀ ref constant : Bool, argRejects genCfg ref constant true true = false := by decide

/-- the computed exception set of the current source contains nothing but the three listed shapes -/
theorem C13_exceptions_today : ∀ x ∈ c13Exceptions genCfg,
    x ∈ ["random:nested-operand", "random:via-function-body", "free-param:array-size-via-function"] := by decide

/-! ## sizes and bounds hang off types: the walk that brings them to the checks (Model/TypeWalk.lean) -/

/-- today's `TypeChecker::checkType`: every wrapping kind (typedef name, prefix, reference) passes its child on, a range
    tests both bounds, an array hands on its size and its element type, a record all its fields -/
theorem C13_type_walk_complete : genWalk.Complete := by decide

/-- Every array size, range bound and scalar-set size anywhere in a type -- behind typedef names, in any dimension of an
    array, in a row type that is the element type of another array, in a field of a record, to any depth -- is handed to
    `checkExpression` and `isCompileTimeComputable` when `checkType` is called on the type. -/
theorem C13_type_bounds_checked (t : WTy) (h : t.wellKinded = true) : ∀ x ∈ t.exprs, x ∈ visits genWalk t :=
  visits_complete genWalk C13_type_walk_complete t h

/-- … and `checkType` is called on the type of every variable, select binder, iteration binder, block symbol (parameters
    and locals of functions) and on the type of the binder of `forall`, `exists` and `sum` -- the binder's range is no
    operand of the quantified expression, so this call is the only thing that brings its bounds to the checks. -/
theorem C13_type_sites_complete : ∀ s ∈ requiredSites, s ∈ genWalk.sites := by decide

/-- A variable is found by the frame walk of `Document::accept` (hence by `visitVariable`: its type and its initialiser are
    checked) whatever base type it has … -/
theorem C13_variable_kinds_visited : ∀ k ∈ variableKinds, k ∈ genWalk.variableBaseKinds := by decide

/-- … and however array levels, typedef names and prefixes alternate above that base type (`row_t m[2]` with
    `typedef int row_t[n]`): `strip_array()` returns the base type itself, never an array and never a wrapped type. -/
theorem C13_strip_array_reaches_base (stripped : Kind → Bool) (t : WTy) :
    isArrayType stripped (stripArray stripped t) = false ∧ strip stripped (stripArray stripped t) = stripArray stripped t :=
  ⟨stripArray_not_array stripped t, stripArray_stripped stripped t⟩

/-- satisfiable: `typedef int row_t[e1]; const row_t m[e2];` with `int[e3, e4]` cells -- all four expressions are visited,
    and the variable is classified as an INT variable -/
def demoMatrix : WTy :=
  .array (.range 0 2) (.wrap .kCONSTANT (.wrap .kLABEL (.array (.range 0 1) (.wrap .kLABEL (.range 3 4)))))
theorem C13_type_walk_demo : visits genWalk demoMatrix = [0, 2, 0, 1, 3, 4] := by decide
theorem C13_strip_array_demo :
    stripArray (fun k => k == .kLABEL || k == .kCONSTANT) (.wrap .kLABEL (.array (.range 0 2) (.wrap .kLABEL (.array (.range 0 1) (.leaf .kINT)))))
      = .leaf .kINT := by simp [stripArray]

end UtapModel.C13
