/- Which rows of `Path::str` agree with `tag_map` (computed exception set of the XPath theorem of C06). -/
import UtapModel.Model.Pos
import UtapModel.Gen.PathTable

namespace UtapModel.PathCheck
open UtapModel.Pos

/-- element name of a tag according to `tag_map` -/
def elementName (t : String) : String :=
  match PathTableGen.tagMap.find? (·.2 == t) with
  | some (n, _) => n
  | none => ""

/-- rows of `Path::str` that can satisfy `LevelOK`: printed name = element name, counted tag = own tag -/
def rowOK (r : TagRow) : Bool := r.name == elementName r.tag && (r.counted == none || r.counted == some r.tag)

/-- the computed exception set: tags whose row prints a name that is not the element's (or counts another tag) -/
def badRows : List TagRow := PathTableGen.table.filter (fun r => !rowOK r)

end UtapModel.PathCheck
