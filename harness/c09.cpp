// C09 harness: observations of the real library used by the metamorphic check (checks/c09.py).
//
// Line protocol (stdin): one op per line, payloads hex-encoded; every answer ends with a line ".END".
//   xml  <newxta> <hex>            parse_XML_buffer (incl. static analysis) -> rc, diagnostics (no positions), verdict, dump
//   xta  <newxta> <hex>            parse_XTA(buffer, Document*, newxta)     -> same
//   sitesxml <newxta> <hex>        as xml, then every expression node's span as  S <path> <l0> <c0> <l1> <c1> <KIND>
//   sitesxta <newxta> <hex>        as xta, spans as  S <start> <end> <KIND>  (byte offsets into the buffer)
//   trace <newxta> <part> <types,comma> <hex>   parse the text with a pure logging builder (no symbol table): the callback
//                                  sequence and every identifier the lexer passed to is_type() -- the observable token stream
//   query <hexmodelxml> <hexquery> parse model, then parseProperty-style query through ExprGrabber -> sexp + diagnostics
#include "common.hpp"
#include "utap/statement.h"

#include <algorithm>
#include <set>

using namespace UTAP;
using namespace UTAP::Constants;

#include "libparser.h"  // UTAP::tracker (exported global position counter)

static std::string unhex(const std::string& h)
{
    std::string o;
    auto v = [](char c) { return c <= '9' ? c - '0' : (c | 32) - 'a' + 10; };
    for (size_t i = 0; i + 1 < h.size(); i += 2) o += (char)(v(h[i]) * 16 + v(h[i + 1]));
    return o;
}

static std::vector<std::string> split(const std::string& s, char sep = ' ')
{
    std::vector<std::string> o;
    std::string cur;
    for (char c : s) {
        if (c == sep) { o.push_back(cur); cur.clear(); }
        else cur += c;
    }
    o.push_back(cur);
    return o;
}

// ---- statements ------------------------------------------------------------------------------------------------------
struct StmtSink
{
    std::vector<std::string> lines;
    std::vector<expression_t> exprs;
    void e(const char* tag, const expression_t& x)
    {
        lines.push_back(std::string(tag) + "=" + vh::sexp(x));
        exprs.push_back(x);
    }
    void stmt(Statement* s)
    {
        if (!s) return;
        if (auto* p = dynamic_cast<ExprStatement*>(s)) e("expr", p->expr);
        else if (auto* p = dynamic_cast<AssertStatement*>(s)) e("assert", p->expr);
        else if (auto* p = dynamic_cast<ForStatement*>(s)) { e("for.init", p->init); e("for.cond", p->cond); e("for.step", p->step); lines.push_back("{"); stmt(p->stat.get()); lines.push_back("}"); }
        else if (auto* p = dynamic_cast<IterationStatement*>(s)) { lines.push_back("iter " + p->symbol.get_name() + ":" + vh::tsexp(p->symbol.get_type()) + " {"); stmt(p->stat.get()); lines.push_back("}"); }
        else if (auto* p = dynamic_cast<WhileStatement*>(s)) { e("while", p->cond); lines.push_back("{"); stmt(p->stat.get()); lines.push_back("}"); }
        else if (auto* p = dynamic_cast<DoWhileStatement*>(s)) { lines.push_back("do {"); stmt(p->stat.get()); lines.push_back("}"); e("dowhile", p->cond); }
        else if (auto* p = dynamic_cast<IfStatement*>(s)) { e("if", p->cond); lines.push_back("{"); stmt(p->trueCase.get()); lines.push_back("} else {"); stmt(p->falseCase.get()); lines.push_back("}"); }
        else if (auto* p = dynamic_cast<ReturnStatement*>(s)) e("return", p->value);
        else if (auto* p = dynamic_cast<BlockStatement*>(s)) {
            lines.push_back("block{");
            for (auto& v : p->variables) { lines.push_back("var " + v.uid.get_name() + ":" + vh::tsexp(v.uid.get_type())); e("init", v.init); }
            for (auto it = p->begin(); it != p->end(); ++it) stmt(it->get());
            lines.push_back("}");
        } else lines.push_back("stmt?");
    }
};

static void report(std::ostream& os, Document& doc, int rc)
{
    os << "RC " << rc << "\n";
    for (auto& e : doc.get_errors()) os << "D " << vh::diagLine("ERROR", e, false) << "\n";
    for (auto& e : doc.get_warnings()) os << "D " << vh::diagLine("WARNING", e, false) << "\n";
    auto& m = doc.get_supported_methods();
    os << "V symbolic=" << m.symbolic << " stochastic=" << m.stochastic << " concrete=" << m.concrete << " errors=" << doc.has_errors()
       << "\n";
    std::ostringstream d;
    vh::dumpDocument(d, doc, true);
    // function bodies (vh::dumpDocument lists only name and type): every expression of every statement as an S-expression
    auto funs = [&](declarations_t& ds, const std::string& owner) {
        for (auto& f : ds.functions) {
            d << "funbody " << owner << "." << f.uid.get_name() << " locals=" << f.variables.size();
            StmtSink ss;
            for (auto& v : f.variables) d << " local " << v.uid.get_name() << ":" << vh::tsexp(v.uid.get_type()) << "=" << vh::sexp(v.init);
            if (f.body) ss.stmt(f.body.get());
            for (auto& l : ss.lines) d << " " << l;
            d << "\n";
        }
    };
    funs(doc.get_globals(), "");
    for (auto& t : doc.get_templates()) funs(t, t.uid.get_name());
    std::istringstream is(d.str());
    std::string l;
    while (std::getline(is, l)) os << "X " << l << "\n";
}

// ---- expression spans ------------------------------------------------------------------------------------------------
struct SpanSink
{
    std::vector<std::pair<position_t, int>> spans;
    void expr(const expression_t& e)
    {
        if (e.empty()) return;
        auto p = e.get_position();
        if (p.start != position_t::unknown_pos && p.end != position_t::unknown_pos && p.start < p.end)
            spans.push_back({p, (int)e.get_kind()});
        for (size_t i = 0; i < e.get_size(); ++i) expr(e[i]);
    }
    void type(const type_t& t, int depth = 0)
    {
        if (t.unknown() || depth > 20) return;
        if (t.get_kind() == RANGE) {
            auto r = t.get_range();
            expr(r.first);
            expr(r.second);
        }
        if (t.get_kind() == ARRAY) {
            type(t.get_array_size(), depth + 1);
            type(t.get_sub(), depth + 1);
            return;
        }
        if (t.get_kind() == PROCESS || t.get_kind() == INSTANCE || t.get_kind() == LSC_INSTANCE || t.get_kind() == PROCESS_SET ||
            t.get_kind() == FUNCTION || t.get_kind() == FUNCTION_EXTERNAL || t.get_kind() == TYPEDEF)
            return;
        for (uint32_t i = 0; i < t.size(); ++i) type(t.get(i), depth + 1);
    }
    void decls(declarations_t& d)
    {
        for (auto& v : d.variables) {
            expr(v.init);
            type(v.uid.get_type());
        }
        for (auto& f : d.functions) {
            StmtSink ss;
            for (auto& v : f.variables) {
                expr(v.init);
                type(v.uid.get_type());
            }
            if (f.body) ss.stmt(f.body.get());
            for (auto& x : ss.exprs) expr(x);
        }
    }
    void doc(Document& d)
    {
        decls(d.get_globals());
        for (auto& t : d.get_templates()) {
            decls(t);
            for (auto& l : t.locations) {
                expr(l.invariant);
                expr(l.exp_rate);
            }
            for (auto& e : t.edges) {
                expr(e.guard);
                expr(e.assign);
                expr(e.prob);
                if (!e.sync.empty() && e.sync.get_size() > 0) expr(e.sync[0]);
            }
        }
        for (auto& p : d.get_processes())
            for (uint32_t i = 0; i < p.parameters.get_size(); ++i) {
                auto it = p.mapping.find(p.parameters[i]);
                if (it != p.mapping.end()) expr(it->second);
            }
    }
};

// ---- pure logging builder --------------------------------------------------------------------------------------------
class LogBuilder : public AbstractBuilder
{
public:
    std::vector<std::string> log;
    std::set<std::string> types;
    void add(const std::string& s) { log.push_back(s); }
    static std::string kn(kind_t k) { return vh::kindName(k); }
    static std::string pf(PREFIX p) { return std::to_string((int)p); }

    bool is_type(const char* n) override
    {
        bool r = types.count(n) > 0;
        add(std::string("is_type ") + vh::quote(n) + (r ? " 1" : " 0"));
        return r;
    }
    void handle_error(const TypeException& e) override { add(std::string("ERROR ") + vh::quote(e.what())); }
    void handle_warning(const TypeException& e) override { add(std::string("WARNING ") + vh::quote(e.what())); }
    void handle_expect(const char* t) override { add(std::string("expect ") + vh::quote(t)); }

    void type_duplicate() override { add("type_duplicate"); }
    void type_pop() override { add("type_pop"); }
    void type_bool(PREFIX p) override { add("type_bool " + pf(p)); }
    void type_int(PREFIX p) override { add("type_int " + pf(p)); }
    void type_double(PREFIX p) override { add("type_double " + pf(p)); }
    void type_bounded_int(PREFIX p) override { add("type_bounded_int " + pf(p)); }
    void type_channel(PREFIX p) override { add("type_channel " + pf(p)); }
    void type_clock(PREFIX p) override { add("type_clock " + pf(p)); }
    void type_void() override { add("type_void"); }
    void type_scalar(PREFIX p) override { add("type_scalar " + pf(p)); }
    void type_name(PREFIX p, const char* n) override { add("type_name " + pf(p) + " " + vh::quote(n)); }
    void type_struct(PREFIX p, uint32_t n) override { add("type_struct " + pf(p) + " " + std::to_string(n)); }
    void type_array_of_size(size_t n) override { add("type_array_of_size " + std::to_string(n)); }
    void type_array_of_type(size_t n) override { add("type_array_of_type " + std::to_string(n)); }
    void struct_field(const char* n) override { add(std::string("struct_field ") + vh::quote(n)); }
    void decl_typedef(const char* n) override
    {
        add(std::string("decl_typedef ") + vh::quote(n));
        types.insert(n);
    }
    void decl_var(const char* n, bool init) override { add(std::string("decl_var ") + vh::quote(n) + (init ? " 1" : " 0")); }
    void decl_init_list(uint32_t n) override { add("decl_init_list " + std::to_string(n)); }
    void decl_field_init(const char* n) override { add(std::string("decl_field_init ") + vh::quote(n)); }
    void decl_parameter(const char* n, bool r) override { add(std::string("decl_parameter ") + vh::quote(n) + (r ? " 1" : " 0")); }
    void decl_func_begin(const char* n) override { add(std::string("decl_func_begin ") + vh::quote(n)); }
    void decl_func_end() override { add("decl_func_end"); }
    void block_begin() override { add("block_begin"); }
    void block_end() override { add("block_end"); }
    void empty_statement() override { add("empty_statement"); }
    void for_begin() override { add("for_begin"); }
    void for_end() override { add("for_end"); }
    void iteration_begin(const char* n) override { add(std::string("iteration_begin ") + vh::quote(n)); }
    void iteration_end(const char* n) override { add(std::string("iteration_end ") + vh::quote(n)); }
    void while_begin() override { add("while_begin"); }
    void while_end() override { add("while_end"); }
    void do_while_begin() override { add("do_while_begin"); }
    void do_while_end() override { add("do_while_end"); }
    void if_begin() override { add("if_begin"); }
    void if_condition() override { add("if_condition"); }
    void if_then() override { add("if_then"); }
    void if_end(bool e) override { add(std::string("if_end ") + (e ? "1" : "0")); }
    void expr_statement() override { add("expr_statement"); }
    void return_statement(bool v) override { add(std::string("return_statement ") + (v ? "1" : "0")); }
    void assert_statement() override { add("assert_statement"); }

    void expr_false() override { add("expr_false"); }
    void expr_true() override { add("expr_true"); }
    void expr_double(double d) override { add("expr_double " + vh::hexDouble(d)); }
    void expr_string(const char* n) override { add(std::string("expr_string ") + vh::quote(n)); }
    void expr_identifier(const char* n) override { add(std::string("expr_identifier ") + vh::quote(n)); }
    void expr_location() override { add("expr_location"); }
    void expr_nat(int32_t n) override { add("expr_nat " + std::to_string(n)); }
    void expr_call_begin() override { add("expr_call_begin"); }
    void expr_call_end(uint32_t n) override { add("expr_call_end " + std::to_string(n)); }
    void expr_array() override { add("expr_array"); }
    void expr_post_increment() override { add("expr_post_increment"); }
    void expr_pre_increment() override { add("expr_pre_increment"); }
    void expr_post_decrement() override { add("expr_post_decrement"); }
    void expr_pre_decrement() override { add("expr_pre_decrement"); }
    void expr_assignment(kind_t k) override { add("expr_assignment " + kn(k)); }
    void expr_unary(kind_t k) override { add("expr_unary " + kn(k)); }
    void expr_binary(kind_t k) override { add("expr_binary " + kn(k)); }
    void expr_nary(kind_t k, uint32_t n) override { add("expr_nary " + kn(k) + " " + std::to_string(n)); }
    void expr_inline_if() override { add("expr_inline_if"); }
    void expr_comma() override { add("expr_comma"); }
    void expr_dot(const char* n) override { add(std::string("expr_dot ") + vh::quote(n)); }
    void expr_deadlock() override { add("expr_deadlock"); }
    void expr_forall_begin(const char* n) override { add(std::string("expr_forall_begin ") + vh::quote(n)); }
    void expr_forall_end(const char* n) override { add(std::string("expr_forall_end ") + vh::quote(n)); }
    void expr_exists_begin(const char* n) override { add(std::string("expr_exists_begin ") + vh::quote(n)); }
    void expr_exists_end(const char* n) override { add(std::string("expr_exists_end ") + vh::quote(n)); }
    void expr_sum_begin(const char* n) override { add(std::string("expr_sum_begin ") + vh::quote(n)); }
    void expr_sum_end(const char* n) override { add(std::string("expr_sum_end ") + vh::quote(n)); }
    void expr_builtin_function1(kind_t k) override { add("expr_builtin_function1 " + kn(k)); }
    void expr_builtin_function2(kind_t k) override { add("expr_builtin_function2 " + kn(k)); }
    void expr_builtin_function3(kind_t k) override { add("expr_builtin_function3 " + kn(k)); }
    void proc_guard() override { add("proc_guard"); }
    void proc_update() override { add("proc_update"); }
    void proc_sync(synchronisation_t s) override { add("proc_sync " + std::to_string((int)s)); }
    void proc_select(const char* n) override { add(std::string("proc_select ") + vh::quote(n)); }
    void done() override { add("done"); }
    void add_position(uint32_t, uint32_t, uint32_t, std::shared_ptr<std::string>) override {}
    void expr_MITL_diamond(int, int) override { add("expr_MITL_diamond"); }
    void expr_MITL_box(int, int) override { add("expr_MITL_box"); }
};

static xta_part_t partOf(const std::string& p)
{
    if (p == "expr") return S_EXPRESSION;
    if (p == "exprlist") return S_EXPRESSION_LIST;
    if (p == "decl") return S_DECLARATION;
    if (p == "guard") return S_GUARD;
    if (p == "assign") return S_ASSIGN;
    if (p == "sync") return S_SYNC;
    if (p == "select") return S_SELECT;
    if (p == "inv") return S_INVARIANT;
    return S_EXPRESSION;
}

int main(int argc, char** argv)
{
    std::string line;
    while (std::getline(std::cin, line)) {
        auto w = split(line);
        std::ostringstream os;
        try {
            if ((w[0] == "xml" || w[0] == "sitesxml") && w.size() >= 3) {
                std::string buf = unhex(w[2]);
                Document doc;
                int rc = parse_XML_buffer(buf.c_str(), &doc, w[1] == "1");
                report(os, doc, rc);
                if (w[0] == "sitesxml") {
                    SpanSink s;
                    s.doc(doc);
                    for (auto& sp : s.spans) {
                        auto& a = doc.find_position(sp.first.start);
                        auto& b = doc.find_position(sp.first.end);
                        os << "S " << vh::quote(a.path ? *a.path : std::string()) << " " << a.line << " " << (sp.first.start - a.position)
                           << " " << b.line << " " << (sp.first.end - b.position) << " " << vh::kindName(sp.second) << "\n";
                    }
                }
            } else if ((w[0] == "xta" || w[0] == "sitesxta") && w.size() >= 3) {
                std::string buf = unhex(w[2]);
                Document doc;
                bool newxta = w[1] == "1";
                // position of the first byte of the S_XTA buffer = tracker position after the builtin block + setPath's +1
                uint32_t base = 0;
                if (w[0] == "sitesxta") {
                    DocumentBuilder b(doc);
                    if (newxta) parse_XTA(utap_builtin_declarations(), &b, newxta, S_DECLARATION, "");
                    base = UTAP::tracker.position + 1;
                    int rc = parse_XTA(buf.c_str(), &b, newxta, S_XTA, "");
                    os << "RC " << rc << "\n";
                    SpanSink s;
                    s.doc(doc);
                    for (auto& sp : s.spans)
                        if (sp.first.start >= base)
                            os << "S " << (sp.first.start - base) << " " << (sp.first.end - base) << " " << vh::kindName(sp.second) << "\n";
                } else {
                    bool ok = parse_XTA(buf.c_str(), &doc, newxta);
                    report(os, doc, ok ? 0 : 1);
                }
            } else if (w[0] == "trace" && w.size() >= 5) {
                LogBuilder b;
                for (auto& t : split(w[3], ','))
                    if (!t.empty() && t != "-") b.types.insert(t);
                std::string buf = unhex(w[4]);
                int rc = -7;
                try {
                    rc = parse_XTA(buf.c_str(), &b, w[1] == "1", partOf(w[2]), "");
                } catch (NotSupportedException& e) {
                    b.add(std::string("EXC NotSupported ") + vh::quote(e.what()));
                }
                os << "RC " << rc << "\n";
                for (auto& l : b.log) os << "T " << l << "\n";
            } else if (w[0] == "query" && w.size() >= 3) {
                std::string buf = unhex(w[1]);
                std::string q = unhex(w[2]);
                Document doc;
                int rc = parse_XML_buffer(buf.c_str(), &doc, true);
                size_t e0 = doc.get_errors().size(), w0 = doc.get_warnings().size();
                os << "RC " << rc << "\n";
                expression_t e = vh::parseQuery(doc, q);
                os << "Q " << vh::sexp(e) << "\n";
                for (size_t i = e0; i < doc.get_errors().size(); ++i) os << "D " << vh::diagLine("ERROR", doc.get_errors()[i], false) << "\n";
                for (size_t i = w0; i < doc.get_warnings().size(); ++i)
                    os << "D " << vh::diagLine("WARNING", doc.get_warnings()[i], false) << "\n";
            } else {
                os << "BAD-OP\n";
            }
        } catch (std::exception& ex) {
            os << "EXC " << typeid(ex).name() << " " << vh::quote(ex.what()) << "\n";
        }
        std::cout << os.str() << ".END" << std::endl;
    }
    return 0;
}
