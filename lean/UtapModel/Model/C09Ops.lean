/-
C09 — operator-trace model and the decidable hypotheses of the lexer theorems (core Lean only).

`opsTrace` is a precedence-climbing parser for the operator core of `Expression` (atoms, parentheses, prefix / postfix /
binary operators, `?:`, assignments, calls, indexing, `.`), driven *only* by the generated tables of parser.y
(`%left/%right` levels, the binary / unary / assignment productions with their callbacks, `NonTypeId`).  It emits the
ParserBuilder callback sequence.  A token influences the parse only through its `Info` (class, binding powers,
callbacks): this is what makes alias invariance a table fact.
-/
import UtapModel.Model.C09Lex
namespace UtapModel.C09

/-- 1-based index of the precedence line that lists `t`, with the line's associativity -/
def levelOf (levels : List (Assoc × List TokId)) (t : TokId) : Option (Nat × Assoc) :=
  let rec go (ls : List (Assoc × List TokId)) (i : Nat) : Option (Nat × Assoc) :=
    match ls with
    | [] => none
    | (a, ts) :: rest => if ts.contains t then some (i, a) else go rest (i + 1)
  go levels 1

/-- minimal binding power the operand to the right of a rule of precedence (lvl, assoc) is parsed with
    (bison: on equal precedence shift iff %right) -/
def rightBp (la : Nat × Assoc) : Nat := match la.2 with | .right => la.1 | _ => la.1 + 1

inductive Punct | none | lp | rp | lb | rb | comma | dot | quote | qmark | colon | posNegMax | location
  deriving DecidableEq, Repr

/-- everything the operator parser may learn about a token -/
structure Info where
  atom : Option String := none                                   -- callback of an atomic expression
  name : Option String := none                                   -- NonTypeId spelling (for `.` member access)
  pre : Option (String × Nat) := none                            -- prefix operator: callback, operand binding power
  post : Option (Nat × String) := none                           -- postfix operator: binding power, callback
  bin : Option (Nat × Nat × List String × List String) := none   -- left bp, right bp, callbacks before / after right operand
  punct : Punct := .none
  deriving DecidableEq, Repr

structure Tables where
  levels : List (Assoc × List TokId)
  binary : List (TokId × Nat)
  unary : List (TokId × Nat)
  assign : List (TokId × Nat)
  nonTypeId : List (TokId × Option (List Ch))
  kindNames : List String
  tokNames : List String

def Tables.kind (T : Tables) (k : Nat) : String := (T.kindNames[k]?).getD "?"
def Tables.tokIdx (T : Tables) (n : String) : TokId := (T.tokNames.findIdx? (· == n)).getD 100000

def chs (s : List Ch) : String := String.ofList (s.map Char.ofNat)

def hexOfChs (s : List Ch) : String :=
  let d (n : Nat) : Char := if n < 10 then Char.ofNat (48 + n) else Char.ofNat (87 + n)
  String.ofList (s.flatMap fun c => [d (c / 16), d (c % 16)])

def lookup {α} (l : List (TokId × α)) (t : TokId) : Option α :=
  match l with
  | [] => none
  | (a, b) :: r => if a == t then some b else lookup r t

/-- Info of a literal / keyword token, from the tables alone -/
def litInfo (T : Tables) (t : TokId) : Info :=
  let lv := levelOf T.levels t
  let uop := levelOf T.levels (T.tokIdx "UOPERATOR")
  let asg := levelOf T.levels (T.tokIdx "T_ASSIGNMENT")
  let binI : Option (Nat × Nat × List String × List String) :=
    match lookup T.binary t, lv with
    | some k, some la => some (la.1, rightBp la, [], ["expr_binary " ++ T.kind k])
    | _, _ =>
      match lookup T.assign t, lv, asg with
      | some k, some la, some _ => some (la.1, rightBp la, [], ["expr_assignment " ++ T.kind k])
      | _, _, _ =>
        if t == T.tokIdx "T_KW_IMPLY" then
          match lv with
          | some la => some (la.1, rightBp la, ["expr_unary NOT"], ["expr_binary OR"])
          | none => none
        else none
  let preI : Option (String × Nat) :=
    match lookup T.unary t, uop with
    | some k, some la => some ("expr_unary " ++ T.kind k, rightBp la)
    | _, _ =>
      if t == T.tokIdx "T_INCREMENT" then lv.map fun la => ("expr_pre_increment", rightBp la)
      else if t == T.tokIdx "T_DECREMENT" then lv.map fun la => ("expr_pre_decrement", rightBp la)
      else none
  let postI : Option (Nat × String) :=
    if t == T.tokIdx "T_INCREMENT" then lv.map fun la => (la.1, "expr_post_increment")
    else if t == T.tokIdx "T_DECREMENT" then lv.map fun la => (la.1, "expr_post_decrement")
    else if t == T.tokIdx "'\\''" then lv.map fun la => (la.1, "expr_unary RATE")
    else none
  let nm : Option String :=
    match lookup T.nonTypeId t with
    | some (some s) => some (chs s)
    | _ => none
  let atm : Option String :=
    match nm with
    | some s => some ("expr_identifier " ++ s)
    | none =>
      if t == T.tokIdx "T_TRUE" then some "expr_true"
      else if t == T.tokIdx "T_FALSE" then some "expr_false"
      else if t == T.tokIdx "T_DEADLOCK" then some "expr_deadlock"
      else none
  let p : Punct :=
    if t == T.tokIdx "'('" then .lp else if t == T.tokIdx "')'" then .rp
    else if t == T.tokIdx "'['" then .lb else if t == T.tokIdx "']'" then .rb
    else if t == T.tokIdx "','" then .comma else if t == T.tokIdx "'.'" then .dot
    else if t == T.tokIdx "'?'" then .qmark else if t == T.tokIdx "':'" then .colon
    else if t == T.tokIdx "T_LOCATION" then .location
    else .none
  { atom := atm, name := nm, pre := preI, post := postI, bin := binI, punct := p }

def tokInfo (T : Tables) : Tok → Option Info
  | .lit t => some (litInfo T t)
  | .id s => some { atom := some ("expr_identifier " ++ chs s), name := some (chs s) }
  | .nat n => some { atom := some ("expr_nat " ++ toString n) }
  | .float s => some { atom := some ("expr_double " ++ hexOfChs s) }
  | .str s => some { atom := some ("expr_string " ++ hexOfChs s) }
  | .posNegMax => some { punct := .posNegMax }
  | _ => none     -- typename, error tokens, newline: outside the operator core

structure PCfg where
  postBp : Nat        -- level of '(' '[' '.' '\''
  qBp : Nat           -- level of '?'
  qRight : Nat        -- binding power of the operand after ':'  (rule `%prec T_ASSIGNMENT`)

mutual
/-- parse one expression of binding power ≥ q; returns the callback trace and the unread tokens -/
def parseE (P : PCfg) : Nat → Nat → List Info → Option (List String × List Info)
  | 0, _, _ => none
  | f + 1, q, ts =>
    match ts with
    | [] => none
    | i :: rest =>
      match i.atom with
      | some c => loopE P f q [c] rest
      | none =>
        if i.punct == .lp then
          match parseE P f 0 rest with
          | some (tr, j :: rest') => if j.punct == .rp then loopE P f q tr rest' else none
          | _ => none
        else
          match i.pre with
          | some (cb, bp) =>
            -- T_MINUS T_POS_NEG_MAX
            match rest with
            | j :: rest' =>
              if j.punct == .posNegMax && cb == "expr_unary MINUS" then loopE P f q ["expr_nat -2147483648"] rest'
              else
                match parseE P f bp rest with
                | some (tr, rest'') => loopE P f q (tr ++ [cb]) rest''
                | none => none
            | [] => none
          | none => none
/-- continue an expression whose left part produced `tr` -/
def loopE (P : PCfg) : Nat → Nat → List String → List Info → Option (List String × List Info)
  | 0, _, _, _ => none
  | f + 1, q, tr, ts =>
    match ts with
    | [] => some (tr, [])
    | i :: rest =>
      match i.post with
      | some (bp, cb) => if bp ≥ q then loopE P f q (tr ++ [cb]) rest else some (tr, ts)
      | none =>
        match i.punct with
        | .lb =>
          if P.postBp ≥ q then
            match parseE P f 0 rest with
            | some (tr2, j :: rest') => if j.punct == .rb then loopE P f q (tr ++ tr2 ++ ["expr_array"]) rest' else none
            | _ => none
          else some (tr, ts)
        | .lp =>
          if P.postBp ≥ q then
            match rest with
            | j :: rest' =>
              if j.punct == .rp then loopE P f q (tr ++ ["expr_call_begin", "expr_call_end 0"]) rest'
              else
                match argsE P f 0 (tr ++ ["expr_call_begin"]) rest with
                | some (tr2, rest'') => loopE P f q tr2 rest''
                | none => none
            | [] => none
          else some (tr, ts)
        | .dot =>
          if P.postBp ≥ q then
            match rest with
            | j :: rest' =>
              if j.punct == .location then loopE P f q (tr ++ ["expr_location"]) rest'
              else match j.name with
                | some nm => loopE P f q (tr ++ ["expr_dot " ++ nm]) rest'
                | none => none
            | [] => none
          else some (tr, ts)
        | .qmark =>
          if P.qBp ≥ q then
            match parseE P f 0 rest with
            | some (tm, j :: rest') =>
              if j.punct == .colon then
                match parseE P f P.qRight rest' with
                | some (tr3, rest'') => loopE P f q (tr ++ tm ++ tr3 ++ ["expr_inline_if"]) rest''
                | none => none
              else none
            | _ => none
          else some (tr, ts)
        | _ =>
          match i.bin with
          | some (lbp, rbp, mid, fin) =>
            if lbp ≥ q then
              match parseE P f rbp rest with
              | some (tr2, rest') => loopE P f q (tr ++ mid ++ tr2 ++ fin) rest'
              | none => none
            else some (tr, ts)
          | none => some (tr, ts)
/-- call arguments after the first token of a non-empty list: e1 , e2 , ... ) -/
def argsE (P : PCfg) : Nat → Nat → List String → List Info → Option (List String × List Info)
  | 0, _, _, _ => none
  | f + 1, n, tr, ts =>
    match parseE P f 0 ts with
    | some (tr2, j :: rest) =>
      if j.punct == .rp then some (tr ++ tr2 ++ ["expr_call_end " ++ toString (n + 1)], rest)
      else if j.punct == .comma then argsE P f (n + 1) (tr ++ tr2) rest
      else none
    | _ => none
end

/-- the trace of a complete expression given as `Info`s -/
def parseInfos (P : PCfg) (is : List Info) : Option (List String) :=
  match parseE P (2 * is.length + 2) 0 is with
  | some (tr, []) => some tr
  | _ => none

def pcfgOf (T : Tables) : Option PCfg :=
  match levelOf T.levels (T.tokIdx "'['"), levelOf T.levels (T.tokIdx "'?'"), levelOf T.levels (T.tokIdx "T_ASSIGNMENT") with
  | some p, some q, some a => some { postBp := p.1, qBp := q.1, qRight := rightBp a }
  | _, _, _ => none

/-- callback trace of a token stream (none: not in the operator core, or not a complete expression) -/
def opsTraceT (T : Tables) (toks : List Tok) : Option (List String) :=
  match pcfgOf T, toks.mapM (tokInfo T) with
  | some P, some is => parseInfos P is
  | _, _ => none

end UtapModel.C09
