/- Helper lemmas of C20: the independent reader on the written tree of one location / edge / template. -/
import UtapModel.Model.XmlWrite
import Std.Data.String.ToNat
namespace UtapModel.AM

theorem idOf_injective {a b : Nat} (h : idOf a = idOf b) : a = b := by
  have h2 : toString a = toString b := by
    have := congrArg String.toList h
    simp only [idOf, String.toList_append] at this
    exact String.toList_inj.mp (List.append_cancel_left this)
  exact Nat.repr_injective h2

theorem allSome_map_some {α β} (f : α → Option β) (g : α → β) (l : List α) (h : ∀ x ∈ l, f x = some (g x)) :
    allSome (l.map f) = some (l.map g) := by
  induction l with
  | nil => rfl
  | cons x r ih =>
    simp only [List.map_cons, h x (by simp), allSome, ih (fun y hy => h y (by simp [hy]))]
    rfl

theorem allSome_none_of_mem {α} (l : List (Option α)) (h : none ∈ l) : allSome l = none := by
  induction l with
  | nil => cases h
  | cons x r ih =>
    cases x with
    | none => rfl
    | some a =>
      have : none ∈ r := by simpa using h
      simp [allSome, ih this]

/-! ### labels -/

theorem filterMap_wOptLabel (kind : String) (t : Option LTxt) :
    (wOptLabel kind t).filterMap lblF = optLabel kind t := by
  cases t with
  | none => rfl
  | some x => cases x <;> simp [wOptLabel, wLabel, optLabel, nontrivial, lblF, contentOf, txtStr, List.lookup]

theorem labelOf_wOptLabel_hit (kind : String) (t : Option LTxt) (rest : List Xml) (s : String) (h : nontrivial t = some s) :
    labelOf kind (wOptLabel kind t ++ rest) = some s := by
  cases t with
  | none => simp [nontrivial] at h
  | some x =>
    cases x <;> simp [nontrivial] at h <;>
      simp [wOptLabel, wLabel, labelOf, List.findSome?, contentOf, txtStr, List.lookup, h]

theorem labelOf_wOptLabel_miss (kind kind' : String) (t : Option LTxt) (rest : List Xml)
    (h : nontrivial t = none ∨ kind' ≠ kind) :
    labelOf kind (wOptLabel kind' t ++ rest) = labelOf kind rest := by
  cases t with
  | none => rfl
  | some x =>
    cases x with
    | one => rfl
    | andOne r =>
      rcases h with h | h
      · simp [nontrivial] at h
      · simp [wOptLabel, wLabel, labelOf, List.findSome?, List.lookup, h]
    | plain k =>
      rcases h with h | h
      · simp [nontrivial] at h
      · simp [wOptLabel, wLabel, labelOf, List.findSome?, List.lookup, h]

/-! ### one location -/

theorem labelOf_flags (kind : String) (u c : Bool) :
    labelOf kind (if c = true then [Xml.elem "committed" [] []] else if u = true then [Xml.elem "urgent" [] []] else []) = none := by
  cases u <;> cases c <;> simp [labelOf, List.findSome?]

theorem gLoc_wLoc (nl : WLoc × Nat) (h : (nl.1.urgent && nl.1.committed) = false) :
    gLoc (wLocAttrs nl) (wLocKids nl) = glocOf nl := by
  obtain ⟨⟨name, inv, rate, u, c⟩, n⟩ := nl
  simp only at h
  have hinv : labelOf "invariant" (wLocKids (⟨name, inv, rate, u, c⟩, n)) = nontrivial inv := by
    simp only [wLocKids, List.append_assoc, List.cons_append, List.nil_append]
    rw [show labelOf "invariant" (Xml.elem "name" [] [Xml.text (Txt.str name)] :: (wOptLabel "invariant" inv ++
          (wOptLabel "exponentialrate" rate ++ (if c = true then [Xml.elem "committed" [] []] else if u = true then [Xml.elem "urgent" [] []] else []))))
        = labelOf "invariant" (wOptLabel "invariant" inv ++
          (wOptLabel "exponentialrate" rate ++ (if c = true then [Xml.elem "committed" [] []] else if u = true then [Xml.elem "urgent" [] []] else [])))
        by simp [labelOf, List.findSome?]]
    cases hn : nontrivial inv with
    | some s => exact labelOf_wOptLabel_hit _ _ _ _ hn
    | none =>
      rw [labelOf_wOptLabel_miss _ _ _ _ (Or.inl hn), labelOf_wOptLabel_miss _ _ _ _ (Or.inr (by decide)), labelOf_flags]
  have hrate : labelOf "exponentialrate" (wLocKids (⟨name, inv, rate, u, c⟩, n)) = nontrivial rate := by
    simp only [wLocKids, List.append_assoc, List.cons_append, List.nil_append]
    rw [show labelOf "exponentialrate" (Xml.elem "name" [] [Xml.text (Txt.str name)] :: (wOptLabel "invariant" inv ++
          (wOptLabel "exponentialrate" rate ++ (if c = true then [Xml.elem "committed" [] []] else if u = true then [Xml.elem "urgent" [] []] else []))))
        = labelOf "exponentialrate" (wOptLabel "invariant" inv ++
          (wOptLabel "exponentialrate" rate ++ (if c = true then [Xml.elem "committed" [] []] else if u = true then [Xml.elem "urgent" [] []] else [])))
        by simp [labelOf, List.findSome?]]
    rw [labelOf_wOptLabel_miss _ _ _ _ (Or.inr (by decide))]
    cases hn : nontrivial rate with
    | some s => exact labelOf_wOptLabel_hit _ _ _ _ hn
    | none => rw [labelOf_wOptLabel_miss _ _ _ _ (Or.inl hn), labelOf_flags]
  have hflag : ∀ tag, tag = "urgent" ∨ tag = "committed" →
      hasChild tag (wLocKids (⟨name, inv, rate, u, c⟩, n)) =
        hasChild tag (if c = true then [Xml.elem "committed" [] []] else if u = true then [Xml.elem "urgent" [] []] else []) := by
    intro tag htag
    have hl : ∀ kind t, hasChild tag (wOptLabel kind t) = false := by
      intro kind t
      cases t with
      | none => rfl
      | some x => rcases htag with rfl | rfl <;> cases x <;> simp [wOptLabel, wLabel, hasChild]
    have happ : ∀ a b, hasChild tag (a ++ b) = (hasChild tag a || hasChild tag b) := by
      intro a b; simp [hasChild, List.any_append]
    simp only [wLocKids, happ, hl, Bool.or_false, Bool.false_or]
    rcases htag with rfl | rfl <;> simp [hasChild]
  simp only [gLoc, glocOf, hinv, hrate, hflag "urgent" (Or.inl rfl), hflag "committed" (Or.inr rfl)]
  cases u <;> cases c <;> simp_all [wLocAttrs, wLocKids, childText, List.findSome?, contentOf, txtStr, hasChild, flagOf, List.lookup]

/-! ### one edge -/

structure EdgeOk (c : WCfg) (e : WEdge) : Prop where
  prob : c.prob = true ∨ nontrivial e.prob = none
  sel : c.sel = true ∨ e.select = [] ∨ ∃ s, e.select = [s] ∧ s.named = true
  ctrl : c.ctrl = true ∨ e.ctrl = true
  ends : ∃ s d, wEnd c e.src = some s ∧ wEnd c e.dst = some d

theorem edgeOk_of (c : WCfg) (e : WEdge) (h : edgeShapes c e = []) : EdgeOk c e := by
  simp only [edgeShapes, List.append_eq_nil_iff] at h
  obtain ⟨⟨⟨⟨h1, h2⟩, h3⟩, h4⟩, h5⟩ := h
  refine ⟨?_, ?_, ?_, ?_⟩
  · cases hc : c.prob with
    | true => exact Or.inl rfl
    | false =>
      right
      cases hp : nontrivial e.prob with
      | none => rfl
      | some s => simp [hc, hp] at h1
  · cases hsel : c.sel with
    | true => exact Or.inl rfl
    | false =>
      right
      cases hs : e.select with
      | nil => exact Or.inl rfl
      | cons s r =>
        right
        cases r with
        | nil =>
          refine ⟨s, rfl, ?_⟩
          cases hn : s.named with
          | true => rfl
          | false => simp [hs, hn, hsel, selShapes] at h3
        | cons s2 r2 => simp [hs, hsel] at h2
  · cases hc : c.ctrl with
    | true => exact Or.inl rfl
    | false =>
      right
      cases he : e.ctrl with
      | true => rfl
      | false => simp [hc, he] at h4
  · cases hs : wEnd c e.src with
    | some s =>
      cases hd : wEnd c e.dst with
      | some d => exact ⟨s, d, rfl, rfl⟩
      | none => simp [hs, hd] at h5
    | none => simp [hs] at h5

def wEdge' (c : WCfg) (e : WEdge) : Xml :=
  .elem "transition" (wEdgeAttrs c e) (wEdgeKids c e ((wEnd c e.src).getD "") ((wEnd c e.dst).getD ""))

theorem wEdge_ok (c : WCfg) (e : WEdge) (h : EdgeOk c e) : wEdge c e = some (wEdge' c e) := by
  obtain ⟨s, d, hs, hd⟩ := h.ends
  simp [wEdge, wEdge', hs, hd]

theorem filterMap_lblF_append (a b : List Xml) : (a ++ b).filterMap lblF = a.filterMap lblF ++ b.filterMap lblF :=
  List.filterMap_append

theorem wEnd_eq_endId (c : WCfg) (x : WEnd) : wEnd c x = endId c x := by
  cases x <;> rfl

theorem gEdge_wEdge (c : WCfg) (e : WEdge) (h : EdgeOk c e) :
    ∃ a k, wEdge' c e = Xml.elem "transition" a k ∧ gEdge a k = gedgeOf c e := by
  obtain ⟨s, d, hs, hd⟩ := h.ends
  refine ⟨wEdgeAttrs c e, wEdgeKids c e s d, by simp [wEdge', hs, hd], ?_⟩
  have hlab : (wEdgeLabels c e).filterMap lblF =
      (if e.select.isEmpty then [] else [("select", selectsText e.select)]) ++ optLabel "guard" e.guard ++
        optLabel "synchronisation" e.sync ++ optLabel "assignment" e.assign ++ optLabel "probability" e.prob := by
    have hp : (if c.prob then wOptLabel "probability" e.prob else []).filterMap lblF = optLabel "probability" e.prob := by
      rcases h.prob with hc | hn
      · simp [hc, filterMap_wOptLabel]
      · cases hc : c.prob <;> simp [filterMap_wOptLabel, optLabel, hn]
    simp only [wEdgeLabels, filterMap_lblF_append, filterMap_wOptLabel, hp]
    rcases h.sel with hc | hsel | ⟨x, hsel, hnamed⟩
    · cases he : e.select.isEmpty <;> simp [hc, he, lblF, contentOf, txtStr, List.lookup]
    · cases hc : c.sel <;> simp [hsel, hc]
    · cases hc : c.sel <;> simp [hsel, hnamed, hc, lblF, contentOf, txtStr, List.lookup, selectsText]
  have hctrl : ctrlOfAttrs (wEdgeAttrs c e) = e.ctrl := by
    rcases h.ctrl with hc | he
    · cases he : e.ctrl <;> simp [ctrlOfAttrs, wEdgeAttrs, hc, he, List.lookup]
    · simp [ctrlOfAttrs, wEdgeAttrs, he, List.lookup]
  have hfm : (wEdgeKids c e s d).filterMap lblF = (wEdgeLabels c e).filterMap lblF := by
    simp [wEdgeKids, lblF, List.filterMap_cons]
  simp only [gEdge, gedgeOf, hctrl, hfm, hlab, ← wEnd_eq_endId, hs, hd]
  simp [wEdgeKids, refOf, List.findSome?, List.lookup]

/-! ### one template -/

structure TemplOk (c : WCfg) (t : WTempl) : Prop where
  init : ∃ i, t.init = some i
  edges : ∀ e ∈ t.edges, EdgeOk c e
  locs : ∀ l ∈ t.locs, (l.urgent && l.committed) = false

theorem templOk_of (c : WCfg) (t : WTempl) (h : templShapes c t = []) : TemplOk c t := by
  simp only [templShapes, List.append_eq_nil_iff, List.flatMap_eq_nil_iff] at h
  obtain ⟨⟨h1, h2⟩, h3⟩ := h
  refine ⟨?_, fun e he => edgeOk_of c e (h1 e he), ?_⟩
  · cases hi : t.init with
    | some i => exact ⟨i, rfl⟩
    | none => simp [hi] at h3
  · intro l hl
    cases hb : (l.urgent && l.committed) with
    | false => rfl
    | true =>
      have : t.locs.any (fun l => l.urgent && l.committed) = true := List.any_eq_true.mpr ⟨l, hl, hb⟩
      simp [this] at h2

def wTempl' (c : WCfg) (t : WTempl) : Xml :=
  .elem "template" []
    ([Xml.elem "name" [] [.text (.str t.name)], Xml.elem "parameter" [] [], Xml.elem "declaration" [] []] ++
     (t.locs.zipIdx.map (fun nl => Xml.elem "location" (wLocAttrs nl) (wLocKids nl)) ++
      (wBps c t ++ ([Xml.elem "init" [("ref", idOf (t.init.getD 0))] []] ++ t.edges.map (wEdge' c)))))

theorem wTempl_ok (c : WCfg) (t : WTempl) (h : TemplOk c t) : wTempl c t = some (wTempl' c t) := by
  obtain ⟨i, hi⟩ := h.init
  have := allSome_map_some (wEdge c) (wEdge' c) t.edges (fun e he => wEdge_ok c e (h.edges e he))
  simp [wTempl, wTempl', hi, this]

theorem filterMap_none {α β} (f : α → Option β) (l : List α) (h : ∀ x ∈ l, f x = none) : l.filterMap f = [] := by
  induction l with
  | nil => rfl
  | cons x r ih => simp [List.filterMap_cons, h x (by simp), ih (fun y hy => h y (by simp [hy]))]

theorem filterMap_map_some {α β γ} (f : β → Option γ) (g : α → β) (k : α → γ) (l : List α) (h : ∀ x ∈ l, f (g x) = some (k x)) :
    (l.map g).filterMap f = l.map k := by
  induction l with
  | nil => rfl
  | cons x r ih => simp [List.filterMap_cons, h x (by simp), ih (fun y hy => h y (by simp [hy]))]

theorem wBps_none {β} (c : WCfg) (t : WTempl) (f : Xml → Option β)
    (hf : ∀ a k, f (Xml.elem "branchpoint" a k) = none) : (wBps c t).filterMap f = [] := by
  apply filterMap_none
  intro x hx
  unfold wBps at hx
  cases hc : c.bps with
  | false => simp [hc] at hx
  | true =>
    simp only [hc, ↓reduceIte] at hx
    obtain ⟨b, _, rfl⟩ := List.mem_map.mp hx
    exact hf _ _

theorem gTempl_wTempl (c : WCfg) (t : WTempl) (h : TemplOk c t) :
    ∃ k, wTempl' c t = Xml.elem "template" [] k ∧ gTempl k = gtemplOf c t := by
  obtain ⟨i, hi⟩ := h.init
  refine ⟨_, rfl, ?_⟩
  have hwe : ∀ e : WEdge, ∃ a k, wEdge' c e = Xml.elem "transition" a k := fun e => ⟨_, _, rfl⟩
  -- locations
  have hlocs : (t.locs.zipIdx.map (fun nl => Xml.elem "location" (wLocAttrs nl) (wLocKids nl))).filterMap locF
      = t.locs.zipIdx.map glocOf := by
    apply filterMap_map_some
    intro nl hnl
    simp only [locF, ↓reduceIte]
    rw [gLoc_wLoc nl (h.locs nl.1 (List.fst_mem_of_mem_zipIdx hnl))]
  have hlocsE : (t.edges.map (wEdge' c)).filterMap locF = [] := by
    apply filterMap_none; intro x hx
    obtain ⟨e, _, rfl⟩ := List.mem_map.mp hx
    obtain ⟨a, k, hk⟩ := hwe e; simp [hk, locF]
  -- init
  have hinitL : (t.locs.zipIdx.map (fun nl => Xml.elem "location" (wLocAttrs nl) (wLocKids nl))).filterMap initF = [] := by
    apply filterMap_none; intro x hx
    obtain ⟨nl, _, rfl⟩ := List.mem_map.mp hx; simp [initF]
  have hinitE : (t.edges.map (wEdge' c)).filterMap initF = [] := by
    apply filterMap_none; intro x hx
    obtain ⟨e, _, rfl⟩ := List.mem_map.mp hx
    obtain ⟨a, k, hk⟩ := hwe e; simp [hk, initF]
  -- edges
  have hedgesL : (t.locs.zipIdx.map (fun nl => Xml.elem "location" (wLocAttrs nl) (wLocKids nl))).filterMap edgeF = [] := by
    apply filterMap_none; intro x hx
    obtain ⟨nl, _, rfl⟩ := List.mem_map.mp hx; simp [edgeF]
  have hedges : (t.edges.map (wEdge' c)).filterMap edgeF = t.edges.map (gedgeOf c) := by
    apply filterMap_map_some
    intro e he
    obtain ⟨a, k, hk, hg⟩ := gEdge_wEdge c e (h.edges e he)
    simp [hk, edgeF, hg]
  have hb1 := wBps_none c t locF (by intro a k; simp [locF])
  have hb2 := wBps_none c t initF (by intro a k; simp [initF])
  have hb3 := wBps_none c t edgeF (by intro a k; simp [edgeF])
  simp only [gTempl, gtemplOf, List.filterMap_append, hlocs, hlocsE, hinitL, hinitE, hedgesL, hedges, hb1, hb2, hb3, hi,
    Option.getD_some]
  simp [locF, initF, edgeF, childText, List.findSome?, contentOf, txtStr, List.filterMap_cons, List.lookup]

/-! ### when the writer crashes -/

theorem allSome_eq_none_iff {α} (l : List (Option α)) : allSome l = none ↔ none ∈ l := by
  induction l with
  | nil => simp [allSome]
  | cons x r ih =>
    cases x with
    | none => simp [allSome]
    | some a => simp [allSome, ih]

theorem mem_ite_singleton {α} (c : Prop) [Decidable c] (a b : α) : a ∈ (if c then [b] else []) ↔ c ∧ a = b := by
  by_cases h : c <;> simp [h]

theorem selShapes_only0 (select : List WSel) (x : Shape) (hx : x ≠ Shape.selectTypeDropped) : x ∉ selShapes select := by
  cases select with
  | nil => simp [selShapes]
  | cons s r => cases hn : s.named <;> simp [selShapes, hn, hx]

theorem selShapes_only (b : Bool) (select : List WSel) (x : Shape) (hx : x ≠ Shape.selectTypeDropped) :
    x ∉ (if b then [] else selShapes select) := by
  cases b
  · simpa using selShapes_only0 select x hx
  · simp

theorem bp_mem_edgeShapes (c : WCfg) (e : WEdge) : Shape.branchpointEndpoint ∈ edgeShapes c e ↔ wEdge c e = none := by
  obtain ⟨src, dst, ctrl, select, guard, sync, assign, prob⟩ := e
  have h1 := selShapes_only c.sel select Shape.branchpointEndpoint (by decide)
  simp only [edgeShapes, List.mem_append, mem_ite_singleton, h1, or_false]
  cases hs : wEnd c src <;> cases hd : wEnd c dst <;> simp [wEdge, hs, hd]

theorem noInit_not_mem_edgeShapes (c : WCfg) (e : WEdge) : Shape.noInit ∉ edgeShapes c e := by
  obtain ⟨src, dst, ctrl, select, guard, sync, assign, prob⟩ := e
  have h1 := selShapes_only c.sel select Shape.noInit (by decide)
  simp only [edgeShapes, List.mem_append, mem_ite_singleton, h1, or_false]
  cases hs : wEnd c src <;> cases hd : wEnd c dst <;> simp [hs, hd]

theorem wTempl_eq_none_iff (c : WCfg) (t : WTempl) :
    wTempl c t = none ↔ Shape.branchpointEndpoint ∈ templShapes c t ∨ Shape.noInit ∈ templShapes c t := by
  have hE : allSome (t.edges.map (wEdge c)) = none ↔ ∃ e ∈ t.edges, wEdge c e = none := by
    rw [allSome_eq_none_iff]; simp [List.mem_map]
  have hb : Shape.branchpointEndpoint ∈ templShapes c t ↔ ∃ e ∈ t.edges, wEdge c e = none := by
    simp only [templShapes, List.mem_append, List.mem_flatMap, mem_ite_singleton, bp_mem_edgeShapes]
    simp
  have hn : Shape.noInit ∈ templShapes c t ↔ t.init = none := by
    simp only [templShapes, List.mem_append, List.mem_flatMap, mem_ite_singleton]
    constructor
    · rintro ((⟨e, _, he⟩ | h) | h)
      · exact absurd he (noInit_not_mem_edgeShapes c e)
      · simp at h
      · simpa using h.1
    · intro h; right; simp [h]
  rw [hb, hn, ← hE]
  cases hi : t.init with
  | none => simp [wTempl, hi]
  | some i =>
    cases ha : allSome (t.edges.map (wEdge c)) with
    | none => simp [wTempl, hi, ha]
    | some es => simp [wTempl, hi, ha]

theorem unbound_not_mem_templShapes (c : WCfg) (t : WTempl) : Shape.unboundProcess ∉ templShapes c t := by
  simp only [templShapes, List.mem_append, List.mem_flatMap, mem_ite_singleton, not_or, not_exists, not_and]
  refine ⟨⟨?_, by simp⟩, by simp⟩
  intro e _
  obtain ⟨src, dst, ctrl, select, guard, sync, assign, prob⟩ := e
  have h1 := selShapes_only c.sel select Shape.unboundProcess (by decide)
  simp only [edgeShapes, List.mem_append, mem_ite_singleton, h1, or_false]
  cases hs : wEnd c src <;> cases hd : wEnd c dst <;> simp [hs, hd]


end UtapModel.AM
