/- Initial-location clause of C08: the readers' protocol `initShape` and the invariant it maintains.
   Helper lemmas for Props/C08.lean. -/
import UtapModel.Lemmas.C08Own
namespace UtapModel.Builder

/-- what the initial-location clause looks at in a template -/
def Templ.core (T : Templ) : Bool × Bool × Bool := (T.isTA, T.dynamic, T.init.isSome)

def Call.isInitSpecial : Call → Bool
  | .procBegin _ _ | .procEnd | .procLocationInit _ | .handleError | .declDynamicTemplate _ => true
  | _ => false

structure Keeps (s s' : BState) : Prop where
  cur : s'.currentTemplate = s.currentTemplate
  diags : s.diags ≤ s'.diags
  core : s'.doc.templates.map Templ.core = s.doc.templates.map Templ.core

theorem Keeps.refl (s : BState) : Keeps s s := ⟨rfl, Nat.le_refl _, rfl⟩
theorem Keeps.trans {a b c : BState} (h1 : Keeps a b) (h2 : Keeps b c) : Keeps a c :=
  ⟨h2.cur.trans h1.cur, Nat.le_trans h1.diags h2.diags, h2.core.trans h1.core⟩
theorem Keeps.of_eq {s s' : BState} (h1 : s'.currentTemplate = s.currentTemplate) (h2 : s.diags ≤ s'.diags)
    (h3 : s'.doc.templates = s.doc.templates) : Keeps s s' := ⟨h1, h2, by rw [h3]⟩
theorem keeps_ite {c : Prop} [Decidable c] {s a b : BState} (ha : Keeps s a) (hb : Keeps s b) : Keeps s (if c then a else b) := by
  split <;> assumption

theorem core_modify (l : List Templ) (t : Nat) (f : Templ → Templ) (hf : ∀ T, (f T).core = T.core) :
    (l.modify t f).map Templ.core = l.map Templ.core := by
  apply List.ext_getElem?
  intro i
  simp only [List.getElem?_map, List.getElem?_modify]
  cases l[i]? with
  | none => rfl
  | some T => by_cases h : t = i <;> simp [h, hf]

theorem keeps_error (s : BState) : Keeps s s.error := ⟨rfl, Nat.le_succ _, rfl⟩
theorem keeps_addSymbol (s : BState) (f : FrameId) (n : String) (ty : STy) (u : Option Obj) : Keeps s (s.addSymbol f n ty u).1 :=
  ⟨rfl, Nat.le_refl _, rfl⟩
theorem keeps_addVariable (s : BState) (ty : Ty) (n : String) : Keeps s (s.addVariable ty n).1 := by
  unfold BState.addVariable; cases s.currentFun <;> exact ⟨rfl, Nat.le_refl _, rfl⟩
theorem keeps_addFunction (s : BState) (n : String) : Keeps s (s.addFunction n).1 := ⟨rfl, Nat.le_refl _, rfl⟩
theorem keeps_addLocation (s : BState) (t : Nat) (n : String) (a b : Bool) : Keeps s (s.addLocation t n a b).1 := by
  unfold BState.addLocation; split <;> exact ⟨rfl, Nat.le_refl _, rfl⟩
theorem keeps_addBranchpoint (s : BState) (t : Nat) (n : String) : Keeps s (s.addBranchpoint t n).1 := by
  unfold BState.addBranchpoint; split <;> exact ⟨rfl, Nat.le_refl _, rfl⟩
theorem keeps_addInstance (s : BState) (l : Bool) (n : String) (o : Inst) (ps : List SymId) (es : List Expr) : Keeps s (s.addInstance l n o ps es) :=
  ⟨rfl, Nat.le_refl _, rfl⟩
theorem keeps_addProcess (s : BState) (i : Inst) : Keeps s (s.addProcess i) := ⟨rfl, Nat.le_refl _, rfl⟩
theorem keeps_setEdge (s : BState) (f : Edge → Expr → Edge) : Keeps s (s.setEdge f) := by
  unfold BState.setEdge
  split
  · exact keeps_error s
  · exact ⟨rfl, Nat.le_refl _, core_modify _ _ _ (fun _ => rfl)⟩
theorem keeps_addSelectSymbol (s : BState) (n : String) (f : Option FrameId) : Keeps s (s.addSelectSymbol n f) := by
  unfold BState.addSelectSymbol
  simp only [BState.popType]
  refine keeps_ite ⟨rfl, Nat.le_succ _, rfl⟩ ?_
  cases f with
  | some f =>
    refine Keeps.trans (b := (if (s.popType.1.resolve n).isSome then s.popType.1.warning else s.popType.1)) ?_ (keeps_addSymbol _ _ _ _ _)
    exact keeps_ite ⟨rfl, Nat.le_refl _, rfl⟩ ⟨rfl, Nat.le_refl _, rfl⟩
  | none => exact keeps_ite ⟨rfl, Nat.le_refl _, rfl⟩ ⟨rfl, Nat.le_refl _, rfl⟩

theorem keeps_sandwich {s x y s' : BState} (h : Keeps x y) (pre : Keeps s x) (post : Keeps y s') : Keeps s s' :=
  Keeps.trans (Keeps.trans pre h) post


theorem K0 {s s' : BState} (h1 : s'.currentTemplate = s.currentTemplate := by rfl) (h2 : s'.diags = s.diags := by rfl)
    (h3 : s'.doc.templates = s.doc.templates := by rfl) : Keeps s s' := ⟨h1, by rw [h2]; exact Nat.le_refl _, by rw [h3]⟩

/-- callbacks other than proc_begin / proc_end / proc_location_init / handle_error / decl_dynamic_template: the current
    template stays, diagnostics only accumulate, no template appears and none changes its kind or loses / gains its init -/
theorem step_keeps (s : BState) (c : Call) (h : c.isInitSpecial = false) : Keeps s (step s c) := by
  cases c <;> (try (simp [Call.isInitSpecial] at h; done))
  case handleWarning => exact K0
  case frag => exact K0
  case exprIdentifier => exact K0
  case quantBegin n =>
    refine keeps_sandwich (keeps_addSymbol s.popType.1.pushNewFrame s.popType.1.pushNewFrame.top n (.var s.popType.2) none) K0 ?_
    exact ⟨rfl, Nat.le_add_right _ _, rfl⟩
  case quantEnd => exact K0
  case dynQuantBegin n => exact keeps_sandwich (keeps_addSymbol s.pushNewFrame s.pushNewFrame.top n .processVar none) K0 K0
  case dynQuantEnd => exact K0
  case typeDuplicate => exact K0
  case typePop => exact K0
  case typePrim => exact K0
  case typeName n =>
    simp only [step]
    cases s.resolveSym n with
    | none => exact K0
    | some p => obtain ⟨sid, ⟨nm, ty, u⟩⟩ := p; cases ty <;> exact K0
  case typeArrayOfSize => exact K0
  case typeArrayOfType => exact K0
  case typeStruct => exact K0
  case structField => exact K0
  case declTypedef n =>
    simp only [step, BState.popType]
    refine keeps_ite K0 ?_
    exact keeps_sandwich (keeps_addSymbol s.popType.1 s.popType.1.top n (.typedef s.popType.2) none) K0 K0
  case declVar n i =>
    cases i
    · exact keeps_sandwich (keeps_addVariable s.popType.1 s.popType.2 n) K0 K0
    · exact keeps_sandwich (keeps_addVariable s.popFrag.popType.1 s.popFrag.popType.2 n) K0 K0
  case declParameter n => exact keeps_sandwich (keeps_addSymbol s.popType.1 s.popType.1.params n (.var s.popType.2) none) K0 K0
  case declFuncBegin n =>
    refine keeps_sandwich (keeps_addFunction (({ s with currentFun := none } : BState).popType.1) n) K0 ?_
    simp only [step]
    refine ⟨?_, ?_, ?_⟩
    · simp only [BState.pushNewFrame, BState.newFrame, BState.pushFrame]; split <;> rfl
    · simp only [BState.pushNewFrame, BState.newFrame, BState.pushFrame]; split <;> simp [BState.error]
    · simp only [BState.pushNewFrame, BState.newFrame, BState.pushFrame]; split <;> rfl
  case declFuncEnd => exact K0
  case declExternalFunc n =>
    refine keeps_sandwich (keeps_addFunction s.popType.1 n) K0 ?_
    simp only [step]
    refine ⟨?_, ?_, ?_⟩
    · simp only [BState.pushNewFrame, BState.newFrame, BState.pushFrame, BState.popFrame]; split <;> rfl
    · simp only [BState.pushNewFrame, BState.newFrame, BState.pushFrame, BState.popFrame]; split <;> simp [BState.error]
    · simp only [BState.pushNewFrame, BState.newFrame, BState.pushFrame, BState.popFrame]; split <;> rfl
  case blockBegin => exact K0
  case blockEnd => exact K0
  case iterationBegin n => exact keeps_sandwich (keeps_addVariable s.popType.1.pushNewFrame s.popType.2 n) K0 K0
  case iterationEnd => exact K0
  case returnStatement a =>
    simp only [step]
    cases s.currentFun with
    | none => exact keeps_error s
    | some f => cases a <;> exact K0
  case procLocation n a b =>
    simp only [step]
    cases hct : (if a = true then (if b = true then s.popFrag else s).popFrag else (if b = true then s.popFrag else s)).currentTemplate with
    | none => cases a <;> cases b <;> exact K0
    | some t =>
      refine keeps_sandwich (keeps_addLocation _ t n a b) ?_ K0
      cases a <;> cases b <;> exact K0
  case procLocationCommit n =>
    simp only [step]
    cases s.resolveSym n with
    | none => exact keeps_error s
    | some p =>
      obtain ⟨sid, ⟨nm, ty, u⟩⟩ := p
      cases ty <;> try exact keeps_error s
      rename_i ur cm
      cases ur
      · exact K0
      · exact keeps_error s
  case procLocationUrgent n =>
    simp only [step]
    cases s.resolveSym n with
    | none => exact keeps_error s
    | some p =>
      obtain ⟨sid, ⟨nm, ty, u⟩⟩ := p
      cases ty <;> try exact keeps_error s
      rename_i ur cm
      cases cm
      · exact K0
      · exact keeps_error s
  case procBranchpoint n =>
    simp only [step]
    cases s.currentTemplate with
    | none => exact Keeps.refl _
    | some t => exact keeps_addBranchpoint _ _ _
  case procEdgeBegin a b c =>
    simp only [step]
    split
    · exact ⟨rfl, Nat.le_refl _, core_modify _ _ _ (fun _ => rfl)⟩
    · exact K0
    · exact ⟨rfl, Nat.le_succ _, rfl⟩
  case procEdgeEnd => exact K0
  case procSelect n =>
    simp only [step]
    cases s.currentEdge with
    | none => exact keeps_error s
    | some p => exact keeps_addSelectSymbol _ _ _
  case procGuard => simp only [step]; exact keeps_setEdge _ _
  case procSync =>
    simp only [step]
    cases s.currentEdge with
    | none => exact keeps_error s
    | some p => exact keeps_sandwich (keeps_setEdge s.fresh.1 _) K0 K0
  case procUpdate => simp only [step]; exact keeps_setEdge _ _
  case procProb => simp only [step]; exact keeps_setEdge _ _
  case ganttDeclBegin => exact K0
  case ganttSelect n => simp only [step]; exact keeps_addSelectSymbol _ _ _
  case ganttDeclEnd => exact K0
  case ganttEntryBegin => exact K0
  case ganttEntryEnd => exact K0
  case instanceNameBegin => exact K0
  case instanceNameEnd => exact K0
  case instantiationBegin a b =>
    simp only [step]
    refine ⟨?_, ?_, ?_⟩
    · simp only [BState.newFrame, BState.pushFrame]; split <;> (try rfl) <;> (split <;> rfl)
    · simp only [BState.newFrame, BState.pushFrame]
      split <;> (split <;> simp [BState.error]) <;> omega
    · simp only [BState.newFrame, BState.pushFrame]; split <;> (try rfl) <;> (split <;> rfl)
  case instantiationEnd a b n =>
    simp only [step]
    have key : ∀ (lsc : Bool) (expected : Nat) (user : Option Obj), Keeps s
        (if n < expected then s.popFrame.error.popFrag n
         else if n > expected then s.popFrame.error.popFrag n
         else match user.bind s.popFrame.doc.inst? with
           | some old => (s.popFrame.popFrag n).addInstance lsc a old (s.frameD s.top).syms
               ((List.range n).map (fun i => s.popFrame.fragments.getD (n - 1 - i) 0))
           | none => s.popFrame.popFrag n) := by
      intro lsc expected user
      refine keeps_ite ⟨rfl, Nat.le_succ _, rfl⟩ (keeps_ite ⟨rfl, Nat.le_succ _, rfl⟩ ?_)
      cases user.bind s.popFrame.doc.inst? with
      | none => exact K0
      | some old => exact keeps_sandwich (keeps_addInstance (s.popFrame.popFrag n) lsc a old _ _) K0 K0
    cases s.popFrame.resolveSym b with
    | none => exact K0
    | some p =>
      obtain ⟨sid, ⟨nm, ty, u⟩⟩ := p
      cases ty <;> first | exact key _ _ _ | exact K0
  case process n =>
    simp only [step]
    split
    · split
      · exact keeps_addProcess _ _
      · exact Keeps.refl _
    · exact Keeps.refl _


theorem diags_step (s : BState) (c : Call) : s.diags ≤ (step s c).diags := by
  by_cases h : c.isInitSpecial = false
  · exact (step_keeps s c h).diags
  · cases c <;> simp [Call.isInitSpecial] at h
    case handleError => exact Nat.le_succ _
    case procEnd => exact Nat.le_refl _
    case procLocationInit n =>
      simp only [step]
      cases s.resolveSym n with
      | none => exact Nat.le_succ _
      | some p =>
        obtain ⟨sid, ⟨nm, ty, u⟩⟩ := p
        cases ty <;> try exact Nat.le_succ _
        cases s.currentTemplate <;> exact Nat.le_refl _
    case declDynamicTemplate n =>
      simp only [step, BState.addTemplate, BState.addSymbol, BState.newFrame]
      split <;> simp [BState.error]
    case procBegin n isTA =>
      simp only [step]
      cases s.findDynamicTemplate n with
      | some t => exact Nat.le_refl _
      | none =>
        simp only [BState.addTemplate, BState.addSymbol, BState.newFrame, BState.pushFrame]
        split <;> simp [BState.error]

theorem diags_run (cs : List Call) : ∀ s : BState, s.diags ≤ (run s cs).diags := by
  induction cs with
  | nil => intro s; exact Nat.le_refl _
  | cons c r ih => intro s; exact Nat.le_trans (diags_step s c) (ih (step s c))

/-- all closed TA templates have an initial location; the open one (flag p) may still lack it -/
def InitInv (s : BState) (p : Bool) : Prop :=
  ∀ (t : Nat) (T : Templ), s.doc.templates[t]? = some T → T.isTA = true → T.dynamic = false →
    T.init.isSome = true ∨ (p = true ∧ s.currentTemplate = some t)

theorem InitInv.keeps {s s' : BState} {p : Bool} (h : InitInv s p) (k : Keeps s s') : InitInv s' p := by
  intro t T' hT' hta hdy
  have hc := congrArg (fun l => l[t]?) k.core
  simp only [List.getElem?_map, hT'] at hc
  cases hT : s.doc.templates[t]? with
  | none => simp [hT] at hc
  | some T =>
    simp [hT, Templ.core] at hc
    obtain ⟨h1, h2, h3⟩ := hc
    rcases h t T hT (by rw [← h1]; exact hta) (by rw [← h2]; exact hdy) with h4 | ⟨h4, h5⟩
    · left; rw [h3]; exact h4
    · right; exact ⟨h4, by rw [k.cur]; exact h5⟩

theorem init_location_run (cs : List Call) : ∀ (s : BState) (p : Bool), InitInv s p → initShape p cs = true →
    (run s cs).diags = s.diags → InitInv (run s cs) false := by
  induction cs with
  | nil =>
    intro s p h hs _
    simp [initShape] at hs; subst hs; exact h
  | cons c r ih =>
    intro s p h hs hd
    have h1 := diags_step s c
    have h2 := diags_run r (step s c)
    have hd' : (run (step s c) r).diags = s.diags := hd
    have hsame : (step s c).diags = s.diags := Nat.le_antisymm (by rw [← hd']; exact h2) h1
    have hrest : (run (step s c) r).diags = (step s c).diags := by rw [hsame]; exact hd'
    show InitInv (run (step s c) r) false
    by_cases hsp : c.isInitSpecial = false
    · have hs' : initShape p r = true := by
        cases c <;> simp [Call.isInitSpecial] at hsp <;> simpa [initShape] using hs
      exact ih (step s c) p (h.keeps (step_keeps s c hsp)) hs' hrest
    · cases c <;> simp [Call.isInitSpecial] at hsp
      case handleError =>
        simp [step, BState.error] at hsame
      case procEnd =>
        simp only [initShape, Bool.and_eq_true, Bool.not_eq_true'] at hs
        obtain ⟨hp, hs'⟩ := hs
        subst hp
        refine ih (step s .procEnd) false ?_ hs' hrest
        intro t T hT hta hdy
        rcases h t T hT hta hdy with h4 | ⟨h4, _⟩
        · exact Or.inl h4
        · cases h4
      case procLocationInit n =>
        simp only [initShape] at hs
        refine ih (step s (.procLocationInit n)) false ?_ hs hrest
        simp only [step] at hsame ⊢
        cases hr : s.resolveSym n with
        | none => simp [hr, BState.error] at hsame
        | some q =>
          obtain ⟨sid, ⟨nm, ty, u⟩⟩ := q
          cases ty <;> try (simp [hr, BState.error] at hsame; done)
          cases hc : s.currentTemplate with
          | none =>
            intro t T hT hta hdy
            rcases h t T hT hta hdy with h4 | ⟨_, h5⟩
            · exact Or.inl h4
            · rw [hc] at h5; cases h5
          | some tc =>
            intro t T' hT' hta hdy
            simp only [Doc.modifyTempl, List.getElem?_modify] at hT'
            cases hT : s.doc.templates[t]? with
            | none => simp [hT] at hT'
            | some T =>
              simp [hT] at hT'
              by_cases he : tc = t
              · simp [he] at hT'; subst hT'; exact Or.inl rfl
              · simp [he] at hT'; subst hT'
                rcases h t T hT hta hdy with h4 | ⟨_, h5⟩
                · exact Or.inl h4
                · rw [hc] at h5; cases h5; exact absurd rfl he
      case declDynamicTemplate n =>
        simp only [initShape, Bool.and_eq_true, Bool.not_eq_true'] at hs
        obtain ⟨hp, hs'⟩ := hs
        subst hp
        refine ih (step s (.declDynamicTemplate n)) false ?_ hs' hrest
        intro t T' hT' hta hdy
        have hts : (step s (.declDynamicTemplate n)).doc.templates =
            s.doc.templates ++ [mkTempl s.syms.length (s.frameD s.params).syms s.doc.templates.length s.store.length true true] := by
          simp only [step, BState.addTemplate, BState.addSymbol, BState.newFrame]; split <;> rfl
        rw [hts] at hT'
        rcases append_one_split hT' with ⟨_, ho⟩ | ⟨_, hx⟩
        · rcases h t T' ho hta hdy with h4 | ⟨h4, _⟩
          · exact Or.inl h4
          · cases h4
        · subst hx; simp [mkTempl] at hdy
      case procBegin n isTA =>
        simp only [initShape, Bool.and_eq_true, Bool.not_eq_true'] at hs
        obtain ⟨hp, hs'⟩ := hs
        subst hp
        refine ih (step s (.procBegin n isTA)) isTA ?_ hs' hrest
        intro t T' hT' hta hdy
        simp only [step] at hT'
        cases hf : s.findDynamicTemplate n with
        | some td =>
          have hts : (step s (.procBegin n isTA)).doc.templates = s.doc.templates.modify td (fun T => { T with isDefined := true }) := by
            simp only [step, hf, BState.newFrame, BState.pushFrame]; rfl
          have hT'' : (step s (.procBegin n isTA)).doc.templates[t]? = some T' := by simp only [step]; exact hT'
          rw [hts, List.getElem?_modify] at hT''
          cases hT : s.doc.templates[t]? with
          | none => simp [hT] at hT''
          | some T =>
            simp [hT] at hT''
            have hcore : T'.isTA = T.isTA ∧ T'.dynamic = T.dynamic ∧ T'.init = T.init := by
              by_cases he : td = t
              · simp [he] at hT''; rw [← hT'']; exact ⟨rfl, rfl, rfl⟩
              · simp [he] at hT''; rw [← hT'']; exact ⟨rfl, rfl, rfl⟩
            rcases h t T hT (by rw [← hcore.1]; exact hta) (by rw [← hcore.2.1]; exact hdy) with h4 | ⟨h4, _⟩
            · left; rw [hcore.2.2]; exact h4
            · cases h4
        | none =>
          have hts : (step s (.procBegin n isTA)).doc.templates =
              s.doc.templates ++ [mkTempl s.syms.length (s.frameD s.params).syms s.doc.templates.length s.store.length isTA false] := by
            simp only [step, hf, BState.addTemplate, BState.addSymbol, BState.newFrame, BState.pushFrame]; split <;> rfl
          have hcur : (step s (.procBegin n isTA)).currentTemplate = some s.doc.templates.length := by
            simp only [step, hf, BState.addTemplate, BState.addSymbol, BState.newFrame, BState.pushFrame]; split <;> rfl
          have hT'' : (step s (.procBegin n isTA)).doc.templates[t]? = some T' := by simp only [step]; exact hT'
          rw [hts] at hT''
          rcases append_one_split hT'' with ⟨_, ho⟩ | ⟨hi, hx⟩
          · rcases h t T' ho hta hdy with h4 | ⟨h4, _⟩
            · exact Or.inl h4
            · cases h4
          · subst hx
            right
            simp [mkTempl] at hta
            exact ⟨hta, by rw [hi]; exact hcur⟩

theorem InitInv_init : InitInv BState.init false := by
  intro t T hT; simp [BState.init] at hT

end UtapModel.Builder
