// C01, tie C of the effect table: TraceBuilder logs every ParserBuilder callback the real parser / XML reader makes,
// with the sizes of the builder stacks before and after the call of the *real* DocumentBuilder method (also when a
// TypeException leaves the method; CALL catches it one level up).  No repository change is needed: protected members are
// visible to a subclass; TypeFragments has no size(), but it is a standard-layout class whose only member is the vector.
//
// stdin : one op per line   `<mode> <newxta> <base64 input>`   mode = xml | xta | prop | part:<n>
// stdout: `OP <index>` , then one line per top-level callback
//            `C <name> <arity> <a0> .. | <outcome> F T R S  F' T' R' S'`   (outcome 0 ok, 1 TypeException, 2 other exception)
//         then `END <result>`  (result: rc of the parse, or EXC:<class>, or DIED:<status> when the forked child crashed)
#include "common.hpp"
#include "libparser.h"

#include <sys/wait.h>
#include <unistd.h>
#include <typeinfo>

using namespace UTAP;

static const long NOARG = -987654321;

class TraceBuilder : public DocumentBuilder
{
    int depth = 0;
    std::string cur;
    size_t b[4];

    size_t tsize()
    {
        // TypeFragments { std::vector<type_t> data; } : pointer-interconvertible with its first (only) member
        return reinterpret_cast<std::vector<type_t>&>(typeFragments).size();
    }
    void sizes(size_t* o)
    {
        o[0] = fragments.size();
        o[1] = tsize();
        o[2] = frames.size();
        o[3] = fields.size();
    }
    void pre(const char* name, int arity, long* av)
    {
        if (depth++ > 0) return;
        std::ostringstream os;
        os << "C " << name << " " << arity;
        for (int i = 0; i < arity; ++i) {
            if (av[i] == NOARG) os << " _";
            else os << " " << av[i];
        }
        cur = os.str();
        sizes(b);
        std::cout << cur << " | ";   // completed by post(); a crash inside the callback leaves the line truncated
    }
    void post(int outcome)
    {
        if (--depth > 0) return;
        size_t a[4];
        sizes(a);
        std::cout << outcome << " " << b[0] << " " << b[1] << " " << b[2] << " " << b[3] << " " << a[0] << " "
                  << a[1] << " " << a[2] << " " << a[3] << "\n";
    }

public:
    explicit TraceBuilder(Document& d): DocumentBuilder{d} {}
#include "c01_trace_gen.inc"
};

static std::string b64dec(const std::string& in)
{
    static int T[256];
    static bool init = false;
    if (!init) {
        for (int i = 0; i < 256; ++i) T[i] = -1;
        const char* cs = "ABCDEFGHIJKLMNOPQRSTUVWXYZabcdefghijklmnopqrstuvwxyz0123456789+/";
        for (int i = 0; i < 64; ++i) T[(unsigned char)cs[i]] = i;
        init = true;
    }
    std::string out;
    unsigned val = 0;
    int bits = -8;
    for (unsigned char c : in) {
        if (T[c] < 0) continue;
        val = ((val << 6) + (unsigned)T[c]) & 0xFFFFFFu;
        bits += 6;
        if (bits >= 0) {
            out.push_back(char((val >> bits) & 0xFF));
            bits -= 8;
        }
    }
    return out;
}

static void runOp(const std::string& mode, bool newxta, const std::string& input)
{
    Document doc;
    TraceBuilder tb(doc);
    try {
        int rc = 0;
        if (mode == "xml") rc = parse_XML_buffer(input.c_str(), &tb, newxta);
        else if (mode == "xta") rc = parse_XTA(input.c_str(), &tb, newxta);
        else if (mode == "prop") rc = parseProperty(input.c_str(), &tb);
        else if (mode.rfind("part:", 0) == 0) rc = parse_XTA(input.c_str(), &tb, newxta, (xta_part_t)std::stoi(mode.substr(5)), "");
        else {
            std::cout << "END bad-mode\n";
            return;
        }
        std::cout << "END rc=" << rc << " errors=" << doc.get_errors().size() << "\n";
    } catch (std::exception& ex) {
        std::cout << "END EXC:" << typeid(ex).name() << "\n";
    }
}

int main(int argc, char** argv)
{
    std::string line;
    long idx = 0;
    bool nofork = argc > 1 && std::string(argv[1]) == "nofork";
    while (std::getline(std::cin, line)) {
        std::istringstream is(line);
        std::string mode, b64;
        int nx = 1;
        is >> mode >> nx >> b64;
        std::cout << "OP " << idx++ << "\n";
        std::cout.flush();
        std::string input = b64dec(b64);
        if (nofork) {
            runOp(mode, nx != 0, input);
            continue;
        }
        pid_t pid = fork();
        if (pid == 0) {
            alarm(20);
            std::cout.setf(std::ios::unitbuf);
            runOp(mode, nx != 0, input);
            std::cout.flush();
            _exit(0);
        }
        int status = 0;
        waitpid(pid, &status, 0);
        if (!(WIFEXITED(status) && WEXITSTATUS(status) == 0)) std::cout << "END DIED:" << status << "\n";
        std::cout.flush();
    }
    return 0;
}
