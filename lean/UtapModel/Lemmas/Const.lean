/-
Helper lemmas for property C12 (the property theorems themselves are in `Props/C12.lean`).

Facts about the *generated* tables are proved by exhaustive case analysis over `Kind` (a complete finite check, re-done
whenever `Gen/ConstGen.lean` changes); everything about types and expressions is by structural induction (no bound).
-/
import UtapModel.Model.Const

namespace UtapModel.Const
open UtapModel UtapModel.ConstGen

/-! ### facts about the generated tables (finite, complete) -/

theorem mutClause_ne_retTrue : ∀ k, mutClause k ≠ .retTrue := by
  intro k; cases k <;> decide

theorem mutClause_CONSTANT : mutClause .kCONSTANT = .retFalse := by decide

theorem mutClause_RECORD : mutClause .kRECORD = .allChildren := by decide

theorem mutClause_wrapper : ∀ k, wrapperKinds.contains k = true →
    mutClause k = .retFalse ∨ mutClause k = .child0 true := by
  intro k; cases k <;> decide

theorem mutClause_through : ∀ k, isLookThrough k = true →
    mutClause k = .retFalse ∨ mutClause k = .child0 true := by
  intro k; cases k <;> decide

theorem isExact_not_CONSTANT : ∀ k, isExactKind k = true → (k == Kind.kCONSTANT) = false := by
  intro k; cases k <;> decide

theorem mutClause_good : ∀ k, nonMutableKinds.contains k = false →
    mutClause k = .allChildren ∨ mutClause k = .child0 true := by
  intro k; cases k <;> decide

theorem getSubFieldClause_RECORD : getSubFieldClause .kRECORD = .direct := by decide

theorem getSubFieldClause_qual : ∀ k, (k == Kind.kRECORD) = false →
    (k == .kREF || k == .kLABEL || wrapperKinds.contains k && k != .kARRAY && k != .kRANGE) = true →
    getSubFieldClause k = .skip ∨ getSubFieldClause k = .rewrap := by
  intro k; cases k <;> decide

theorem writeGuard_writeKinds : ∀ k, isWriteKind k = true → writeGuard k = true := by
  intro k; cases k <;> decide

theorem binderForcedConst_all : ∀ s, binderForcedConst s = true := by
  intro s; cases s <;> decide

theorem unknown_mutable : Ty.unknown.isMutable = true := by decide

/-! ### `is_mutable` and the children -/

theorem allMutable_get : ∀ (cs : Children) (i : Nat), cs.allMutable = true → (cs.get i).isMutable = true
  | .nil, _, _ => unknown_mutable
  | .cons _ t r, 0, h => by
    simp only [Children.allMutable, Bool.and_eq_true] at h
    simpa [Children.get] using h.1
  | .cons _ t r, i + 1, h => by
    simp only [Children.allMutable, Bool.and_eq_true] at h
    simpa [Children.get] using allMutable_get r i h.2

/-- a mutable type has a mutable first child -/
theorem mutable_child0 (k : Kind) (l : String) (t : Ty) (r : Children)
    (h : (Ty.mk k (.cons l t r)).isMutable = true) : t.isMutable = true := by
  rw [Ty.isMutable] at h
  have hne := mutClause_ne_retTrue k
  cases hc : mutClause k with
  | retFalse => simp [hc] at h
  | retTrue => exact absurd hc hne
  | allChildren =>
    simp only [hc, Children.allMutable, Bool.and_eq_true] at h
    exact h.1
  | child0 d => simpa [hc, Children.mutable0] using h

/-- re-applying the node's own kind as a prefix to a mutable type keeps it mutable when the node itself was mutable -/
theorem mutable_rewrap (k : Kind) (cs : Children) (x : Ty) (h : (Ty.mk k cs).isMutable = true) (hx : x.isMutable = true) :
    (x.createPrefix k).isMutable = true := by
  rw [Ty.isMutable] at h
  rw [Ty.createPrefix, Ty.isMutable]
  have hne := mutClause_ne_retTrue k
  cases hc : mutClause k with
  | retFalse => simp [hc] at h
  | retTrue => exact absurd hc hne
  | allChildren => simp [Children.allMutable, hx]
  | child0 d => simp [Children.mutable0, hx]

/-- `get_sub()` of a mutable type is mutable: constness can only be gained, never lost, on the way to an element -/
theorem mutable_getSub : ∀ t : Ty, t.isMutable = true → t.getSub.isMutable = true
  | .mk k .nil, h => by
    rw [Ty.getSub]
    cases getSubClause k with
    | skip => simpa [Children.sub0] using unknown_mutable
    | rewrap => exact mutable_rewrap k .nil _ h (by simpa [Children.sub0] using unknown_mutable)
    | direct => simpa [Children.get0, Children.get] using unknown_mutable
  | .mk k (.cons l t r), h => by
    have ht := mutable_child0 k l t r h
    have ih := mutable_getSub t ht
    rw [Ty.getSub]
    cases getSubClause k with
    | skip => simpa [Children.sub0] using ih
    | rewrap => exact mutable_rewrap k _ _ h (by simpa [Children.sub0] using ih)
    | direct => simpa [Children.get0, Children.get] using ht

/-- `get_sub(i)` of a mutable record type is mutable -/
theorem mutable_getSubField : ∀ (t : Ty) (i : Nat), t.recordShape = true → t.isMutable = true →
    (t.getSubField i).isMutable = true
  | .mk k .nil, i, hs, h => by
    rw [Ty.getSubField]
    cases getSubFieldClause k with
    | skip => simpa [Children.subField0] using unknown_mutable
    | rewrap => exact mutable_rewrap k .nil _ h (by simpa [Children.subField0] using unknown_mutable)
    | direct => simpa [Children.get] using unknown_mutable
  | .mk k (.cons l t r), i, hs, h => by
    rw [Ty.recordShape] at hs
    by_cases hk : (k == Kind.kRECORD) = true
    · have hk' : k = .kRECORD := by simpa using hk
      subst hk'
      rw [Ty.getSubField, getSubFieldClause_RECORD]
      rw [Ty.isMutable, mutClause_RECORD] at h
      exact allMutable_get _ i h
    · have hk' : (k == Kind.kRECORD) = false := by simpa using hk
      simp only [hk', Bool.false_eq_true, if_false] at hs
      split at hs
      · rename_i hq
        have ht := mutable_child0 k l t r h
        have hts : t.recordShape = true := by simpa [Children.recordShape0] using hs
        have ih := mutable_getSubField t i hts ht
        rw [Ty.getSubField]
        rcases getSubFieldClause_qual k hk' hq with hc | hc
        · simpa [hc, Children.subField0] using ih
        · rw [hc]; exact mutable_rewrap k _ _ h (by simpa [Children.subField0] using ih)
      · simp at hs

/-! ### declared const ⇒ not mutable -/

theorem constDeclared_not_mutable : ∀ t : Ty, t.constDeclared = true → t.isMutable = false
  | .mk k .nil, h => by
    rw [Ty.constDeclared] at h
    simp only [Children.constDeclared0, Bool.and_false, Bool.or_false] at h
    have : k = .kCONSTANT := by simpa using h
    subst this
    rw [Ty.isMutable, mutClause_CONSTANT]
  | .mk k (.cons l t r), h => by
    rw [Ty.constDeclared] at h
    by_cases hk : (k == Kind.kCONSTANT) = true
    · have : k = .kCONSTANT := by simpa using hk
      subst this
      rw [Ty.isMutable, mutClause_CONSTANT]
    · have hk' : (k == Kind.kCONSTANT) = false := by simpa using hk
      simp only [hk', Bool.false_or, Bool.and_eq_true, Children.constDeclared0] at h
      have ih := constDeclared_not_mutable t h.2
      rw [Ty.isMutable]
      rcases mutClause_wrapper k h.1 with hc | hc
      · simp [hc]
      · simp [hc, Children.mutable0, ih]

/-- `type.is(CONSTANT)` ⇒ not mutable (what the binder callbacks rely on when they do not add the prefix) -/
theorem isCONSTANT_not_mutable : ∀ t : Ty, t.is .kCONSTANT = true → t.isMutable = false
  | .mk k .nil, h => by
    rw [Ty.is] at h
    split at h
    · rename_i he
      rw [isExact_not_CONSTANT k he] at h; simp at h
    · simp only [Children.is0, Bool.and_false, Bool.or_false] at h
      have : k = .kCONSTANT := by simpa using h
      subst this
      rw [Ty.isMutable, mutClause_CONSTANT]
  | .mk k (.cons l t r), h => by
    rw [Ty.is] at h
    split at h
    · rename_i he
      rw [isExact_not_CONSTANT k he] at h; simp at h
    · by_cases hk : (k == Kind.kCONSTANT) = true
      · have : k = .kCONSTANT := by simpa using hk
        subst this
        rw [Ty.isMutable, mutClause_CONSTANT]
      · have hk' : (k == Kind.kCONSTANT) = false := by simpa using hk
        simp only [hk', Bool.false_or, Bool.and_eq_true, Children.is0] at h
        have ih := isCONSTANT_not_mutable t h.2
        rw [Ty.isMutable]
        rcases mutClause_through k h.1 with hc | hc
        · simp [hc]
        · simp [hc, Children.mutable0, ih]

/-! ### clean ⇒ mutable -/

mutual
  theorem noneOf_mutable : ∀ t : Ty, t.noneOf nonMutableKinds = true → t.isMutable = true
    | .mk k cs, h => by
      rw [Ty.noneOf] at h
      simp only [Bool.and_eq_true, Bool.not_eq_true'] at h
      rw [Ty.isMutable]
      rcases mutClause_good k h.1 with hc | hc
      · simpa [hc] using noneOf_allMutable cs h.2
      · rw [hc]
        cases cs with
        | nil => simp [Children.mutable0]
        | cons l t r =>
          simp only [Children.noneOf, Bool.and_eq_true] at h
          simpa [Children.mutable0] using noneOf_mutable t h.2.1
  theorem noneOf_allMutable : ∀ cs : Children, cs.noneOf nonMutableKinds = true → cs.allMutable = true
    | .nil, _ => by simp [Children.allMutable]
    | .cons l t r, h => by
      simp only [Children.noneOf, Bool.and_eq_true] at h
      simp [Children.allMutable, noneOf_mutable t h.1, noneOf_allMutable r h.2]
end

/-- per kind: the `isModifiableLValue` clause implies the `isLValue` clause (finite check over all kinds) -/
theorem applyClause_mod_lv (k : Kind) (tm sp r0 r1 r2 ctc eq r0' r1' r2' : Bool)
    (h0 : r0 = true → r0' = true) (h1 : r1 = true → r1' = true) (h2 : r2 = true → r2' = true)
    (h : applyClause (modLvClause k) tm sp r0 r1 r2 ctc eq = true) :
    applyClause (lvClause k) tm sp r0' r1' r2' ctc eq = true := by
  cases k <;> simp only [modLvClause, lvClause, applyClause] at h ⊢ <;>
    first
    | rfl
    | exact absurd h (by decide)
    | (revert h h0 h1 h2
       cases sp <;> cases r0 <;> cases r0' <;> cases r1 <;> cases r1' <;> cases r2 <;> cases r2' <;> cases eq <;> decide)

/-! ### constness survives `get_sub()` / `get_sub(i)` (the prefix re-wrapping of type.cpp) -/

theorem getSubClause_CONSTANT : getSubClause .kCONSTANT = .rewrap := by decide
theorem getSubFieldClause_CONSTANT : getSubFieldClause .kCONSTANT = .rewrap := by decide

/-- the element type of a type declared const is declared const -/
theorem constDeclared_getSub : ∀ t : Ty, t.constDeclared = true → t.getSub.constDeclared = true
  | .mk k .nil, h => by
    rw [Ty.constDeclared] at h
    simp only [Children.constDeclared0, Bool.and_false, Bool.or_false] at h
    have : k = .kCONSTANT := by simpa using h
    subst this
    rw [Ty.getSub, getSubClause_CONSTANT]
    simp [Ty.createPrefix, Ty.constDeclared]
  | .mk k (.cons l t r), h => by
    rw [Ty.constDeclared] at h
    by_cases hk : (k == Kind.kCONSTANT) = true
    · have : k = .kCONSTANT := by simpa using hk
      subst this
      rw [Ty.getSub, getSubClause_CONSTANT]
      simp [Ty.createPrefix, Ty.constDeclared]
    · have hk' : (k == Kind.kCONSTANT) = false := by simpa using hk
      simp only [hk', Bool.false_or, Bool.and_eq_true, Children.constDeclared0] at h
      have ih := constDeclared_getSub t h.2
      rw [Ty.getSub]
      cases getSubClause k with
      | skip => simpa [Children.sub0] using ih
      | rewrap =>
        simp only [Ty.createPrefix, Ty.constDeclared, Children.constDeclared0, Children.sub0, ih, h.1, Bool.and_self,
          Bool.or_true]
      | direct => simpa [Children.get0, Children.get] using h.2

/-- the type of a field of a record type declared const is declared const -/
theorem constDeclared_getSubField : ∀ (t : Ty) (i : Nat), t.recordShape = true → t.constDeclared = true →
    (t.getSubField i).constDeclared = true
  | .mk k .nil, i, _, h => by
    rw [Ty.constDeclared] at h
    simp only [Children.constDeclared0, Bool.and_false, Bool.or_false] at h
    have : k = .kCONSTANT := by simpa using h
    subst this
    rw [Ty.getSubField, getSubFieldClause_CONSTANT]
    simp [Ty.createPrefix, Ty.constDeclared]
  | .mk k (.cons l t r), i, hs, h => by
    rw [Ty.constDeclared] at h
    by_cases hk : (k == Kind.kCONSTANT) = true
    · have : k = .kCONSTANT := by simpa using hk
      subst this
      rw [Ty.getSubField, getSubFieldClause_CONSTANT]
      simp [Ty.createPrefix, Ty.constDeclared]
    · have hk' : (k == Kind.kCONSTANT) = false := by simpa using hk
      simp only [hk', Bool.false_or, Bool.and_eq_true, Children.constDeclared0] at h
      rw [Ty.recordShape] at hs
      by_cases hr : (k == Kind.kRECORD) = true
      · have : k = .kRECORD := by simpa using hr
        subst this
        exact absurd h.1 (by decide)
      · have hr' : (k == Kind.kRECORD) = false := by simpa using hr
        simp only [hr', Bool.false_eq_true, if_false] at hs
        split at hs
        · rename_i hq
          have hts : t.recordShape = true := by simpa [Children.recordShape0] using hs
          have ih := constDeclared_getSubField t i hts h.2
          rw [Ty.getSubField]
          rcases getSubFieldClause_qual k hr' hq with hc | hc
          · simpa [hc, Children.subField0] using ih
          · simp only [hc, Ty.createPrefix, Ty.constDeclared, Children.constDeclared0, Children.subField0, ih, h.1,
              Bool.and_self, Bool.or_true]
        · simp at hs

end UtapModel.Const
