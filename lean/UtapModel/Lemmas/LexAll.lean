/- `lexAll`: every lexeme comes from a rule of the table with that rule's longest match; with a faithful table all
   lexemes except string literals are honest; with a covering table the whole text is consumed. -/
import UtapModel.Lemmas.LexRulesFaithful

namespace UtapModel.LexLines
open UtapModel.Pos

/-- the step function of `bestRule` -/
def bestStep (mode : Mode) (t : List Char) (best : Option (Rule × Nat)) (r : Rule) : Option (Rule × Nat) :=
  if r.mode == mode then
    let n := matchLen r.pat t
    match best with
    | none => if n > 0 then some (r, n) else none
    | some (_, m) => if n > m then some (r, n) else best
  else best

theorem bestRule_eq (rules : List Rule) (mode : Mode) (t : List Char) :
    bestRule rules mode t = rules.foldl (bestStep mode t) none := rfl

def GoodBest (rules : List Rule) (mode : Mode) (t : List Char) (b : Option (Rule × Nat)) : Prop :=
  ∀ r n, b = some (r, n) → r ∈ rules ∧ r.mode = mode ∧ n = matchLen r.pat t ∧ 0 < n

theorem bestStep_good (rules : List Rule) (mode : Mode) (t : List Char) (b : Option (Rule × Nat)) (r : Rule)
    (hr : r ∈ rules) (hb : GoodBest rules mode t b) : GoodBest rules mode t (bestStep mode t b r) := by
  unfold bestStep
  by_cases hm : (r.mode == mode) = true
  · simp only [hm, ↓reduceIte]
    have hmode : r.mode = mode := by simpa using hm
    cases b with
    | none =>
      simp only
      by_cases hn : matchLen r.pat t > 0
      · simp only [hn, ↓reduceIte]
        intro r' n' h
        simp only [Option.some.injEq, Prod.mk.injEq] at h
        obtain ⟨rfl, rfl⟩ := h
        exact ⟨hr, hmode, rfl, hn⟩
      · simp only [hn, ↓reduceIte]
        intro r' n' h; simp at h
    | some p =>
      obtain ⟨r0, m⟩ := p
      simp only
      by_cases hn : matchLen r.pat t > m
      · simp only [hn, ↓reduceIte]
        intro r' n' h
        simp only [Option.some.injEq, Prod.mk.injEq] at h
        obtain ⟨rfl, rfl⟩ := h
        exact ⟨hr, hmode, rfl, by omega⟩
      · simp only [hn, ↓reduceIte]
        exact hb
  · simp only [hm]
    exact hb

theorem foldl_good (rules : List Rule) (mode : Mode) (t : List Char) : ∀ (l : List Rule) (b : Option (Rule × Nat)),
    (∀ r ∈ l, r ∈ rules) → GoodBest rules mode t b → GoodBest rules mode t (l.foldl (bestStep mode t) b) := by
  intro l
  induction l with
  | nil => intro b _ hb; exact hb
  | cons r rest ih =>
    intro b hl hb
    simp only [List.foldl_cons]
    exact ih _ (fun r' hr' => hl r' (by simp [hr'])) (bestStep_good rules mode t b r (hl r (by simp)) hb)

theorem bestRule_spec (rules : List Rule) (mode : Mode) (t : List Char) (r : Rule) (n : Nat)
    (h : bestRule rules mode t = some (r, n)) : r ∈ rules ∧ r.mode = mode ∧ n = matchLen r.pat t ∧ 0 < n := by
  rw [bestRule_eq] at h
  exact foldl_good rules mode t rules none (fun _ hr => hr) (by intro r n h; simp at h) r n h

theorem foldl_some_stays (mode : Mode) (t : List Char) : ∀ (l : List Rule) (b : Option (Rule × Nat)),
    b ≠ none → l.foldl (bestStep mode t) b ≠ none := by
  intro l
  induction l with
  | nil => intro b hb; exact hb
  | cons r rest ih =>
    intro b hb
    simp only [List.foldl_cons]
    apply ih
    unfold bestStep
    cases b with
    | none => exact absurd rfl hb
    | some p =>
      obtain ⟨r0, m⟩ := p
      by_cases hm : (r.mode == mode) = true
      · simp only [hm, ↓reduceIte]
        by_cases hn : matchLen r.pat t > m <;> simp [hn]
      · simp [hm]

theorem foldl_finds (mode : Mode) (t : List Char) : ∀ (l : List Rule) (b : Option (Rule × Nat)),
    (∃ r ∈ l, r.mode = mode ∧ 0 < matchLen r.pat t) → l.foldl (bestStep mode t) b ≠ none := by
  intro l
  induction l with
  | nil => intro b h; obtain ⟨r, hr, _⟩ := h; simp at hr
  | cons r0 rest ih =>
    intro b h
    simp only [List.foldl_cons]
    obtain ⟨r, hr, hm, hn⟩ := h
    rcases List.mem_cons.mp hr with rfl | hr'
    · apply foldl_some_stays
      unfold bestStep
      have : (r.mode == mode) = true := by simpa using hm
      simp only [this, ↓reduceIte]
      cases b with
      | none => simp [hn]
      | some p =>
        obtain ⟨r1, m⟩ := p
        by_cases hgt : matchLen r.pat t > m <;> simp [hgt]
    · exact ih _ ⟨r, hr', hm, hn⟩

/-- every start condition has a rule for any character: `.` for everything but '\n', and a newline rule -/
def Covering (rules : List Rule) : Bool :=
  [Mode.initial, Mode.comment].all fun m =>
    rules.any (fun r => r.mode == m && r.pat == .any) &&
    rules.any (fun r => r.mode == m && (r.pat == .nls || r.pat == .nl1))

theorem covering_match (rules : List Rule) (hc : Covering rules = true) (mode : Mode) (c : Char) (cs : List Char) :
    ∃ r ∈ rules, r.mode = mode ∧ 0 < matchLen r.pat (c :: cs) := by
  have hm : (rules.any (fun r => r.mode == mode && r.pat == .any) &&
      rules.any (fun r => r.mode == mode && (r.pat == .nls || r.pat == .nl1))) = true := by
    simp only [Covering, List.all_cons, List.all_nil, Bool.and_true, Bool.and_eq_true] at hc
    cases mode with
    | initial => simpa using hc.1
    | comment => simpa using hc.2
  simp only [Bool.and_eq_true, List.any_eq_true, beq_iff_eq] at hm
  obtain ⟨⟨ra, hra, hma, hpa⟩, ⟨rn, hrn, hmn, hpn⟩⟩ := hm
  by_cases hnl : c = '\n'
  · subst hnl
    refine ⟨rn, hrn, hmn, ?_⟩
    rcases Bool.or_eq_true _ _ |>.mp hpn with h | h
    · have : rn.pat = .nls := by simpa using h
      rw [this]; simp [matchLen, spanLen]
    · have : rn.pat = .nl1 := by simpa using h
      rw [this]; simp [matchLen, nl1Len]
  · refine ⟨ra, hra, hma, ?_⟩
    rw [hpa]
    have : (c != '\n') = true := by simpa using hnl
    simp [matchLen, anyLen, this]

/-- what is known about each lexeme of `lexAll` -/
theorem lexAllF_lexemes (rules : List Rule) : ∀ (fuel : Nat) (mode : Mode) (t : List Char), ∀ lx ∈ (lexAllF rules fuel mode t).1,
    lx.rule ∈ rules ∧ ∃ t', 0 < matchLen lx.rule.pat t' ∧ lx.chars = t'.take (matchLen lx.rule.pat t') ∧
      lx.nl = nlValue lx.rule.nl (matchLen lx.rule.pat t') := by
  intro fuel
  induction fuel with
  | zero => intro mode t lx hlx; simp [lexAllF] at hlx
  | succ fuel ih =>
    intro mode t lx hlx
    cases t with
    | nil =>
      simp only [lexAllF] at hlx
      split at hlx <;> simp at hlx
    | cons c cs =>
      simp only [lexAllF] at hlx
      cases hbest : bestRule rules mode (c :: cs) with
      | none => simp [hbest] at hlx
      | some p =>
        obtain ⟨r, n⟩ := p
        simp only [hbest] at hlx
        obtain ⟨hr, _, hnn, hpos⟩ := bestRule_spec rules mode (c :: cs) r n hbest
        have hn : ¬ n = 0 := by omega
        simp only [hn, ↓reduceIte, List.mem_cons] at hlx
        rcases hlx with rfl | hlx
        · exact ⟨hr, c :: cs, by rw [← hnn]; exact hpos, by rw [← hnn], by rw [← hnn]⟩
        · exact ih _ _ lx hlx

theorem lexAll_lexemes (rules : List Rule) (mode : Mode) (t : List Char) : ∀ lx ∈ (lexAll rules mode t).1,
    lx.rule ∈ rules ∧ ∃ t', 0 < matchLen lx.rule.pat t' ∧ lx.chars = t'.take (matchLen lx.rule.pat t') ∧
      lx.nl = nlValue lx.rule.nl (matchLen lx.rule.pat t') :=
  lexAllF_lexemes rules _ mode t

theorem lexAll_honest (rules : List Rule) (hf : Faithful rules = true) (mode : Mode) (t : List Char) :
    ∀ lx ∈ (lexAll rules mode t).1, lx.rule.pat ≠ .str → Honest lx := by
  intro lx hlx hstr
  obtain ⟨hr, t', hpos, hchars, hnl⟩ := lexAll_lexemes rules mode t lx hlx
  have hok : lx.rule.pat.nlOK lx.rule.nl = true := by
    simp only [Faithful, List.all_eq_true] at hf
    exact hf lx.rule hr
  have := honest_of_rule lx.rule hok hstr t' hpos
  unfold Honest at this ⊢
  simp only at this
  rw [hchars, hnl]
  exact this

/-- with a covering table the scanner never jams: the lexemes are a segmentation of the whole text -/
theorem lexAllF_complete (rules : List Rule) (hc : Covering rules = true) : ∀ (fuel : Nat) (mode : Mode) (t : List Char),
    t.length < fuel → flat (lexAllF rules fuel mode t).1 = t := by
  intro fuel
  induction fuel with
  | zero => intro mode t h; omega
  | succ fuel ih =>
    intro mode t hlen
    cases t with
    | nil =>
      simp only [lexAllF]
      split <;> simp [flat]
    | cons c cs =>
      simp only [lexAllF]
      cases hbest : bestRule rules mode (c :: cs) with
      | none =>
        exfalso
        rw [bestRule_eq] at hbest
        exact foldl_finds mode (c :: cs) rules none (covering_match rules hc mode c cs) hbest
      | some p =>
        obtain ⟨r, n⟩ := p
        obtain ⟨_, _, _, hpos⟩ := bestRule_spec rules mode (c :: cs) r n hbest
        have hn : ¬ n = 0 := by omega
        simp only [hn, ↓reduceIte, flat_cons]
        rw [ih]
        · exact List.take_append_drop n (c :: cs)
        · simp only [List.length_drop, List.length_cons] at hlen ⊢; omega

theorem lexAll_complete (rules : List Rule) (hc : Covering rules = true) (mode : Mode) (t : List Char) :
    flat (lexAll rules mode t).1 = t :=
  lexAllF_complete rules hc _ mode t (Nat.lt_succ_self _)

end UtapModel.LexLines
